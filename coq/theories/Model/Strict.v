(* Model/Strict.v — execution/strict.rs, function by function.  Definitions only. *)
From TSG Require Export Model.Exec.

Record sstate := {
  s_graph : graph;
  s_locals : varmap value;                  (* head = innermost block *)
  s_scoped : list (N * vframe value);       (* ScopedVariables.scopes *)
  s_params : list value;                    (* function_parameters buffer *)
}.

(* per-block read-only context of ExecutionContext *)
Record lenv := {
  le_match : qmatch;
  le_full : N;                              (* full_match_stanza_capture_index *)
  le_caps : list str;                       (* current_regex_captures *)
  le_ctx : stmt_ctx;                        (* error_context *)
}.
Definition le_with_ctx (le : lenv) (c : stmt_ctx) : lenv :=
  {| le_match := le_match le; le_full := le_full le; le_caps := le_caps le; le_ctx := c |}.
Definition le_with_caps (le : lenv) (caps : list str) : lenv :=
  {| le_match := le_match le; le_full := le_full le; le_caps := caps; le_ctx := le_ctx le |}.
Definition ctx_update (c : stmt_ctx) (s : stmt) : stmt_ctx :=
  {| sc_stmt := stmt_loc s; sc_stanza := sc_stanza c; sc_node := sc_node c |}.

Inductive target := TNode (n : N) | TEdge (src snk : N).

Section Strict.
  Context {rx : Type}.
  Variable t : tree.
  Variable fl : file.
  Variable cfg : config.
  Variable glob : globals.                  (* effective globals (after check_globals) *)
  Variable regexes : list rx.
  Variable find : rx -> str -> option (list (option (N * N))).
  Variable call : ident -> graph -> list value -> res (value * graph).

  Notation SM := (M sstate).

  (* ---- primitives: the only functions that touch the state ---- *)
  Definition set_graph (g : graph) : SM unit :=
    modify (fun s => {| s_graph := g; s_locals := s_locals s; s_scoped := s_scoped s; s_params := s_params s |}).
  Definition set_locals (l : varmap value) : SM unit :=
    modify (fun s => {| s_graph := s_graph s; s_locals := l; s_scoped := s_scoped s; s_params := s_params s |}).
  Definition set_scoped (sc : list (N * vframe value)) : SM unit :=
    modify (fun s => {| s_graph := s_graph s; s_locals := s_locals s; s_scoped := sc; s_params := s_params s |}).
  Definition set_params (p : list value) : SM unit :=
    modify (fun s => {| s_graph := s_graph s; s_locals := s_locals s; s_scoped := s_scoped s; s_params := p |}).

  Definition add_node : SM N :=
    s <- get_state ;; let '(g', n) := add_graph_node (s_graph s) in set_graph g' ;;; ret n.

  (* Attributes::add on a node / on an existing edge *)
  Definition add_attr (tgt : target) (k : ident) (v : value) : SM unit :=
    s <- get_state ;;
    match tgt with
    | TNode n =>
        match gnode_at (s_graph s) n with
        | None => panic P_graph_index
        | Some nd => let '(m', c) := attrs_add (g_attrs nd) k v in
                     match c with
                     | Some _ => fail EDuplicateAttribute
                     | None => set_graph (graph_update (s_graph s) n (with_attrs m'))
                     end
        end
    | TEdge a b =>
        match gnode_at (s_graph s) a with
        | None => panic P_graph_index
        | Some nd =>
            match edges_get b (g_edges nd) with
            | None => fail EUndefinedEdge
            | Some m => let '(m', c) := attrs_add m k v in
                        match c with
                        | Some _ => fail EDuplicateAttribute
                        | None => set_graph (graph_update (s_graph s) a (with_edges (edges_set b m' (g_edges nd))))
                        end
            end
        end
    end.

  (* graph[source].add_edge(sink): returns whether the edge is new *)
  Definition add_edge (a b : N) : SM bool :=
    s <- get_state ;;
    match graph_add_edge (s_graph s) a b with
    | None => panic P_graph_index
    | Some (g', isnew) => set_graph g' ;;; ret isnew
    end.

  Definition push_frame : SM unit := s <- get_state ;; set_locals ([] :: s_locals s).
  Definition pop_frame : SM unit :=
    s <- get_state ;; match s_locals s with _ :: up => set_locals up | [] => panic P_locals_empty end.
  Definition clear_frame : SM unit := s <- get_state ;; set_locals (varmap_clear (s_locals s)).

  Definition push_param (v : value) : SM unit := s <- get_state ;; set_params (s_params s ++ [v]).
  (* function_parameters.drain(len - n ..) *)
  Definition drain_params (n : nat) : SM (list value) :=
    s <- get_state ;;
    let len := length (s_params s) in
    if Nat.ltb len n then panic P_params_underflow
    else set_params (firstn (len - n) (s_params s)) ;;; ret (skipn (len - n) (s_params s)).

  Definition call_function (f : ident) (args : list value) : SM value :=
    s <- get_state ;;
    match call f (s_graph s) args with
    | Ok (v, g') => set_graph g' ;;; ret v
    | Err e => fail e
    | Panic p => panic p
    | OutOfFuel => out_of_fuel
    end.

  (* ---- unscoped variables: globals first, then locals ---- *)
  Definition unscoped_get (name : ident) : SM value :=
    match globals_get glob name with
    | Some v => ret v
    | None => s <- get_state ;;
              match varmap_get (s_locals s) name with Some v => ret v | None => fail EUndefinedVariable end
    end.
  Definition unscoped_add (name : ident) (v : value) (mutable : bool) : SM unit :=
    match globals_get glob name with
    | Some _ => fail EDuplicateVariable
    | None => s <- get_state ;;
              match varmap_add (s_locals s) name v mutable with
              | inl l' => set_locals l'
              | inr _ => fail EDuplicateVariable
              end
    end.
  Definition unscoped_set (name : ident) (v : value) : SM unit :=
    match globals_get glob name with
    | Some _ => fail ECannotAssignImmutableVariable
    | None => s <- get_state ;;
              match varmap_set (s_locals s) name v with
              | inl l' => set_locals l'
              | inr _ => match varmap_get (s_locals s) name with
                         | Some _ => fail ECannotAssignImmutableVariable
                         | None => fail EUndefinedVariable
                         end
              end
    end.

  (* ---- scoped variables: per syntax node maps ---- *)
  Fixpoint scopes_get (sc : list (N * vframe value)) (n : N) : option (vframe value) :=
    match sc with [] => None | (m, f) :: sc' => if N.eqb n m then Some f else scopes_get sc' n end.
  Fixpoint scopes_set (sc : list (N * vframe value)) (n : N) (f : vframe value) : list (N * vframe value) :=
    match sc with
    | [] => [(n, f)]
    | (m, f') :: sc' => if N.eqb n m then (m, f) :: sc' else (m, f') :: scopes_set sc' n f
    end.
  Definition scoped_lookup (sc : list (N * vframe value)) (n : N) (name : ident) : option value :=
    match scopes_get sc n with
    | Some f => match alist_get name f with Some (v, _) => Some v | None => None end
    | None => None
    end.
  Definition inherited (name : ident) : bool := existsb (str_eqb name) (f_inherited fl).
  (* `while let Some(scope) = parent` *)
  Fixpoint ancestor_lookup (fuel : nat) (sc : list (N * vframe value)) (parent : option N) (name : ident) : option value :=
    match fuel with
    | O => None
    | S f =>
        match parent with
        | None => None
        | Some p => match scoped_lookup sc p name with
                    | Some v => Some v
                    | None => ancestor_lookup f sc (match node_at t p with Some nd => tn_parent nd | None => None end) name
                    end
        end
    end.
  Definition scoped_get_at (n : N) (name : ident) : SM value :=
    s <- get_state ;;
    match scoped_lookup (s_scoped s) n name with
    | Some v => ret v
    | None =>
        if inherited name then
          match ancestor_lookup (S (length (t_nodes t))) (s_scoped s)
                  (match node_at t n with Some nd => tn_parent nd | None => None end) name with
          | Some v => ret v
          | None => fail EUndefinedVariable
          end
        else fail EUndefinedVariable
    end.
  Definition scoped_add_at (n : N) (name : ident) (v : value) (mutable : bool) : SM unit :=
    s <- get_state ;;
    let f := match scopes_get (s_scoped s) n with Some f => f | None => [] end in
    match alist_get name f with
    | Some _ => fail EDuplicateVariable
    | None => set_scoped (scopes_set (s_scoped s) n (f ++ [(name, (v, mutable))]))
    end.
  Definition scoped_set_at (n : N) (name : ident) (v : value) : SM unit :=
    s <- get_state ;;
    let f := match scopes_get (s_scoped s) n with Some f => f | None => [] end in
    match alist_get name f with
    | Some (_, true) => set_scoped (scopes_set (s_scoped s) n (alist_set name (v, true) f))
    | _ => fail EDuplicateVariable          (* every VariableError is mapped to DuplicateVariable *)
    end.

  Definition scope_of (v : value) : SM N :=
    match v with VSyn n => ret n | _ => fail EInvalidVariableScope end.

  Definition full_match_node (le : lenv) : SM N :=
    match nodes_for_capture (le_match le) (le_full le) with
    | n :: _ => ret n
    | [] => panic P_missing_full_capture
    end.

  (* Variable::add_debug_attrs on a fresh node, CreateEdge::add_debug_attrs on a new edge *)
  Definition opt_attr (tgt : target) (name : option ident) (v : value) : SM unit :=
    match name with Some k => add_attr tgt k v | None => ret tt end.

  (* the `while i < match_string.len()` loop of Scan::execute, over the arm runner *)
  Fixpoint scan_loop (run_arm : list str -> list stmt -> SM unit) (arms : list (N * list stmt * loc)) (rs : list rx)
      (subject : str) (sfuel : nat) (i : N) {struct sfuel} : SM unit :=
    match sfuel with
    | O => out_of_fuel
    | S sfuel =>
      if N.ltb i (N.of_nat (length subject)) then
        poll L_scan ;;;
        let suffix := skipn (N.to_nat i) subject in
        match arm_select find rs suffix with
        | ASelNone => ret tt
        | ASelEmpty _ => fail EEmptyRegexCapture
        | ASelArm k caps =>
            match nth_error arms (N.to_nat k) with
            | None => panic P_regex_table
            | Some (_, body, _) =>
                push_frame ;;;
                run_arm (cap_texts suffix caps) body ;;;
                pop_frame ;;;
                scan_loop run_arm arms rs subject sfuel (i + snd (cap0 caps))
            end
        end
      else ret tt
    end.
  (* the arm loop of If::execute: all conditions of an arm are evaluated; first true arm runs *)
  Fixpoint if_loop (test : cond -> SM bool) (run_body : list stmt -> SM unit)
      (arms : list (list cond * list stmt * loc)) : SM unit :=
    match arms with
    | [] => ret tt
    | (conds, body, _) :: arms' =>
        bs <- mapM test conds ;;
        if forallb (fun b => b) bs then push_frame ;;; run_body body ;;; pop_frame
        else if_loop test run_body arms'
    end.

  (* ---- the interpreter proper: mutual recursion on fuel ---- *)
  Fixpoint eval (fuel : nat) (le : lenv) (e : expr) {struct fuel} : SM value :=
    match fuel with
    | O => out_of_fuel
    | S fuel =>
      match e with
      | EFalse => ret (VBool false)
      | ENull => ret VNull
      | ETrue => ret (VBool true)
      | EInt n => ret (VInt n)
      | EStr s => ret (VStr s)
      | EList es => vs <- mapM (eval fuel le) es ;; ret (VList vs)
      | ESet es => vs <- mapM (eval fuel le) es ;; ret (VSet (set_of_list vs))
      | EListComp elem var _ value _ =>
          lv <- eval fuel le value ;; vals <- lift (as_list lv) ;;
          push_frame ;;;
          out <- mapM (fun v => clear_frame ;;; unscoped_add var v false ;;; eval fuel le elem) vals ;;
          pop_frame ;;; ret (VList out)
      | ESetComp elem var _ value _ =>
          lv <- eval fuel le value ;; vals <- lift (as_list lv) ;;
          push_frame ;;;
          out <- mapM (fun v => clear_frame ;;; unscoped_add var v false ;;; eval fuel le elem) vals ;;
          pop_frame ;;; ret (VSet (set_of_list out))
      | ECapture _ q _ stanza_idx _ => lift (from_nodes (nodes_for_capture (le_match le) stanza_idx) q)
      | EUnscoped name _ => unscoped_get name
      | EScoped scope name _ =>
          sv <- eval fuel le scope ;; n <- scope_of sv ;; scoped_get_at n name
      | ECall f args =>
          iterM (fun a => v <- eval fuel le a ;; push_param v) args ;;;
          ps <- drain_params (length args) ;;
          call_function f ps
      | ERegexCap i =>
          match nth_error (le_caps le) (N.to_nat i) with
          | Some s => ret (VStr s)
          | None => fail EUndefinedRegexCapture
          end
      end
    end.

  Definition var_add (fuel : nat) (le : lenv) (v : variable) (x : value) (mutable : bool) : SM unit :=
    match v with
    | VarU name _ => unscoped_add name x mutable
    | VarS scope name _ => sv <- eval fuel le scope ;; n <- scope_of sv ;; scoped_add_at n name x mutable
    end.
  Definition var_set (fuel : nat) (le : lenv) (v : variable) (x : value) : SM unit :=
    match v with
    | VarU name _ => unscoped_set name x
    | VarS scope name _ => sv <- eval fuel le scope ;; n <- scope_of sv ;; scoped_set_at n name x
    end.

  Definition test_cond (fuel : nat) (le : lenv) (c : cond) : SM bool :=
    match c with
    | CSome e _ => v <- eval fuel le e ;; ret (negb (match v with VNull => true | _ => false end))
    | CNone e _ => v <- eval fuel le e ;; ret (match v with VNull => true | _ => false end)
    | CBool e _ => v <- eval fuel le e ;; lift (as_bool v)
    end.

  (* Attribute::execute / AttributeShorthand::execute *)
  Fixpoint exec_attr (fuel : nat) (le : lenv) (tgt : target) (a : attr) {struct fuel} : SM unit :=
    match fuel with
    | O => out_of_fuel
    | S fuel =>
      let '(Attr name value) := a in
      poll L_exec_attr ;;;
      v <- eval fuel le value ;;
      match find_shorthand name (f_shorthands fl) with
      | Some sh =>
          s <- get_state ;;
          let saved := s_locals s in
          set_locals [[]] ;;;                                   (* VariableMap::new(): no parent *)
          unscoped_add (sh_var sh) v false ;;;
          iterM (exec_attr fuel le tgt) (sh_attrs sh) ;;;
          set_locals saved
      | None => add_attr tgt name v
      end
    end.

  (* the compiled regexes of the arms of one scan statement *)
  Fixpoint arm_table (l : list (N * list stmt * loc)) : option (list rx) :=
    match l with
    | [] => Some []
    | arm :: l' => match nth_error regexes (N.to_nat (fst (fst arm))), arm_table l' with
                   | Some r, Some rs => Some (r :: rs)
                   | _, _ => None
                   end
    end.

  Fixpoint exec_stmt (fuel : nat) (le : lenv) (s : stmt) {struct fuel} : SM unit :=
    match fuel with
    | O => out_of_fuel
    | S fuel =>
      (* nested block: error_context cloned, update_statement per statement, with_context *)
      let block (le' : lenv) (wrap : SM unit -> SM unit) (body : list stmt) : SM unit :=
        iterM (fun st => let c := ctx_update (le_ctx le') st in
                         ctx_wrap (CtxStmts [c]) (wrap (exec_stmt fuel (le_with_ctx le' c) st))) body in
      poll L_exec_stmt ;;;
      match s with
      | SLet v e _ => x <- eval fuel le e ;; var_add fuel le v x false
      | SVar v e _ => x <- eval fuel le e ;; var_add fuel le v x true
      | SSet v e _ => x <- eval fuel le e ;; var_set fuel le v x
      | SNode v vtext _ =>
          n <- add_node ;;
          opt_attr (TNode n) (c_var_attr cfg) (VStr vtext) ;;;
          opt_attr (TNode n) (c_loc_attr cfg) (VStr (loc_text (variable_loc v))) ;;;
          match c_match_attr cfg with
          | Some k => mn <- full_match_node le ;; add_attr (TNode n) k (VSyn mn)
          | None => ret tt
          end ;;;
          var_add fuel le v (VGraph n) false
      | SAttrNode node attrs _ =>
          nv <- eval fuel le node ;; n <- lift (as_gnode nv) ;;
          iterM (exec_attr fuel le (TNode n)) attrs
      | SEdge src snk l =>
          a <- (x <- eval fuel le src ;; lift (as_gnode x)) ;;
          b <- (x <- eval fuel le snk ;; lift (as_gnode x)) ;;
          isnew <- add_edge a b ;;
          if isnew then opt_attr (TEdge a b) (c_loc_attr cfg) (VStr (loc_text l)) else ret tt
      | SAttrEdge src snk attrs _ =>
          a <- (x <- eval fuel le src ;; lift (as_gnode x)) ;;
          b <- (x <- eval fuel le snk ;; lift (as_gnode x)) ;;
          iterM (exec_attr fuel le (TEdge a b)) attrs
      | SScan value arms _ =>
          sv <- eval fuel le value ;; subject <- lift (as_str sv) ;;
          match arm_table arms with
          | None => panic P_regex_table
          | Some rs =>
              scan_loop (fun caps body => block (le_with_caps le caps) (ctx_wrap CtxOther) body)
                        arms rs subject (S (length subject)) 0
          end
      | SPrint values _ =>
          iterM (fun e => match e with EStr _ => ret tt | _ => eval fuel le e ;;; ret tt end) values
      | SIf arms _ => if_loop (test_cond fuel le) (block le (fun m => m)) arms
      | SFor var _ value body _ =>
          lv <- eval fuel le value ;; vals <- lift (as_list lv) ;;
          push_frame ;;;
          iterM (fun v => clear_frame ;;; unscoped_add var v false ;;; block le (fun m => m) body) vals ;;;
          pop_frame
      end
    end.

  (* Stanza::execute for one match *)
  Definition exec_stanza (fuel : nat) (st : stanza) (m : qmatch) : SM unit :=
    clear_frame ;;;
    iterM (fun s =>
             let le0 := {| le_match := m; le_full := st_full_stanza_idx st; le_caps := [];
                           le_ctx := {| sc_stmt := (0, 0); sc_stanza := st_start st; sc_node := 0 |} |} in
             match nodes_for_capture m (st_full_stanza_idx st) with
             | [] => panic P_missing_full_capture              (* .expect("missing full capture") *)
             | n :: _ =>
                 let c := {| sc_stmt := stmt_loc s; sc_stanza := st_start st; sc_node := n |} in
                 ctx_wrap (CtxStmts [c]) (exec_stmt fuel (le_with_ctx le0 c) s)
             end)
          (st_stmts st).

  (* File::execute_strict_into after check_globals: stanzas in file order, matches in oracle order *)
  Fixpoint exec_file (fuel : nat) (sts : list stanza) (ms : list (list qmatch)) : SM unit :=
    match sts, ms with
    | st :: sts', m :: ms' => iterM (exec_stanza fuel st) m ;;; exec_file fuel sts' ms'
    | _, _ => ret tt
    end.
End Strict.

Definition sinit (g : graph) : sstate :=
  {| s_graph := g; s_locals := [[]]; s_scoped := []; s_params := [] |}.

(* whole run: check_globals on the nested copy, then execution *)
Definition run_strict {rx : Type} (t : tree) (fl : file) (cfg : config) (supplied : globals) (budget : option N)
    (regexes : list rx) (find : rx -> str -> option (list (option (N * N))))
    (call : ident -> graph -> list value -> res (value * graph))
    (fuel : nat) (matches : list (list qmatch)) (g0 : graph) : outcome exec_error (sstate * polls) :=
  match check_globals (f_globals fl) (globals_nested supplied) with
  | Ok glob =>
      match exec_file t fl cfg glob regexes find call fuel (f_stanzas fl) matches (sinit g0) (polls0 budget) with
      | Ok (_, s, p) => Ok (s, p)
      | Err e => Err e
      | Panic p => Panic p
      | OutOfFuel => OutOfFuel
      end
  | Err e => Err e
  | Panic p => Panic p
  | OutOfFuel => OutOfFuel
  end.
