(* Model/ErrRender.v — executable model of the RENDERING of execution errors, /repo/src/execution/error.rs
   (property C20, last sentence: "pretty rendering of the error shows the cited DSL and source lines").
   Definitions only.

   * the error chain is what the Rust code sees: `ExecutionError::InContext(Context, Box<ExecutionError>)` nested
     any number of times around an innermost error; a `Context` is `Statement(Vec<StatementContext>)` or
     `Other(String)`.  The Display of the innermost error and of a statement (`format!("{}", stmt)`, stored in
     `StatementContext::statement`) are opaque strings;
   * `render_pretty` follows `DisplayExecutionErrorPretty::fmt` / `fmt_entry` / `StatementContext::fmt_pretty`
     (error.rs:208-306) character by character; `excerpt_ind` is `Excerpt::from_source(path, source, row,
     cs..ce, indent)` followed by its Display (parse_error.rs:366-426) for ANY indent (Model/ParseErr.v has
     indent 0); `Location::to_column_range` is `column..column+1`;
   * `render_plain` is the `Display` of the error (`#[error("{0}. Caused by: {1}")]` + `impl Display for Context`);
   * the WORDING of the messages is not constrained by the property: both renderers take it as a record of
     strings ([wording], [wording_plain]); the defaults are the phrases of the pinned commit.  The correspondence
     stream C20r reads the phrases off the implementation (calibration on a fixed failing run).
   * paths: `Path::to_string_lossy` is the identity on paths that are valid UTF-8 (the only ones the model covers);
     built without the term-colors feature. *)
From TSG Require Export Model.ParseErr.

(* ------------------------------------------------------------------------------------ the chain *)

Definition rloc := (N * N)%type.                 (* Location { row, column }, both 0-based *)

Record stmt_ctx := {
  sx_stmt : str;            (* StatementContext::statement  = Display of the statement *)
  sx_stmt_loc : rloc;       (* statement_location *)
  sx_stanza_loc : rloc;     (* stanza_location *)
  sx_src_loc : rloc;        (* source_location = start_point of the matched node (tree-sitter: BYTE column) *)
  sx_kind : str             (* node_kind *)
}.

Inductive rctx :=
| RStmts (l : list stmt_ctx)      (* Context::Statement(vec) — one element, or two for a conflict *)
| ROther (msg : str).             (* Context::Other(msg) *)

(* contexts outermost first, then the Display of the innermost (non-InContext) error *)
Record chain := { ch_ctxs : list rctx; ch_cause : str }.

(* ------------------------------------------------------------------------------------ wording *)

Record wording := {
  w_first : str;          (* after "{index:>5}: " on the head line of the first statement context *)
  w_next : str;           (* the head line of a further statement context of the same entry, up to the statement *)
  w_stanza : str;         (* the line between the statement excerpt and the stanza excerpt *)
  w_match_pre : str;      (* the line before the source excerpt: pre ++ kind ++ post *)
  w_match_post : str
}.
Definition default_wording : wording := {|
  w_first := [69;114;114;111;114;32;101;120;101;99;117;116;105;110;103;32;115;116;97;116;101;109;101;110;116;32];
                                                                        (* "Error executing statement " *)
  w_next := [32;32;32;32;32;62;32;97;110;100;32;101;120;101;99;117;116;105;110;103;32;115;116;97;116;101;109;101;110;116;32];
                                                                        (* "     > and executing statement " *)
  w_stanza := [105;110;32;115;116;97;110;122;97];                       (* "in stanza" *)
  w_match_pre := [109;97;116;99;104;105;110;103;32;40];                 (* "matching (" *)
  w_match_post := [41;32;110;111;100;101]                               (* ") node" *)
|}.

Record wording_plain := {
  wp_first : str;         (* "Error executing " *)
  wp_next : str;          (* " and executing " *)
  wp_stanza : str;        (* " in stanza at " *)
  wp_match_pre : str;     (* " matching (" *)
  wp_match_post : str;    (* ") node at " *)
  wp_caused : str         (* ". Caused by: " *)
}.
Definition default_wording_plain : wording_plain := {|
  wp_first := [69;114;114;111;114;32;101;120;101;99;117;116;105;110;103;32];
  wp_next := [32;97;110;100;32;101;120;101;99;117;116;105;110;103;32];
  wp_stanza := [32;105;110;32;115;116;97;110;122;97;32;97;116;32];
  wp_match_pre := [32;109;97;116;99;104;105;110;103;32;40];
  wp_match_post := [41;32;110;111;100;101;32;97;116;32];
  wp_caused := [46;32;67;97;117;115;101;100;32;98;121;58;32]
|}.

(* ------------------------------------------------------------------------------------ excerpts *)

(* Excerpt::from_source(path, source, row, cs..ce, ind) followed by its Display (no colours).
   `source.lines().nth(row)` is None for a row past the last line: the excerpt is then the header line and
   "<missing source>" — there is no slicing and no indexing that could panic. *)
Definition excerpt_ind (ind : N) (path src : str) (row cs ce : N) : str :=
  let line := nth_error (lines src) (N.to_nat row) in
  let ce' := N.min ce (match line with Some l => utf8_bytes l | None => 0 end) in
  let hdr := spaces ind ++ cite path row cs ++ [10] in
  match line with
  | Some l =>
      hdr ++ spaces ind ++ dec (row + 1) ++ [32;124;32] ++ l ++ [10]
          ++ spaces ind ++ spaces (gutter_width row) ++ [32;124;32] ++ spaces cs
          ++ carets (if cs <? ce' then ce' - cs else 0) ++ [10]        (* Range::len saturates at 0 *)
  | None => hdr ++ spaces ind ++ missing_source ++ [10]
  end.

(* the excerpt of a Location: row, to_column_range() = column..column+1 *)
Definition excerpt_loc (ind : N) (path src : str) (l : rloc) : str :=
  excerpt_ind ind path src (fst l) (snd l) (snd l + 1).

(* "{:>5}" of an unsigned integer: right-aligned in a field of 5, never truncated *)
Definition pad5 (s : str) : str := spaces (5 - N.of_nat (length s)) ++ s.
(* "{:>5}: " *)
Definition entry_head (i : N) : str := pad5 (dec i) ++ [58;32].

Definition ex_indent : N := 7.

(* ------------------------------------------------------------------------------------ pretty *)

(* StatementContext::fmt_pretty (error.rs:249-306) *)
Definition render_stmt (w : wording) (tsg_path tsg src_path src : str) (i : N) (first : bool) (c : stmt_ctx) : str :=
  (if first then entry_head i ++ w_first w else w_next w) ++ sx_stmt c ++ [10]
  ++ excerpt_loc ex_indent tsg_path tsg (sx_stmt_loc c)
  ++ spaces ex_indent ++ w_stanza w ++ [10]
  ++ excerpt_loc ex_indent tsg_path tsg (sx_stanza_loc c)
  ++ spaces ex_indent ++ w_match_pre w ++ sx_kind c ++ w_match_post w ++ [10]
  ++ excerpt_loc ex_indent src_path src (sx_src_loc c).

(* `let mut first = true; for stmt in stmts { stmt.fmt_pretty(.., index, first); first = false; }` *)
Fixpoint render_stmts (w : wording) (tsg_path tsg src_path src : str) (i : N) (first : bool) (l : list stmt_ctx) : str :=
  match l with
  | [] => []
  | c :: r => render_stmt w tsg_path tsg src_path src i first c ++ render_stmts w tsg_path tsg src_path src i false r
  end.

Definition render_ctx (w : wording) (tsg_path tsg src_path src : str) (i : N) (c : rctx) : str :=
  match c with
  | RStmts l => render_stmts w tsg_path tsg src_path src i true l
  | ROther msg => entry_head i ++ msg ++ [10]                         (* writeln!(f, "{:>5}: {}", index, msg) *)
  end.

(* fmt_entry (error.rs:215-246): one entry per context, then the innermost error; recursion on the chain *)
Fixpoint render_from (w : wording) (tsg_path tsg src_path src : str) (i : N) (cs : list rctx) (cause : str) : str :=
  match cs with
  | [] => entry_head i ++ cause ++ [10]                               (* other => writeln!(f, "{:>5}: {}", index, other) *)
  | c :: r => render_ctx w tsg_path tsg src_path src i c ++ render_from w tsg_path tsg src_path src (i + 1) r cause
  end.

(* format!("{}", err.display_pretty(source_path, source, tsg_path, tsg)) *)
Definition render_pretty (w : wording) (tsg_path tsg src_path src : str) (ch : chain) : str :=
  render_from w tsg_path tsg src_path src 0 (ch_ctxs ch) (ch_cause ch).

(* ------------------------------------------------------------------------------------ plain *)

(* impl Display for Location: "({}, {})" of row+1, column+1 *)
Definition show_loc (l : rloc) : str := [40] ++ dec (fst l + 1) ++ [44;32] ++ dec (snd l + 1) ++ [41].

(* StatementContext::fmt(f, first) (error.rs:144-158) — the statement location is not shown *)
Definition plain_stmt (w : wording_plain) (first : bool) (c : stmt_ctx) : str :=
  (if first then wp_first w else wp_next w) ++ sx_stmt c
  ++ wp_stanza w ++ show_loc (sx_stanza_loc c)
  ++ wp_match_pre w ++ sx_kind c ++ wp_match_post w ++ show_loc (sx_src_loc c).
Fixpoint plain_stmts (w : wording_plain) (first : bool) (l : list stmt_ctx) : str :=
  match l with [] => [] | c :: r => plain_stmt w first c ++ plain_stmts w false r end.
(* impl Display for Context *)
Definition plain_ctx (w : wording_plain) (c : rctx) : str :=
  match c with RStmts l => plain_stmts w true l | ROther msg => msg end.
(* #[error("{0}. Caused by: {1}")] InContext(Context, Box<ExecutionError>) *)
Fixpoint plain_from (w : wording_plain) (cs : list rctx) (cause : str) : str :=
  match cs with
  | [] => cause
  | c :: r => plain_ctx w c ++ wp_caused w ++ plain_from w r cause
  end.
Definition render_plain (w : wording_plain) (ch : chain) : str := plain_from w (ch_ctxs ch) (ch_cause ch).

(* ------------------------------------------------------------------------------------ what is cited *)

(* the contexts with their index numbers (used to state the order of the entries) *)
Fixpoint number_from {A} (i : N) (l : list A) : list (N * A) :=
  match l with [] => [] | x :: r => (i, x) :: number_from (i + 1) r end.

Fixpoint all_stmt_ctxs (cs : list rctx) : list stmt_ctx :=
  match cs with
  | [] => []
  | RStmts l :: r => l ++ all_stmt_ctxs r
  | ROther _ :: r => all_stmt_ctxs r
  end.

(* the three citations and (when the rows exist) the three lines a statement context must show *)
Definition shows_ctx (tsg_path tsg src_path src : str) (out : str) (c : stmt_ctx) : bool :=
  contains (cite tsg_path (fst (sx_stmt_loc c)) (snd (sx_stmt_loc c))) out
  && contains (cite tsg_path (fst (sx_stanza_loc c)) (snd (sx_stanza_loc c))) out
  && contains (cite src_path (fst (sx_src_loc c)) (snd (sx_src_loc c))) out
  && match nth_error (lines tsg) (N.to_nat (fst (sx_stmt_loc c))) with Some l => contains l out | None => true end
  && match nth_error (lines tsg) (N.to_nat (fst (sx_stanza_loc c))) with Some l => contains l out | None => true end
  && match nth_error (lines src) (N.to_nat (fst (sx_src_loc c))) with Some l => contains l out | None => true end.

(* ------------------------------------------------------------------ correspondence (harness) *)

(* verdict codes of stream C20r.  Computed by the harness on the real text alone (property level): 52 display_pretty
   panicked; 51 the real text does not contain a citation / a cited line of some statement context.  Computed here:
   61 the pretty text differs from the model's; 62 the plain Display differs from the model's; 63 the model's own
   text fails `shows_ctx` for some context (cannot happen: theorems render_pretty_cites / _shows_lines). *)
Definition c20r_verdict (w : wording) (wp : wording_plain) (tsg_path tsg src_path src : str) (ch : chain)
           (real_pretty real_plain : str) : N :=
  let m := render_pretty w tsg_path tsg src_path src ch in
  if negb (str_eqb m real_pretty) then 61
  else if negb (str_eqb (render_plain wp ch) real_plain) then 62
  else if negb (forallb (shows_ctx tsg_path tsg src_path src m) (all_stmt_ctxs (ch_ctxs ch))) then 63
  else 0.

(* printed in replay files *)
Definition c20r_detail (w : wording) (wp : wording_plain) (tsg_path tsg src_path src : str) (ch : chain) :=
  (render_pretty w tsg_path tsg src_path src ch, render_plain wp ch).
