(* Model/ErrChain.v — from the error value of the execution model (Model/Errors.v: `exec_error`) to the chain that
   is rendered (Model/ErrRender.v: `chain`).  Definitions only.

   The execution model does not carry the TEXTS of an error: the Display of a statement (`StatementContext::statement`),
   the Display of the innermost error, the message of a `Context::Other`, and it names syntax nodes by preorder index.
   `chain_of_error` takes them as function arguments (opaque inputs, no assumptions about them):
     stmt_text  : statement location -> Display of the statement at that location
     cause_text : base error -> its Display
     node_kind, node_pos : node index -> kind() / start_point() of the node
     other_msg  : index of the entry in the chain (0 = outermost) -> message of the Context::Other at that entry.
   `chain_of_error_tree` instantiates node kind and position from the recorded syntax tree, as stream C20 does
   (`ctx_view` of Model/Run.v).  Stream C20r checks that `chain_of_error_tree` applied to the MODEL's error of a run
   is the chain read off the REAL error of the same run (code 65). *)
From TSG Require Export Model.Errors Model.Tree Model.ErrRender.

Section Chain.
  Variable stmt_text : loc -> str.
  Variable cause_text : exec_error -> str.
  Variable node_kind : N -> str.
  Variable node_pos : N -> rloc.
  Variable other_msg : N -> str.

  Definition sctx_of (c : Errors.stmt_ctx) : ErrRender.stmt_ctx :=
    {| sx_stmt := stmt_text (sc_stmt c);
       sx_stmt_loc := sc_stmt c;
       sx_stanza_loc := sc_stanza c;
       sx_src_loc := node_pos (sc_node c);
       sx_kind := node_kind (sc_node c) |}.

  (* the contexts of `InContext(c0, InContext(c1, .. base))`, outermost first; i = index of the entry *)
  Fixpoint ctxs_of (i : N) (e : exec_error) : list rctx :=
    match e with
    | EInContext (CtxStmts l) e' => RStmts (map sctx_of l) :: ctxs_of (i + 1) e'
    | EInContext CtxOther e' => ROther (other_msg i) :: ctxs_of (i + 1) e'
    | _ => []
    end.

  Definition chain_of_error (e : exec_error) : chain :=
    {| ch_ctxs := ctxs_of 0 e; ch_cause := cause_text (root_cause e) |}.
End Chain.

(* all statement contexts of an error value, at any depth of the chain *)
Fixpoint err_stmt_ctxs (e : exec_error) : list Errors.stmt_ctx :=
  match e with
  | EInContext (CtxStmts l) e' => l ++ err_stmt_ctxs e'
  | EInContext CtxOther e' => err_stmt_ctxs e'
  | _ => []
  end.

(* node kind / start position from the recorded tree; a node index outside the tree (never produced by a run on
   that tree) gets the same placeholder as `ctx_view` *)
Definition tree_node_kind (t : tree) (n : N) : str :=
  match node_at t n with Some nd => tn_kind nd | None => [] end.
Definition tree_node_pos (t : tree) (n : N) : rloc :=
  match node_at t n with Some nd => tn_start nd | None => (4294967295, 4294967295) end.

Definition chain_of_error_tree (stmt_text : loc -> str) (cause_text : exec_error -> str) (other_msg : N -> str) (t : tree)
  : exec_error -> chain :=
  chain_of_error stmt_text cause_text (tree_node_kind t) (tree_node_pos t) other_msg.

(* ------------------------------------------------------------------ correspondence (harness) *)

(* the opaque texts as the harness supplies them: association lists read off the real chain *)
Definition loc_eqb (a b : loc) : bool := (fst a =? fst b) && (snd a =? snd b).
Fixpoint text_at (tbl : list (loc * str)) (l : loc) : str :=
  match tbl with [] => [] | (k, v) :: r => if loc_eqb k l then v else text_at r l end.
Definition msg_at (msgs : list (N * str)) (i : N) : str :=
  match find (fun p => fst p =? i) msgs with Some p => snd p | None => [] end.

Definition stmt_ctx_eqb (a b : ErrRender.stmt_ctx) : bool :=
  str_eqb (sx_stmt a) (sx_stmt b) && loc_eqb (sx_stmt_loc a) (sx_stmt_loc b) && loc_eqb (sx_stanza_loc a) (sx_stanza_loc b)
  && loc_eqb (sx_src_loc a) (sx_src_loc b) && str_eqb (sx_kind a) (sx_kind b).
Definition rctx_eqb (a b : rctx) : bool :=
  match a, b with
  | RStmts x, RStmts y => list_eqb stmt_ctx_eqb x y
  | ROther x, ROther y => str_eqb x y
  | _, _ => false
  end.
Definition chain_eqb (a b : chain) : bool :=
  list_eqb rctx_eqb (ch_ctxs a) (ch_ctxs b) && str_eqb (ch_cause a) (ch_cause b).
