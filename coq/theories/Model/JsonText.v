(* Model/JsonText.v — the TEXT level of the JSON output: what `serde_json::to_string_pretty` (called by
   `Graph::display_json`, graph.rs:95-101) writes for a JSON value tree, and a parser for such texts.

   Text representation: a text is a `str` = list of Unicode scalar values, like every Rust String of this
   development (Model/Base.v); the UTF-8 encoding of the scalars is outside the model (serde_json copies the
   bytes of every character it does not escape verbatim, so the byte level adds nothing but the encoder).

   Printer = serde_json 1.0 `Serializer<_, PrettyFormatter>` with the default indent of two spaces
   (ser.rs: `impl Formatter for PrettyFormatter`, `format_escaped_str_contents`, table `ESCAPE`):
     * begin_array writes `[`; every element is preceded by `\n` (first) or `,\n` and the indentation of
       the new level; end_array writes `\n` + indentation of the outer level + `]` if there was an element
       and just `]` otherwise (so the empty array is `[]`); objects likewise with `{` `}`, a key is a
       string, begin_object_value writes `: `;
     * strings: dquote .. dquote; inside dquote -> `\dquote`, `\` -> `\\`, U+0008 -> `\b`, U+0009 -> `\t`, U+000A -> `\n`,
       U+000C -> `\f`, U+000D -> `\r`, every other character below U+0020 -> `\u00XX` with LOWERCASE hex
       digits, everything else verbatim — `/`, DEL U+007F, C1 controls, U+2028, U+2029 and all non-ASCII
       included;
     * numbers: every number of the value trees of Model/Json.v is a u32 (`serialize_u32`, itoa): decimal
       without sign or leading zeros = `dec` of Model/Pretty.v;
     * `null`, `true`, `false`; no trailing newline.
   Panic sites: none (display_json unwraps to_string_pretty, which only fails for non-string map keys).

   Parser: RFC 8259 restricted to what the value trees of Model/Json.v need — numbers are unsigned
   integers without fraction/exponent and must be in canonical form (no leading zeros); escapes `\dquote` `\\`
   `\/` `\b` `\f` `\n` `\r` `\t` and `\uXXXX` (either case) for a non-surrogate code unit (surrogate PAIRS
   are rejected: the printer never produces them); raw characters below U+0020 inside a string are rejected;
   insignificant whitespace (space, \t, \n, \r) is accepted wherever RFC 8259 allows it.
   Definitions only. *)
From TSG Require Export Model.Pretty.

(* ---------------- printer ---------------- *)
Definition hex_digit (n : N) : N := if n <? 10 then 48 + n else 87 + n.      (* 0-9 a-f *)

(* format_escaped_str_contents / ESCAPE / write_char_escape *)
Definition escape_char (c : N) : str :=
  if c =? 34 then [92;34]                  (* QU  \dquote *)
  else if c =? 92 then [92;92]             (* BS  \\  *)
  else if c =? 8 then [92;98]              (* BB  \b  *)
  else if c =? 9 then [92;116]             (* TT  \t  *)
  else if c =? 10 then [92;110]            (* NN  \n  *)
  else if c =? 12 then [92;102]            (* FF  \f  *)
  else if c =? 13 then [92;114]            (* RR  \r  *)
  else if c <? 32 then [92;117;48;48; hex_digit (c / 16); hex_digit (c mod 16)]   (* UU  \u00XX *)
  else [c].
Definition escape_str (s : str) : str := flat_map escape_char s.
Definition print_string (s : str) : str := 34 :: escape_str s ++ [34].

Fixpoint indent (n : nat) : str := match n with O => [] | S k => 32 :: 32 :: indent k end.

Definition t_null : str := [110;117;108;108].
Definition t_true : str := [116;114;117;101].
Definition t_false : str := [102;97;108;115;101].

(* `,\n` + indentation before every element but the first *)
Definition sep_item (ind : nat) (y : str) : str := 44 :: 10 :: indent ind ++ y.

(* a sequence/map whose already printed elements (at level S ind) are `items`; `op`/`cl` the brackets *)
Definition print_items (op cl : N) (ind : nat) (items : list str) : str :=
  match items with
  | [] => [op; cl]                                                      (* has_value = false *)
  | x :: r => op :: 10 :: indent (S ind) ++ x ++ flat_map (sep_item (S ind)) r ++ 10 :: indent ind ++ [cl]
  end.

Definition print_member (key value : str) : str := print_string key ++ [58;32] ++ value.

(* the text of `j` printed when the current indentation level is `ind` *)
Fixpoint print_at (ind : nat) (j : json) : str :=
  match j with
  | JNull => t_null
  | JBool true => t_true
  | JBool false => t_false
  | JNum n => dec n
  | JStr s => print_string s
  | JArr l => print_items 91 93 ind (map (print_at (S ind)) l)
  | JObj m => print_items 123 125 ind (map (fun kv => print_member (fst kv) (print_at (S ind) (snd kv))) m)
  end.

(* serde_json::to_string_pretty *)
Definition print_pretty (j : json) : str := print_at 0 j.

(* Graph::display_json: the text written for a graph *)
Definition graph_json_text (g : graph) : str := print_pretty (encode_graph g).

(* ---------------- parser ---------------- *)
Definition is_ws (c : N) : bool := (c =? 32) || (c =? 10) || (c =? 13) || (c =? 9).
Fixpoint skip_ws (t : str) : str :=
  match t with
  | c :: r => if is_ws c then skip_ws r else t
  | [] => []
  end.

Definition is_digitb (c : N) : bool := (48 <=? c) && (c <=? 57).
Fixpoint span_digits (t : str) : str * str :=
  match t with
  | c :: r => if is_digitb c then let '(d, r') := span_digits r in (c :: d, r') else ([], t)
  | [] => ([], [])
  end.

Definition hex_val (c : N) : option N :=
  if (48 <=? c) && (c <=? 57) then Some (c - 48)
  else if (97 <=? c) && (c <=? 102) then Some (c - 87)
  else if (65 <=? c) && (c <=? 70) then Some (c - 55)
  else None.
Definition hex4 (a b c d : N) : option N :=
  match hex_val a, hex_val b, hex_val c, hex_val d with
  | Some x, Some y, Some z, Some w => Some (((x * 16 + y) * 16 + z) * 16 + w)
  | _, _, _, _ => None
  end.
Definition is_surrogate (c : N) : bool := (55296 <=? c) && (c <=? 57343).

Definition unescape_simple (e : N) : option N :=
  if e =? 34 then Some 34 else if e =? 92 then Some 92 else if e =? 47 then Some 47
  else if e =? 98 then Some 8 else if e =? 102 then Some 12 else if e =? 110 then Some 10
  else if e =? 114 then Some 13 else if e =? 116 then Some 9 else None.

Definition cons_res (c : N) (r : option (str * str)) : option (str * str) :=
  match r with Some (s, t) => Some (c :: s, t) | None => None end.

(* the characters of a string literal after its opening quote: (decoded string, text after the closing quote) *)
Fixpoint parse_chars (t : str) : option (str * str) :=
  match t with
  | [] => None
  | c :: r =>
      if c =? 34 then Some ([], r)
      else if c =? 92 then
        match r with
        | [] => None
        | e :: r1 =>
            if e =? 117 then
              match r1 with
              | a :: b :: c' :: d :: r2 =>
                  match hex4 a b c' d with
                  | Some v => if is_surrogate v then None else cons_res v (parse_chars r2)
                  | None => None
                  end
              | _ => None
              end
            else match unescape_simple e with
                 | Some v => cons_res v (parse_chars r1)
                 | None => None
                 end
        end
      else if c <? 32 then None
      else cons_res c (parse_chars r)
  end.

(* an unsigned integer in canonical form *)
Definition parse_number (t : str) : option (N * str) :=
  let '(ds, r) := span_digits t in
  match parse_dec ds with
  | Some n => if str_eqb (dec n) ds then Some (n, r) else None
  | None => None
  end.

(* elements of a non-empty array after `[`: value (ws) , value ... (ws) ] ; `pv` parses one value
   (skipping leading whitespace); `n` bounds the number of elements *)
Fixpoint parse_elems (pv : str -> option (json * str)) (n : nat) (t : str) : option (list json * str) :=
  match n with
  | O => None
  | S n' =>
      match pv t with
      | None => None
      | Some (x, r) =>
          match skip_ws r with
          | c :: r' =>
              if c =? 44 then
                match parse_elems pv n' r' with Some (l, r'') => Some (x :: l, r'') | None => None end
              else if c =? 93 then Some ([x], r')
              else None
          | [] => None
          end
      end
  end.

(* members of a non-empty object after `{`: (ws) string (ws) : value (ws) , ... } *)
Fixpoint parse_members (pv : str -> option (json * str)) (n : nat) (t : str) : option (list (str * json) * str) :=
  match n with
  | O => None
  | S n' =>
      match skip_ws t with
      | q :: t1 =>
          if q =? 34 then
            match parse_chars t1 with
            | None => None
            | Some (k, t2) =>
                match skip_ws t2 with
                | c :: t3 =>
                    if c =? 58 then
                      match pv t3 with
                      | None => None
                      | Some (x, r) =>
                          match skip_ws r with
                          | c' :: r' =>
                              if c' =? 44 then
                                match parse_members pv n' r' with Some (m, r'') => Some ((k, x) :: m, r'') | None => None end
                              else if c' =? 125 then Some ([(k, x)], r')
                              else None
                          | [] => None
                          end
                      end
                    else None
                | [] => None
                end
            end
          else None
      | [] => None
      end
  end.

Definition lit_res (lit : str) (j : json) (t : str) : option (json * str) :=
  match strip_prefix lit t with Some r => Some (j, r) | None => None end.

(* one value, leading whitespace skipped; fuel bounds nesting depth and element counts *)
Fixpoint parse_value (fuel : nat) (t : str) : option (json * str) :=
  match fuel with
  | O => None
  | S f =>
      match skip_ws t with
      | [] => None
      | c :: r =>
          if c =? 34 then
            match parse_chars r with Some (s, r') => Some (JStr s, r') | None => None end
          else if c =? 91 then
            match skip_ws r with
            | c2 :: r2 =>
                if c2 =? 93 then Some (JArr [], r2)
                else match parse_elems (parse_value f) f r with Some (l, r') => Some (JArr l, r') | None => None end
            | [] => None
            end
          else if c =? 123 then
            match skip_ws r with
            | c2 :: r2 =>
                if c2 =? 125 then Some (JObj [], r2)
                else match parse_members (parse_value f) f r with Some (m, r') => Some (JObj m, r') | None => None end
            | [] => None
            end
          else if c =? 110 then lit_res t_null JNull (c :: r)
          else if c =? 116 then lit_res t_true (JBool true) (c :: r)
          else if c =? 102 then lit_res t_false (JBool false) (c :: r)
          else if is_digitb c then
            match parse_number (c :: r) with Some (n, r') => Some (JNum n, r') | None => None end
          else None
      end
  end.

(* a whole document: one value, then only whitespace may follow (the remainder is returned) *)
Definition parse_json (fuel : nat) (t : str) : option (json * str) :=
  match parse_value fuel t with
  | Some (j, r) => Some (j, skip_ws r)
  | None => None
  end.

(* fuel that always suffices for a printed tree (Proofs/JsonText.v) *)
Fixpoint jsize (j : json) : nat :=
  match j with
  | JArr l => S (length l + list_sum (map jsize l))
  | JObj m => S (length m + list_sum (map (fun kv => jsize (snd kv)) m))
  | _ => 1%nat
  end.

(* a text is at least as long as its tree is big: the length of the text is enough fuel *)
Definition parse_json_text (t : str) : option json :=
  match parse_json (length t) t with
  | Some (j, []) => Some j
  | _ => None
  end.

(* reading a graph back from the text of display_json *)
Definition graph_of_json_text (t : str) : option graph :=
  match parse_json_text t with
  | Some j => decode_graph j
  | None => None
  end.

(* ---------------- well-formed value trees ---------------- *)
(* strings hold Unicode scalar values, numbers fit u32: what the Serialize impls can produce *)
Definition is_scalarb (c : N) : bool := (c <? 1114112) && negb (is_surrogate c).
Fixpoint json_wfb (j : json) : bool :=
  match j with
  | JNum n => n <=? u32_max
  | JStr s => forallb is_scalarb s
  | JArr l => forallb json_wfb l
  | JObj m => forallb (fun kv => forallb is_scalarb (fst kv) && json_wfb (snd kv)) m
  | _ => true
  end.
