(* Model/ParseErr.v — executable model of /repo/src/parse_error.rs (property C18).
   Definitions only.

   * the syntax tree is a rose tree whose nodes carry is_error(), is_missing() and the preorder id the
     harness gives them; tree-sitter's TreeCursor is a zipper over it;
   * `find_errors` is the loop of parse_error.rs:174-214, one loop iteration per unit of fuel, the
     is_error / else-if is_missing test executed on EVERY iteration exactly as in the code (also when a
     parent is revisited), `first_only` breaking right after the push;
   * `root_node().has_error()` is an oracle input `he` (tree-sitter computes it from error costs, not
     from the visible nodes).  The assumption the theorems need is one-directional: "some visible node
     is ERROR or MISSING  ==>  has_error()" (`oracle_ok`); the harness validates it on every generated
     tree (verdict code 99).  The converse is FALSE for real trees: `pass pass` parses with a MISSING
     hidden `_newline` token, has_error() is true and no visible node is flagged (harness tag
     `has_error_without_flagged_node`); find_errors then walks the tree and reports nothing;
   * the two Display impls are modelled completely (every character of the output).  Rust string
     slicing by byte offsets is an explicit operation that returns `Panic site` when the real slice
     would panic (start > end, end past the string, offset inside a multi-byte character). *)
From TSG Require Export Model.Base.

(* ------------------------------------------------------------------------------------------ tree *)

Inductive ptree := PT (err miss : bool) (id : N) (cs : list ptree).

Definition pt_err (t : ptree) : bool := match t with PT e _ _ _ => e end.
Definition pt_miss (t : ptree) : bool := match t with PT _ m _ _ => m end.
Definition pt_id (t : ptree) : N := match t with PT _ _ i _ => i end.
Definition pt_children (t : ptree) : list ptree := match t with PT _ _ _ cs => cs end.
Definition pt_flagged (t : ptree) : bool := pt_err t || pt_miss t.

Fixpoint psize (t : ptree) : nat :=
  match t with
  | PT _ _ _ cs => S ((fix sz (l : list ptree) : nat :=
                         match l with [] => 0%nat | x :: r => (psize x + sz r)%nat end) cs)
  end.
Definition fsize (l : list ptree) : nat := fold_right (fun x a => (psize x + a)%nat) 0%nat l.

(* some (visible) node of the tree is ERROR or MISSING *)
Fixpoint any_flagged (t : ptree) : bool :=
  match t with
  | PT e m _ cs => e || m || (fix ex (l : list ptree) : bool :=
                                match l with [] => false | x :: r => any_flagged x || ex r end) cs
  end.
(* the assumption on the oracle value `he` = tree.root_node().has_error() *)
Definition oracle_ok (he : bool) (t : ptree) : bool := implb (any_flagged t) he.

(* ParseError::Missing(node) / ParseError::Unexpected(node); nodes are named by their id *)
Inductive pkind := KMissing | KUnexpected.
Definition perr := (pkind * N)%type.

(* the test of the loop body: `if node.is_error() {Unexpected} else if node.is_missing() {Missing}` *)
Definition classify (t : ptree) : option perr :=
  if pt_err t then Some (KUnexpected, pt_id t)
  else if pt_miss t then Some (KMissing, pt_id t)
  else None.

(* ----------------------------------------------------------------- specification of the result *)

(* recursive form: list a flagged node and do not look below it *)
Fixpoint outermost (t : ptree) : list perr :=
  match t with
  | PT e m i cs =>
      if e then [(KUnexpected, i)]
      else if m then [(KMissing, i)]
      else (fix go (l : list ptree) : list perr :=
              match l with [] => [] | x :: r => outermost x ++ go r end) cs
  end.
Definition fouter (l : list ptree) : list perr := flat_map outermost l.

(* declarative form: all nodes in document (pre)order, each paired with "some proper ancestor is
   flagged"; keep the flagged ones that have no flagged ancestor *)
Fixpoint preorder_anc (anc : bool) (t : ptree) : list (bool * ptree) :=
  match t with
  | PT e m i cs =>
      (anc, t) :: (fix go (l : list ptree) : list (bool * ptree) :=
                     match l with [] => [] | x :: r => preorder_anc (anc || e || m) x ++ go r end) cs
  end.
Definition report_of (x : bool * ptree) : list perr :=
  if fst x then [] else match classify (snd x) with Some p => [p] | None => [] end.
Definition outermost_decl (t : ptree) : list perr := flat_map report_of (preorder_anc false t).

(* ------------------------------------------------------------------- TreeCursor as a zipper *)

Record frame := { f_lefts : list ptree;       (* left siblings, nearest first *)
                  f_err : bool; f_miss : bool; f_id : N;   (* the parent node *)
                  f_rights : list ptree }.
Record cursor := { focus : ptree; ctx : list frame }.

Definition root_cursor (t : ptree) : cursor := {| focus := t; ctx := [] |}.

Definition goto_first_child (c : cursor) : option cursor :=
  match focus c with
  | PT e m i (x :: r) =>
      Some {| focus := x; ctx := {| f_lefts := []; f_err := e; f_miss := m; f_id := i; f_rights := r |} :: ctx c |}
  | _ => None
  end.
Definition goto_next_sibling (c : cursor) : option cursor :=
  match ctx c with
  | fr :: up =>
      match f_rights fr with
      | x :: r => Some {| focus := x;
                          ctx := {| f_lefts := focus c :: f_lefts fr; f_err := f_err fr; f_miss := f_miss fr;
                                    f_id := f_id fr; f_rights := r |} :: up |}
      | [] => None
      end
  | [] => None
  end.
Definition goto_parent (c : cursor) : option cursor :=
  match ctx c with
  | fr :: up => Some {| focus := PT (f_err fr) (f_miss fr) (f_id fr) (rev_append (f_lefts fr) (focus c :: f_rights fr));
                        ctx := up |}
  | [] => None
  end.

(* -------------------------------------------------------------------------- find_errors loop *)

(* one `loop { … }` iteration per unit of fuel *)
Fixpoint walk (first_only : bool) (fuel : nat) (c : cursor) (dvc : bool) (acc : list perr)
  : outcome unit (list perr) :=
  match fuel with
  | O => OutOfFuel
  | S fuel =>
      let node := focus c in
      let '(acc, dvc, brk) :=
        if pt_err node then (acc ++ [(KUnexpected, pt_id node)], true, first_only)
        else if pt_miss node then (acc ++ [(KMissing, pt_id node)], true, first_only)
        else (acc, dvc, false) in
      if brk then Ok acc
      else if dvc then
        match goto_next_sibling c with
        | Some c' => walk first_only fuel c' false acc
        | None => match goto_parent c with
                  | Some c' => walk first_only fuel c' true acc
                  | None => Ok acc
                  end
        end
      else
        match goto_first_child c with
        | Some c' => walk first_only fuel c' false acc
        | None => walk first_only fuel c true acc
        end
  end.

Definition find_errors (he : bool) (fuel : nat) (t : ptree) (first_only : bool) : outcome unit (list perr) :=
  if negb he then Ok []                     (* `if !tree.root_node().has_error() { return; }` *)
  else walk first_only fuel (root_cursor t) false [].

(* ParseError::all / ::first;  into_all / into_first run the same code on the owned tree *)
Definition pe_all (he : bool) (fuel : nat) (t : ptree) : outcome unit (list perr) := find_errors he fuel t false.
Definition pe_first (he : bool) (fuel : nat) (t : ptree) : outcome unit (option perr) :=
  obind (find_errors he fuel t true) (fun l => Ok (hd_error l)).      (* errors.into_iter().next() *)
Definition pe_into_all := pe_all.
Definition pe_into_first := pe_first.

Definition enough_fuel (t : ptree) : nat := (2 * psize t + 1)%nat.

(* ------------------------------------------------------------------------- strings and slices *)

Definition utf8_len (c : N) : N :=
  if c <? 128 then 1 else if c <? 2048 then 2 else if c <? 65536 then 3 else 4.
Fixpoint utf8_bytes (s : str) : N :=
  match s with [] => 0 | c :: r => utf8_len c + utf8_bytes r end.

(* split at a byte offset; None = past the end or inside a character (where Rust's slice panics) *)
Fixpoint split_at_byte (s : str) (n : N) : option (str * str) :=
  if n =? 0 then Some ([], s)
  else match s with
       | [] => None
       | c :: r =>
           if utf8_len c <=? n
           then match split_at_byte r (n - utf8_len c) with
                | Some (a, b) => Some (c :: a, b)
                | None => None
                end
           else None
       end.
Definition is_boundary (s : str) (n : N) : bool :=
  match split_at_byte s n with Some _ => true | None => false end.

(* &s[a..b] *)
Definition slice_bytes (site : N) (s : str) (a b : N) : outcome unit str :=
  if b <? a then Panic site
  else match split_at_byte s a with
       | None => Panic site
       | Some (_, rest) =>
           match split_at_byte rest (b - a) with
           | None => Panic site
           | Some (mid, _) => Ok mid
           end
       end.

(* .chars().take_while(|c| *c != '\n') *)
Fixpoint until_nl (s : str) : str :=
  match s with [] => [] | c :: r => if c =? 10 then [] else c :: until_nl r end.

(* format!("{}", n) for an unsigned integer *)
Fixpoint dec_aux (fuel : nat) (n : N) (acc : str) : str :=
  match fuel with
  | O => acc
  | S f => let acc' := (48 + n mod 10) :: acc in
           if n <? 10 then acc' else dec_aux f (n / 10) acc'
  end.
Definition dec (n : N) : str := dec_aux (S (N.to_nat (N.size n))) n [].   (* fuel: binary length bounds decimal length *)
(* inverse reading, used to state that `dec` is the decimal numeral *)
Definition undec (s : str) : N := fold_left (fun a d => 10 * a + (d - 48)) s 0.

(* str::lines(): split_inclusive('\n'), strip the "\n" and then one "\r" before it; a last line
   without terminator is returned as is; no empty last line.  `cur` is the current line reversed. *)
Definition strip_cr (cur : str) : str :=
  match cur with c :: r => if c =? 13 then r else cur | [] => cur end.
Fixpoint lines_aux (s : str) (cur : str) : list str :=
  match s with
  | [] => match cur with [] => [] | _ => [rev cur] end
  | c :: r => if c =? 10 then rev (strip_cr cur) :: lines_aux r [] else lines_aux r (c :: cur)
  end.
Definition lines (s : str) : list str := lines_aux s [].

Definition spaces (n : N) : str := repeat 32 (N.to_nat n).
Definition carets (n : N) : str := repeat 94 (N.to_nat n).

(* ------------------------------------------------------------------------------- Display impls *)

(* what the Display impls read from the node *)
Record npos := { np_row : N;        (* start_position().row *)
                 np_col : N;        (* start_position().column (tree-sitter counts bytes) *)
                 np_start : N;      (* start_byte() *)
                 np_end : N }.      (* end_byte() *)

(* The WORDING of the two kinds is not constrained by the property ("cites the node's line and column"): the display
   functions below take it as a parameter [kt]; the correspondence stream reads the two phrases off the
   implementation (calibration on a fixed source) and passes them in, so that rewording the messages is not reported
   as a difference.  [kind_text] is the wording of the source as of the pinned commit (used by the examples). *)
Definition kt_of (missing unexpected : str) (k : pkind) : str :=
  match k with KMissing => missing | KUnexpected => unexpected end.
Definition kind_text (k : pkind) : str :=
  match k with
  | KMissing => [109;105;115;115;105;110;103;32;115;121;110;116;97;120]                 (* "missing syntax" *)
  | KUnexpected => [117;110;101;120;112;101;99;116;101;100;32;115;121;110;116;97;120]   (* "unexpected syntax" *)
  end.

(* "{path}:{row+1}:{col+1}:" *)
Definition cite (path : str) (row col : N) : str :=
  path ++ [58] ++ dec (row + 1) ++ [58] ++ dec (col + 1) ++ [58].

Definition range_is_empty (p : npos) : bool := np_end p <=? np_start p.   (* Range::is_empty = !(start < end) *)

(* impl Display for ParseErrorDisplay (parse_error.rs:95-128); panic sites 1, 2 = the two slices *)
Definition display_plain (kt : pkind -> str) (path src : str) (k : pkind) (p : npos) : outcome unit str :=
  let head := cite path (np_row p) (np_col p) ++ [32] ++ kt k in
  if range_is_empty p then Ok (head ++ [10])
  else
    obind (slice_bytes 1 src (np_start p) (np_end p)) (fun txt =>
    let len := utf8_bytes (until_nl txt) in
    obind (slice_bytes 2 src (np_start p) (np_start p + len)) (fun text =>
    Ok (head ++ [58; 32] ++ text))).

(* Excerpt::gutter_width: ((row+1) as f64).log10() as usize + 1 = number of decimal digits of row+1
   (assumption: f64 log10 is exact enough at powers of ten; rows < 2^53) *)
Definition gutter_width (row : N) : N := N.of_nat (length (dec (row + 1))).

Definition missing_source : str :=
  [60;109;105;115;115;105;110;103;32;115;111;117;114;99;101;62].                        (* "<missing source>" *)

(* Excerpt::from_source(path, source, row, cs..ce, 0) followed by its Display (indent = 0, no colours) *)
Definition excerpt (path src : str) (row cs ce : N) : str :=
  let line := nth_error (lines src) (N.to_nat row) in
  let ce' := N.min ce (match line with Some l => utf8_bytes l | None => 0 end) in
  let hdr := cite path row cs ++ [10] in
  match line with
  | Some l =>
      hdr ++ dec (row + 1) ++ [32;124;32] ++ l ++ [10]
          ++ spaces (gutter_width row) ++ [32;124;32] ++ spaces cs
          ++ carets (if cs <? ce' then ce' - cs else 0) ++ [10]        (* Range::len saturates at 0 *)
  | None => hdr ++ missing_source ++ [10]
  end.

(* impl Display for ParseErrorDisplayPretty (parse_error.rs:136-169); panic site 3 = the slice.
   Since the fix "pretty display of a missing-syntax error cites its location" there is no special
   case for an empty byte range: the source is sliced and the excerpt printed for EVERY node (a
   zero-width node gets an empty column range, i.e. no carets). *)
Definition display_pretty (kt : pkind -> str) (path src : str) (k : pkind) (p : npos) : outcome unit str :=
  let head := kt k ++ [10] in
  obind (slice_bytes 3 src (np_start p) (np_end p)) (fun txt =>
  let start_column := np_col p in
  let end_column := np_col p + N.of_nat (length (until_nl txt)) in
  Ok (head ++ excerpt path src (np_row p) start_column end_column)).

(* well-formedness of the position data of a node w.r.t. the source it was parsed from: the byte
   range is ordered and both ends are character boundaries inside the source *)
Definition wf_pos (src : str) (p : npos) : bool :=
  (np_start p <=? np_end p) && is_boundary src (np_start p) && is_boundary src (np_end p).

(* "the text cites line and column": contains "{path}:{row+1}:{col+1}:" *)
Fixpoint is_prefix (a b : str) : bool :=
  match a, b with
  | [], _ => true
  | x :: a', y :: b' => (x =? y) && is_prefix a' b'
  | _ :: _, [] => false
  end.
Fixpoint contains (needle hay : str) : bool :=
  is_prefix needle hay || match hay with [] => false | _ :: r => contains needle r end.

(* ------------------------------------------------------------------ correspondence (harness) *)

Definition pkind_eqb (a b : pkind) : bool :=
  match a, b with KMissing, KMissing | KUnexpected, KUnexpected => true | _, _ => false end.
Definition perr_eqb (a b : perr) : bool := pkind_eqb (fst a) (fst b) && (snd a =? snd b).
Definition operr_eqb (a b : option perr) : bool :=
  match a, b with Some x, Some y => perr_eqb x y | None, None => true | _, _ => false end.

(* what the harness saw for one reported error: display texts (None = the call panicked) and whether
   the text cites "path:row+1:col+1:" (computed on the Rust side) *)
Record disp_obs := { d_plain : option str; d_pretty : option str; d_cites_plain : bool; d_cites_pretty : bool }.

Record c18_obs := {
  o_has_error : bool;                 (* tree.root_node().has_error() *)
  o_all : list perr;                  (* ParseError::all *)
  o_first : option perr;              (* ParseError::first *)
  o_into_all : list perr;             (* ParseError::into_all, read on another thread *)
  o_into_first : option perr;         (* ParseError::into_first, read on another thread *)
  o_moved_display_same : bool;        (* displays computed on the other thread equal the local ones *)
  o_pos : list (N * npos);            (* position data of every flagged node, by id *)
  o_disp : list disp_obs              (* one per element of o_all *)
}.

Fixpoint pos_lookup (i : N) (l : list (N * npos)) : option npos :=
  match l with [] => None | (j, p) :: r => if i =? j then Some p else pos_lookup i r end.

Definition outcome_matches (m : outcome unit str) (o : option str) : bool :=
  match m, o with
  | Ok s, Some s' => str_eqb s s'
  | Panic _, None => true
  | _, _ => false
  end.

(* verdict codes: 0 agree; 99 oracle assumption violated (a visible flagged node but !has_error()); 1 all; 2 first; 3 into_all; 4 into_first;
   12 a display of a reported error panicked (property-level failure); 5 plain display text differs from the model's; 6 pretty display text differs; 7 citation flags differ from the
   model's text; 8 model did not return Ok; 9 observation lists malformed; 10 moved display differs;
   11 a display of a reported error does not cite "path:row+1:col+1:" (property-level failure, judged on
   the flags computed by the harness from the real text, independently of the model) *)
Fixpoint disp_verdict (kt : pkind -> str) (path src : str) (pos : list (N * npos)) (l : list perr) (ds : list disp_obs) : N :=
  match l, ds with
  | [], [] => 0
  | (k, i) :: l', d :: ds' =>
      match pos_lookup i pos with
      | None => 9
      | Some p =>
          let mp := display_plain kt path src k p in
          let mq := display_pretty kt path src k p in
          (* property-level failures first, judged on the real text alone: a display panicked (12) or does not cite (11) *)
          if match d_plain d, d_pretty d with Some _, Some _ => false | _, _ => true end then 12
          else if negb (d_cites_plain d && d_cites_pretty d) then 11
          else if negb (outcome_matches mp (d_plain d)) then 5
          else if negb (outcome_matches mq (d_pretty d)) then 6
          else
            let c := cite path (np_row p) (np_col p) in
            let cp := match mp with Ok s => is_prefix c s | _ => false end in
            let cq := match mq with Ok s => contains c s | _ => false end in
            if negb (Bool.eqb cp (d_cites_plain d) && Bool.eqb cq (d_cites_pretty d)) then 7
            else disp_verdict kt path src pos l' ds'
      end
  | _, _ => 9
  end.

Definition c18_verdict (kt : pkind -> str) (t : ptree) (path src : str) (o : c18_obs) : N :=
  if negb (oracle_ok (o_has_error o) t) then 99
  else
    match pe_all (o_has_error o) (enough_fuel t) t, pe_first (o_has_error o) (enough_fuel t) t with
    | Ok l, Ok f =>
        if negb (list_eqb perr_eqb l (o_all o)) then 1
        else if negb (operr_eqb f (o_first o)) then 2
        else if negb (list_eqb perr_eqb l (o_into_all o)) then 3
        else if negb (operr_eqb f (o_into_first o)) then 4
        else if negb (o_moved_display_same o) then 10
        else disp_verdict kt path src (o_pos o) l (o_disp o)
    | _, _ => 8
    end.

(* printed in replay files *)
Definition c18_detail (kt : pkind -> str) (he : bool) (t : ptree) (path src : str) (pos : list (N * npos)) :=
  (any_flagged t, pe_all he (enough_fuel t) t, pe_first he (enough_fuel t) t,
   match pe_all he (enough_fuel t) t with
   | Ok l => map (fun '(k, i) => match pos_lookup i pos with
                                 | Some p => Some (display_plain kt path src k p, display_pretty kt path src k p)
                                 | None => None end) l
   | _ => []
   end).
