(* Model/Run.v — glue between generated correspondence cases and the interpreter models:
   canonical observations and verdict functions.  Definitions only. *)
From TSG Require Export Model.Strict Model.Regex Spec.RefSem.
From TSG Require Import Model.Stdlib.

(* canonical view of a graph: attributes sorted by name *)
Definition canon_attrs (m : amap) : amap := sort_alist m.
Definition canon_graph (g : graph) : list (amap * list (N * amap)) :=
  map (fun n => (canon_attrs (g_attrs n), map (fun e => (fst e, canon_attrs (snd e))) (g_edges n))) g.

Inductive expect :=
| XOk (g : list (amap * list (N * amap)))
| XErr (code : N)
| XPanic.

Definition kv_eqb (a b : ident * value) : bool := str_eqb (fst a) (fst b) && value_eqb (snd a) (snd b).
Definition amap_eqb (a b : amap) : bool := list_eqb kv_eqb a b.
Definition cgraph_eqb (a b : list (amap * list (N * amap))) : bool :=
  list_eqb (fun x y => amap_eqb (fst x) (fst y) &&
                       list_eqb (fun e f => N.eqb (fst e) (fst f) && amap_eqb (snd e) (snd f)) (snd x) (snd y)) a b.

(* verdict codes: 0 agree; 1 graphs differ; 2 model Ok / impl Err; 3 model Err / impl Ok;
   4 error variants differ; 5 model Panic / impl no panic; 6 impl panic / model no panic; 7 model out of fuel *)
Definition compare_outcome (m : outcome exec_error graph) (x : expect) : N :=
  match m, x with
  | Ok g, XOk g' => if cgraph_eqb (canon_graph g) g' then 0 else 1
  | Ok _, XErr _ => 2
  | Ok _, XPanic => 6
  | Err _, XOk _ => 3
  | Err e, XErr c => if N.eqb (error_code (root_cause e)) c then 0 else 4
  | Err _, XPanic => 6
  | Panic _, XPanic => 0
  | Panic _, _ => 5
  | OutOfFuel, _ => 7
  end.

(* the function library of the execution streams: the stdlib model; `replace` uses the regex model
   for the patterns listed in the case (non-nullable, without anchors, so that matching on the
   remaining suffix coincides with the crate's replace_all) *)
Fixpoint rx_replace_all (fuel : nat) (r : regex) (text rep : str) : str :=
  match fuel with
  | O => text
  | S f =>
      match rx_captures r text with
      | Some (Some (a, b) :: _) =>
          if N.ltb a b then firstn (N.to_nat a) text ++ rep ++ rx_replace_all f r (skipn (N.to_nat b) text) rep
          else text
      | _ => text
      end
  end.
Fixpoint rx_table_get (pat : str) (l : list (str * regex)) : option regex :=
  match l with [] => None | (p, r) :: l' => if str_eqb pat p then Some r else rx_table_get pat l' end.
Definition table_oracle (table : list (str * regex)) : regex_oracle :=
  fun text pat rep => match rx_table_get pat table with
                      | Some r => Some (rx_replace_all (S (length text)) r text rep)
                      | None => None
                      end.
Definition the_call (t : tree) (table : list (str * regex)) : ident -> graph -> list value -> res (value * graph) :=
  stdlib_call (table_oracle table) t.

Definition default_fuel : nat := 300.

Definition graph_of {E} (r : outcome E (sstate * polls)) : outcome E graph :=
  match r with Ok (s, _) => Ok (s_graph s) | Err e => Err e | Panic p => Panic p | OutOfFuel => OutOfFuel end.

(* both the implementation-shaped model and the reference semantics are compared with the implementation
   (code 8x: the reference disagrees although the model of strict.rs agrees) *)
Definition c01_verdict (t : tree) (fl : file) (rxs : list regex) (tbl : list (str * regex)) (supplied : globals) (matches : list (list qmatch)) (x : expect) : N :=
  match compare_outcome (graph_of (run_strict t fl config0 supplied None rxs rx_captures (the_call t tbl) default_fuel matches [])) x with
  | 0 => match compare_outcome (ref_run t fl supplied rxs rx_captures (the_call t tbl) default_fuel matches []) x with
         | 0 => 0 | c => 80 + c end
  | c => c
  end.
Definition c01_detail (t : tree) (fl : file) (rxs : list regex) (tbl : list (str * regex)) (supplied : globals) (matches : list (list qmatch)) :=
  match run_strict t fl config0 supplied None rxs rx_captures (the_call t tbl) default_fuel matches [] with
  | Ok (s, _) => Ok (canon_graph (s_graph s)) | Err e => Err e | Panic p => Panic p | OutOfFuel => OutOfFuel end.

(* ---- lazy runs ---- *)
From TSG Require Export Model.Lazy.
Definition lgraph_of {E} (r : outcome E (lstate * polls)) : outcome E graph :=
  match r with Ok (s, _) => Ok (l_graph s) | Err e => Err e | Panic p => Panic p | OutOfFuel => OutOfFuel end.
Definition lazy_verdict (t : tree) (fl : file) (rxs : list regex) (tbl : list (str * regex)) (supplied : globals) (matches : list (N * qmatch)) (x : expect) : N :=
  compare_outcome (lgraph_of (run_lazy t fl config0 supplied None rxs rx_captures (the_call t tbl) default_fuel matches [])) x.
Definition lazy_detail (t : tree) (fl : file) (rxs : list regex) (tbl : list (str * regex)) (supplied : globals) (matches : list (N * qmatch)) :=
  match run_lazy t fl config0 supplied None rxs rx_captures (the_call t tbl) default_fuel matches [] with
  | Ok (s, _) => Ok (canon_graph (l_graph s)) | Err e => Err e | Panic p => Panic p | OutOfFuel => OutOfFuel end.

(* ---- generic single run used by the history / cancellation / debug / error-context streams ---- *)
Record run_in := {
  ri_lazy : bool;
  ri_file : file;
  ri_rxs : list regex;
  ri_tbl : list (str * regex);
  ri_supplied : globals;
  ri_smatches : list (list qmatch);      (* per-stanza raw matches (strict) *)
  ri_lmatches : list (N * qmatch);       (* raw matches of the merged query (lazy) *)
}.
Definition run_one (t : tree) (cfg : config) (budget : option N) (r : run_in) (g0 : graph)
  : outcome exec_error (graph * polls) :=
  if ri_lazy r then
    match run_lazy t (ri_file r) cfg (ri_supplied r) budget (ri_rxs r) rx_captures (the_call t (ri_tbl r)) default_fuel (ri_lmatches r) g0 with
    | Ok (s, p) => Ok (l_graph s, p) | Err e => Err e | Panic x => Panic x | OutOfFuel => OutOfFuel end
  else
    match run_strict t (ri_file r) cfg (ri_supplied r) budget (ri_rxs r) rx_captures (the_call t (ri_tbl r)) default_fuel (ri_smatches r) g0 with
    | Ok (s, p) => Ok (s_graph s, p) | Err e => Err e | Panic x => Panic x | OutOfFuel => OutOfFuel end.
Definition drop_polls {E A} (r : outcome E (A * polls)) : outcome E A :=
  match r with Ok (a, _) => Ok a | Err e => Err e | Panic x => Panic x | OutOfFuel => OutOfFuel end.

(* C09: a history of execute_into calls on one graph; stops at the first failing call *)
Fixpoint run_history (t : tree) (runs : list run_in) (g : graph) : outcome exec_error graph :=
  match runs with
  | [] => Ok g
  | r :: rs => match drop_polls (run_one t config0 None r g) with
               | Ok g' => run_history t rs g'
               | other => other
               end
  end.
Definition c09_verdict (t : tree) (g0 : graph) (runs : list run_in) (x : expect) : N :=
  compare_outcome (run_history t runs g0) x.
Definition c09_detail (t : tree) (g0 : graph) (runs : list run_in) :=
  match run_history t runs g0 with Ok g => Ok (canon_graph g) | Err e => Err e | Panic x => Panic x | OutOfFuel => OutOfFuel end.

(* C11: result and poll-label trace without cancellation; cancellation at sampled poll indices *)
Definition c11_verdict (t : tree) (r : run_in) (impl_trace : list N) (x : expect) (samples : list (N * N)) : N :=
  let res := run_one t config0 None r [] in
  match compare_outcome (drop_polls res) x with
  | 0 =>
      let trace_ok := match res with
                      | Ok (_, p) => list_eqb N.eqb (rev (p_trace p)) impl_trace
                      | _ => true       (* a failing run has no final poll state in the model *)
                      end in
      if negb trace_ok then
        (* 12: for some label the implementation polled FEWER times than the model, whose polls are exactly one per unit of
           work of that kind (Props/C11.v, theorems polls_each_...): some unit of work ran unpolled -- a property-level failure;
           10: the traces differ in another way (order, extra polls) *)
        match res with
        | Ok (_, p) =>
            let mt := rev (p_trace p) in
            if existsb (fun l => Nat.ltb (length (filter (N.eqb l) impl_trace)) (length (filter (N.eqb l) mt))) mt then 12 else 10
        | _ => 10
        end
      else if forallb (fun kl : N * N =>
                         match run_one t config0 (Some (fst kl)) r [] with
                         | Err (ECancelled l) => N.eqb l (snd kl)
                         | _ => false
                         end) samples then 0 else 11
  | c => c
  end.
Definition c11_detail (t : tree) (r : run_in) :=
  match run_one t config0 None r [] with
  | Ok (g, p) => Ok (canon_graph g, rev (p_trace p)) | Err e => Err e | Panic x => Panic x | OutOfFuel => OutOfFuel end.

(* C15: debug attributes dbg_loc / dbg_var / dbg_match *)
Definition debug_cfg : config :=
  {| c_loc_attr := Some [100;98;103;95;108;111;99]; c_var_attr := Some [100;98;103;95;118;97;114];
     c_match_attr := Some [100;98;103;95;109;97;116;99;104] |}.
Definition c15_verdict (t : tree) (r : run_in) (x : expect) : N :=
  compare_outcome (drop_polls (run_one t debug_cfg None r [])) x.
Definition c15_detail (t : tree) (r : run_in) :=
  match drop_polls (run_one t debug_cfg None r []) with Ok g => Ok (canon_graph g) | Err e => Err e | Panic x => Panic x | OutOfFuel => OutOfFuel end.

(* C20: the outermost statement context(s) of an execution error:
   (statement location, stanza location, start position of the matched node, its kind) *)
Definition ctx_obs := (loc * loc * (N * N) * str)%type.
Definition ctx_view (t : tree) (c : stmt_ctx) : ctx_obs :=
  match node_at t (sc_node c) with
  | Some nd => (sc_stmt c, sc_stanza c, tn_start nd, tn_kind nd)
  | None => (sc_stmt c, sc_stanza c, (4294967295, 4294967295), [])
  end.
Definition outer_ctx (t : tree) (e : exec_error) : list ctx_obs :=
  match e with EInContext (CtxStmts l) _ => map (ctx_view t) l | _ => [] end.
Definition ctx_obs_eqb (a b : ctx_obs) : bool :=
  let '(s1, z1, p1, k1) := a in let '(s2, z2, p2, k2) := b in
  N.eqb (fst s1) (fst s2) && N.eqb (snd s1) (snd s2) && N.eqb (fst z1) (fst z2) && N.eqb (snd z1) (snd z2) &&
  N.eqb (fst p1) (fst p2) && N.eqb (snd p1) (snd p2) && str_eqb k1 k2.
(* codes: 0 agree; 2/3 success mismatch; 4 root cause differs; 20 context list differs; 21 model says bare Cancelled-like no context *)
Definition c20_verdict (t : tree) (r : run_in) (impl_code : N) (impl_ctx : list ctx_obs) : N :=
  match drop_polls (run_one t config0 None r []) with
  | Ok _ => 2
  | Err e => if negb (N.eqb (error_code (root_cause e)) impl_code) then 4
             else if list_eqb ctx_obs_eqb (outer_ctx t e) impl_ctx then 0 else 20
  | Panic _ => 5
  | OutOfFuel => 7
  end.
Definition c20_detail (t : tree) (r : run_in) :=
  match drop_polls (run_one t config0 None r []) with
  | Err e => Some (error_code (root_cause e), outer_ctx t e)
  | _ => None end.

(* C03 / C04: one program in both modes against both expectations *)
Definition with_lazy (r : run_in) (b : bool) : run_in :=
  {| ri_lazy := b; ri_file := ri_file r; ri_rxs := ri_rxs r; ri_tbl := ri_tbl r; ri_supplied := ri_supplied r;
     ri_smatches := ri_smatches r; ri_lmatches := ri_lmatches r |}.
Definition both_verdict (t : tree) (r : run_in) (xs xl : expect) : N :=
  match compare_outcome (drop_polls (run_one t config0 None (with_lazy r false) [])) xs with
  | 0 => match compare_outcome (drop_polls (run_one t config0 None (with_lazy r true) [])) xl with
         | 0 => 0 | c => 100 + c end
  | c => c
  end.
Definition both_detail (t : tree) (r : run_in) :=
  (match drop_polls (run_one t config0 None (with_lazy r false) []) with Ok g => Ok (canon_graph g) | Err e => Err e | Panic x => Panic x | OutOfFuel => OutOfFuel end,
   match drop_polls (run_one t config0 None (with_lazy r true) []) with Ok g => Ok (canon_graph g) | Err e => Err e | Panic x => Panic x | OutOfFuel => OutOfFuel end).

(* C05 (execution part): outcome of a run without debug attributes, either mode *)
Definition c15_verdict0 (t : tree) (r : run_in) (x : expect) : N :=
  compare_outcome (drop_polls (run_one t config0 None r [])) x.
Definition c15_detail0 (t : tree) (r : run_in) :=
  match drop_polls (run_one t config0 None r []) with Ok g => Ok (canon_graph g) | Err e => Err e | Panic x => Panic x | OutOfFuel => OutOfFuel end.
