(* Model/Run.v — glue between generated correspondence cases and the interpreter models:
   canonical observations and verdict functions.  Definitions only. *)
From TSG Require Export Model.Strict Model.Regex.
From TSG Require Import Model.Stdlib.

(* canonical view of a graph: attributes sorted by name *)
Definition canon_attrs (m : amap) : amap := sort_alist m.
Definition canon_graph (g : graph) : list (amap * list (N * amap)) :=
  map (fun n => (canon_attrs (g_attrs n), map (fun e => (fst e, canon_attrs (snd e))) (g_edges n))) g.

Inductive expect :=
| XOk (g : list (amap * list (N * amap)))
| XErr (code : N)
| XPanic.

Definition kv_eqb (a b : ident * value) : bool := str_eqb (fst a) (fst b) && value_eqb (snd a) (snd b).
Definition amap_eqb (a b : amap) : bool := list_eqb kv_eqb a b.
Definition cgraph_eqb (a b : list (amap * list (N * amap))) : bool :=
  list_eqb (fun x y => amap_eqb (fst x) (fst y) &&
                       list_eqb (fun e f => N.eqb (fst e) (fst f) && amap_eqb (snd e) (snd f)) (snd x) (snd y)) a b.

(* verdict codes: 0 agree; 1 graphs differ; 2 model Ok / impl Err; 3 model Err / impl Ok;
   4 error variants differ; 5 model Panic / impl no panic; 6 impl panic / model no panic; 7 model out of fuel *)
Definition compare_outcome (m : outcome exec_error graph) (x : expect) : N :=
  match m, x with
  | Ok g, XOk g' => if cgraph_eqb (canon_graph g) g' then 0 else 1
  | Ok _, XErr _ => 2
  | Ok _, XPanic => 6
  | Err _, XOk _ => 3
  | Err e, XErr c => if N.eqb (error_code (root_cause e)) c then 0 else 4
  | Err _, XPanic => 6
  | Panic _, XPanic => 0
  | Panic _, _ => 5
  | OutOfFuel, _ => 7
  end.

(* the function library of the execution streams: the stdlib model; `replace` uses the regex model
   for the patterns listed in the case (non-nullable, without anchors, so that matching on the
   remaining suffix coincides with the crate's replace_all) *)
Fixpoint rx_replace_all (fuel : nat) (r : regex) (text rep : str) : str :=
  match fuel with
  | O => text
  | S f =>
      match rx_captures r text with
      | Some (Some (a, b) :: _) =>
          if N.ltb a b then firstn (N.to_nat a) text ++ rep ++ rx_replace_all f r (skipn (N.to_nat b) text) rep
          else text
      | _ => text
      end
  end.
Fixpoint rx_table_get (pat : str) (l : list (str * regex)) : option regex :=
  match l with [] => None | (p, r) :: l' => if str_eqb pat p then Some r else rx_table_get pat l' end.
Definition table_oracle (table : list (str * regex)) : regex_oracle :=
  fun text pat rep => match rx_table_get pat table with
                      | Some r => Some (rx_replace_all (S (length text)) r text rep)
                      | None => None
                      end.
Definition the_call (t : tree) (table : list (str * regex)) : ident -> graph -> list value -> res (value * graph) :=
  stdlib_call (table_oracle table) t.

Definition default_fuel : nat := 300.

Definition graph_of {E} (r : outcome E (sstate * polls)) : outcome E graph :=
  match r with Ok (s, _) => Ok (s_graph s) | Err e => Err e | Panic p => Panic p | OutOfFuel => OutOfFuel end.

Definition c01_verdict (t : tree) (fl : file) (rxs : list regex) (tbl : list (str * regex)) (supplied : globals) (matches : list (list qmatch)) (x : expect) : N :=
  compare_outcome (graph_of (run_strict t fl config0 supplied None rxs rx_captures (the_call t tbl) default_fuel matches [])) x.
Definition c01_detail (t : tree) (fl : file) (rxs : list regex) (tbl : list (str * regex)) (supplied : globals) (matches : list (list qmatch)) :=
  match run_strict t fl config0 supplied None rxs rx_captures (the_call t tbl) default_fuel matches [] with
  | Ok (s, _) => Ok (canon_graph (s_graph s)) | Err e => Err e | Panic p => Panic p | OutOfFuel => OutOfFuel end.

(* ---- lazy runs ---- *)
From TSG Require Export Model.Lazy.
Definition lgraph_of {E} (r : outcome E (lstate * polls)) : outcome E graph :=
  match r with Ok (s, _) => Ok (l_graph s) | Err e => Err e | Panic p => Panic p | OutOfFuel => OutOfFuel end.
Definition lazy_verdict (t : tree) (fl : file) (rxs : list regex) (tbl : list (str * regex)) (supplied : globals) (matches : list (N * qmatch)) (x : expect) : N :=
  compare_outcome (lgraph_of (run_lazy t fl config0 supplied None rxs rx_captures (the_call t tbl) default_fuel matches [])) x.
Definition lazy_detail (t : tree) (fl : file) (rxs : list regex) (tbl : list (str * regex)) (supplied : globals) (matches : list (N * qmatch)) :=
  match run_lazy t fl config0 supplied None rxs rx_captures (the_call t tbl) default_fuel matches [] with
  | Ok (s, _) => Ok (canon_graph (l_graph s)) | Err e => Err e | Panic p => Panic p | OutOfFuel => OutOfFuel end.
