(* Model/C14Obs.v — correspondence verdict of property C14 (evaluated by vm_compute on harness cases).
   Inputs: the in-memory API view of the graph `g` (iter_nodes / iter_edges / Attributes::iter, attribute
   lists name-sorted, sets rebuilt with the model's set_of_list), the tables `E`, and the
   implementation's observations: `ij` = serde_json::to_value(&graph) as a json term (syntax-node ids
   canonicalised to preorder ids), `reparse_ok` = "to_string_pretty parses back to the same value"
   (serde_json against itself, computed by the harness), `text` = pretty_print().to_string(),
   `synset` = some Set (transitively) contains a syntax node: the implementation orders those by
   truncated address, so element order inside sets is not compared for such cases (DESIGN 4.3).
   Verdict = sum of:
     1  model JSON encoding <> implementation JSON (both with object members sorted by key)
     2  decode(implementation JSON) <> API view            (the property predicate)
     4  JSON text does not re-parse to the same value
     8  model pretty text <> implementation pretty text
    16  nodes/edges/attributes extracted from the implementation's pretty text <> API view *)
From TSG Require Export Model.Json Model.Pretty.

Definition c14_json_ok (g : graph) (ij : json) (synset : bool) : bool :=
  synset || json_eqb (jsort (encode_graph g)) (jsort ij).

Definition c14_decode_ok (g : graph) (ij : json) (synset : bool) : bool :=
  match decode_graph ij with
  | Some g' => graph_eqb (norm_graph synset g') (norm_graph synset g)
  | None => false
  end.

Definition c14_text_ok (E : penv) (g : graph) (text : str) (synset : bool) : bool :=
  synset || str_eqb (pretty_text E g) text.

Definition c14_extract_ok (E : penv) (g : graph) (text : str) (synset : bool) : bool :=
  match extract_lines (split_lines text) with
  | Some s => if synset then names_eqb (skel_names s) (skel_names (graph_skel E g))
              else skel_eqb s (graph_skel E g)
  | None => false
  end.

Definition c14_verdict (E : penv) (g : graph) (ij : json) (reparse_ok : bool) (text : str) (synset : bool) : N :=
  (if c14_json_ok g ij synset then 0 else 1) +
  (if c14_decode_ok g ij synset then 0 else 2) +
  (if reparse_ok then 0 else 4) +
  (if c14_text_ok E g text synset then 0 else 8) +
  (if c14_extract_ok E g text synset then 0 else 16).

(* what the model says (printed into replay files) *)
Definition c14_detail (E : penv) (g : graph) : json * list str := (jsort (encode_graph g), pretty_lines E g).
