(* Model/Json.v — graph.rs `Serialize` impls (Graph, SerializeGraphNode, SerializeGraphNodeEdges/Edge,
   Attributes, Value) as producers of a JSON *tree*, and a decoder that looks members up BY KEY.
   serde_json's text rendering (to_string_pretty) is modelled in Model/JsonText.v; its own parser is outside the model.
   Panic sites: none reachable.  The Serialize impls only call serialize_seq/serialize_map/
   serialize_entry/end and propagate errors with `?`; display_json unwraps to_string_pretty, which
   cannot fail here (every map key is a string: literal keys and Identifier, serialised with
   serialize_str).  The encoder is therefore a total function to json trees.
   Definitions only. *)
From TSG Require Export Model.Graph.

Inductive json : Type :=
| JNull
| JBool (b : bool)
| JNum (n : N)
| JStr (s : str)
| JArr (l : list json)
| JObj (members : list (str * json)).     (* members in emission order *)

(* ---- the literal strings of the Serialize impls ---- *)
Definition s_id : str := [105;100].                                        (* "id" *)
Definition s_edges : str := [101;100;103;101;115].                         (* "edges" *)
Definition s_attrs : str := [97;116;116;114;115].                          (* "attrs" *)
Definition s_sink : str := [115;105;110;107].                              (* "sink" *)
Definition s_type : str := [116;121;112;101].                              (* "type" *)
Definition s_values : str := [118;97;108;117;101;115].                     (* "values" *)
Definition s_null : str := [110;117;108;108].                              (* "null" *)
Definition s_bool : str := [98;111;111;108].                               (* "bool" *)
Definition s_int : str := [105;110;116].                                   (* "int" *)
Definition s_string : str := [115;116;114;105;110;103].                    (* "string" *)
Definition s_list : str := [108;105;115;116].                              (* "list" *)
Definition s_set : str := [115;101;116].                                   (* "set" *)
Definition s_syntaxNode : str := [115;121;110;116;97;120;78;111;100;101].  (* "syntaxNode" *)
Definition s_graphNode : str := [103;114;97;112;104;78;111;100;101].       (* "graphNode" *)

(* ---- encoder: impl Serialize for Value (graph.rs:586-638) ---- *)
Definition type_name (v : value) : str :=
  match v with
  | VNull => s_null | VBool _ => s_bool | VInt _ => s_int | VStr _ => s_string
  | VList _ => s_list | VSet _ => s_set | VSyn _ => s_syntaxNode | VGraph _ => s_graphNode
  end.

Fixpoint encode_value (v : value) : json :=
  match v with
  | VNull => JObj [(s_type, JStr s_null)]
  | VBool b => JObj [(s_type, JStr s_bool); (s_bool, JBool b)]
  | VInt n => JObj [(s_type, JStr s_int); (s_int, JNum n)]
  | VStr s => JObj [(s_type, JStr s_string); (s_string, JStr s)]
  | VList l => JObj [(s_type, JStr s_list); (s_values, JArr (map encode_value l))]
  | VSet l => JObj [(s_type, JStr s_set); (s_values, JArr (map encode_value l))]   (* BTreeSet iterates ascending = the model's list order *)
  | VSyn n => JObj [(s_type, JStr s_syntaxNode); (s_id, JNum n)]                   (* node.index; canonicalised to the preorder id by the harness *)
  | VGraph n => JObj [(s_type, JStr s_graphNode); (s_id, JNum n)]
  end.

(* impl Serialize for Attributes: one member per entry, in HashMap iteration order.  The model emits
   them in association-list order; every theorem is stated up to permutation of object members. *)
Definition encode_attrs (m : amap) : json :=
  JObj (map (fun kv => (fst kv, encode_value (snd kv))) m).

(* SerializeGraphNodeEdge: {"sink": .., "attrs": ..} *)
Definition encode_edge (e : N * amap) : json :=
  JObj [(s_sink, JNum (fst e)); (s_attrs, encode_attrs (snd e))].

(* SerializeGraphNode(index, node): {"id": index, "edges": [..], "attrs": {..}} *)
Definition encode_node (i : N) (n : gnode) : json :=
  JObj [(s_id, JNum i); (s_edges, JArr (map encode_edge (g_edges n))); (s_attrs, encode_attrs (g_attrs n))].

Fixpoint encode_nodes (i : N) (g : list gnode) : list json :=
  match g with
  | [] => []
  | n :: g' => encode_node i n :: encode_nodes (i + 1) g'
  end.

(* impl Serialize for Graph: a sequence with one element per graph node, in index order *)
Definition encode_graph (g : graph) : json := JArr (encode_nodes 0 g).

(* ---- decoder (lookup by key: insensitive to the order of object members) ---- *)
Fixpoint jlookup (k : str) (m : list (str * json)) : option json :=
  match m with
  | [] => None
  | (k', x) :: m' => if str_eqb k k' then Some x else jlookup k m'
  end.

(* lookup + continuation; written like List.map (outer fun, inner fix) so that it can be used with a
   recursive call of the enclosing Fixpoint as the continuation *)
Definition jlookup_with {A} (k : str) (f : json -> option A) : list (str * json) -> option A :=
  fix go (m : list (str * json)) : option A :=
    match m with
    | [] => None
    | (k', x) :: m' => if str_eqb k k' then f x else go m'
    end.

Fixpoint opt_all {A} (l : list (option A)) : option (list A) :=
  match l with
  | [] => Some []
  | None :: _ => None
  | Some a :: l' => match opt_all l' with Some r => Some (a :: r) | None => None end
  end.

Definition as_jbool (x : json) : option value := match x with JBool b => Some (VBool b) | _ => None end.
Definition as_jint (x : json) : option value := match x with JNum n => Some (VInt n) | _ => None end.
Definition as_jstr (x : json) : option value := match x with JStr s => Some (VStr s) | _ => None end.
Definition as_jsyn (x : json) : option value := match x with JNum n => Some (VSyn n) | _ => None end.
Definition as_jgraph (x : json) : option value := match x with JNum n => Some (VGraph n) | _ => None end.

Fixpoint decode_value (j : json) : option value :=
  match j with
  | JObj m =>
      match jlookup s_type m with
      | Some (JStr t) =>
          if str_eqb t s_null then Some VNull
          else if str_eqb t s_bool then jlookup_with s_bool as_jbool m
          else if str_eqb t s_int then jlookup_with s_int as_jint m
          else if str_eqb t s_string then jlookup_with s_string as_jstr m
          else if str_eqb t s_list then
            jlookup_with s_values (fun x => match x with
                                            | JArr l => option_map VList (opt_all (map decode_value l))
                                            | _ => None end) m
          else if str_eqb t s_set then
            jlookup_with s_values (fun x => match x with
                                            | JArr l => option_map VSet (opt_all (map decode_value l))
                                            | _ => None end) m
          else if str_eqb t s_syntaxNode then jlookup_with s_id as_jsyn m
          else if str_eqb t s_graphNode then jlookup_with s_id as_jgraph m
          else None
      | _ => None
      end
  | _ => None
  end.

Definition decode_member (kv : str * json) : option (ident * value) :=
  match decode_value (snd kv) with Some v => Some (fst kv, v) | None => None end.

(* the attribute map, members in the order they appear in the object *)
Definition decode_attrs (j : json) : option amap :=
  match j with
  | JObj m => opt_all (map decode_member m)
  | _ => None
  end.

Definition decode_edge (j : json) : option (N * amap) :=
  match j with
  | JObj m =>
      match jlookup s_sink m, jlookup s_attrs m with
      | Some (JNum s), Some a => match decode_attrs a with Some a' => Some (s, a') | None => None end
      | _, _ => None
      end
  | _ => None
  end.

(* a node object must carry its own position as "id" *)
Definition decode_node (i : N) (j : json) : option gnode :=
  match j with
  | JObj m =>
      match jlookup s_id m, jlookup s_edges m, jlookup s_attrs m with
      | Some (JNum i'), Some (JArr es), Some a =>
          if N.eqb i' i then
            match opt_all (map decode_edge es), decode_attrs a with
            | Some es', Some a' => Some {| g_attrs := a'; g_edges := es' |}
            | _, _ => None
            end
          else None
      | _, _, _ => None
      end
  | _ => None
  end.

Fixpoint decode_nodes (i : N) (l : list json) : option graph :=
  match l with
  | [] => Some []
  | j :: l' =>
      match decode_node i j, decode_nodes (i + 1) l' with
      | Some n, Some g => Some (n :: g)
      | _, _ => None
      end
  end.

Definition decode_graph (j : json) : option graph :=
  match j with JArr l => decode_nodes 0 l | _ => None end.

(* ---- canonical forms used by the correspondence verdict ---- *)
(* object members sorted by key, recursively (object member order is not part of the graph) *)
Fixpoint jsort (j : json) : json :=
  match j with
  | JArr l => JArr (map jsort l)
  | JObj m => JObj (sort_by (fun a b => str_ltb (fst a) (fst b)) (map (fun kv => (fst kv, jsort (snd kv))) m))
  | _ => j
  end.

Fixpoint json_eqb (a b : json) {struct a} : bool :=
  match a, b with
  | JNull, JNull => true
  | JBool x, JBool y => Bool.eqb x y
  | JNum x, JNum y => N.eqb x y
  | JStr x, JStr y => str_eqb x y
  | JArr x, JArr y =>
      (fix go (x y : list json) {struct x} : bool :=
         match x, y with
         | [], [] => true
         | u :: x', w :: y' => json_eqb u w && go x' y'
         | _, _ => false
         end) x y
  | JObj x, JObj y =>
      (fix go (x y : list (str * json)) {struct x} : bool :=
         match x, y with
         | [], [] => true
         | (k, u) :: x', (k', w) :: y' => str_eqb k k' && json_eqb u w && go x' y'
         | _, _ => false
         end) x y
  | _, _ => false
  end.

(* graphs: attribute lists name-sorted; optionally every set re-sorted with the model's order
   (the implementation orders syntax nodes inside sets by truncated address, see DESIGN 4.3) *)
Fixpoint norm_sets (v : value) : value :=
  match v with
  | VList l => VList (map norm_sets l)
  | VSet l => VSet (set_of_list (map norm_sets l))
  | _ => v
  end.
Definition norm_amap (resort : bool) (m : amap) : amap :=
  sort_alist (map (fun kv => (fst kv, if resort then norm_sets (snd kv) else snd kv)) m).
Definition norm_gnode (resort : bool) (n : gnode) : gnode :=
  {| g_attrs := norm_amap resort (g_attrs n);
     g_edges := map (fun e => (fst e, norm_amap resort (snd e))) (g_edges n) |}.
Definition norm_graph (resort : bool) (g : graph) : graph := map (norm_gnode resort) g.

Definition amap_eqb (a b : amap) : bool :=
  list_eqb (fun x y => str_eqb (fst x) (fst y) && value_eqb (snd x) (snd y)) a b.
Definition gnode_eqb (a b : gnode) : bool :=
  amap_eqb (g_attrs a) (g_attrs b) &&
  list_eqb (fun x y => N.eqb (fst x) (fst y) && amap_eqb (snd x) (snd y)) (g_edges a) (g_edges b).
Definition graph_eqb (a b : graph) : bool := list_eqb gnode_eqb a b.
