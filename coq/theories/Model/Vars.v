(* Model/Vars.v — variables.rs: Globals (public `Variables`) and VariableMap (nested, mutable). *)
From TSG Require Export Model.Value.

(* Globals<'a>: a chain of immutable-by-children maps; head = innermost. *)
Definition gframe := list (ident * value).
Definition globals := list gframe.                  (* non-empty in use; head = self, tail = context chain *)

Fixpoint globals_get (g : globals) (k : ident) : option value :=
  match g with
  | [] => None
  | f :: up => match alist_get k f with Some v => Some v | None => globals_get up k end
  end.
(* add: Err(VariableAlreadyDefined) iff the name is in *this* map (outer bindings can be shadowed) *)
Definition globals_add (g : globals) (k : ident) (v : value) : globals * bool :=
  match g with
  | [] => ([], false)
  | f :: up => match alist_get k f with
               | Some _ => (g, false)
               | None => ((f ++ [(k, v)]) :: up, true)
               end
  end.
Definition globals_remove (g : globals) (k : ident) : globals :=
  match g with [] => [] | f :: up => alist_remove k f :: up end.
Definition globals_clear (g : globals) : globals :=
  match g with [] => [] | _ :: up => [] :: up end.
Definition globals_is_empty (g : globals) : bool :=
  match g with [] => true | f :: _ => match f with [] => true | _ => false end end.
Definition globals_iter (g : globals) : list (ident * value) :=
  match g with [] => [] | f :: _ => sort_alist f end.
Definition globals_nested (g : globals) : globals := [] :: g.

(* VariableMap<'a, V>: nested mutable environments; head = innermost frame. *)
Section VarMap.
  Context {V : Type}.
  Definition vframe := list (ident * (V * bool)).   (* value, mutable *)
  Definition varmap := list vframe.

  Fixpoint varmap_get (m : varmap) (k : ident) : option V :=
    match m with
    | [] => None
    | f :: up => match alist_get k f with Some (v, _) => Some v | None => varmap_get up k end
    end.
  Inductive var_error := VarAlreadyDefined | VarUndefined | VarImmutable.
  Definition varmap_add (m : varmap) (k : ident) (v : V) (mutable : bool) : varmap + var_error :=
    match m with
    | [] => inr VarUndefined
    | f :: up => match alist_get k f with
                 | Some _ => inr VarAlreadyDefined
                 | None => inl ((f ++ [(k, (v, mutable))]) :: up)
                 end
    end.
  Fixpoint varmap_set (m : varmap) (k : ident) (v : V) : varmap + var_error :=
    match m with
    | [] => inr VarUndefined
    | f :: up => match alist_get k f with
                 | Some (_, true) => inl (alist_set k (v, true) f :: up)
                 | Some (_, false) => inr VarImmutable
                 | None => match varmap_set up k v with
                           | inl up' => inl (f :: up')
                           | inr e => inr e
                           end
                 end
    end.
  Definition varmap_clear (m : varmap) : varmap := match m with [] => [] | _ :: up => [] :: up end.
End VarMap.
Arguments vframe : clear implicits.
Arguments varmap : clear implicits.
