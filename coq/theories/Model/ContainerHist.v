(* Model/ContainerHist.v — histories (operation lists) over the concrete containers, run with `fold_left`:
   a generic history runner, the operation language of ONE graph node's edge vector (graph.rs: GraphNode
   add_edge / get_edge / get_edge_mut / iter_edges / edge_count on the sorted SmallVec) and the operation language
   of the crate-internal nested `VariableMap` (variables.rs).  Executable definitions only. *)
From TSG Require Export Model.ContainerOps.

(* ---- generic: run a history, collecting the outputs in order ---- *)
Section Run.
  Context {S O R : Type} (step : S -> O -> S * R).
  Definition run_acc (acc : S * list R) (o : O) : S * list R :=
    let '(s', r) := step (fst acc) o in (s', snd acc ++ [r]).
  Definition run (s : S) (ops : list O) : S * list R := fold_left run_acc ops (s, []).
End Run.

(* ---- the edge vector of one graph node ---- *)
Inductive eop :=
| EAdd (sink : N)                                  (* add_edge: Ok(new) = true / Err(existing) = false *)
| EGet (sink : N)                                  (* get_edge(..).is_some() *)
| EAttrAdd (sink : N) (k : ident) (v : value)      (* get_edge_mut(sink).attributes.add(k, v) *)
| EAttrGet (sink : N) (k : ident)                  (* get_edge(sink).attributes.get(k) *)
| EAttrIter (sink : N)
| EIter                                            (* iter_edges: the sinks in iteration order *)
| ECount.                                          (* edge_count *)

(* exactly the edge arms of `cstep`, for a fixed (in-range) source node *)
Definition estep (es : edges) (o : eop) : edges * cres :=
  match o with
  | EAdd b => let '(isnew, es') := edges_add b es in (es', RBool isnew)
  | EGet b => (es, RBool (match edges_get b es with Some _ => true | None => false end))
  | EAttrAdd b k v =>
      match edges_get b es with
      | Some m => let '(m', c) := attrs_add m k v in (edges_set b m' es, RAddAttr c)
      | None => (es, RNoEdge)
      end
  | EAttrGet b k =>
      match edges_get b es with
      | Some m => (es, ROptVal (attrs_get m k))
      | None => (es, RNoEdge)
      end
  | EAttrIter b =>
      match edges_get b es with
      | Some m => (es, RAttrs (sort_alist m))
      | None => (es, RNoEdge)
      end
  | EIter => (es, RNodes (map fst es))
  | ECount => (es, RCount (N.of_nat (length es)))
  end.

(* the edge operation on source node `a` as an operation of the public language *)
Definition eop_cop (a : N) (o : eop) : cop :=
  match o with
  | EAdd b => OAddEdge a b
  | EGet b => OGetEdge a b
  | EAttrAdd b k v => OEdgeAttrAdd a b k v
  | EAttrGet b k => OEdgeAttrGet a b k
  | EAttrIter b => OEdgeAttrIter a b
  | EIter => OIterEdges a
  | ECount => OEdgeCount a
  end.

(* ---- the nested VariableMap ---- *)
Section VarOps.
  Context {V : Type}.
  Inductive vop :=
  | VNested                                  (* VariableMap::nested(&mut current) *)
  | VPop                                     (* the nested map goes out of scope *)
  | VAdd (k : ident) (v : V) (mutable : bool)
  | VSet (k : ident) (v : V)
  | VGet (k : ident)
  | VClear.
  Inductive vres :=
  | VRUnit
  | VROk
  | VRErr (e : var_error)
  | VRVal (o : option V)
  | VRSkipped.                               (* pop of the outermost map: not an operation of the API *)

  Definition vstep (m : varmap V) (o : vop) : varmap V * vres :=
    match o with
    | VNested => ([] :: m, VRUnit)
    | VPop => match m with _ :: (_ :: _) as up => (up, VRUnit) | _ => (m, VRSkipped) end
    | VAdd k v b => match varmap_add m k v b with inl m' => (m', VROk) | inr e => (m, VRErr e) end
    | VSet k v => match varmap_set m k v with inl m' => (m', VROk) | inr e => (m, VRErr e) end
    | VGet k => (m, VRVal (varmap_get m k))
    | VClear => (varmap_clear m, VRUnit)
    end.
End VarOps.
Arguments vop : clear implicits.
Arguments vres : clear implicits.
