(* Model/LoadErrOf.v — the load error (Model/LoadErrRender.v) of an error value of the parser model and of the checker
   model: variant number and location exactly as the correspondence streams C07/C05p (`error_obs`) and C06
   (`ce_variant`, `ce_loc`) compare them with the implementation.  Definitions only. *)
From TSG Require Export Model.LoadErrRender.
From TSG Require Import Model.Parser Model.Checker.

Definition load_error_of_parse (e : Parser.parse_error) : load_error :=
  let '(v, l, _) := Parser.error_obs e in LParse v l.
Definition load_error_of_check (e : Checker.check_error) : load_error :=
  LCheck (Checker.ce_variant e) (Checker.ce_loc e).
