(* Model/Parser.v — parser.rs: the recursive-descent parser of the graph DSL, as written.

   Text = list of code points.  The parser state holds the remaining characters, the BYTE offset
   (advanced by an explicit utf8_len, as `ch.len_utf8()`), and the location (row, column counted in
   characters).  Every `unwrap()`/`expect()` is an explicit `RPanic site`; every loop takes fuel
   (the Section variable F; recursion depth of parse_expression / parse_statement is a separate
   fuel argument initialised to F).  That RFuel/RPanic are impossible is proved in Proofs/Parser.v.

   Externals (never axioms): record `ext`
     x_alpha / x_alnum / x_ws : char::is_alphabetic / is_alphanumeric / is_whitespace on NON-ASCII
                                code points (ASCII is defined here);
     x_query start end        : tree-sitter's verdict on source[start..end] ++ "@__tsg__full_match",
                                keyed by the byte span that the model's own skip_query computes;
     x_merged src             : does the merged file query compile (Query::new(..).unwrap() at the end);
     x_regex pat              : Regex::new(pat).is_ok();
     x_print                  : <str as Debug> on NON-ASCII code points: printed verbatim (true) or as \u{..} (the table
                                `Pretty.pe_print`); only read by `display_variable` (Model/VarDisplay.v) for the text field of
                                `SNode` — the real AST has no such field, harness/src/dump.rs fills it with
                                `format!("{}", node)`, which is what the interpreters print into the debug attribute.
   A `None` answer of x_query / x_merged / x_regex is RMiss (ORACLE_MISS), never an agreement.

   Definitions only. *)
From TSG Require Export Model.Ast Model.VarDisplay.

(* ------------------------------------------------------------------ characters *)
Definition utf8_len (c : N) : N :=
  if c <? 128 then 1 else if c <? 2048 then 2 else if c <? 65536 then 3 else 4.

Definition ascii_alpha (c : N) : bool := ((65 <=? c) && (c <=? 90)) || ((97 <=? c) && (c <=? 122)).
Definition ascii_digit (c : N) : bool := (48 <=? c) && (c <=? 57).          (* char::is_ascii_digit *)
Definition ascii_ws (c : N) : bool := ((9 <=? c) && (c <=? 13)) || (c =? 32).

Inductive qverdict :=
| QOk (patterns : N) (full_match : option N)   (* pattern_count, capture_index_for_name(FULL_MATCH) *)
| QErr (row col off : N).                      (* QueryError position relative to the query text *)

Record ext := {
  x_alpha : N -> bool;
  x_alnum : N -> bool;
  x_ws : N -> bool;
  x_query : N -> N -> option qverdict;
  x_merged : str -> option bool;
  x_regex : str -> option bool;
  x_print : list (N * bool);
}.

(* ------------------------------------------------------------------ errors, state, monad *)
Inductive parse_error :=
| PEExpectedQuantifier (l : loc)
| PEExpectedToken (tok : str) (l : loc)
| PEExpectedVariable (l : loc)
| PEExpectedUnscopedVariable (l : loc)
| PEInvalidRegex (pat : str) (l : loc)
| PEInvalidIntegerConstant (l : loc)
| PEInvalidRegexCapture (l : loc)
| PEQueryError (row col off : N)
| PEUnexpectedCharacter (ch : N) (within : str) (l : loc)
| PEUnexpectedEOF (l : loc)
| PEUnexpectedKeyword (kw : str) (l : loc)
| PEUnexpectedLiteral (lit : str) (l : loc)
| PEUnexpectedQueryPatterns (l : loc).

Record pst := {
  p_rest : list N;      (* self.chars (remaining characters) *)
  p_off : N;            (* self.offset, bytes *)
  p_row : N;            (* self.location.row *)
  p_col : N;            (* self.location.column, characters *)
  p_pats : list str;    (* scan-arm patterns compiled so far, newest first (observation only) *)
}.
Definition p_loc (s : pst) : loc := (p_row s, p_col s).

(* next(): offset += len_utf8; Location::advance *)
Definition advance (s : pst) (c : N) (r : list N) : pst :=
  {| p_rest := r; p_off := p_off s + utf8_len c;
     p_row := if c =? 10 then p_row s + 1 else p_row s;
     p_col := if c =? 10 then 0 else p_col s + 1;
     p_pats := p_pats s |}.

Inductive pr (A : Type) : Type :=
| ROk (a : A) (s : pst) | RErr (e : parse_error) | RPanic (site : N) | RFuel | RMiss.
Arguments ROk {A} a s.
Arguments RErr {A} e.
Arguments RPanic {A} site.
Arguments RFuel {A}.
Arguments RMiss {A}.

Definition M (A : Type) := pst -> pr A.
Definition ret {A} (a : A) : M A := fun s => ROk a s.
Definition fail {A} (e : parse_error) : M A := fun _ => RErr e.
Definition bind {A B} (m : M A) (f : A -> M B) : M B := fun s =>
  match m s with
  | ROk a s' => f a s' | RErr e => RErr e | RPanic n => RPanic n | RFuel => RFuel | RMiss => RMiss
  end.
Notation "x <- m ;; k" := (bind m (fun x => k)) (at level 61, m at next level, right associativity).
Notation "m ;;; k" := (bind m (fun _ => k)) (at level 61, right associativity).

(* `if let Ok(_) = m { th } else { el }` for an m that does not change the state when it fails
   (consume_token / consume_keyword: the check precedes the consumption) *)
Definition if_ok {A B} (m : M A) (th el : M B) : M B := fun s =>
  match m s with
  | ROk _ s' => th s' | RErr _ => el s | RPanic n => RPanic n | RFuel => RFuel | RMiss => RMiss
  end.

Definition get_loc : M loc := fun s => ROk (p_loc s) s.
Definition get_off : M N := fun s => ROk (p_off s) s.
Definition peek : M N := fun s =>
  match p_rest s with [] => RErr (PEUnexpectedEOF (p_loc s)) | c :: _ => ROk c s end.
Definition try_peek : M (option N) := fun s => ROk (hd_error (p_rest s)) s.
Definition next : M N := fun s =>
  match p_rest s with [] => RErr (PEUnexpectedEOF (p_loc s)) | c :: r => ROk c (advance s c r) end.
(* self.skip().unwrap() *)
Definition skip_unwrap (site : N) : M unit := fun s =>
  match next s with ROk _ s' => ROk tt s' | RErr _ => RPanic site | RPanic n => RPanic n | RFuel => RFuel | RMiss => RMiss end.

(* self.try_peek() == Some(c) *)
Definition peek_is (c : N) (s : pst) : bool := match p_rest s with x :: _ => x =? c | [] => false end.

Fixpoint starts_with (tok rest : list N) : bool :=
  match tok, rest with
  | [], _ => true
  | t :: tok', c :: rest' => (t =? c) && starts_with tok' rest'
  | _ :: _, [] => false
  end.

(* ------------------------------------------------------------------ tokens and texts of the source *)
Definition t_attribute : str := [97; 116; 116; 114; 105; 98; 117; 116; 101].
Definition t_global : str := [103; 108; 111; 98; 97; 108].
Definition t_inherit : str := [105; 110; 104; 101; 114; 105; 116].
Definition t_dot : str := [46].
Definition t_eq : str := [61].
Definition t_arrow2 : str := [61; 62].                   (* => *)
Definition t_lbrace : str := [123].
Definition t_rbrace : str := [125].
Definition t_let : str := [108; 101; 116].
Definition t_var : str := [118; 97; 114].
Definition t_set : str := [115; 101; 116].
Definition t_node : str := [110; 111; 100; 101].
Definition t_edge : str := [101; 100; 103; 101].
Definition t_attr : str := [97; 116; 116; 114].
Definition t_print : str := [112; 114; 105; 110; 116].
Definition t_scan : str := [115; 99; 97; 110].
Definition t_if : str := [105; 102].
Definition t_for : str := [102; 111; 114].
Definition t_arrow : str := [45; 62].                    (* -> *)
Definition t_lparen : str := [40].
Definition t_rparen : str := [41].
Definition t_comma : str := [44].
Definition t_elif : str := [101; 108; 105; 102].
Definition t_else : str := [101; 108; 115; 101].
Definition t_in : str := [105; 110].
Definition t_some : str := [115; 111; 109; 101].
Definition t_none : str := [110; 111; 110; 101].
Definition t_quote : str := [34].
Definition t_lbrack : str := [91].
Definition t_rbrack : str := [93].
Definition t_at : str := [64].
Definition t_hash : str := [35].
Definition t_dollar : str := [36].
Definition t_false : str := [102; 97; 108; 115; 101].
Definition t_null : str := [110; 117; 108; 108].
Definition t_true : str := [116; 114; 117; 101].
Definition t_cond : str :=                               (* "(some|none)? EXPRESSION" *)
  [40; 115; 111; 109; 101; 124; 110; 111; 110; 101; 41; 63; 32; 69; 88; 80; 82; 69; 83; 83; 73; 79; 78].
Definition w_keyword : str := [107; 101; 121; 119; 111; 114; 100].
Definition w_global : str := [103; 108; 111; 98; 97; 108; 32; 118; 97; 114; 105; 97; 98; 108; 101].
Definition w_shorthand : str := [115; 104; 111; 114; 116; 104; 97; 110; 100; 32; 110; 97; 109; 101].
Definition w_inherit : str := [105; 110; 104; 101; 114; 105; 116].
Definition w_variable : str := [118; 97; 114; 105; 97; 98; 108; 101; 32; 110; 97; 109; 101].
Definition w_scoped : str :=
  [115; 99; 111; 112; 101; 100; 32; 118; 97; 114; 105; 97; 98; 108; 101; 32; 110; 97; 109; 101].
Definition w_function : str := [102; 117; 110; 99; 116; 105; 111; 110; 32; 110; 97; 109; 101].
Definition w_capture : str := [113; 117; 101; 114; 121; 32; 99; 97; 112; 116; 117; 114; 101].
Definition w_literal : str := [108; 105; 116; 101; 114; 97; 108].
Definition w_attribute : str := [97; 116; 116; 114; 105; 98; 117; 116; 101; 32; 110; 97; 109; 101].
Definition w_expression : str := [101; 120; 112; 114; 101; 115; 115; 105; 111; 110].
Definition full_match_suffix : str :=                    (* "@" + FULL_MATCH *)
  [64; 95; 95; 116; 115; 103; 95; 95; 102; 117; 108; 108; 95; 109; 97; 116; 99; 104].

Definition usize_max : N := 18446744073709551615.        (* 64-bit target *)

(* uN::from_str_radix(digits, 10) on a string of ASCII digits: Err on "" and on overflow *)
Fixpoint digits_value (s : str) (a : N) : N :=
  match s with [] => a | d :: s' => digits_value s' (10 * a + (d - 48)) end.
Definition from_str_radix10 (max : N) (s : str) : option N :=
  match s with
  | [] => None
  | _ => let v := digits_value s 0 in if v <=? max then Some v else None
  end.

Definition expr_as_variable (e : expr) : option variable :=
  match e with
  | EUnscoped n l => Some (VarU n l)
  | EScoped sc n l => Some (VarS sc n l)
  | _ => None
  end.

(* ------------------------------------------------------------------ the parser *)
Section Parser.
  Variable X : ext.
  Variable F : nat.          (* fuel: bound on the iterations of every loop and on recursion depth *)

  Definition is_alphabetic (c : N) : bool := if c <? 128 then ascii_alpha c else x_alpha X c.
  Definition is_alphanumeric (c : N) : bool :=
    if c <? 128 then ascii_alpha c || ascii_digit c else x_alnum X c.
  Definition is_whitespace (c : N) : bool := if c <? 128 then ascii_ws c else x_ws X c.
  Definition is_ident_start (c : N) : bool := (c =? 95) || is_alphabetic c.
  Definition is_ident (c : N) : bool := (c =? 95) || (c =? 45) || is_alphanumeric c.

  (* consume_whitespace: whitespace and `;` comments up to the end of the line *)
  Fixpoint ws_loop (k : nat) (in_comment : bool) (s : pst) {struct k} : pr unit :=
    match k with
    | O => RFuel
    | S k' =>
      match p_rest s with
      | [] => ROk tt s
      | ch :: _ =>
        if in_comment then (skip_unwrap 1 ;;; ws_loop k' (negb (ch =? 10))) s
        else if ch =? 59 then (skip_unwrap 1 ;;; ws_loop k' true) s
        else if negb (is_whitespace ch) then ROk tt s
        else (skip_unwrap 1 ;;; ws_loop k' false) s
      end
    end.
  Definition consume_whitespace : M unit := ws_loop F false.

  (* consume_while(f); returns the consumed characters (= the source slice the callers take) *)
  Fixpoint while_loop (f : N -> bool) (k : nat) (s : pst) {struct k} : pr (list N) :=
    match k with
    | O => RFuel
    | S k' =>
      match p_rest s with
      | [] => ROk [] s
      | ch :: _ =>
        if f ch then (skip_unwrap 2 ;;; l <- while_loop f k' ;; ret (ch :: l)) s else ROk [] s
      end
    end.
  Definition consume_while (f : N -> bool) : M (list N) := while_loop f F.

  Fixpoint consume_n (count : nat) : M unit :=
    match count with O => ret tt | S c => next ;;; consume_n c end.

  (* token.len() is a byte count used as a character count; all tokens are ASCII *)
  Definition consume_token (tok : str) : M unit := fun s =>
    if starts_with tok (p_rest s) then consume_n (length tok) s
    else RErr (PEExpectedToken tok (p_loc s)).

  Definition consume_keyword (kw : str) : M unit := fun s =>
    if starts_with kw (p_rest s)
       && negb (match skipn (length kw) (p_rest s) with c :: _ => is_ident c | [] => false end)
    then consume_n (length kw) s
    else RErr (PEExpectedToken kw (p_loc s)).

  (* parse_name / parse_identifier: the location in the error is the one AFTER the offending char *)
  Definition parse_name (within : str) : M str :=
    ch <- next ;;
    if negb (is_ident_start ch) then (l <- get_loc ;; fail (PEUnexpectedCharacter ch within l))
    else (rest <- consume_while is_ident ;; ret (ch :: rest)).

  Fixpoint string_loop (k : nat) (escape : bool) (s : pst) {struct k} : pr str :=
    match k with
    | O => RFuel
    | S k' =>
      (ch <- next ;;
       if escape then
         (v <- string_loop k' false ;;
          ret ((if ch =? 48 then 0 else if ch =? 110 then 10 else if ch =? 114 then 13
                else if ch =? 116 then 9 else ch) :: v))
       else if ch =? 34 then ret []
       else if ch =? 92 then string_loop k' true
       else (v <- string_loop k' false ;; ret (ch :: v))) s
    end.
  Definition parse_string : M str := consume_token t_quote ;;; string_loop F false.

  (* parse_quantifier (repaired): only `?`, `*`, `+` are consumed; anything else — whitespace, a
     comment, the `=` of a default, the end of the input — is left for the caller and means One.
     ParseError::ExpectedQuantifier still exists in the enum but is never produced. *)
  Definition quantifier_of (c : N) : option quant :=
    if c =? 63 then Some QOpt else if c =? 42 then Some QStar else if c =? 43 then Some QPlus else None.
  Definition parse_quantifier : M quant := fun s =>
    match match p_rest s with c :: _ => quantifier_of c | [] => None end with
    | None => ROk QOne s
    | Some q => (skip_unwrap 3 ;;; ret q) s
    end.

  Definition parse_global : M global :=
    location <- get_loc ;;
    name <- parse_name w_global ;;
    quantifier <- parse_quantifier ;;
    consume_whitespace ;;;
    default <- if_ok (consume_token t_eq)
                 (consume_whitespace ;;; d <- parse_string ;; ret (Some d))
                 (ret None) ;;
    ret {| gl_name := name; gl_quant := quantifier; gl_default := default; gl_loc := location |}.

  (* skip_query: returns the skipped text; stops in front of the first `{` outside strings/comments *)
  Fixpoint skip_query_loop (k : nat) (in_string in_escape in_comment : bool) (s : pst) {struct k} : pr str :=
    match k with
    | O => RFuel
    | S k' =>
      (ch <- peek ;;
       let step (a b c : bool) : M str := skip_unwrap 4 ;;; l <- skip_query_loop k' a b c ;; ret (ch :: l) in
       if in_escape then step in_string false in_comment
       else if in_string then
         (if ch =? 92 then step true true in_comment
          else if (ch =? 34) || (ch =? 10) then step false false in_comment
          else step true false in_comment)
       else if in_comment then step false false (negb (ch =? 10))
       else if ch =? 34 then step true false false
       else if ch =? 123 then ret []
       else if ch =? 59 then step false false true
       else step false false false) s
    end.
  Definition skip_query : M str := skip_query_loop F false false false.

  (* parse_query: (full-match capture index, the text appended to the file's query source) *)
  Definition parse_query : M (N * str) :=
    location <- get_loc ;;
    query_start <- get_off ;;
    text <- skip_query ;;
    query_end <- get_off ;;
    let query_source := text ++ full_match_suffix in
    match x_query X query_start query_end with
    | None => fun _ => RMiss
    | Some (QErr row col off) =>
        fail (PEQueryError (row + fst location) (if row =? 0 then col + snd location else col) (off + query_start))
    | Some (QOk patterns fm) =>
        if 1 <? patterns then fail (PEUnexpectedQueryPatterns location)
        else match fm with
             | None => fun _ => RPanic 7          (* .expect("missing capture index for full match") *)
             | Some i => ret (i, query_source ++ [10])
             end
    end.

  (* ---------------- expressions ---------------- *)
  Definition parse_capture : M expr :=
    location <- get_loc ;;
    consume_token t_at ;;;
    ch <- next ;;
    if negb (is_ident_start ch) then (l <- get_loc ;; fail (PEUnexpectedCharacter ch w_capture l))
    else (rest <- consume_while is_ident ;;
          ret (ECapture (ch :: rest) QZero u32_max u32_max location)).

  Definition parse_integer_constant : M expr :=
    location <- get_loc ;;
    digits <- consume_while ascii_digit ;;
    match from_str_radix10 u32_max digits with
    | Some v => ret (EInt v)
    | None => fail (PEInvalidIntegerConstant location)
    end.

  Definition parse_literal : M expr :=
    literal_location <- get_loc ;;
    consume_token t_hash ;;;
    literal <- parse_name w_literal ;;
    if str_eqb literal t_false then ret EFalse
    else if str_eqb literal t_null then ret ENull
    else if str_eqb literal t_true then ret ETrue
    else fail (PEUnexpectedLiteral literal literal_location).

  Definition parse_regex_capture : M expr :=
    location <- get_loc ;;
    consume_token t_dollar ;;;
    digits <- consume_while ascii_digit ;;
    match from_str_radix10 usize_max digits with
    | Some v => ret (ERegexCap v)
    | None => fail (PEInvalidRegexCapture location)
    end.

  (* parse_variable / parse_unscoped_variable over a given expression parser *)
  Definition parse_variable_with (pe : M expr) : M variable :=
    expression_location <- get_loc ;;
    e <- pe ;;
    match expr_as_variable e with
    | Some v => ret v
    | None => fail (PEExpectedVariable expression_location)
    end.
  Definition parse_unscoped_variable_with (pe : M expr) : M (ident * loc) :=
    v <- parse_variable_with pe ;;
    match v with
    | VarU n l => ret (n, l)
    | VarS _ _ l => fail (PEExpectedUnscopedVariable l)
    end.

  Section ExprBody.
    Variable rec : M expr.        (* parse_expression one level down *)

    (* while self.peek()? != ')' { parameters.push(parse_expression()?); consume_whitespace() } *)
    Fixpoint call_loop (k : nat) (s : pst) {struct k} : pr (list expr) :=
      match k with
      | O => RFuel
      | S k' =>
        (ch <- peek ;;
         if ch =? 41 then ret []
         else (e <- rec ;; consume_whitespace ;;; l <- call_loop k' ;; ret (e :: l))) s
      end.
    Definition parse_call : M expr :=
      consume_token t_lparen ;;;
      consume_whitespace ;;;
      function <- parse_name w_function ;;
      consume_whitespace ;;;
      parameters <- call_loop F ;;
      consume_token t_rparen ;;;
      ret (ECall function parameters).

    Fixpoint sequence_loop (end_marker : N) (k : nat) (s : pst) {struct k} : pr (list expr) :=
      match k with
      | O => RFuel
      | S k' =>
        (ch <- peek ;;
         if ch =? end_marker then ret []
         else (e <- rec ;;
               consume_whitespace ;;;
               ch2 <- peek ;;
               (if ch2 =? end_marker then ret tt else (consume_token t_comma ;;; consume_whitespace)) ;;;
               l <- sequence_loop end_marker k' ;; ret (e :: l))) s
      end.
    Definition parse_sequence (end_marker : N) : M (list expr) := sequence_loop end_marker F.

    (* parse_list and parse_set differ in the delimiters and the constructors only *)
    Definition parse_collection (open close : str) (close_ch : N)
        (lit : list expr -> expr) (comp : expr -> ident -> loc -> expr -> loc -> expr) : M expr :=
      location <- get_loc ;;
      consume_token open ;;;
      consume_whitespace ;;;
      if_ok (consume_token close) (ret (lit []))
        (first_element <- rec ;;
         consume_whitespace ;;;
         if_ok (consume_token close) (ret (lit [first_element]))
           (if_ok (consume_token t_comma)
              (consume_whitespace ;;;
               elements <- parse_sequence close_ch ;;
               consume_whitespace ;;;
               consume_token close ;;;
               ret (lit (first_element :: elements)))
              (consume_token t_for ;;;
               consume_whitespace ;;;
               variable <- parse_unscoped_variable_with rec ;;
               consume_whitespace ;;;
               consume_token t_in ;;;
               consume_whitespace ;;;
               value <- rec ;;
               consume_whitespace ;;;
               consume_token close ;;;
               ret (comp first_element (fst variable) (snd variable) value location)))).
    Definition parse_list : M expr := parse_collection t_lbrack t_rbrack 93 EList EListComp.
    Definition parse_set : M expr := parse_collection t_lbrace t_rbrace 125 ESet ESetComp.

    (* while self.try_peek() == Some('.') { ... } *)
    Fixpoint suffix_loop (k : nat) (e : expr) (s : pst) {struct k} : pr expr :=
      match k with
      | O => RFuel
      | S k' =>
        if peek_is 46 s then
          (skip_unwrap 5 ;;;
           consume_whitespace ;;;
           location <- get_loc ;;
           name <- parse_name w_scoped ;;
           consume_whitespace ;;;
           suffix_loop k' (EScoped e name location)) s
        else ROk e s
      end.

    Definition expression_body : M expr :=
      ch <- peek ;;
      e <- (if ch =? 35 then parse_literal
            else if ch =? 34 then (v <- parse_string ;; ret (EStr v))
            else if ch =? 64 then parse_capture
            else if ch =? 36 then parse_regex_capture
            else if ch =? 40 then parse_call
            else if ch =? 91 then parse_list
            else if ch =? 123 then parse_set
            else if ascii_digit ch then parse_integer_constant
            else if is_ident_start ch then
              (location <- get_loc ;; name <- parse_name w_variable ;; ret (EUnscoped name location))
            else (l <- get_loc ;; fail (PEUnexpectedCharacter ch w_expression l))) ;;
      consume_whitespace ;;;
      suffix_loop F e.
  End ExprBody.

  Fixpoint parse_expression_n (n : nat) (s : pst) {struct n} : pr expr :=
    match n with
    | O => RFuel
    | S n' => expression_body (fun s' => parse_expression_n n' s') s
    end.
  Definition parse_expression : M expr := parse_expression_n F.
  Definition parse_variable : M variable := parse_variable_with parse_expression.
  Definition parse_unscoped_variable : M (ident * loc) := parse_unscoped_variable_with parse_expression.

  (* ---------------- attributes, conditions ---------------- *)
  Definition parse_attribute : M attr :=
    name <- parse_name w_attribute ;;
    consume_whitespace ;;;
    fun s =>
      if peek_is 61 s then (consume_token t_eq ;;; consume_whitespace ;;; v <- parse_expression ;; ret (Attr name v)) s
      else ROk (Attr name ETrue) s.
  Fixpoint attributes_loop (k : nat) (s : pst) {struct k} : pr (list attr) :=
    match k with
    | O => RFuel
    | S k' =>
      if peek_is 44 s then
        (skip_unwrap 6 ;;; consume_whitespace ;;; a <- parse_attribute ;; consume_whitespace ;;;
         l <- attributes_loop k' ;; ret (a :: l)) s
      else ROk [] s
    end.
  Definition parse_attributes : M (list attr) :=
    a <- parse_attribute ;; consume_whitespace ;;; l <- attributes_loop F ;; ret (a :: l).

  Definition parse_condition : M cond :=
    location <- get_loc ;;
    c <- if_ok (consume_keyword t_some)
           (consume_whitespace ;;; v <- parse_expression ;; ret (CSome v location))
           (if_ok (consume_keyword t_none)
              (consume_whitespace ;;; v <- parse_expression ;; ret (CNone v location))
              (fun s =>
                 match parse_expression s with
                 | ROk v s' => (consume_whitespace ;;; ret (CBool v location)) s'
                 | RErr _ => RErr (PEExpectedToken t_cond location)
                 | RPanic n => RPanic n | RFuel => RFuel | RMiss => RMiss
                 end)) ;;
    consume_whitespace ;;;
    ret c.
  Fixpoint conditions_loop (k : nat) (s : pst) {struct k} : pr (list cond) :=
    match k with
    | O => RFuel
    | S k' =>
      (c <- parse_condition ;;
       consume_whitespace ;;;
       fun s1 =>
         if peek_is 44 s1 then (consume_token t_comma ;;; consume_whitespace ;;; l <- conditions_loop k' ;; ret (c :: l)) s1
         else ROk [c] s1) s
    end.
  Definition parse_conditions : M (list cond) := conditions_loop F.

  (* ---------------- statements ---------------- *)
  Section StmtBody.
    Variable rec : M stmt.        (* parse_statement one level down *)

    Fixpoint statements_loop (k : nat) (s : pst) {struct k} : pr (list stmt) :=
      match k with
      | O => RFuel
      | S k' =>
        (ch <- peek ;;
         if ch =? 125 then ret []
         else (st <- rec ;; consume_whitespace ;;; l <- statements_loop k' ;; ret (st :: l))) s
      end.
    Definition parse_statements : M (list stmt) :=
      consume_token t_lbrace ;;;
      consume_whitespace ;;;
      l <- statements_loop F ;;
      consume_token t_rbrace ;;;
      ret l.

    Fixpoint scan_arms_loop (keyword_location : loc) (k : nat) (s : pst) {struct k}
        : pr (list (N * list stmt * loc)) :=
      match k with
      | O => RFuel
      | S k' =>
        (ch <- peek ;;
         if ch =? 125 then ret []
         else
           (pattern_location <- get_loc ;;
            pattern <- parse_string ;;
            idx <- (match x_regex X pattern with
                    | None => fun _ => RMiss
                    | Some false => fail (PEInvalidRegex pattern pattern_location)
                    | Some true => fun s1 =>
                        ROk (N.of_nat (length (p_pats s1)))
                            {| p_rest := p_rest s1; p_off := p_off s1; p_row := p_row s1; p_col := p_col s1;
                               p_pats := pattern :: p_pats s1 |}
                    end) ;;
            consume_whitespace ;;;
            statements <- parse_statements ;;
            consume_whitespace ;;;
            l <- scan_arms_loop keyword_location k' ;;
            ret ((idx, statements, keyword_location) :: l))) s
      end.

    (* while let Ok(_) = self.consume_token("elif") { ... }; `location` is the loop-carried variable *)
    Fixpoint elif_loop (k : nat) (location : loc) (s : pst) {struct k}
        : pr (list (list cond * list stmt * loc)) :=
      match k with
      | O => RFuel
      | S k' =>
        if_ok (consume_token t_elif)
          (consume_whitespace ;;;
           conditions <- parse_conditions ;;
           consume_whitespace ;;;
           statements <- parse_statements ;;
           consume_whitespace ;;;
           consume_whitespace ;;;
           location' <- get_loc ;;
           l <- elif_loop k' location' ;;
           ret ((conditions, statements, location) :: l))
          (ret []) s
      end.

    Definition assignment_tail : M (variable * expr) :=
      variable <- parse_variable ;;
      consume_whitespace ;;;
      consume_token t_eq ;;;
      consume_whitespace ;;;
      value <- parse_expression ;;
      ret (variable, value).

    Fixpoint print_loop (k : nat) (s : pst) {struct k} : pr (list expr) :=
      match k with
      | O => RFuel
      | S k' =>
        if peek_is 44 s then
          (consume_token t_comma ;;; consume_whitespace ;;; e <- parse_expression ;; consume_whitespace ;;;
           l <- print_loop k' ;; ret (e :: l)) s
        else ROk [] s
      end.

    Definition statement_body : M stmt :=
      keyword_location <- get_loc ;;
      keyword <- parse_name w_keyword ;;
      consume_whitespace ;;;
      if str_eqb keyword t_let then
        (p <- assignment_tail ;; ret (SLet (fst p) (snd p) keyword_location))
      else if str_eqb keyword t_var then
        (p <- assignment_tail ;; ret (SVar (fst p) (snd p) keyword_location))
      else if str_eqb keyword t_set then
        (p <- assignment_tail ;; ret (SSet (fst p) (snd p) keyword_location))
      else if str_eqb keyword t_node then
        (node <- parse_variable ;; ret (SNode node (display_variable (dpenv_of (x_print X)) node) keyword_location))
      else if str_eqb keyword t_edge then
        (source <- parse_expression ;;
         consume_whitespace ;;;
         consume_token t_arrow ;;;
         consume_whitespace ;;;
         sink <- parse_expression ;;
         ret (SEdge source sink keyword_location))
      else if str_eqb keyword t_attr then
        (consume_token t_lparen ;;;
         consume_whitespace ;;;
         node_or_source <- parse_expression ;;
         consume_whitespace ;;;
         ch <- peek ;;
         if ch =? 45 then
           (consume_token t_arrow ;;;
            consume_whitespace ;;;
            sink <- parse_expression ;;
            consume_whitespace ;;;
            consume_token t_rparen ;;;
            consume_whitespace ;;;
            attributes <- parse_attributes ;;
            ret (SAttrEdge node_or_source sink attributes keyword_location))
         else
           (consume_whitespace ;;;
            consume_token t_rparen ;;;
            consume_whitespace ;;;
            attributes <- parse_attributes ;;
            ret (SAttrNode node_or_source attributes keyword_location)))
      else if str_eqb keyword t_print then
        (first <- parse_expression ;;
         consume_whitespace ;;;
         l <- print_loop F ;;
         consume_whitespace ;;;
         ret (SPrint (first :: l) keyword_location))
      else if str_eqb keyword t_scan then
        (value <- parse_expression ;;
         consume_whitespace ;;;
         consume_token t_lbrace ;;;
         consume_whitespace ;;;
         arms <- scan_arms_loop keyword_location F ;;
         consume_token t_rbrace ;;;
         ret (SScan value arms keyword_location))
      else if str_eqb keyword t_if then
        (consume_whitespace ;;;
         conditions <- parse_conditions ;;
         consume_whitespace ;;;
         statements <- parse_statements ;;
         consume_whitespace ;;;
         location <- get_loc ;;
         elifs <- elif_loop F location ;;
         location2 <- get_loc ;;
         else_arm <- if_ok (consume_token t_else)
                       (consume_whitespace ;;;
                        statements2 <- parse_statements ;;
                        consume_whitespace ;;;
                        consume_whitespace ;;;
                        ret [([], statements2, location2)])
                       (ret []) ;;
         ret (SIf ((conditions, statements, keyword_location) :: elifs ++ else_arm) keyword_location))
      else if str_eqb keyword t_for then
        (consume_whitespace ;;;
         variable <- parse_unscoped_variable ;;
         consume_whitespace ;;;
         consume_token t_in ;;;
         consume_whitespace ;;;
         value <- parse_expression ;;
         consume_whitespace ;;;
         statements <- parse_statements ;;
         ret (SFor (fst variable) (snd variable) value statements keyword_location))
      else fail (PEUnexpectedKeyword keyword keyword_location).
  End StmtBody.

  Fixpoint parse_statement_n (n : nat) (s : pst) {struct n} : pr stmt :=
    match n with
    | O => RFuel
    | S n' => statement_body (fun s' => parse_statement_n n' s') s
    end.
  Definition parse_statement : M stmt := parse_statement_n F.
  Definition parse_stanza_statements : M (list stmt) := parse_statements parse_statement.

  (* ---------------- top level ---------------- *)
  Definition parse_shorthand : M shorthand :=
    location <- get_loc ;;
    name <- parse_name w_shorthand ;;
    consume_whitespace ;;;
    consume_token t_eq ;;;
    consume_whitespace ;;;
    variable <- parse_unscoped_variable ;;
    consume_whitespace ;;;
    consume_token t_arrow2 ;;;
    consume_whitespace ;;;
    attributes <- parse_attributes ;;
    ret {| sh_name := name; sh_var := fst variable; sh_vloc := snd variable; sh_attrs := attributes; sh_loc := location |}.

  Definition parse_stanza : M (stanza * str) :=
    start <- get_loc ;;
    q <- parse_query ;;
    consume_whitespace ;;;
    statements <- parse_stanza_statements ;;
    ret ({| st_stmts := statements; st_full_stanza_idx := fst q; st_full_file_idx := u32_max; st_start := start |}, snd q).

  (* the File being filled: globals and stanzas in order, inherited names as a set, shorthands as a
     map by name; plus the accumulated query source *)
  Record facc := { a_globals : list global; a_inherited : list ident; a_shorthands : list shorthand;
                   a_stanzas : list stanza; a_query_source : str }.

  Fixpoint file_loop (k : nat) (a : facc) (s : pst) {struct k} : pr facc :=
    match k with
    | O => RFuel
    | S k' =>
      match p_rest s with
      | [] => ROk a s
      | _ :: _ =>
        (a' <- if_ok (consume_token t_attribute)
                 (consume_whitespace ;;;
                  sh <- parse_shorthand ;;
                  ret {| a_globals := a_globals a; a_inherited := a_inherited a;
                         a_shorthands := a_shorthands a ++ [sh]; a_stanzas := a_stanzas a;
                         a_query_source := a_query_source a |})
                 (if_ok (consume_token t_global)
                    (consume_whitespace ;;;
                     g <- parse_global ;;
                     ret {| a_globals := a_globals a ++ [g]; a_inherited := a_inherited a;
                            a_shorthands := a_shorthands a; a_stanzas := a_stanzas a;
                            a_query_source := a_query_source a |})
                    (if_ok (consume_token t_inherit)
                       (consume_whitespace ;;;
                        consume_token t_dot ;;;
                        name <- parse_name w_inherit ;;
                        ret {| a_globals := a_globals a; a_inherited := a_inherited a ++ [name];
                               a_shorthands := a_shorthands a; a_stanzas := a_stanzas a;
                               a_query_source := a_query_source a |})
                       (p <- parse_stanza ;;
                        ret {| a_globals := a_globals a; a_inherited := a_inherited a;
                               a_shorthands := a_shorthands a; a_stanzas := a_stanzas a ++ [fst p];
                               a_query_source := a_query_source a ++ snd p |}))) ;;
         consume_whitespace ;;;
         file_loop k' a') s
      end
    end.

  Definition parse_into_file : M facc :=
    consume_whitespace ;;;
    a <- file_loop F {| a_globals := []; a_inherited := []; a_shorthands := []; a_stanzas := []; a_query_source := [] |} ;;
    match x_merged X (a_query_source a) with
    | None => fun _ => RMiss
    | Some false => fun _ => RPanic 8     (* Query::new(&file.language, &self.query_source).unwrap() *)
    | Some true => ret a
    end.
End Parser.

(* ------------------------------------------------------------------ observation *)
(* HashSet / HashMap contents in canonical (sorted) order, as harness/src/dump.rs prints them *)
Fixpoint insert_name (x : ident) (l : list ident) : list ident :=
  match l with
  | [] => [x]
  | y :: l' => match str_cmp x y with Lt => x :: y :: l' | Eq => y :: l' | Gt => y :: insert_name x l' end
  end.
Definition name_set (l : list ident) : list ident := fold_left (fun acc x => insert_name x acc) l [].
(* HashMap::insert: a later shorthand of the same name replaces the earlier one *)
Fixpoint insert_shorthand (x : shorthand) (l : list shorthand) : list shorthand :=
  match l with
  | [] => [x]
  | y :: l' => match str_cmp (sh_name x) (sh_name y) with
               | Lt => x :: y :: l' | Eq => x :: l' | Gt => y :: insert_shorthand x l' end
  end.
Definition shorthand_map (l : list shorthand) : list shorthand := fold_left (fun acc x => insert_shorthand x acc) l [].

Definition file_of_acc (a : facc) : file :=
  {| f_globals := a_globals a; f_inherited := name_set (a_inherited a);
     f_shorthands := shorthand_map (a_shorthands a); f_stanzas := a_stanzas a |}.

Inductive PRes :=
| POk (f : file) (patterns : list str)
| PErr (variant : N) (l : loc) (payload : str)
| PPanic (site : N)
| PFuel
| PMiss.

(* variant number, location, payload (token / pattern / keyword / literal; for UnexpectedCharacter the
   character followed by the `within` text; for QueryError the byte offset) *)
Definition error_obs (e : parse_error) : N * loc * str :=
  match e with
  | PEExpectedQuantifier l => (1, l, [])
  | PEExpectedToken tok l => (2, l, tok)
  | PEExpectedVariable l => (3, l, [])
  | PEExpectedUnscopedVariable l => (4, l, [])
  | PEInvalidRegex pat l => (5, l, pat)
  | PEInvalidIntegerConstant l => (6, l, [])
  | PEInvalidRegexCapture l => (7, l, [])
  | PEQueryError row col off => (8, (row, col), [off])
  | PEUnexpectedCharacter ch within l => (9, l, ch :: within)
  | PEUnexpectedEOF l => (10, l, [])
  | PEUnexpectedKeyword kw l => (11, l, kw)
  | PEUnexpectedLiteral lit l => (12, l, lit)
  | PEUnexpectedQueryPatterns l => (13, l, [])
  end.

Definition init_state (text : str) : pst :=
  {| p_rest := text; p_off := 0; p_row := 0; p_col := 0; p_pats := [] |}.

Definition fuel_of (text : str) : nat := S (length text).

Definition parse (X : ext) (fuel : nat) (text : str) : PRes :=
  match parse_into_file X fuel (init_state text) with
  | ROk a s => POk (file_of_acc a) (rev (p_pats s))
  | RErr e => let '(v, l, p) := error_obs e in PErr v l p
  | RPanic n => PPanic n
  | RFuel => PFuel
  | RMiss => PMiss
  end.
