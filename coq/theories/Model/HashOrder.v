(* Model/HashOrder.v — C12: the places where the implementation ITERATES a hash container, as
   functions of the association list that models the container (its order = the hash order).
   Definitions only.

   Inventory (every `for .. in map`, `.iter()`, `.keys()`, `.difference()` over a HashMap/HashSet in
   /repo/src that reaches an observable):
     1. graph.rs  `Display for Attributes`       keys collected, SORTED, printed       -> Pretty.attr_plines
     2. graph.rs  `Serialize for Attributes`     one object member per entry, hash order -> Json.encode_attrs
                                                  (observable only up to member order: JSON objects)
     3. checker.rs Stanza::check                  all_captures.difference(&used_captures), filtered,
                                                  prefixed with '@', SORTED, joined     -> unused_message (below)
     4. lazy/store.rs LazyScopedVariables::evaluate_all   keys collected, SORTED, forced in that order
                                                                                       -> Lazy.scoped_evaluate_all
     5. containers that are only looked up by key (never iterated): File.inherited_variables (HashSet),
        AttributeShorthands, ScopedVariables.scopes, Graph.syntax_nodes, prev_element_debug_info,
        Functions.functions, VariableMap.values, Globals.values (iter() only through the public
        `Variables::iter`, which the interpreters do not call)                          -> alist_get / existsb

   The interpreter models (Strict.v, Lazy.v) take NO iteration oracle: wherever the code iterates, the
   model sorts exactly where the code sorts.  Proofs/HashOrder.v shows for each site that the result is
   the same for every permutation of the association list, i.e. that no oracle is needed. *)
From TSG Require Export Model.Pretty Model.Lazy.

(* ---- site 3: the unused-captures diagnostic (checker.rs, Stanza::check) ----
   all  = query.capture_names() without the full-match capture, collected into a HashSet (no duplicates)
   used = the union of the statements' used_captures (HashSet)
   all.difference(&used).filter(|i| !i.starts_with("_")).map(|i| format!("@{}", i)).collect::<Vec<_>>()
   then `.sort()` and `.join(" ")`; an empty vector means: no error. *)
Definition starts_with_underscore (s : ident) : bool :=
  match s with c :: _ => N.eqb c 95 | [] => false end.
Definition is_unused (used : list ident) (c : ident) : bool :=
  negb (existsb (str_eqb c) used) && negb (starts_with_underscore c).
(* the vector before sorting, in the iteration order of `all` *)
Definition unused_unsorted (all used : list ident) : list str :=
  map (fun c => 64 :: c) (filter (is_unused used) all).
Definition unused_names (all used : list ident) : list str := sort_by str_ltb (unused_unsorted all used).
(* None = the stanza passes this rule; Some text = CheckError::UnusedCaptures(text, _) *)
Definition unused_message (all used : list ident) : option str :=
  match unused_names all used with
  | [] => None
  | l => Some (join [32] l)
  end.

(* ---- site 4: the order in which LazyScopedVariables::evaluate_all forces the cells ---- *)
Definition scoped_force_order {V} (cells : list (ident * V)) : list ident := map fst (sort_alist cells).

(* ---- Coq-evaluated component of the C12 stream ----
   rust = bit mask computed by the harness on the implementation (1 = (a) repeated loads differ,
   2 = (b) repeated/interleaved executions differ from the isolated run, 4 = (c) concurrent executions
   differ, 8 = (d) caller's globals / function table changed, 16 = (e) another OS process observed
   something else, 64 = a panic escaped);
   32 = the unused-captures text of the implementation is not the model's unused_message. *)
Inductive c12_obs :=
| C12None                                                 (* nothing for the model to evaluate *)
| C12Unused (all used : list ident) (impl : option str).  (* impl = the text inside UnusedCaptures(..), if that was the error *)

Definition opt_str_eqb (a b : option str) : bool :=
  match a, b with
  | None, None => true
  | Some x, Some y => str_eqb x y
  | _, _ => false
  end.
Definition c12_model_part (o : c12_obs) : N :=
  match o with
  | C12None => 0
  | C12Unused all used impl => if opt_str_eqb (unused_message all used) impl then 0 else 32
  end.
Definition c12_verdict (rust : N) (o : c12_obs) : N := rust + c12_model_part o.
Definition c12_detail (o : c12_obs) : option (option str) :=
  match o with C12None => None | C12Unused all used _ => Some (unused_message all used) end.
