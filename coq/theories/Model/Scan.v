(* Model/Scan.v — the `scan` statement: execution/strict.rs Scan::execute (371-452) and its separate
   copy execution/lazy.rs Scan::execute_lazy (336-421) — the two loops are textually the same
   algorithm (only the place of the cancellation poll differs, which is C11's business), so one
   model function serves both and the correspondence stream runs it against BOTH modes;
   RegexCapture::evaluate (strict 690-698) / evaluate_lazy (lazy 685-694); the static rule of
   checker.rs 333-345.  Definitions only.

   The regex engine is the Section variable `find` (None = no match; Some caps with caps[0] = whole
   match).  Positions are code-point offsets (the code uses byte offsets of the same boundaries:
   `i` is always a char boundary because it is a sum of match ends, and `i < len` in bytes iff
   `i < length` in code points at a boundary). *)
From TSG Require Export Model.Regex Model.Errors.

Definition rcaps := list (option (N * N)).

Inductive scan_sel := SelNone | SelEmpty (arm : N) | SelArm (arm : N) (caps : rcaps).

(* same with the whole-match span exposed (so that the loop needs no partial projection) *)
Inductive scan_pick_res := PNone | PEmpty (arm : N) | PArm (arm a b : N) (caps : rcaps).

(* candidate = (start, arm index, end, captures): an entry of the code's `matches` vector *)
Definition cand := (N * N * N * rcaps)%type.
Inductive collect_res := CEmpty (arm : N) | CList (l : list cand).

Definition cand_lt (x y : cand) : bool :=
  let '(a, k, _, _) := x in let '(a', k', _, _) := y in
  (a <? a') || ((a =? a') && (k <? k')).

(* `sort_by_key(|(c, index)| (c.start, *index))` followed by `[0]`: the minimum of a non-empty
   vector whose keys are pairwise distinct (distinct arm indices), so stability is irrelevant *)
Fixpoint best (c : cand) (l : list cand) : cand :=
  match l with [] => c | d :: l' => best (if cand_lt d c then d else c) l' end.

Definition str_len (s : str) : N := N.of_nat (length s).
Definition str_skip (i : N) (s : str) : str := skipn (N.to_nat i) s.
Definition substr (s : str) (a b : N) : str := firstn (N.to_nat (b - a)) (skipn (N.to_nat a) s).

(* `captures.get(0)`: the whole-match span together with the full capture table *)
Definition whole_match (o : option rcaps) : option (N * N * rcaps) :=
  match o with
  | Some (Some (a, b) :: g) => Some (a, b, Some (a, b) :: g)
  | _ => None
  end.

Inductive scan_status := SDone | SErrEmpty (arm : N) | SOutOfFuel.
(* one executed arm: (arm index, absolute start, absolute end, the strings $0..$n) *)
Definition scan_event := (N * N * N * list str)%type.

Section Scan.
  Variable find : regex -> str -> option rcaps.

  (* the inner `for (index, arm) in self.arms.iter().enumerate()` loop with its early return.
     `captures.get(0).expect("missing regex capture")`: the regex crate always reports group 0 for
     a match; a `find` answer without it is treated as no match (unreachable for a well-formed
     engine, see rx_captures_group0 in Props/C10.v). *)
  Fixpoint collect (l : list regex) (k : N) (suffix : str) (acc : list cand) : collect_res :=
    match l with
    | [] => CList (rev acc)
    | r :: l' =>
      match whole_match (find r suffix) with
      | Some (a, b, c) =>
          if a =? b then CEmpty k                                     (* range().is_empty() *)
          else collect l' (k + 1) suffix ((a, k, b, c) :: acc)
      | None => collect l' (k + 1) suffix acc
      end
    end.

  Definition scan_pick (arms : list regex) (suffix : str) : scan_pick_res :=
    match collect arms 0 suffix [] with
    | CEmpty k => PEmpty k
    | CList [] => PNone
    | CList (c :: l) => let '(a, k, b, g) := best c l in PArm k a b g
    end.

  Definition scan_select (arms : list regex) (suffix : str) : scan_sel :=
    match scan_pick arms suffix with
    | PNone => SelNone
    | PEmpty k => SelEmpty k
    | PArm k _ _ g => SelArm k g
    end.

  (* `regex_capture.map(|m| m.as_str()).unwrap_or("").to_string()` for every group *)
  Definition captures_text (suffix : str) (c : rcaps) : list str :=
    map (fun o => match o with Some (a, b) => substr suffix a b | None => [] end) c.

  (* the `while i < match_string.len()` loop; one unit of fuel per iteration *)
  Fixpoint scan_loop (fuel : nat) (arms : list regex) (s : str) (i : N) : list scan_event * scan_status :=
    match fuel with
    | O => ([], SOutOfFuel)
    | S fuel =>
      if i <? str_len s then
        let suffix := str_skip i s in
        match scan_pick arms suffix with
        | PEmpty k => ([], SErrEmpty k)
        | PNone => ([], SDone)
        | PArm k a b g =>
            let '(evs, f) := scan_loop fuel arms s (i + b) in          (* i += range().end *)
            ((k, i + a, i + b, captures_text suffix g) :: evs, f)
        end
      else ([], SDone)
    end.

  (* checker.rs: `if let Some(_) = arm.regex.captures("")` => CheckError::NullableRegex;
     result = index of the first rejected arm *)
  Fixpoint scan_check_from (l : list regex) (k : N) : option N :=
    match l with
    | [] => None
    | r :: l' => match find r [] with Some _ => Some k | None => scan_check_from l' (k + 1) end
    end.
  Definition scan_check (arms : list regex) : option N := scan_check_from arms 0.
End Scan.

(* `$k`: strict.rs RegexCapture::evaluate and lazy.rs RegexCapture::evaluate_lazy (two copies;
   since the fix of F2 both use `.get(k).ok_or(UndefinedRegexCapture)`) *)
Definition regex_capture_strict (current : list str) (k : N) : res value :=
  match nth_error current (N.to_nat k) with
  | Some s => Ok (VStr s)
  | None => Err EUndefinedRegexCapture
  end.
Definition regex_capture_lazy (current : list str) (k : N) : res value :=
  match nth_error current (N.to_nat k) with
  | Some s => Ok (VStr s)
  | None => Err EUndefinedRegexCapture
  end.
