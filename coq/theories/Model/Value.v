(* Model/Value.v — graph::Value with its derived Ord (variant order Null < Boolean < Integer <
   String < List < Set < SyntaxNode < GraphNode) and BTreeSet as a strictly sorted list. *)
From TSG Require Export Model.Base.

(* SyntaxNodeRef { index, kind, position }: Ord compares index first; index identifies the node
   (KeyInjective), so the model keeps the node id only; kind/position are looked up in the tree. *)
Inductive value : Type :=
| VNull
| VBool (b : bool)
| VInt (n : N)
| VStr (s : str)
| VList (l : list value)
| VSet (l : list value)
| VSyn (n : N)
| VGraph (n : N).

Definition tag (v : value) : N :=
  match v with
  | VNull => 0 | VBool _ => 1 | VInt _ => 2 | VStr _ => 3
  | VList _ => 4 | VSet _ => 5 | VSyn _ => 6 | VGraph _ => 7
  end.

Fixpoint value_cmp (a b : value) {struct a} : comparison :=
  let fix lcmp (x y : list value) {struct x} : comparison :=
    match x, y with
    | [], [] => Eq
    | [], _ :: _ => Lt
    | _ :: _, [] => Gt
    | u :: x', w :: y' => match value_cmp u w with Eq => lcmp x' y' | c => c end
    end in
  match a, b with
  | VNull, VNull => Eq
  | VBool x, VBool y => bool_cmp x y
  | VInt x, VInt y => N.compare x y
  | VStr x, VStr y => str_cmp x y
  | VList x, VList y => lcmp x y
  | VSet x, VSet y => lcmp x y
  | VSyn x, VSyn y => N.compare x y
  | VGraph x, VGraph y => N.compare x y
  | _, _ => N.compare (tag a) (tag b)
  end.

Definition value_eqb (a b : value) : bool := match value_cmp a b with Eq => true | _ => false end.
Definition value_ltb (a b : value) : bool := match value_cmp a b with Lt => true | _ => false end.

(* BTreeSet::insert *)
Fixpoint set_insert (x : value) (l : list value) : list value :=
  match l with
  | [] => [x]
  | y :: l' => match value_cmp x y with
               | Lt => x :: y :: l'
               | Eq => y :: l'
               | Gt => y :: set_insert x l'
               end
  end.
Definition set_of_list (l : list value) : list value := fold_left (fun s x => set_insert x s) l [].
