(* Model/Stdlib.v — functions.rs: Parameters::param/finish, the 21 functions of Functions::stdlib(),
   Display for Value (graph.rs) as used by `format` and `join`.  Definitions only.

   Every function follows the Rust body statement by statement, so that the FIRST error the code
   reports is the one the model reports.  The regex crate is an external: `replace` takes its answer
   from a parameter (regex_oracle), never from an axiom.  The syntax tree is the recorded tree of
   Model/Tree.v (tree-sitter is an external too). *)
From TSG Require Export Model.Errors Model.Tree Model.Graph.
From Coq Require String Ascii.

(* rx text pattern replacement = Some (Regex::new(pattern).unwrap().replace_all(text, replacement)),
   None when Regex::new(pattern) fails. *)
Definition regex_oracle := str -> str -> str -> option str.

(* ---- string literals as code-point lists ---- *)
Module Lit.
  Import String Ascii.
  Local Open Scope string_scope.
  Definition s2l (s : string) : list N := List.map N_of_ascii (list_ascii_of_string s).
  Definition eq := s2l "eq".
  Definition is_null := s2l "is-null".
  Definition named_child_index := s2l "named-child-index".
  Definition source_text := s2l "source-text".
  Definition start_row := s2l "start-row".
  Definition start_column := s2l "start-column".
  Definition end_row := s2l "end-row".
  Definition end_column := s2l "end-column".
  Definition node_type := s2l "node-type".
  Definition named_child_count := s2l "named-child-count".
  Definition node := s2l "node".
  Definition not := s2l "not".
  Definition and := s2l "and".
  Definition or := s2l "or".
  Definition plus := s2l "plus".
  Definition format := s2l "format".
  Definition replace := s2l "replace".
  Definition concat := s2l "concat".
  Definition is_empty := s2l "is-empty".
  Definition join := s2l "join".
  Definition length := s2l "length".
  (* Display for Value *)
  Definition d_null := s2l "#null".
  Definition d_true := s2l "#true".
  Definition d_false := s2l "#false".
  Definition d_comma := s2l ", ".
  Definition d_syn_open := s2l "[syntax node ".
  Definition d_paren := s2l " (".
  Definition d_syn_close := s2l ")]".
  Definition d_graph_open := s2l "[graph node ".
  Definition d_unknown := s2l "?".
End Lit.

(* ---- the registration table of Functions::stdlib() ---- *)
Inductive fn :=
| FEq | FIsNull
| FNamedChildIndex | FSourceText | FStartRow | FStartColumn | FEndRow | FEndColumn | FNodeType | FNamedChildCount
| FNode
| FNot | FAnd | FOr
| FPlus
| FFormat | FReplace
| FConcat | FIsEmpty | FJoin | FLength.

Definition all_fns : list fn :=
  [FEq; FIsNull; FNamedChildIndex; FSourceText; FStartRow; FStartColumn; FEndRow; FEndColumn; FNodeType;
   FNamedChildCount; FNode; FNot; FAnd; FOr; FPlus; FFormat; FReplace; FConcat; FIsEmpty; FJoin; FLength].

Definition fn_name (f : fn) : ident :=
  match f with
  | FEq => Lit.eq | FIsNull => Lit.is_null
  | FNamedChildIndex => Lit.named_child_index | FSourceText => Lit.source_text
  | FStartRow => Lit.start_row | FStartColumn => Lit.start_column
  | FEndRow => Lit.end_row | FEndColumn => Lit.end_column
  | FNodeType => Lit.node_type | FNamedChildCount => Lit.named_child_count
  | FNode => Lit.node
  | FNot => Lit.not | FAnd => Lit.and | FOr => Lit.or
  | FPlus => Lit.plus
  | FFormat => Lit.format | FReplace => Lit.replace
  | FConcat => Lit.concat | FIsEmpty => Lit.is_empty | FJoin => Lit.join | FLength => Lit.length
  end.

(* self.functions.get(name) *)
Definition fn_of_name (name : ident) : option fn :=
  List.find (fun f => str_eqb name (fn_name f)) all_fns.

(* ---- panic sites ---- *)
Definition site_syntax_index : N := 1301.     (* graph[ref] = &self.syntax_nodes[&ref.index]: key absent *)
Definition site_source_slice : N := 1302.     (* source[node.byte_range()]: range outside the source *)
Definition site_tree_dangling : N := 1303.    (* recorded tree has a parent id without a node: not a Rust
                                                 panic but an ill-formed model input; kept distinguishable *)

(* ---- Parameters for I: Iterator<Item = Value> ---- *)
Definition params := list value.
Definition param (ps : params) : res (value * params) :=
  match ps with [] => Err EInvalidParameters | v :: ps' => Ok (v, ps') end.
Definition finish (ps : params) : res unit :=
  match ps with [] => Ok tt | _ :: _ => Err EInvalidParameters end.

(* `x as u32` for x : usize *)
Definition as_u32 (n : N) : N := n mod 4294967296.

(* ---- Display ---- *)
(* decimal digits of n, most significant first (fmt::Display for u32/usize) *)
Fixpoint dec_go (fuel : nat) (n : N) (acc : str) : str :=
  match fuel with
  | O => acc
  | S fuel' => let d := 48 + n mod 10 in
               if n <? 10 then d :: acc else dec_go fuel' (n / 10) (d :: acc)
  end.
Definition dec (n : N) : str := dec_go (S (N.size_nat n)) n [].

(* [T]::join(sep) / the `first` flag loops of Display for List and Set *)
Fixpoint intercalate (sep : str) (l : list str) : str :=
  match l with
  | [] => []
  | x :: l' => match l' with [] => x | _ :: _ => x ++ sep ++ intercalate sep l' end
  end.

(* Display for SyntaxNodeRef prints the kind and start position stored in the reference, which
   add_syntax_node copied from the node: looked up in the tree here.  (An id that is not in the tree
   cannot be built through the Rust API; the model prints `?` for it.) *)
Definition display_syn (t : tree) (n : N) : str :=
  match node_at t n with
  | Some x => Lit.d_syn_open ++ tn_kind x ++ Lit.d_paren ++ dec (fst (tn_start x) + 1) ++ Lit.d_comma
              ++ dec (snd (tn_start x) + 1) ++ Lit.d_syn_close
  | None => Lit.d_syn_open ++ Lit.d_unknown ++ [93]
  end.

Fixpoint display_value (t : tree) (v : value) : str :=
  match v with
  | VNull => Lit.d_null
  | VBool true => Lit.d_true
  | VBool false => Lit.d_false
  | VInt n => dec n
  | VStr s => s
  | VList l => [91] ++ intercalate Lit.d_comma (map (display_value t) l) ++ [93]
  | VSet l => [123] ++ intercalate Lit.d_comma (map (display_value t) l) ++ [125]
  | VSyn n => display_syn t n
  | VGraph n => Lit.d_graph_open ++ dec n ++ [93]
  end.

(* ---- eq ---- *)
Definition eq_values (a b : value) : res bool :=
  match a with
  | VNull => match b with VNull => Ok true | _ => Ok false end
  | VBool x => match b with VNull => Ok false | VBool y => Ok (Bool.eqb x y) | _ => Err EFunctionFailed end
  | VInt x => match b with VNull => Ok false | VInt y => Ok (N.eqb x y) | _ => Err EFunctionFailed end
  | VStr x => match b with VNull => Ok false | VStr y => Ok (str_eqb x y) | _ => Err EFunctionFailed end
  | VList _ => match b with VNull => Ok false | VList _ => Ok (value_eqb a b) | _ => Err EFunctionFailed end
  | VSet _ => match b with VNull => Ok false | VSet _ => Ok (value_eqb a b) | _ => Err EFunctionFailed end
  | VSyn x => match b with VNull => Ok false | VSyn y => Ok (N.eqb x y) | _ => Err EFunctionFailed end
  | VGraph x => match b with VNull => Ok false | VGraph y => Ok (N.eqb x y) | _ => Err EFunctionFailed end
  end.

(* ---- `while let Ok(p) = parameters.param()` loops ---- *)
Fixpoint and_loop (ps : params) (acc : bool) : res bool :=
  match ps with
  | [] => Ok acc
  | v :: ps' => obind (as_bool v) (fun b => and_loop ps' (andb acc b))
  end.
Fixpoint or_loop (ps : params) (acc : bool) : res bool :=
  match ps with
  | [] => Ok acc
  | v :: ps' => obind (as_bool v) (fun b => or_loop ps' (orb acc b))
  end.
(* result.checked_add(parameter.as_integer()?).ok_or_else(FunctionFailed)? *)
Fixpoint plus_loop (ps : params) (acc : N) : res N :=
  match ps with
  | [] => Ok acc
  | v :: ps' => obind (as_int v) (fun n =>
                  if acc + n <=? u32_max then plus_loop ps' (acc + n) else Err EFunctionFailed)
  end.
Fixpoint concat_loop (ps : params) (acc : list value) : res (list value) :=
  match ps with
  | [] => Ok acc
  | v :: ps' => obind (as_list v) (fun l => concat_loop ps' (acc ++ l))
  end.

(* ---- format: the char loop; returns the text and the parameters left for finish() ---- *)
Definition c_open : N := 123.
Definition c_close : N := 125.
Definition push (s : str) (r : res (str * params)) : res (str * params) :=
  obind r (fun '(s', ps) => Ok (s ++ s', ps)).
Fixpoint format_loop (t : tree) (cs : str) (ps : params) : res (str * params) :=
  match cs with
  | [] => Ok ([], ps)
  | c :: r =>
      if c =? c_open then
        match r with
        | [] => Err EFunctionFailed                                   (* end of string after `{` *)
        | d :: r' =>
            if d =? c_open then push [c_open] (format_loop t r' ps)
            else if d =? c_close then
              obind (param ps) (fun '(v, ps') => push (display_value t v) (format_loop t r' ps'))
            else Err EFunctionFailed
        end
      else if c =? c_close then
        match r with
        | [] => Err EFunctionFailed
        | d :: r' => if d =? c_close then push [c_close] (format_loop t r' ps) else Err EFunctionFailed
        end
      else push [c] (format_loop t r ps)
  end.

(* ---- syntax functions: graph[parameters.param()?.into_syntax_node_ref()?]; finish()?; body ---- *)
Definition with_syntax_node (t : tree) (ps : params) (body : N -> tnode -> res value) : res value :=
  obind (param ps) (fun '(v, ps1) =>
  obind (as_syn v) (fun n =>
  match node_at t n with
  | None => Panic site_syntax_index
  | Some x => obind (finish ps1) (fun _ => body n x)
  end)).

Definition named_child_index_body (t : tree) (n : N) (x : tnode) : res value :=
  match tn_parent x with
  | None => Err EFunctionFailed                                        (* root node *)
  | Some p =>
      match node_at t p with
      | None => Panic site_tree_dangling
      | Some px =>
          match index_of n (named_children t px) 0 with               (* .position(|child| child == node) *)
          | None => Err EFunctionFailed
          | Some i => Ok (VInt (as_u32 i))
          end
      end
  end.

Definition source_text_body (t : tree) (x : tnode) : res value :=
  let '(a, b) := tn_span x in
  if (a <=? b) && (b <=? N.of_nat (length (t_src t))) then Ok (VStr (node_text t x))
  else Panic site_source_slice.

(* ---- one function call: the returned value (only `node` reads or changes the graph) ---- *)
Definition stdlib_pure (rx : regex_oracle) (t : tree) (f : fn) (g : graph) (args : params) : res value :=
  match f with
  | FEq =>
      obind (param args) (fun '(lhs, ps1) =>
      obind (param ps1) (fun '(rhs, ps2) =>
      obind (finish ps2) (fun _ =>
      obind (eq_values lhs rhs) (fun b => Ok (VBool b)))))
  | FIsNull =>
      obind (param args) (fun '(v, ps1) =>
      obind (finish ps1) (fun _ =>
      Ok (VBool (match v with VNull => true | _ => false end))))
  | FNamedChildIndex => with_syntax_node t args (named_child_index_body t)
  | FSourceText => with_syntax_node t args (fun _ x => source_text_body t x)
  | FStartRow => with_syntax_node t args (fun _ x => Ok (VInt (as_u32 (fst (tn_start x)))))
  | FStartColumn => with_syntax_node t args (fun _ x => Ok (VInt (as_u32 (snd (tn_start x)))))
  | FEndRow => with_syntax_node t args (fun _ x => Ok (VInt (as_u32 (fst (tn_end x)))))
  | FEndColumn => with_syntax_node t args (fun _ x => Ok (VInt (as_u32 (snd (tn_end x)))))
  | FNodeType => with_syntax_node t args (fun _ x => Ok (VStr (tn_kind x)))
  | FNamedChildCount =>
      with_syntax_node t args (fun _ x => Ok (VInt (as_u32 (N.of_nat (length (named_children t x))))))
  | FNode => obind (finish args) (fun _ => Ok (VGraph (snd (add_graph_node g))))
  | FNot =>
      obind (param args) (fun '(v, ps1) =>
      obind (as_bool v) (fun b =>
      obind (finish ps1) (fun _ => Ok (VBool (negb b)))))
  | FAnd => obind (and_loop args true) (fun b => Ok (VBool b))
  | FOr => obind (or_loop args false) (fun b => Ok (VBool b))
  | FPlus => obind (plus_loop args 0) (fun n => Ok (VInt n))
  | FFormat =>
      obind (param args) (fun '(v, ps1) =>
      obind (as_str v) (fun fmt =>
      obind (format_loop t fmt ps1) (fun '(s, ps2) =>
      obind (finish ps2) (fun _ => Ok (VStr s)))))
  | FReplace =>
      obind (param args) (fun '(v1, ps1) =>
      obind (as_str v1) (fun text =>
      obind (param ps1) (fun '(v2, ps2) =>
      obind (as_str v2) (fun pat =>
      match rx text pat [] with                                        (* Regex::new(&pattern) *)
      | None => Err EFunctionFailed
      | Some _ =>
          obind (param ps2) (fun '(v3, ps3) =>
          obind (as_str v3) (fun rep =>
          obind (finish ps3) (fun _ =>
          match rx text pat rep with
          | Some s => Ok (VStr s)
          | None => Err EFunctionFailed                                (* incoherent oracle only *)
          end)))
      end))))
  | FConcat => obind (concat_loop args []) (fun l => Ok (VList l))
  | FIsEmpty =>
      obind (param args) (fun '(v, ps1) =>
      obind (as_list v) (fun l =>
      obind (finish ps1) (fun _ => Ok (VBool (match l with [] => true | _ :: _ => false end)))))
  | FJoin =>
      obind (param args) (fun '(v, ps1) =>
      obind (as_list v) (fun l =>
      obind (match ps1 with                                            (* match parameters.param() *)
             | [] => Ok ([], [])
             | v2 :: ps2 => obind (as_str v2) (fun sep => Ok (sep, ps2))
             end) (fun '(sep, ps2) =>
      obind (finish ps2) (fun _ =>
      Ok (VStr (intercalate sep (map (display_value t) l)))))))
  | FLength =>
      obind (param args) (fun '(v, ps1) =>
      obind (as_list v) (fun l =>
      obind (finish ps1) (fun _ => Ok (VInt (as_u32 (N.of_nat (length l)))))))
  end.

Definition stdlib_fn (rx : regex_oracle) (t : tree) (f : fn) (g : graph) (args : params) : res (value * graph) :=
  obind (stdlib_pure rx t f g args) (fun v =>
  Ok (v, match f with FNode => fst (add_graph_node g) | _ => g end)).

(* Functions::call *)
Definition stdlib_call (rx : regex_oracle) (t : tree) (name : ident) (g : graph) (args : list value)
  : res (value * graph) :=
  match fn_of_name name with
  | None => Err EUndefinedFunction
  | Some f => stdlib_fn rx t f g args
  end.

(* ---- correspondence verdict (C13) ---- *)
Inductive obs :=
| ObsOk (v : value) (node_count : N)      (* Ok(value), graph.node_count() afterwards *)
| ObsErr (code : N)                        (* Err(e): error_code of the variant *)
| ObsPanic.                                (* the call panicked *)

(* the regex crate's answers recorded by the harness for this case *)
Definition oracle_of (l : list (str * str * str * option str)) : regex_oracle :=
  fun text pat rep =>
    match List.find (fun e => match e with (a, b, c, _) => str_eqb text a && str_eqb pat b && str_eqb rep c end) l with
    | Some (_, r) => r
    | None => None
    end.

(* 0 agree; 1 value differs; 2 node count differs; 3 error variant differs; 4 Ok/Err kind differs;
   5 implementation panicked where the model does not; 6 model panics / out of fuel, implementation does not *)
Definition c13_compare (m : res (value * graph)) (impl : obs) : N :=
  match m, impl with
  | Ok (v, g'), ObsOk v' n' =>
      if value_eqb v v' then (if N.of_nat (length g') =? n' then 0 else 2) else 1
  | Err e, ObsErr c => if error_code e =? c then 0 else 3
  | Panic _, ObsPanic => 0
  | _, ObsPanic => 5
  | Ok _, ObsErr _ | Err _, ObsOk _ _ => 4
  | _, _ => 6
  end.
Definition c13_verdict (ol : list (str * str * str * option str)) (t : tree) (name : ident) (nodes : nat)
  (args : list value) (impl : obs) : N :=
  c13_compare (stdlib_call (oracle_of ol) t name (repeat new_gnode nodes) args) impl.
