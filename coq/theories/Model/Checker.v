(* Model/Checker.v — checker.rs, function by function, with the nested `VariableMap` of variables.rs
   (Model/Vars.v: `varmap`, head = innermost frame).  Definitions only.

   What is modelled
   - `VariableResult { is_local, quantifier }` (`vres`), `ExpressionResult` (`eres`; `used_captures` is a
     HashSet: only membership is ever observed, so a list), `CheckError` (`check_error`).
   - The checker mutates the AST in place (`Capture::{stanza_capture_index, file_capture_index,
     quantifier}`, `Stanza::full_match_file_capture_index`); the model returns the rewritten piece next
     to each result.  Only the AST after an `Ok(())` is observable, so nothing is returned on errors.
   - `VariableMap::nested(ctx.locals)` pushes an empty frame; when the nested map is dropped the frame
     is popped (`varmap_pop`) and the writes that `set` made THROUGH it into outer frames remain.
   - tree-sitter's `Query` is an external: a case supplies `query_tables` (capture names of every stanza
     query in index order; capture names of the merged file query in index order; per pattern = stanza
     the quantifier of every file capture) and the regex crate's answer to `regex.captures("")` per scan
     arm (`qt_nullable`, indexed like the regex table of the dumped AST).
   - every `expect`/index of checker.rs is a `Panic site`:
       601 "missing capture index for full match" (file query)        checker.rs:173
       602 "capture should have index" (stanza query, own name)       checker.rs:188
       603 "missing capture index for name" (file query)              checker.rs:648
       604 `capture_quantifiers(stanza_index)` index out of range     checker.rs:650
       605 `[self.file_capture_index]` out of range                   checker.rs:650
       606 the case has no capture-name table for this stanza (an inconsistency of the INPUT of the
           model, not a Rust panic; kept apart so that it cannot be confused with one)
     `self.query.as_ref().unwrap()` (checker.rs:144) cannot fail after `parse` and is not modelled.
   - `file.shorthands` is not visited by `File::check` (known finding K4): neither does the model.
   - HashSet iteration order (`all_captures.difference(&used_captures)`) is the explicit parameter
     `order` of `check_file_with`; `check_file` uses the identity. *)
From TSG Require Export Model.Vars Model.Errors Model.Ast.

Record vres := { vr_local : bool; vr_quant : quant }.
Record eres := { er_local : bool; er_quant : quant; er_used : list ident }.
Definition cenv := varmap vres.

Definition vres_of (r : eres) : vres := {| vr_local := er_local r; vr_quant := er_quant r |}.   (* Into<VariableResult> *)
Definition eres_of (v : vres) : eres := {| er_local := vr_local v; er_quant := vr_quant v; er_used := [] |}. (* Into<ExpressionResult> for &VariableResult *)
Definition eres_lit : eres := {| er_local := true; er_quant := QOne; er_used := [] |}.

Inductive check_error :=
| CkHideGlobal (name : ident) (l : loc)
| CkSetGlobal (name : ident) (l : loc)
| CkDupGlobal (name : ident) (l : loc)
| CkExpectedList (l : loc)
| CkExpectedLocal (l : loc)
| CkExpectedOptional (l : loc)
| CkNullableRegex (rx : N) (l : loc)
| CkUndefinedCapture (name : ident) (l : loc)
| CkUndefinedVariable (name : ident) (l : loc)
| CkUnusedCaptures (names : list str) (l : loc)          (* the "@name" strings, sorted; Rust joins them with " " *)
| CkVariable (e : var_error) (name : ident) (l : loc).

Definition ck (A : Type) := outcome check_error A.

Definition P_full_match_file : N := 601.
Definition P_capture_should_have_index : N := 602.
Definition P_missing_capture_index_for_name : N := 603.
Definition P_capture_quantifiers_pattern : N := 604.
Definition P_quantifier_index : N := 605.
Definition P_no_stanza_table : N := 606.

(* parser.rs: pub const FULL_MATCH: &str = "__tsg__full_match" *)
Definition FULL_MATCH : ident := [95;95;116;115;103;95;95;102;117;108;108;95;109;97;116;99;104].

(* ---- the external Query API ---- *)
Record query_tables := {
  qt_stanza_names : list (list ident);      (* stanza.query.capture_names(), per stanza *)
  qt_file_names : list ident;               (* file.query.capture_names() *)
  qt_file_quants : list (list quant);       (* file.query.capture_quantifiers(i), per pattern i = stanza i *)
  qt_nullable : list bool;                  (* arm.regex.captures("").is_some(), per regex index *)
}.

(* Query::capture_index_for_name: position of the name in capture_names() *)
Fixpoint name_pos (name : ident) (names : list ident) : option nat :=
  match names with
  | [] => None
  | n :: ns => if str_eqb name n then Some 0%nat else option_map S (name_pos name ns)
  end.
Definition name_index (name : ident) (names : list ident) : option N := option_map N.of_nat (name_pos name names).

(* CheckContext; `locals` is threaded separately *)
Record cctx := {
  cx_globals : cenv;                        (* the global table built by File::check (one frame) *)
  cx_file_names : list ident;
  cx_file_quants : option (list quant);     (* file_query.capture_quantifiers(stanza_index); None = index out of range *)
  cx_stanza_names : list ident;
  cx_nullable : list bool;
}.
Definition nullable_rx (cx : cctx) (rx : N) : bool := nth (N.to_nat rx) (cx_nullable cx) false.

Definition varmap_nested {V} (m : varmap V) : varmap V := [] :: m.      (* VariableMap::nested(m) *)
Definition varmap_pop {V} (m : varmap V) : varmap V := tl m.            (* drop of the nested map *)

Definition is_list_q (q : quant) : bool := match q with QStar | QPlus => true | _ => false end.
Definition is_opt_q (q : quant) : bool := match q with QOpt => true | _ => false end.

(* ---- sequencing helpers (`for x in &mut xs { let r = x.check(ctx)?; ... }`) ---- *)
Section MapM.
  Context {A B : Type} (f : A -> ck B).
  Fixpoint mapM (l : list A) : ck (list B) :=
    match l with
    | [] => Ok []
    | x :: l' => obind (f x) (fun y => obind (mapM l') (fun ys => Ok (y :: ys)))
    end.
End MapM.
Section Seq.
  Context {A B : Type} (f : cenv -> A -> ck (B * cenv * list ident)).
  Fixpoint check_seq (env : cenv) (l : list A) : ck (list B * cenv * list ident) :=
    match l with
    | [] => Ok ([], env, [])
    | x :: l' => obind (f env x) (fun '(x', env1, u1) =>
                 obind (check_seq env1 l') (fun '(l'', env2, u2) => Ok (x' :: l'', env2, u1 ++ u2)))
    end.
End Seq.
(* `is_local &= r.is_local` from `true`; `used_captures.extend(r.used_captures)` *)
Definition all_local (rs : list (expr * eres)) : bool := forallb (fun r => er_local (snd r)) rs.
Definition all_used (rs : list (expr * eres)) : list ident := concat (map (fun r => er_used (snd r)) rs).

(* ---- UnscopedVariable::{check_add, check_set, check_get} ---- *)
Definition unscoped_check_add (cx : cctx) (env : cenv) (name : ident) (l : loc) (value : vres) (mutable : bool) : ck cenv :=
  match varmap_get (cx_globals cx) name with
  | Some _ => Err (CkHideGlobal name l)
  | None =>
      let value := if mutable then {| vr_local := false; vr_quant := vr_quant value |} else value in
      match varmap_add env name value mutable with
      | inl env' => Ok env'
      | inr e => Err (CkVariable e name l)
      end
  end.
Definition unscoped_check_set (cx : cctx) (env : cenv) (name : ident) (l : loc) (value : vres) : ck cenv :=
  match varmap_get (cx_globals cx) name with
  | Some _ => Err (CkSetGlobal name l)
  | None =>
      let value := {| vr_local := false; vr_quant := vr_quant value |} in
      match varmap_set env name value with
      | inl env' => Ok env'
      | inr e => Err (CkVariable e name l)
      end
  end.
Definition unscoped_check_get (cx : cctx) (env : cenv) (name : ident) (l : loc) : ck eres :=
  match varmap_get (cx_globals cx) name with
  | Some v => Ok (eres_of v)
  | None => match varmap_get env name with
            | Some v => Ok (eres_of v)
            | None => Err (CkUndefinedVariable name l)
            end
  end.

(* ---- Capture::check ---- *)
Definition check_capture (cx : cctx) (name : ident) (l : loc) : ck (expr * eres) :=
  match name_index name (cx_stanza_names cx) with
  | None => Err (CkUndefinedCapture name l)
  | Some si =>
      match name_index name (cx_file_names cx) with
      | None => Panic P_missing_capture_index_for_name
      | Some fi =>
          match cx_file_quants cx with
          | None => Panic P_capture_quantifiers_pattern
          | Some qs =>
              match nth_error qs (N.to_nat fi) with
              | None => Panic P_quantifier_index
              | Some q => Ok (ECapture name q fi si l, {| er_local := true; er_quant := q; er_used := [name] |})
              end
          end
      end
  end.

(* ---- Expression::check ---- *)
Fixpoint check_expr (cx : cctx) (env : cenv) (e : expr) {struct e} : ck (expr * eres) :=
  (* List/SetComprehension::check share their body *)
  let comp (mk : expr -> ident -> loc -> expr -> loc -> expr) elem var vloc value l :=
    obind (check_expr cx env value) (fun '(value', vr) =>
    if negb (er_local vr) then Err (CkExpectedLocal l) else
    if negb (is_list_q (er_quant vr)) then Err (CkExpectedList l) else
    obind (unscoped_check_add cx (varmap_nested env) var vloc (vres_of vr) false) (fun loop_env =>
    obind (check_expr cx loop_env elem) (fun '(elem', er) =>
    Ok (mk elem' var vloc value' l,
        {| er_local := er_local er; er_quant := QStar; er_used := er_used vr ++ er_used er |})))) in
  match e with
  | EFalse | ENull | ETrue | EInt _ | EStr _ | ERegexCap _ => Ok (e, eres_lit)
  | EList es =>
      obind (mapM (check_expr cx env) es) (fun rs =>
      Ok (EList (map fst rs), {| er_local := all_local rs; er_quant := QStar; er_used := all_used rs |}))
  | ESet es =>
      obind (mapM (check_expr cx env) es) (fun rs =>
      Ok (ESet (map fst rs), {| er_local := all_local rs; er_quant := QStar; er_used := all_used rs |}))
  | EListComp elem var vloc value l => comp EListComp elem var vloc value l
  | ESetComp elem var vloc value l => comp ESetComp elem var vloc value l
  | ECapture name _ _ _ l => check_capture cx name l
  | EUnscoped name l => obind (unscoped_check_get cx env name l) (fun r => Ok (e, r))
  | EScoped scope name l =>
      obind (check_expr cx env scope) (fun '(scope', sr) =>
      Ok (EScoped scope' name l, {| er_local := false; er_quant := QOne; er_used := er_used sr |}))   (* FIXME we don't really know *)
  | ECall f args =>
      obind (mapM (check_expr cx env) args) (fun rs =>
      Ok (ECall f (map fst rs), {| er_local := all_local rs; er_quant := QOne; er_used := all_used rs |})) (* FIXME we don't really know *)
  end.

(* ---- Variable::{check_add, check_set}: Unscoped => the rules above; Scoped => only the scope
   expression is checked (value and mutability are ignored) ---- *)
Definition check_var_add (cx : cctx) (env : cenv) (v : variable) (value : vres) (mutable : bool)
    : ck (variable * cenv * list ident) :=
  match v with
  | VarU name l => obind (unscoped_check_add cx env name l value mutable) (fun env' => Ok (v, env', []))
  | VarS scope name l => obind (check_expr cx env scope) (fun '(scope', sr) => Ok (VarS scope' name l, env, er_used sr))
  end.
Definition check_var_set (cx : cctx) (env : cenv) (v : variable) (value : vres)
    : ck (variable * cenv * list ident) :=
  match v with
  | VarU name l => obind (unscoped_check_set cx env name l value) (fun env' => Ok (v, env', []))
  | VarS scope name l => obind (check_expr cx env scope) (fun '(scope', sr) => Ok (VarS scope' name l, env, er_used sr))
  end.

(* ---- Attribute::check ---- *)
Definition check_attr (cx : cctx) (env : cenv) (a : attr) : ck (attr * list ident) :=
  match a with Attr name value => obind (check_expr cx env value) (fun '(value', r) => Ok (Attr name value', er_used r)) end.

(* ---- Condition::check ---- *)
Definition check_cond (cx : cctx) (env : cenv) (c : cond) : ck (cond * list ident) :=
  match c with
  | CSome e l =>
      obind (check_expr cx env e) (fun '(e', r) =>
      if negb (er_local r) then Err (CkExpectedLocal l) else
      if negb (is_opt_q (er_quant r)) then Err (CkExpectedOptional l) else Ok (CSome e' l, er_used r))
  | CNone e l =>
      obind (check_expr cx env e) (fun '(e', r) =>
      if negb (er_local r) then Err (CkExpectedLocal l) else
      if negb (is_opt_q (er_quant r)) then Err (CkExpectedOptional l) else Ok (CNone e' l, er_used r))
  | CBool e l =>
      obind (check_expr cx env e) (fun '(e', r) =>
      if negb (er_local r) then Err (CkExpectedLocal l) else Ok (CBool e' l, er_used r))
  end.

(* ---- Statement::check; result = (rewritten statement, ctx.locals afterwards, used captures) ---- *)
Fixpoint check_stmt (cx : cctx) (env : cenv) (s : stmt) {struct s} : ck (stmt * cenv * list ident) :=
  (* `let mut x_locals = VariableMap::nested(ctx.locals); for statement in .. { statement.check(&mut x_ctx)? }` *)
  let block (env0 : cenv) (body : list stmt) : ck (list stmt * cenv * list ident) :=
    check_seq (check_stmt cx) env0 body in
  match s with
  | SLet v e l =>
      obind (check_expr cx env e) (fun '(e', r) =>
      obind (check_var_add cx env v (vres_of r) false) (fun '(v', env', u) => Ok (SLet v' e' l, env', er_used r ++ u)))
  | SVar v e l =>
      obind (check_expr cx env e) (fun '(e', r) =>
      obind (check_var_add cx env v (vres_of r) true) (fun '(v', env', u) => Ok (SVar v' e' l, env', er_used r ++ u)))
  | SSet v e l =>
      obind (check_expr cx env e) (fun '(e', r) =>
      obind (check_var_set cx env v (vres_of r)) (fun '(v', env', u) => Ok (SSet v' e' l, env', er_used r ++ u)))
  | SNode v vtext l =>
      obind (check_var_add cx env v {| vr_local := true; vr_quant := QOne |} false) (fun '(v', env', u) =>
      Ok (SNode v' vtext l, env', u))
  | SAttrNode node attrs l =>
      obind (check_expr cx env node) (fun '(node', r) =>
      obind (mapM (check_attr cx env) attrs) (fun ars =>
      Ok (SAttrNode node' (map fst ars) l, env, er_used r ++ concat (map snd ars))))
  | SEdge src snk l =>
      obind (check_expr cx env src) (fun '(src', r1) =>
      obind (check_expr cx env snk) (fun '(snk', r2) =>
      Ok (SEdge src' snk' l, env, er_used r1 ++ er_used r2)))
  | SAttrEdge src snk attrs l =>
      obind (check_expr cx env src) (fun '(src', r1) =>
      obind (check_expr cx env snk) (fun '(snk', r2) =>
      obind (mapM (check_attr cx env) attrs) (fun ars =>
      Ok (SAttrEdge src' snk' (map fst ars) l, env, er_used r1 ++ er_used r2 ++ concat (map snd ars)))))
  | SScan value arms l =>
      obind (check_expr cx env value) (fun '(value', r) =>
      if negb (er_local r) then Err (CkExpectedLocal l) else
      obind (check_seq (fun env0 (arm : N * list stmt * loc) =>
               let '(rx, body, al) := arm in
               if nullable_rx cx rx then Err (CkNullableRegex rx al) else
               obind (block (varmap_nested env0) body) (fun '(body', env1, u) =>
               Ok ((rx, body', al), varmap_pop env1, u))) env arms) (fun '(arms', env', u) =>
      Ok (SScan value' arms' l, env', er_used r ++ u)))
  | SPrint values l =>
      obind (mapM (check_expr cx env) values) (fun rs => Ok (SPrint (map fst rs) l, env, all_used rs))
  | SIf arms l =>
      obind (check_seq (fun env0 (arm : list cond * list stmt * loc) =>
               let '(conds, body, al) := arm in
               obind (mapM (check_cond cx env0) conds) (fun crs =>
               obind (block (varmap_nested env0) body) (fun '(body', env1, u) =>
               Ok ((map fst crs, body', al), varmap_pop env1, concat (map snd crs) ++ u)))) env arms) (fun '(arms', env', u) =>
      Ok (SIf arms' l, env', u))
  | SFor var vloc value body l =>
      obind (check_expr cx env value) (fun '(value', r) =>
      if negb (er_local r) then Err (CkExpectedLocal l) else
      if negb (is_list_q (er_quant r)) then Err (CkExpectedList l) else
      obind (unscoped_check_add cx (varmap_nested env) var vloc (vres_of r) false) (fun loop_env =>
      obind (block loop_env body) (fun '(body', env1, u) =>
      Ok (SFor var vloc value' body' l, varmap_pop env1, er_used r ++ u))))
  end.
Definition check_block (cx : cctx) (env : cenv) (body : list stmt) : ck (list stmt * cenv * list ident) :=
  check_seq (check_stmt cx) env body.

(* ---- Stanza::check ---- *)
Definition mem (x : ident) (l : list ident) : bool := existsb (str_eqb x) l.
Fixpoint dedup (l : list ident) : list ident :=                       (* .collect::<HashSet<_>>() *)
  match l with [] => [] | x :: l' => if mem x l' then dedup l' else x :: dedup l' end.
Definition starts_with_underscore (s : ident) : bool := match s with c :: _ => N.eqb c 95 | [] => false end.

(* capture_names().filter(|cn| capture_index_for_name(cn).expect(..) != full_match_stanza_capture_index) *)
Fixpoint non_full_names (names all : list ident) (full : N) : ck (list ident) :=
  match names with
  | [] => Ok []
  | n :: ns =>
      match name_index n all with
      | None => Panic P_capture_should_have_index
      | Some i => obind (non_full_names ns all full) (fun r => Ok (if N.eqb i full then r else n :: r))
      end
  end.

(* all_captures.difference(&used).filter(!starts_with("_")).map("@{}") in the hash order of
   `all_captures` (= `order`), then `sort()` *)
Definition unused_captures (order : list ident -> list ident) (names : list ident) (full : N) (used : list ident) : ck (list str) :=
  obind (non_full_names names names full) (fun all =>
  let diff := filter (fun n => negb (mem n used)) (order (dedup all)) in
  let shown := map (fun n => 64 :: n) (filter (fun n => negb (starts_with_underscore n)) diff) in
  Ok (sort_by str_ltb shown)).

Definition stanza_ctx (q : query_tables) (globals : cenv) (i : nat) (names : list ident) : cctx :=
  {| cx_globals := globals; cx_file_names := qt_file_names q; cx_file_quants := nth_error (qt_file_quants q) i;
     cx_stanza_names := names; cx_nullable := qt_nullable q |}.

Definition check_stanza (order : list ident -> list ident) (q : query_tables) (globals : cenv) (i : nat) (st : stanza) : ck stanza :=
  match nth_error (qt_stanza_names q) i with
  | None => Panic P_no_stanza_table
  | Some names =>
      match name_index FULL_MATCH (qt_file_names q) with
      | None => Panic P_full_match_file
      | Some full_file =>
          obind (check_block (stanza_ctx q globals i names) [[]] (st_stmts st)) (fun '(stmts', _, used) =>
          obind (unused_captures order names (st_full_stanza_idx st) used) (fun unused =>
          match unused with
          | _ :: _ => Err (CkUnusedCaptures unused (st_start st))
          | [] => Ok {| st_stmts := stmts'; st_full_stanza_idx := st_full_stanza_idx st;
                        st_full_file_idx := full_file; st_start := st_start st |}
          end))
      end
  end.

(* ---- File::check ---- *)
Fixpoint check_global_table (gs : list global) (m : cenv) : ck cenv :=
  match gs with
  | [] => Ok m
  | g :: gs' =>
      match varmap_add m (gl_name g) {| vr_local := true; vr_quant := gl_quant g |} false with
      | inl m' => check_global_table gs' m'
      | inr _ => Err (CkDupGlobal (gl_name g) (gl_loc g))
      end
  end.
Fixpoint check_stanzas (order : list ident -> list ident) (q : query_tables) (globals : cenv) (i : nat) (sts : list stanza) : ck (list stanza) :=
  match sts with
  | [] => Ok []
  | st :: sts' => obind (check_stanza order q globals i st) (fun st' =>
                  obind (check_stanzas order q globals (S i) sts') (fun sts'' => Ok (st' :: sts'')))
  end.
Definition check_file_ck (order : list ident -> list ident) (q : query_tables) (f : file) : ck file :=
  obind (check_global_table (f_globals f) [[]]) (fun globals =>
  obind (check_stanzas order q globals 0%nat (f_stanzas f)) (fun sts' =>
  Ok {| f_globals := f_globals f; f_inherited := f_inherited f; f_shorthands := f_shorthands f; f_stanzas := sts' |})).

(* ---- the interface ---- *)
(* variant codes = position of the variant in `enum CheckError`, `Variable(..)` split by VariableError *)
Definition ce_variant (e : check_error) : N :=
  match e with
  | CkHideGlobal _ _ => 1 | CkSetGlobal _ _ => 2 | CkDupGlobal _ _ => 3 | CkExpectedList _ => 4
  | CkExpectedLocal _ => 5 | CkExpectedOptional _ => 6 | CkNullableRegex _ _ => 7 | CkUndefinedCapture _ _ => 8
  | CkUndefinedVariable _ _ => 9 | CkUnusedCaptures _ _ => 10
  | CkVariable VarAlreadyDefined _ _ => 11 | CkVariable VarUndefined _ _ => 12 | CkVariable VarImmutable _ _ => 13
  end.
Definition ce_loc (e : check_error) : loc :=
  match e with
  | CkHideGlobal _ l | CkSetGlobal _ l | CkDupGlobal _ l | CkExpectedList l | CkExpectedLocal l
  | CkExpectedOptional l | CkNullableRegex _ l | CkUndefinedCapture _ l | CkUndefinedVariable _ l
  | CkUnusedCaptures _ l | CkVariable _ _ l => l
  end.
Definition ce_names (e : check_error) : list str := match e with CkUnusedCaptures ns _ => ns | _ => [] end.

Inductive check_result :=
| CkOk (f' : file)
| CkErr (variant : N) (l : loc) (names : list str)
| CkPanic (site : N).
Definition to_result (r : ck file) : check_result :=
  match r with
  | Ok f' => CkOk f'
  | Err e => CkErr (ce_variant e) (ce_loc e) (ce_names e)
  | Panic s => CkPanic s
  | OutOfFuel => CkPanic 0
  end.
Definition check_file_with (order : list ident -> list ident) (q : query_tables) (f : file) : check_result :=
  to_result (check_file_ck order q f).
Definition check_file (q : query_tables) (f : file) : check_result := check_file_with (fun l => l) q f.

(* table consistency (what tree-sitter guarantees for the merged query, C03 assumption A1, plus the
   shape of the tables): one name table and one quantifier row per stanza, every row as long as the
   file's name list, every stanza capture name known to the file query, FULL_MATCH known to it *)
Definition tables_consistent (q : query_tables) (f : file) : bool :=
  Nat.eqb (length (qt_stanza_names q)) (length (f_stanzas f)) &&
  Nat.eqb (length (qt_file_quants q)) (length (f_stanzas f)) &&
  forallb (fun row => Nat.eqb (length row) (length (qt_file_names q))) (qt_file_quants q) &&
  forallb (fun names => forallb (fun n => mem n (qt_file_names q)) names) (qt_stanza_names q) &&
  mem FULL_MATCH (qt_file_names q).

(* ================= correspondence verdict (harness/src/c06.rs) ================= *)
Definition loc_eqb (a b : loc) : bool := N.eqb (fst a) (fst b) && N.eqb (snd a) (snd b).
Section ListEqb.
  Context {A : Type} (eqb : A -> A -> bool).
  Fixpoint leqb (a b : list A) : bool :=
    match a, b with
    | [], [] => true
    | x :: a', y :: b' => eqb x y && leqb a' b'
    | _, _ => false
    end.
End ListEqb.
Definition opt_eqb {A} (eqb : A -> A -> bool) (a b : option A) : bool :=
  match a, b with Some x, Some y => eqb x y | None, None => true | _, _ => false end.

Fixpoint expr_eqb (a b : expr) {struct a} : bool :=
  match a, b with
  | EFalse, EFalse | ENull, ENull | ETrue, ETrue => true
  | EInt x, EInt y => N.eqb x y
  | EStr x, EStr y => str_eqb x y
  | EList x, EList y => leqb expr_eqb x y
  | ESet x, ESet y => leqb expr_eqb x y
  | EListComp e1 v1 vl1 s1 l1, EListComp e2 v2 vl2 s2 l2
  | ESetComp e1 v1 vl1 s1 l1, ESetComp e2 v2 vl2 s2 l2 =>
      expr_eqb e1 e2 && str_eqb v1 v2 && loc_eqb vl1 vl2 && expr_eqb s1 s2 && loc_eqb l1 l2
  | ECapture n1 q1 f1 s1 l1, ECapture n2 q2 f2 s2 l2 =>
      str_eqb n1 n2 && quant_eqb q1 q2 && N.eqb f1 f2 && N.eqb s1 s2 && loc_eqb l1 l2
  | EUnscoped n1 l1, EUnscoped n2 l2 => str_eqb n1 n2 && loc_eqb l1 l2
  | EScoped s1 n1 l1, EScoped s2 n2 l2 => expr_eqb s1 s2 && str_eqb n1 n2 && loc_eqb l1 l2
  | ECall f1 a1, ECall f2 a2 => str_eqb f1 f2 && leqb expr_eqb a1 a2
  | ERegexCap x, ERegexCap y => N.eqb x y
  | _, _ => false
  end.
Definition variable_eqb (a b : variable) : bool :=
  match a, b with
  | VarU n1 l1, VarU n2 l2 => str_eqb n1 n2 && loc_eqb l1 l2
  | VarS s1 n1 l1, VarS s2 n2 l2 => expr_eqb s1 s2 && str_eqb n1 n2 && loc_eqb l1 l2
  | _, _ => false
  end.
Definition attr_eqb (a b : attr) : bool :=
  match a, b with Attr n1 v1, Attr n2 v2 => str_eqb n1 n2 && expr_eqb v1 v2 end.
Definition cond_eqb (a b : cond) : bool :=
  match a, b with
  | CSome e1 l1, CSome e2 l2 | CNone e1 l1, CNone e2 l2 | CBool e1 l1, CBool e2 l2 => expr_eqb e1 e2 && loc_eqb l1 l2
  | _, _ => false
  end.
Fixpoint stmt_eqb (a b : stmt) {struct a} : bool :=
  match a, b with
  | SLet v1 e1 l1, SLet v2 e2 l2 | SVar v1 e1 l1, SVar v2 e2 l2 | SSet v1 e1 l1, SSet v2 e2 l2 =>
      variable_eqb v1 v2 && expr_eqb e1 e2 && loc_eqb l1 l2
  | SNode v1 t1 l1, SNode v2 t2 l2 => variable_eqb v1 v2 && str_eqb t1 t2 && loc_eqb l1 l2
  | SAttrNode n1 a1 l1, SAttrNode n2 a2 l2 => expr_eqb n1 n2 && leqb attr_eqb a1 a2 && loc_eqb l1 l2
  | SEdge s1 k1 l1, SEdge s2 k2 l2 => expr_eqb s1 s2 && expr_eqb k1 k2 && loc_eqb l1 l2
  | SAttrEdge s1 k1 a1 l1, SAttrEdge s2 k2 a2 l2 => expr_eqb s1 s2 && expr_eqb k1 k2 && leqb attr_eqb a1 a2 && loc_eqb l1 l2
  | SScan v1 arms1 l1, SScan v2 arms2 l2 =>
      expr_eqb v1 v2 &&
      leqb (fun (x y : N * list stmt * loc) =>
              let '(r1, b1, al1) := x in let '(r2, b2, al2) := y in
              N.eqb r1 r2 && leqb stmt_eqb b1 b2 && loc_eqb al1 al2) arms1 arms2 &&
      loc_eqb l1 l2
  | SPrint v1 l1, SPrint v2 l2 => leqb expr_eqb v1 v2 && loc_eqb l1 l2
  | SIf arms1 l1, SIf arms2 l2 =>
      leqb (fun (x y : list cond * list stmt * loc) =>
              let '(c1, b1, al1) := x in let '(c2, b2, al2) := y in
              leqb cond_eqb c1 c2 && leqb stmt_eqb b1 b2 && loc_eqb al1 al2) arms1 arms2 &&
      loc_eqb l1 l2
  | SFor x1 vl1 v1 b1 l1, SFor x2 vl2 v2 b2 l2 =>
      str_eqb x1 x2 && loc_eqb vl1 vl2 && expr_eqb v1 v2 && leqb stmt_eqb b1 b2 && loc_eqb l1 l2
  | _, _ => false
  end.
Definition global_eqb (a b : global) : bool :=
  str_eqb (gl_name a) (gl_name b) && quant_eqb (gl_quant a) (gl_quant b) &&
  opt_eqb str_eqb (gl_default a) (gl_default b) && loc_eqb (gl_loc a) (gl_loc b).
Definition shorthand_eqb (a b : shorthand) : bool :=
  str_eqb (sh_name a) (sh_name b) && str_eqb (sh_var a) (sh_var b) && loc_eqb (sh_vloc a) (sh_vloc b) &&
  leqb attr_eqb (sh_attrs a) (sh_attrs b) && loc_eqb (sh_loc a) (sh_loc b).
Definition stanza_eqb (a b : stanza) : bool :=
  leqb stmt_eqb (st_stmts a) (st_stmts b) && N.eqb (st_full_stanza_idx a) (st_full_stanza_idx b) &&
  N.eqb (st_full_file_idx a) (st_full_file_idx b) && loc_eqb (st_start a) (st_start b).
Definition file_eqb (a b : file) : bool :=
  leqb global_eqb (f_globals a) (f_globals b) && leqb str_eqb (f_inherited a) (f_inherited b) &&
  leqb shorthand_eqb (f_shorthands a) (f_shorthands b) && leqb stanza_eqb (f_stanzas a) (f_stanzas b).

(* "@a @b" : Vec<String>::join(" ") *)
Fixpoint join_sp (l : list str) : str :=
  match l with
  | [] => []
  | x :: l' => match l' with [] => x | _ => x ++ 32 :: join_sp l' end
  end.

(* what the harness saw: `check()` returned Ok (and the AST afterwards), an error (variant code,
   location, the text of UnusedCaptures or []), or panicked *)
Inductive c06_obs :=
| CObsOk (f' : file)
| CObsErr (variant : N) (l : loc) (names : str)
| CObsPanic.

(* 0 agree; 1 variant differs; 2 location differs; 3 model Ok / implementation Err; 4 model Err /
   implementation Ok; 5 both Ok, resolved ASTs differ; 6 names of UnusedCaptures differ; 7 the
   implementation panicked where the model does not; 8 the model panics where the implementation
   does not *)
Definition c06_verdict (q : query_tables) (f : file) (obs : c06_obs) : N :=
  match check_file q f, obs with
  | CkOk f1, CObsOk f2 => if file_eqb f1 f2 then 0 else 5
  | CkErr v l ns, CObsErr v' l' s =>
      if negb (N.eqb v v') then 1 else if negb (loc_eqb l l') then 2 else if negb (str_eqb (join_sp ns) s) then 6 else 0
  | CkOk _, CObsErr _ _ _ => 3
  | CkErr _ _ _, CObsOk _ => 4
  | CkPanic _, CObsPanic => 0
  | CkPanic _, _ => 8
  | _, CObsPanic => 7
  end.
Definition c06_detail (q : query_tables) (f : file) := check_file q f.
