(* Model/C14TextObs.v — correspondence verdict of property C14 extended by the TEXT level (Model/JsonText.v).
   Additional inputs: `jtext` = the text that `Graph::display_json(Some(path))` wrote into the file (the harness
   also checks that it is the text returned by serde_json::to_string_pretty(&graph)), as a list of scalar
   values; `tbl` = for every syntax node referenced by the graph, (its id in the text = truncated address,
   its preorder id): the canonicalisation that the harness applies to `ij`, done here by `jcanon` on the
   tree parsed from the text.
   The text lists object members in hash-map iteration order, which the value tree `ij` (a sorted map) does
   not keep; the member order is therefore read off the text itself with the model's parser:
     32  the real text is not accepted by the model's parser `parse_json_text`, or the model's printer
         `print_pretty`, run on the parsed tree `tj`, does not reproduce the real text CHARACTER BY CHARACTER,
         or `tj` (syntax-node ids canonicalised) differs from the implementation's value tree `ij` (both with
         members sorted by key).
   Whatever the parser accepts, bit 32 = 0 implies: real text = print_pretty tj for a tree tj that is the
   implementation's value tree up to member order; bit 1 ties that tree to the model's encode_graph.
   Verdict = c14_verdict (bits 1..16) + 32 * (text level differs). *)
From TSG Require Export Model.C14Obs Model.JsonText.

(* a run of k spaces: the harness writes long indentation runs of the real text in this form (the term is
   smaller); nothing else of the text is abbreviated *)
Definition sp (k : N) : str := repeat 32 (N.to_nat k).

(* {"type": "syntaxNode", "id": n}: n -> preorder id (the same rewrite as the harness's json_coq) *)
Definition canon_member (tbl : list (N * N)) (kv : str * json) : str * json :=
  if str_eqb (fst kv) s_id then
    match snd kv with
    | JNum n => match nlookup n tbl with Some i => (fst kv, JNum i) | None => kv end
    | _ => kv
    end
  else kv.
Fixpoint jcanon (tbl : list (N * N)) (j : json) : json :=
  match j with
  | JArr l => JArr (map (jcanon tbl) l)
  | JObj m =>
      let m' := map (fun kv => (fst kv, jcanon tbl (snd kv))) m in
      match jlookup s_type m with
      | Some (JStr t) => if str_eqb t s_syntaxNode then JObj (map (canon_member tbl) m') else JObj m'
      | _ => JObj m'
      end
  | _ => j
  end.

Definition c14_jtext_ok (ij : json) (tbl : list (N * N)) (jtext : str) : bool :=
  match parse_json_text jtext with
  | Some tj => str_eqb (print_pretty tj) jtext && json_eqb (jsort (jcanon tbl tj)) (jsort ij)
  | None => false
  end.

Definition c14t_verdict (E : penv) (g : graph) (ij : json) (reparse_ok : bool) (text : str) (synset : bool)
                        (tbl : list (N * N)) (jtext : str) : N :=
  c14_verdict E g ij reparse_ok text synset + (if c14_jtext_ok ij tbl jtext then 0 else 32).

(* what the model prints for its own value tree (members in association-list order), for replay files *)
Definition c14t_detail (E : penv) (g : graph) : json * list str * str :=
  (c14_detail E g, graph_json_text g).
