(* Model/ScanOps.v — the little DSL programs of correspondence stream C10 and their verdict.
   Definitions only.  Program shape (one stanza `(module) { <stmts> }`):
     SNode tag ks      ==  node n   attr (n) arm = <tag>, c<k> = $k ...   (k in ks, ascending)
     SScan subj arms   ==  scan <subj> { "<re>" { <stmts> } ... }   with subj a string literal or $k
   The regex engine is instantiated by the executable matcher rx_captures (validated by C10rx). *)
From TSG Require Export Model.Scan.

Inductive ssubj := SubjLit (s : str) | SubjCap (k : N).
Inductive sstmt :=
| SNode (tag : N) (ks : list N)
| SScan (subj : ssubj) (arms : list (regex * list sstmt)).

(* one created graph node: its `arm` attribute and the strings of its c<k> attributes *)
Definition node_obs := (N * list str)%type.

Fixpoint lookup_caps (mode_lazy : bool) (cur : list str) (ks : list N) : res (list str) :=
  match ks with
  | [] => Ok []
  | k :: ks' =>
    match (if mode_lazy then regex_capture_lazy cur k else regex_capture_strict cur k) with
    | Ok (VStr s) => match lookup_caps mode_lazy cur ks' with Ok l => Ok (s :: l) | e => e end
    | Ok _ => Panic 2
    | Err e => Err e
    | Panic p => Panic p
    | OutOfFuel => OutOfFuel
    end
  end.

(* statements of a block, in order; `cur` = current_regex_captures; acc = nodes created so far *)
Fixpoint exec_stmts (fuel : nat) (mode_lazy : bool) (l : list sstmt) (cur : list str) (acc : list node_obs)
  : res (list node_obs) :=
  match fuel with
  | O => OutOfFuel
  | S fuel =>
    match l with
    | [] => Ok acc
    | SNode tag ks :: l' =>
        match lookup_caps mode_lazy cur ks with
        | Ok vs => exec_stmts fuel mode_lazy l' cur (acc ++ [(tag, vs)])
        | Err e => Err e | Panic p => Panic p | OutOfFuel => OutOfFuel
        end
    | SScan subj arms :: l' =>
        let subject : res str :=
          match subj with
          | SubjLit s => Ok s
          | SubjCap k =>
              match (if mode_lazy then regex_capture_lazy cur k else regex_capture_strict cur k) with
              | Ok v => as_str v
              | Err e => Err e | Panic p => Panic p | OutOfFuel => OutOfFuel
              end
          end in
        match subject with
        | Ok s =>
            (* the events do not depend on what the arm bodies do, so compute them first; the
               bodies then run in event order, the first error wins, the loop's own error last *)
            let '(evs, f) := scan_loop rx_captures (S (length s)) (map fst arms) s 0 in
            let after :=
              (fix go (evs : list scan_event) (acc : list node_obs) : res (list node_obs) :=
                 match evs with
                 | [] => Ok acc
                 | (k, _, _, strs) :: evs' =>
                     match nth_error arms (N.to_nat k) with
                     | Some (_, body) =>
                         match exec_stmts fuel mode_lazy body strs acc with
                         | Ok acc' => go evs' acc'
                         | e => e
                         end
                     | None => Panic 1                                   (* self.arms[*block_index] *)
                     end
                 end) evs acc in
            match after with
            | Ok acc' =>
                match f with
                | SDone => exec_stmts fuel mode_lazy l' cur acc'
                | SErrEmpty _ => Err EEmptyRegexCapture
                | SOutOfFuel => OutOfFuel
                end
            | e => e
            end
        | Err e => Err e | Panic p => Panic p | OutOfFuel => OutOfFuel
        end
    end
  end.

(* static check: some arm regex (anywhere in the program) matches "" *)
Fixpoint prog_nullable (fuel : nat) (l : list sstmt) : bool :=
  match fuel with
  | O => false
  | S fuel =>
    match l with
    | [] => false
    | SNode _ _ :: l' => prog_nullable fuel l'
    | SScan _ arms :: l' =>
        match scan_check rx_captures (map fst arms) with
        | Some _ => true
        | None => existsb (fun arm => prog_nullable fuel (snd arm)) arms || prog_nullable fuel l'
        end
    end
  end.

(* canonical observation of one run *)
Inductive c10_obs :=
| ONodes (l : list node_obs)      (* execution succeeded: nodes in index order *)
| OErr (code : N)                 (* execution failed: error_code of the root cause *)
| ONullable                       (* load-time rejection CheckError::NullableRegex *)
| OPanicked                       (* the implementation panicked / the model reached a panic site *)
| OOther.                         (* any other load failure / model out of fuel *)

Definition c10_fuel : nat := 400%nat.

Definition c10_run (mode_lazy : bool) (prog : list sstmt) : c10_obs :=
  if prog_nullable c10_fuel prog then ONullable else
  match exec_stmts c10_fuel mode_lazy prog [] [] with
  | Ok l => ONodes l
  | Err e => OErr (error_code (root_cause e))
  | Panic _ => OPanicked
  | OutOfFuel => OOther
  end.

Definition node_obs_eqb (a b : node_obs) : bool := (fst a =? fst b) && list_eqb str_eqb (snd a) (snd b).
Definition c10_obs_eqb (a b : c10_obs) : bool :=
  match a, b with
  | ONodes x, ONodes y => list_eqb node_obs_eqb x y
  | OErr x, OErr y => x =? y
  | ONullable, ONullable | OPanicked, OPanicked => true
  | _, _ => false                                  (* OOther never agrees *)
  end.

(* 0 = both modes agree with the model; 1 = strict differs; 2 = lazy differs; 3 = both differ *)
Definition c10_verdict (prog : list sstmt) (impl_strict impl_lazy : c10_obs) : N :=
  (if c10_obs_eqb (c10_run false prog) impl_strict then 0 else 1) +
  (if c10_obs_eqb (c10_run true prog) impl_lazy then 0 else 2).
