(* Model/Exec.v — what both interpreters share (execution.rs): configuration, matches, capture
   values (Value::from_nodes), debug attributes, the state-and-error monad and its primitives.
   Definitions only. *)
From TSG Require Export Model.Ast Model.Graph Model.Vars Model.Tree Model.Globals.

(* ExecutionConfig (functions and globals are passed separately) *)
Record config := {
  c_loc_attr : option ident;       (* location_attr *)
  c_var_attr : option ident;       (* variable_name_attr *)
  c_match_attr : option ident;     (* match_node_attr *)
}.
Definition config0 : config := {| c_loc_attr := None; c_var_attr := None; c_match_attr := None |}.

(* A query match as tree-sitter reports it: capture index -> nodes in match order. *)
Definition qmatch := list (N * list N).
Fixpoint nodes_for_capture (m : qmatch) (i : N) : list N :=
  match m with
  | [] => []
  | (j, ns) :: m' => if N.eqb i j then ns ++ nodes_for_capture m' i else nodes_for_capture m' i
  end.

(* panic sites (the argument of Panic) *)
Definition P_missing_full_capture : N := 1.
Definition P_missing_capture : N := 2.
Definition P_unreachable_quantifier : N := 3.
Definition P_params_underflow : N := 4.
Definition P_graph_index : N := 5.
Definition P_regex_table : N := 6.
Definition P_store_index : N := 7.
Definition P_stanza_index : N := 8.
Definition P_locals_empty : N := 9.
Definition P_unreachable_scoped : N := 10.

(* Value::from_nodes *)
Definition from_nodes (ns : list N) (q : quant) : res value :=
  match q with
  | QZero => Panic P_unreachable_quantifier
  | QOne => match ns with n :: _ => Ok (VSyn n) | [] => Panic P_missing_capture end
  | QStar | QPlus => Ok (VList (map VSyn ns))
  | QOpt => match ns with n :: _ => Ok (VSyn n) | [] => Ok VNull end
  end.

(* "line R column C" of the debug location attributes *)
Fixpoint digits_fuel (fuel : nat) (n : N) (acc : str) : str :=
  match fuel with
  | O => acc
  | S f => let d := 48 + N.modulo n 10 in
           if N.ltb n 10 then d :: acc else digits_fuel f (N.div n 10) (d :: acc)
  end.
Definition decimal (n : N) : str := digits_fuel (S (N.to_nat (N.log2 n))) n [].
Definition s_line : str := [108;105;110;101;32].                      (* "line " *)
Definition s_column : str := [32;99;111;108;117;109;110;32].          (* " column " *)
Definition loc_text (l : loc) : str := s_line ++ decimal (fst l + 1) ++ s_column ++ decimal (snd l + 1).

(* ---------------------------------------------------------------- *)
(* poll accounting shared by both interpreters: the flag fails from its k-th poll on.  The poll
   state is a separate component of the monad that computations can only touch through `poll`. *)
Record polls := { p_count : N; p_trace : list N (* reversed *); p_budget : option N }.
Definition polls0 (budget : option N) : polls := {| p_count := 0; p_trace := []; p_budget := budget |}.
Definition poll_step (label : N) (p : polls) : polls * bool (* cancelled *) :=
  let p' := {| p_count := p_count p + 1; p_trace := label :: p_trace p; p_budget := p_budget p |} in
  match p_budget p with
  | Some k => (p', N.leb k (p_count p'))
  | None => (p', false)
  end.

(* The monad: interpreter state S, poll state, errors exec_error, panics, fuel exhaustion. *)
Section Monad.
  Context {S : Type}.
  Definition M (A : Type) := S -> polls -> outcome exec_error (A * S * polls).
  Definition ret {A} (a : A) : M A := fun s p => Ok (a, s, p).
  Definition bind {A B} (m : M A) (f : A -> M B) : M B :=
    fun s p => match m s p with
               | Ok (a, s', p') => f a s' p'
               | Err e => Err e
               | Panic x => Panic x
               | OutOfFuel => OutOfFuel
               end.
  Definition fail {A} (e : exec_error) : M A := fun _ _ => Err e.
  Definition panic {A} (x : N) : M A := fun _ _ => Panic x.
  Definition out_of_fuel {A} : M A := fun _ _ => OutOfFuel.
  Definition lift {A} (r : res A) : M A :=
    fun s p => match r with Ok a => Ok (a, s, p) | Err e => Err e | Panic x => Panic x | OutOfFuel => OutOfFuel end.
  Definition get_state : M S := fun s p => Ok (s, s, p).
  Definition modify (f : S -> S) : M unit := fun s p => Ok (tt, f s, p).
  (* cancellation_flag.check(label) *)
  Definition poll (label : N) : M unit :=
    fun s p => let '(p', cancelled) := poll_step label p in
               if cancelled then Err (ECancelled label) else Ok (tt, s, p').
  (* with_context on a computation *)
  Definition ctx_wrap {A} (c : context) (m : M A) : M A :=
    fun s p => match m s p with Err e => Err (add_context c e) | r => r end.

  Fixpoint mapM {A B} (f : A -> M B) (l : list A) : M (list B) :=
    match l with
    | [] => ret []
    | x :: l' => bind (f x) (fun y => bind (mapM f l') (fun ys => ret (y :: ys)))
    end.
  Fixpoint iterM {A} (f : A -> M unit) (l : list A) : M unit :=
    match l with
    | [] => ret tt
    | x :: l' => bind (f x) (fun _ => iterM f l')
    end.
End Monad.
Arguments M : clear implicits.

Notation "x <- m ;; k" := (bind m (fun x => k)) (at level 61, m at next level, right associativity).
Notation "m ;;; k" := (bind m (fun _ => k)) (at level 61, right associativity).

(* poll labels of cancellation_flag.check("...") *)
Definition L_exec_stmt : N := 1.        (* "executing statement" *)
Definition L_exec_attr : N := 2.        (* "executing attribute" *)
Definition L_scan : N := 3.             (* "processing scan matches" *)
Definition L_matches : N := 4.          (* "processing matches" *)
Definition L_eval_stmt : N := 5.        (* "evaluating statement" *)
Definition L_eval_value : N := 6.       (* "evaluating value" *)

(* File::check_globals is Model/Globals.v (check_globals / run_globals) *)

(* the arm-selection step of `scan` (both interpreters): first arm with an empty match => error;
   otherwise the minimum by (start, arm index) *)
Inductive arm_sel := ASelNone | ASelEmpty (arm : N) | ASelArm (arm : N) (caps : list (option (N * N))).
Section ArmSelect.
  Context {rx : Type}.
  Variable find : rx -> str -> option (list (option (N * N))).
  Definition cap0 (caps : list (option (N * N))) : N * N :=
    match caps with Some p :: _ => p | _ => (0, 0) end.
  (* best so far: (arm, caps) *)
  Fixpoint arm_collect (arms : list rx) (k : N) (suffix : str) (best : option (N * list (option (N * N)))) : arm_sel :=
    match arms with
    | [] => match best with None => ASelNone | Some (a, c) => ASelArm a c end
    | r :: arms' =>
        match find r suffix with
        | None => arm_collect arms' (k + 1) suffix best
        | Some caps =>
            let '(a, b) := cap0 caps in
            if N.eqb a b then ASelEmpty k
            else
              let best' := match best with
                           | None => Some (k, caps)
                           | Some (k0, c0) => if N.ltb a (fst (cap0 c0)) then Some (k, caps) else best
                           end in
              arm_collect arms' (k + 1) suffix best'
        end
    end.
  Definition arm_select (arms : list rx) (suffix : str) : arm_sel := arm_collect arms 0 suffix None.
End ArmSelect.

(* text of each capture group: unmatched => "" *)
Definition cap_texts (suffix : str) (caps : list (option (N * N))) : list str :=
  map (fun c => match c with
                | Some (a, b) => sublist (N.to_nat a) (N.to_nat (b - a)) suffix
                | None => []
                end) caps.
