(* Model/AstDisplay.v — the `Display` impls of /repo/src/ast.rs (and `Display for Location`, parser.rs:171), character by
   character.  Definitions only.

   Used by: `StatementContext::new` / `update_statement` (execution/error.rs:94-107: `statement: format!("{}", stmt)`), i.e.
   the statement text shown in every execution-error context (property C20), and by `CreateGraphNode`'s debug attribute
   (the `vtext` field of `SNode` is `format!("{}", node)` = `display_variable`).

   What the code prints (ast.rs line numbers):
     Statement (100)        dispatch on the variant
     DeclareImmutable (261) "let {variable} = {value} at {location}"      DeclareMutable (285) "var ..."   Assign (181) "set ..."
     CreateGraphNode (241)  "node {node} at {location}"
     AddGraphNodeAttribute (157)  "attr ({node})" then " {attr}" for each attribute then " at {location}"
     CreateEdge (218)       "edge {source} -> {sink} at {location}"
     AddEdgeAttribute (133) "attr ({source} -> {sink})" then " {attr}" each, then " at {location}"
     Attribute (198)        "{name} = {value}"                 (no comma between attributes)
     Print (308)            "print" then " {value}," for EACH value (a trailing comma after the last) then " at {location}"
     Scan (332)             "scan {value} { ... } at {location}"          (arms are not printed)
     ScanArm (354)          "{regex:?} { ... }"                            (Debug of the pattern text)
     If (373)               first arm "if {conds} { ... }", a later arm " elif {conds} { ... }" when it has conditions and
                            " else { ... }" when it has none; then " at {location}"; conditions joined by ", ";
                            an `If` WITHOUT arms (the parser never builds one) prints just " at {location}"
     Condition (433)        "some {value}" / "none {value}" / "{value}"
     ForIn (464)            "for {variable} in {value} { ... } at {location}"
     ScopedVariable (504)   "{scope}.{name}"          UnscopedVariable (523) "{name}"
     Expression (555)       "false" "#null" "true"  — NOT "#false"/"#true": the text of `#true` is `true`, the same as a
                            variable named `true` (see display_stmt_not_injective in Proofs/AstDisplay.v)
     Call (588)             "({function}" then " {arg}" each then ")"
     Capture (618)          "@{name}"                 RegexCapture (707) "${match_index}"
     IntegerConstant (636)  decimal                   StringConstant (778) "{:?}" = <str as Debug> (escaped, Model/Pretty.v)
     ListLiteral (654)      "[" elements joined by ", " "]"        SetLiteral (725) "{" ... "}"
     ListComprehension (685) "[ {element} for {variable} in {value} ]"     SetComprehension (756) "{ ... }" likewise
     AttributeShorthand (837) "attribute {name} = {variable} =>" then " {attr}" each then " at {location}"
     Location               "({row+1}, {column+1})"   (= ErrRender.show_loc)
   `Identifier` prints its string.  Nothing here can fail: every impl is a sequence of `write!` into a String.

   <str as Debug> needs, for non-ASCII characters, the truth table "printed verbatim or as \u{..}" (Unicode tables of the
   Rust std the crate is built with): as for Model/Pretty.v it is passed with the case (`Pretty.penv`, field pe_print;
   pe_syn is not used here).  All other output is independent of E. *)
From TSG Require Export Model.Ast Model.ErrChain Model.VarDisplay.
From TSG Require Model.Pretty.

(* dpenv, dpenv_of, s_in s_forw s_comma s_false s_true s_null, display_expr and display_variable live in Model/VarDisplay.v
   (they depend on the AST only, and the parser model needs display_variable for the text of `node` statements). *)


(* ------------------------------------------------------------------------------------ the fixed pieces *)
Definition k_let : str := [108;101;116;32].                     (* "let " *)
Definition k_var : str := [118;97;114;32].                      (* "var " *)
Definition k_set : str := [115;101;116;32].                     (* "set " *)
Definition k_node : str := [110;111;100;101;32].                (* "node " *)
Definition k_edge : str := [101;100;103;101;32].                (* "edge " *)
Definition k_attr : str := [97;116;116;114;32].                 (* "attr " *)
Definition k_print : str := [112;114;105;110;116].              (* "print"  — the blank comes from " {value}," or " at " *)
Definition k_if : str := [105;102;32].                          (* "if " *)
Definition k_for : str := [102;111;114;32].                     (* "for " *)
Definition k_scan : str := [115;99;97;110;32].                  (* "scan " *)
Definition s_eq : str := [32;61;32].                            (* " = " *)
Definition s_at : str := [32;97;116;32].                        (* " at " *)
Definition s_arrow : str := [32;45;62;32].                      (* " -> " *)
Definition s_block : str := [32;123;32;46;46;46;32;125].        (* " { ... }" *)
Definition s_elif : str := [32;101;108;105;102;32].             (* " elif " *)
Definition s_else : str := [32;101;108;115;101].                (* " else" *)
Definition s_some : str := [115;111;109;101;32].                (* "some " *)
Definition s_none : str := [110;111;110;101;32].                (* "none " *)
Definition s_attribute : str := [97;116;116;114;105;98;117;116;101;32].    (* "attribute " *)
Definition s_darrow : str := [32;61;62].                        (* " =>" *)

Definition display_attr (E : dpenv) (a : attr) : str :=
  match a with Attr name value => name ++ s_eq ++ display_expr E value end.
(* `for attr in &self.attributes { write!(f, " {}", attr)?; }` *)
Definition display_attrs (E : dpenv) (l : list attr) : str := flat_map (fun a => 32 :: display_attr E a) l.

Definition display_cond (E : dpenv) (c : cond) : str :=
  match c with
  | CSome e _ => s_some ++ display_expr E e
  | CNone e _ => s_none ++ display_expr E e
  | CBool e _ => display_expr E e
  end.
(* DisplayConditions *)
Definition display_conds (E : dpenv) (l : list cond) : str := Pretty.join s_comma (map (display_cond E) l).

(* the arms of an `if` after the first one *)
Definition display_if_rest (E : dpenv) (arm : list cond * list stmt * loc) : str :=
  match fst (fst arm) with
  | [] => s_else ++ s_block
  | cs => s_elif ++ display_conds E cs ++ s_block
  end.
Definition display_if_arms (E : dpenv) (arms : list (list cond * list stmt * loc)) : str :=
  match arms with
  | [] => []
  | a :: r => k_if ++ display_conds E (fst (fst a)) ++ s_block ++ flat_map (display_if_rest E) r
  end.

(* ------------------------------------------------------------------------------------ statements *)
(* not recursive: nested blocks print as "{ ... }" *)
Definition display_stmt (E : dpenv) (s : stmt) : str :=
  match s with
  | SLet v e l => k_let ++ display_variable E v ++ s_eq ++ display_expr E e ++ s_at ++ show_loc l
  | SVar v e l => k_var ++ display_variable E v ++ s_eq ++ display_expr E e ++ s_at ++ show_loc l
  | SSet v e l => k_set ++ display_variable E v ++ s_eq ++ display_expr E e ++ s_at ++ show_loc l
  | SNode v _ l => k_node ++ display_variable E v ++ s_at ++ show_loc l
  | SAttrNode n attrs l => k_attr ++ [40] ++ display_expr E n ++ [41] ++ display_attrs E attrs ++ s_at ++ show_loc l
  | SEdge a b l => k_edge ++ display_expr E a ++ s_arrow ++ display_expr E b ++ s_at ++ show_loc l
  | SAttrEdge a b attrs l =>
      k_attr ++ [40] ++ display_expr E a ++ s_arrow ++ display_expr E b ++ [41] ++ display_attrs E attrs ++ s_at ++ show_loc l
  | SScan v _ l => k_scan ++ display_expr E v ++ s_block ++ s_at ++ show_loc l
  | SPrint vs l => k_print ++ flat_map (fun v => 32 :: display_expr E v ++ [44]) vs ++ s_at ++ show_loc l
  | SIf arms l => display_if_arms E arms ++ s_at ++ show_loc l
  | SFor v _ e _ l => k_for ++ v ++ s_in ++ display_expr E e ++ s_block ++ s_at ++ show_loc l
  end.

(* ScanArm: the pattern text is not part of the model's AST (arms carry an index into the regex table) *)
Definition display_scan_arm (E : dpenv) (pattern : str) : str := Pretty.debug_str E pattern ++ s_block.

Definition display_shorthand (E : dpenv) (s : shorthand) : str :=
  s_attribute ++ sh_name s ++ s_eq ++ sh_var s ++ s_darrow ++ display_attrs E (sh_attrs s) ++ s_at ++ show_loc (sh_loc s).

(* the keyword a statement's text starts with ("print" is followed by " ": either " {value}," or " at ") *)
Definition stmt_keyword (s : stmt) : str :=
  match s with
  | SLet _ _ _ => k_let | SVar _ _ _ => k_var | SSet _ _ _ => k_set | SNode _ _ _ => k_node
  | SAttrNode _ _ _ | SAttrEdge _ _ _ _ => k_attr | SEdge _ _ _ => k_edge | SScan _ _ _ => k_scan
  | SPrint _ _ => k_print ++ [32] | SIf _ _ => k_if | SFor _ _ _ _ _ => k_for
  end.

(* ------------------------------------------------------------------------------------ identifiers of a header *)
(* the identifiers of an expression / statement header (what is PRINTED: not the nested blocks) *)
Fixpoint expr_names (e : expr) : list ident :=
  match e with
  | EList es | ESet es => flat_map expr_names es
  | EListComp el v _ value _ | ESetComp el v _ value _ => expr_names el ++ [v] ++ expr_names value
  | ECapture name _ _ _ _ => [name]
  | EUnscoped name _ => [name]
  | EScoped scope name _ => expr_names scope ++ [name]
  | ECall f args => f :: flat_map expr_names args
  | _ => []
  end.
Definition variable_names (v : variable) : list ident :=
  match v with VarU name _ => [name] | VarS scope name _ => expr_names scope ++ [name] end.
Definition attr_names (a : attr) : list ident := match a with Attr name value => name :: expr_names value end.
Definition cond_names (c : cond) : list ident := match c with CSome e _ | CNone e _ | CBool e _ => expr_names e end.
Definition stmt_names (s : stmt) : list ident :=
  match s with
  | SLet v e _ | SVar v e _ | SSet v e _ => variable_names v ++ expr_names e
  | SNode v _ _ => variable_names v
  | SAttrNode n attrs _ => expr_names n ++ flat_map attr_names attrs
  | SEdge a b _ => expr_names a ++ expr_names b
  | SAttrEdge a b attrs _ => expr_names a ++ expr_names b ++ flat_map attr_names attrs
  | SScan v _ _ => expr_names v
  | SPrint vs _ => flat_map expr_names vs
  | SIf arms _ => flat_map (fun arm : list cond * list stmt * loc => flat_map cond_names (fst (fst arm))) arms
  | SFor v _ e _ _ => v :: expr_names e
  end.

(* no control character (in particular no line break) in any identifier printed by display_stmt: the hypothesis of
   display_stmt_single_line_partial, as a boolean (checked on every parsed file by stream C20d) *)
Definition clean_strb (t : str) : bool := forallb (fun c => 32 <=? c) t.
Definition stmt_names_cleanb (s : stmt) : bool := forallb clean_strb (stmt_names s).

(* ------------------------------------------------------------------------------------ statements of a file by location *)
(* all statements below s (any depth), preorder; the same traversal as Proofs/ErrorCtxValid.v `stmt_subs` *)
Fixpoint substmts (s : stmt) : list stmt :=
  match s with
  | SScan _ arms _ => flat_map (fun arm : N * list stmt * loc => flat_map (fun x => x :: substmts x) (snd (fst arm))) arms
  | SIf arms _ => flat_map (fun arm : list cond * list stmt * loc => flat_map (fun x => x :: substmts x) (snd (fst arm))) arms
  | SFor _ _ _ body _ => flat_map (fun x => x :: substmts x) body
  | _ => []
  end.
Definition block_stmts (l : list stmt) : list stmt := flat_map (fun x => x :: substmts x) l.
Definition file_stmts (fl : file) : list stmt := flat_map (fun st => block_stmts (st_stmts st)) (f_stanzas fl).

(* the first statement of the file (stanza order, preorder) whose location is l *)
Definition stmt_at (fl : file) (l : loc) : option stmt := find (fun s => loc_eqb (stmt_loc s) l) (file_stmts fl).

(* statement locations are keys: no two statements of the file share one (true of every parsed file — a statement starts
   at its keyword — but not implied by the type `file`) *)
Fixpoint locs_distinct (l : list loc) : bool :=
  match l with
  | [] => true
  | x :: r => negb (existsb (loc_eqb x) r) && locs_distinct r
  end.
Definition locs_unique (fl : file) : bool := locs_distinct (map stmt_loc (file_stmts fl)).

(* the statement text by location, as `chain_of_error` wants it; a location of no statement (excluded for the contexts of
   a run by the C20 theorems) gives the empty text *)
Definition stmt_text_of (E : dpenv) (fl : file) (l : loc) : str :=
  match stmt_at fl l with Some s => display_stmt E s | None => [] end.

(* `chain_of_error` (Model/ErrChain.v) with the statement texts computed from the file instead of being an opaque input *)
Definition chain_of_error_disp (E : dpenv) (fl : file) (cause_text : exec_error -> str) (node_kind : N -> str)
           (node_pos : N -> rloc) (other_msg : N -> str) : exec_error -> chain :=
  chain_of_error (stmt_text_of E fl) cause_text node_kind node_pos other_msg.
Definition chain_of_error_disp_tree (E : dpenv) (fl : file) (cause_text : exec_error -> str) (other_msg : N -> str) (t : tree)
  : exec_error -> chain :=
  chain_of_error_tree (stmt_text_of E fl) cause_text other_msg t.
