(* Model/Loader.v — `File::from_str` as the composition of the two models it consists of: the parser model
   (Model/Parser.v `parse_into_file`, tied to parser.rs by streams C07/C05p) followed by the checker model
   (Model/Checker.v `check_file_ck`, tied to checker.rs by stream C06), with the query tables q that tree-sitter provides for
   the merged query as an input.  The error of a rejected text is returned as the load error that is rendered
   (Model/LoadErrRender.v), via Model/LoadErrOf.v.  No stream of its own: nothing is modelled here beyond the two calls.
   Definitions only. *)
From TSG Require Export Model.LoadErrOf.
From TSG Require Import Model.Parser Model.Checker.

Inductive load_result :=
| LdOk (f : file) (patterns : list str)      (* the checked file and the scan patterns in order of appearance *)
| LdErr (e : load_error)
| LdPanic (site : N)
| LdFuel
| LdMiss.

Definition load (X : Parser.ext) (q : Checker.query_tables) (fuel : nat) (text : str) : load_result :=
  match Parser.parse_into_file X fuel (Parser.init_state text) with
  | Parser.ROk a s =>
      match Checker.check_file_ck (fun l => l) q (Parser.file_of_acc a) with
      | Ok f' => LdOk f' (rev (Parser.p_pats s))
      | Err ce => LdErr (load_error_of_check ce)
      | Panic n => LdPanic n
      | OutOfFuel => LdPanic 0
      end
  | Parser.RErr pe => LdErr (load_error_of_parse pe)
  | Parser.RPanic n => LdPanic n
  | Parser.RFuel => LdFuel
  | Parser.RMiss => LdMiss
  end.
