(* Model/Pretty.v — graph.rs `Graph::pretty_print` (75-93), `Display for Attributes` (310-320: keys sorted,
   two spaces, key, colon, space, value:?, newline), `Debug for Value` (541-584), `Debug for SyntaxNodeRef/GraphNodeRef`,
   and a line parser that recovers nodes, edges and attributes from the printed text.
   Panic sites: `self.values[*key]` in Display for Attributes indexes the map with one of its own keys
   (cannot fail); everything else is write! with `?`.  The printer is a total function to text.
   Definitions only.

   Modelled dependencies of std (not verified): decimal rendering of integers = N.to_uint;
   `<str as Debug>::fmt` = dquote + char::escape_debug_ext(grapheme-extended: yes, single quote: no,
   double quote: yes) per char + dquote.  The escape is DEFINED here for ASCII (\0 \t \n \r \\ \dquote, other
   controls and DEL as \u{hex}, 0x20..0x7e verbatim); for a non-ASCII character the model needs to know
   whether std prints it verbatim (printable and not Grapheme_Extend) or as \u{hex}: that truth table
   (`pe_print`) is passed with the case for the characters that occur in it (DESIGN 3.3).
   A syntax-node reference prints its `kind` and 1-based start position, which the model does not keep
   in `VSyn id`: the table `pe_syn` (id -> kind,row,column) is passed with the case as well. *)
From TSG Require Export Model.Json.
From Coq Require Decimal Hexadecimal.

(* ---- numerals ---- *)
Fixpoint uint_str (u : Decimal.uint) : str :=
  match u with
  | Decimal.Nil => []
  | Decimal.D0 u => 48 :: uint_str u | Decimal.D1 u => 49 :: uint_str u | Decimal.D2 u => 50 :: uint_str u
  | Decimal.D3 u => 51 :: uint_str u | Decimal.D4 u => 52 :: uint_str u | Decimal.D5 u => 53 :: uint_str u
  | Decimal.D6 u => 54 :: uint_str u | Decimal.D7 u => 55 :: uint_str u | Decimal.D8 u => 56 :: uint_str u
  | Decimal.D9 u => 57 :: uint_str u
  end.
Definition dec (n : N) : str := uint_str (N.to_uint n).        (* format!("{}", n) *)

Fixpoint hexuint_str (u : Hexadecimal.uint) : str :=
  match u with
  | Hexadecimal.Nil => []
  | Hexadecimal.D0 u => 48 :: hexuint_str u | Hexadecimal.D1 u => 49 :: hexuint_str u
  | Hexadecimal.D2 u => 50 :: hexuint_str u | Hexadecimal.D3 u => 51 :: hexuint_str u
  | Hexadecimal.D4 u => 52 :: hexuint_str u | Hexadecimal.D5 u => 53 :: hexuint_str u
  | Hexadecimal.D6 u => 54 :: hexuint_str u | Hexadecimal.D7 u => 55 :: hexuint_str u
  | Hexadecimal.D8 u => 56 :: hexuint_str u | Hexadecimal.D9 u => 57 :: hexuint_str u
  | Hexadecimal.Da u => 97 :: hexuint_str u | Hexadecimal.Db u => 98 :: hexuint_str u
  | Hexadecimal.Dc u => 99 :: hexuint_str u | Hexadecimal.Dd u => 100 :: hexuint_str u
  | Hexadecimal.De u => 101 :: hexuint_str u | Hexadecimal.Df u => 102 :: hexuint_str u
  end.
Definition hex (n : N) : str := hexuint_str (N.to_hex_uint n).  (* format!("{:x}", n) *)

(* ---- environment passed with a case ---- *)
Record penv := {
  pe_syn : list (N * (str * (N * N)));     (* syntax node id -> (kind, (row, column)), 0-based *)
  pe_print : list (N * bool)               (* non-ASCII code point -> printed verbatim by escape_debug? *)
}.
Fixpoint nlookup {A} (k : N) (l : list (N * A)) : option A :=
  match l with
  | [] => None
  | (k', a) :: l' => if N.eqb k k' then Some a else nlookup k l'
  end.

(* ---- <str as Debug> ---- *)
Definition esc_unicode (c : N) : str := [92;117;123] ++ hex c ++ [125].        (* \u{..} *)
Definition esc_char (E : penv) (c : N) : str :=
  if N.eqb c 0 then [92;48]                 (* \0 *)
  else if N.eqb c 9 then [92;116]           (* \t *)
  else if N.eqb c 10 then [92;110]          (* \n *)
  else if N.eqb c 13 then [92;114]          (* \r *)
  else if N.eqb c 92 then [92;92]           (* \\ *)
  else if N.eqb c 34 then [92;34]           (* \dquote *)
  else if N.ltb c 32 then esc_unicode c
  else if N.ltb c 127 then [c]
  else if N.eqb c 127 then esc_unicode c
  else match nlookup c (pe_print E) with
       | Some false => esc_unicode c
       | _ => [c]
       end.
Definition debug_str (E : penv) (s : str) : str := [34] ++ flat_map (esc_char E) s ++ [34].

Fixpoint join (sep : str) (l : list str) : str :=
  match l with
  | [] => []
  | x :: l' => match l' with [] => x | _ => x ++ sep ++ join sep l' end
  end.

(* "[syntax node {kind} ({row+1}, {column+1})]" *)
Definition debug_syn (E : penv) (n : N) : str :=
  let '(kind, (row, col)) := match nlookup n (pe_syn E) with Some x => x | None => ([], (0, 0)) end in
  [91;115;121;110;116;97;120;32;110;111;100;101;32] ++ kind ++ [32;40] ++ dec (row + 1) ++ [44;32] ++ dec (col + 1) ++ [41;93].

(* impl Debug for Value *)
Fixpoint debug_value (E : penv) (v : value) : str :=
  match v with
  | VNull => [35;110;117;108;108]                                   (* #null *)
  | VBool true => [35;116;114;117;101]                              (* #true *)
  | VBool false => [35;102;97;108;115;101]                          (* #false *)
  | VInt n => dec n
  | VStr s => debug_str E s
  | VList l => [91] ++ join [44;32] (map (debug_value E) l) ++ [93]
  | VSet l => [123] ++ join [44;32] (map (debug_value E) l) ++ [125]
  | VSyn n => debug_syn E n
  | VGraph n => [91;103;114;97;112;104;32;110;111;100;101;32] ++ dec n ++ [93]   (* [graph node n] *)
  end.

(* ---- pretty_print as a list of lines ---- *)
Inductive pline :=
| PNode (i : N)                         (* "node {i}" *)
| PEdge (i j : N)                       (* "edge {i} -> {j}" *)
| PAttr (name : str) (text : str).      (* "  {name}: {value:?}" *)

Definition s_node_ : str := [110;111;100;101;32].     (* "node " *)
Definition s_edge_ : str := [101;100;103;101;32].     (* "edge " *)
Definition s_arrow : str := [32;45;62;32].            (* " -> " *)

Definition render_pline (l : pline) : str :=
  match l with
  | PNode i => s_node_ ++ dec i
  | PEdge i j => s_edge_ ++ dec i ++ s_arrow ++ dec j
  | PAttr k t => [32;32] ++ k ++ [58;32] ++ t
  end.

(* Display for Attributes: keys sorted (Identifier: Ord = byte order of the name) *)
Definition attr_plines (E : penv) (m : amap) : list pline :=
  map (fun kv => PAttr (fst kv) (debug_value E (snd kv))) (sort_alist m).

Definition edge_plines (E : penv) (i : N) (e : N * amap) : list pline :=
  PEdge i (fst e) :: attr_plines E (snd e).

Definition node_plines (E : penv) (i : N) (n : gnode) : list pline :=
  PNode i :: attr_plines E (g_attrs n) ++ flat_map (edge_plines E i) (g_edges n).

Fixpoint graph_plines (E : penv) (i : N) (g : list gnode) : list pline :=
  match g with
  | [] => []
  | n :: g' => node_plines E i n ++ graph_plines E (i + 1) g'
  end.

Definition pretty_plines (E : penv) (g : graph) : list pline := graph_plines E 0 g.
Definition pretty_lines (E : penv) (g : graph) : list str := map render_pline (pretty_plines E g).
(* the text written by `pretty_print`: every line is terminated by '\n' *)
Definition pretty_text (E : penv) (g : graph) : str := flat_map (fun l => l ++ [10]) (pretty_lines E g).

(* ---- reading the text back ---- *)
Fixpoint split_lines_aux (cur : str) (t : str) : list str :=
  match t with
  | [] => match cur with [] => [] | _ => [rev cur] end
  | c :: t' => if N.eqb c 10 then rev cur :: split_lines_aux [] t' else split_lines_aux (c :: cur) t'
  end.
Definition split_lines (t : str) : list str := split_lines_aux [] t.

Fixpoint strip_prefix (p s : str) : option str :=
  match p with
  | [] => Some s
  | a :: p' => match s with
               | [] => None
               | b :: s' => if N.eqb a b then strip_prefix p' s' else None
               end
  end.
(* split at the first occurrence of c: (before, Some after) or (all, None) *)
Fixpoint split_at (c : N) (s : str) : str * option str :=
  match s with
  | [] => ([], None)
  | x :: s' => if N.eqb x c then ([], Some s')
               else let '(a, r) := split_at c s' in (x :: a, r)
  end.

Definition char_digit (c : N) : option (Decimal.uint -> Decimal.uint) :=
  if N.eqb c 48 then Some Decimal.D0 else if N.eqb c 49 then Some Decimal.D1
  else if N.eqb c 50 then Some Decimal.D2 else if N.eqb c 51 then Some Decimal.D3
  else if N.eqb c 52 then Some Decimal.D4 else if N.eqb c 53 then Some Decimal.D5
  else if N.eqb c 54 then Some Decimal.D6 else if N.eqb c 55 then Some Decimal.D7
  else if N.eqb c 56 then Some Decimal.D8 else if N.eqb c 57 then Some Decimal.D9
  else None.
Fixpoint str_uint (s : str) : option Decimal.uint :=
  match s with
  | [] => Some Decimal.Nil
  | c :: s' => match char_digit c, str_uint s' with
               | Some d, Some u => Some (d u)
               | _, _ => None
               end
  end.
Definition parse_dec (s : str) : option N :=
  match s with
  | [] => None
  | _ => match str_uint s with Some u => Some (N.of_uint u) | None => None end
  end.

Definition parse_line (l : str) : option pline :=
  match strip_prefix s_node_ l with
  | Some r => match parse_dec r with Some i => Some (PNode i) | None => None end
  | None =>
    match strip_prefix s_edge_ l with
    | Some r =>
        let '(a, rest) := split_at 32 r in
        match rest with
        | Some r' => match strip_prefix [45;62;32] r' with
                     | Some b => match parse_dec a, parse_dec b with
                                 | Some i, Some j => Some (PEdge i j)
                                 | _, _ => None
                                 end
                     | None => None
                     end
        | None => None
        end
    | None =>
      match strip_prefix [32;32] l with
      | Some r =>
          let '(k, rest) := split_at 58 r in
          match rest with
          | Some r' => match strip_prefix [32] r' with
                       | Some t => Some (PAttr k t)
                       | None => None
                       end
          | None => None
          end
      | None => None
      end
    end
  end.

(* what the printed form shows: per node its (name, Debug text) attributes and, per outgoing edge,
   the sink and the edge's attributes *)
Definition pattrs := list (str * str).
Definition skel := list (pattrs * list (N * pattrs)).

Definition pstate := (pattrs * list (N * N * pattrs) * list (N * pattrs * list (N * N * pattrs)))%type.
Definition pstep (l : pline) (st : pstate) : pstate :=
  let '(attrs, es, nodes) := st in
  match l with
  | PAttr k t => ((k, t) :: attrs, es, nodes)
  | PEdge i j => ([], (i, j, attrs) :: es, nodes)
  | PNode i => ([], [], (i, attrs, es) :: nodes)
  end.

Definition check_edge (i : N) (e : N * N * pattrs) : option (N * pattrs) :=
  let '(src, j, a) := e in if N.eqb src i then Some (j, a) else None.
Fixpoint check_nodes (i : N) (nodes : list (N * pattrs * list (N * N * pattrs))) : option skel :=
  match nodes with
  | [] => Some []
  | (i', a, es) :: r =>
      if N.eqb i' i then
        match opt_all (map (check_edge i) es), check_nodes (i + 1) r with
        | Some es', Some s => Some ((a, es') :: s)
        | _, _ => None
        end
      else None
  end.

Definition extract_plines (ls : list pline) : option skel :=
  match fold_right pstep ([], [], []) ls with
  | ([], [], nodes) => check_nodes 0 nodes
  | _ => None            (* attribute or edge lines before the first node line *)
  end.

Definition extract_lines (lines : list str) : option skel :=
  match opt_all (map parse_line lines) with
  | Some ls => extract_plines ls
  | None => None
  end.

Definition pattrs_of (E : penv) (m : amap) : pattrs :=
  map (fun kv => (fst kv, debug_value E (snd kv))) (sort_alist m).
Definition graph_skel (E : penv) (g : graph) : skel :=
  map (fun n => (pattrs_of E (g_attrs n), map (fun e => (fst e, pattrs_of E (snd e))) (g_edges n))) g.

(* names only (used when set elements are syntax nodes, whose order is address dependent) *)
Definition skel_names (s : skel) : list (list str * list (N * list str)) :=
  map (fun n => (map fst (fst n), map (fun e => (fst e, map fst (snd e))) (snd n))) s.

Definition pattrs_eqb (a b : pattrs) : bool :=
  list_eqb (fun x y => str_eqb (fst x) (fst y) && str_eqb (snd x) (snd y)) a b.
Definition skel_eqb (a b : skel) : bool :=
  list_eqb (fun x y => pattrs_eqb (fst x) (fst y) &&
                       list_eqb (fun e f => N.eqb (fst e) (fst f) && pattrs_eqb (snd e) (snd f)) (snd x) (snd y)) a b.
Definition names_eqb (a b : list (list str * list (N * list str))) : bool :=
  list_eqb (fun x y => list_eqb str_eqb (fst x) (fst y) &&
                       list_eqb (fun e f => N.eqb (fst e) (fst f) && list_eqb str_eqb (snd e) (snd f)) (snd x) (snd y)) a b.
