(* Model/Base.v — common definitions: strings as code-point lists, outcomes, small list utilities.
   Definitions only (no proofs) so that the model still runs when a proof breaks. *)
From Coq Require Export List NArith Arith Bool Lia.
Export ListNotations.
Open Scope N_scope.

(* Rust String / &str: list of Unicode scalar values.  Ord on UTF-8 bytes = lexicographic on code points. *)
Definition str := list N.
Definition ident := list N.

Fixpoint list_eqb {A} (eqb : A -> A -> bool) (a b : list A) : bool :=
  match a, b with
  | [], [] => true
  | x :: a', y :: b' => eqb x y && list_eqb eqb a' b'
  | _, _ => false
  end.
Definition str_eqb : str -> str -> bool := list_eqb N.eqb.

Fixpoint list_cmp {A} (cmp : A -> A -> comparison) (a b : list A) : comparison :=
  match a, b with
  | [], [] => Eq
  | [], _ :: _ => Lt
  | _ :: _, [] => Gt
  | x :: a', y :: b' => match cmp x y with Eq => list_cmp cmp a' b' | c => c end
  end.
Definition str_cmp : str -> str -> comparison := list_cmp N.compare.

Definition bool_cmp (a b : bool) : comparison :=
  match a, b with false, true => Lt | true, false => Gt | _, _ => Eq end.

(* Result of a Rust computation: Ok / Err / a panic at a named site / model fuel exhausted. *)
Inductive outcome (E A : Type) : Type :=
| Ok (a : A) | Err (e : E) | Panic (site : N) | OutOfFuel.
Arguments Ok {E A} a.
Arguments Err {E A} e.
Arguments Panic {E A} site.
Arguments OutOfFuel {E A}.

Definition obind {E A B} (m : outcome E A) (f : A -> outcome E B) : outcome E B :=
  match m with Ok a => f a | Err e => Err e | Panic s => Panic s | OutOfFuel => OutOfFuel end.

(* association lists keyed by identifiers (models of HashMap<Identifier, _>; iteration order is
   not part of the model: every place the code iterates takes an explicit order or sorts) *)
Fixpoint alist_get {V} (k : ident) (l : list (ident * V)) : option V :=
  match l with
  | [] => None
  | (k', v) :: l' => if str_eqb k k' then Some v else alist_get k l'
  end.
Fixpoint alist_set {V} (k : ident) (v : V) (l : list (ident * V)) : list (ident * V) :=
  match l with
  | [] => [(k, v)]
  | (k', v') :: l' => if str_eqb k k' then (k, v) :: l' else (k', v') :: alist_set k v l'
  end.
Fixpoint alist_remove {V} (k : ident) (l : list (ident * V)) : list (ident * V) :=
  match l with
  | [] => []
  | (k', v') :: l' => if str_eqb k k' then alist_remove k l' else (k', v') :: alist_remove k l'
  end.

(* insertion sort by key, used where the code sorts (`keys.sort()`) and for canonical observation *)
Fixpoint insert_sorted {A} (lt : A -> A -> bool) (x : A) (l : list A) : list A :=
  match l with
  | [] => [x]
  | y :: l' => if lt x y then x :: y :: l' else y :: insert_sorted lt x l'
  end.
Definition sort_by {A} (lt : A -> A -> bool) (l : list A) : list A :=
  fold_right (insert_sorted lt) [] l.

Definition str_ltb (a b : str) : bool := match str_cmp a b with Lt => true | _ => false end.
Definition sort_alist {V} (l : list (ident * V)) : list (ident * V) :=
  sort_by (fun x y => str_ltb (fst x) (fst y)) l.

Definition u32_max : N := 4294967295.
