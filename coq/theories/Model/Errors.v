(* Model/Errors.v — execution/error.rs: ExecutionError (variants without message text), Context,
   StatementContext, with_context. *)
From TSG Require Export Model.Value.

Definition loc := (N * N)%type.                     (* zero-based row, character column *)

(* StatementContext: statement text is not modelled; locations and the matched node are. *)
Record stmt_ctx := { sc_stmt : loc; sc_stanza : loc; sc_node : N }.

Inductive context :=
| CtxStmts (l : list stmt_ctx)                       (* Context::Statement(vec) *)
| CtxOther.                                          (* Context::Other(String) *)

Inductive exec_error :=
| ECancelled (label : N)
| ECannotAssignImmutableVariable
| ECannotAssignScopedVariable
| ECannotDefineMutableScopedVariable
| EDuplicateAttribute
| EDuplicateEdge
| EDuplicateVariable
| EExpectedGraphNode
| EExpectedList
| EExpectedBoolean
| EExpectedInteger
| EExpectedString
| EExpectedSyntaxNode
| EInvalidParameters
| EInvalidVariableScope
| EMissingGlobalVariable
| ERecursivelyDefinedScopedVariable
| ERecursivelyDefinedVariable
| EUndefinedCapture
| EUndefinedFunction
| EUndefinedRegexCapture
| EUndefinedScopedVariable
| EEmptyRegexCapture
| EUndefinedEdge
| EUndefinedVariable
| EVariableScopesAlreadyForced
| EFunctionFailed
| EInContext (c : context) (e : exec_error).

Definition res (A : Type) := outcome exec_error A.

(* ResultWithExecutionError::with_context on the error value *)
Definition add_context (c : context) (e : exec_error) : exec_error :=
  match e with
  | ECancelled l => ECancelled l
  | EInContext CtxOther _ => EInContext c e
  | EInContext (CtxStmts _) _ => e
  | _ => EInContext c e
  end.
Definition with_context {A} (c : context) (r : res A) : res A :=
  match r with Err e => Err (add_context c e) | _ => r end.

(* root cause (innermost non-context error) and a numeric code for canonical observation *)
Fixpoint root_cause (e : exec_error) : exec_error :=
  match e with EInContext _ e' => root_cause e' | _ => e end.

Definition error_code (e : exec_error) : N :=
  match e with
  | ECancelled _ => 1 | ECannotAssignImmutableVariable => 2 | ECannotAssignScopedVariable => 3
  | ECannotDefineMutableScopedVariable => 4 | EDuplicateAttribute => 5 | EDuplicateEdge => 6
  | EDuplicateVariable => 7 | EExpectedGraphNode => 8 | EExpectedList => 9 | EExpectedBoolean => 10
  | EExpectedInteger => 11 | EExpectedString => 12 | EExpectedSyntaxNode => 13 | EInvalidParameters => 14
  | EInvalidVariableScope => 15 | EMissingGlobalVariable => 16 | ERecursivelyDefinedScopedVariable => 17
  | ERecursivelyDefinedVariable => 18 | EUndefinedCapture => 19 | EUndefinedFunction => 20
  | EUndefinedRegexCapture => 21 | EUndefinedScopedVariable => 22 | EEmptyRegexCapture => 23
  | EUndefinedEdge => 24 | EUndefinedVariable => 25 | EVariableScopesAlreadyForced => 26
  | EFunctionFailed => 27 | EInContext _ _ => 28
  end.

(* Value coercions of graph.rs (as_x, into_x) *)
Definition as_bool (v : value) : res bool := match v with VBool b => Ok b | _ => Err EExpectedBoolean end.
Definition as_int (v : value) : res N := match v with VInt n => Ok n | _ => Err EExpectedInteger end.
Definition as_str (v : value) : res str := match v with VStr s => Ok s | _ => Err EExpectedString end.
Definition as_list (v : value) : res (list value) := match v with VList l => Ok l | _ => Err EExpectedList end.
Definition as_gnode (v : value) : res N := match v with VGraph n => Ok n | _ => Err EExpectedGraphNode end.
Definition as_syn (v : value) : res N := match v with VSyn n => Ok n | _ => Err EExpectedSyntaxNode end.
