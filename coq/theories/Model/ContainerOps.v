(* Model/ContainerOps.v — the public-API operation language of C17 and its interpretation by the
   model; the harness runs the same operation lists on the real containers. *)
From TSG Require Export Model.Graph Model.Vars.

Inductive cop :=
| OAddNode
| OAddEdge (src sink : N)
| OGetEdge (src sink : N)
| OEdgeAttrAdd (src sink : N) (k : ident) (v : value)      (* via get_edge_mut *)
| OEdgeAttrGet (src sink : N) (k : ident)                  (* via get_edge *)
| ONodeAttrAdd (n : N) (k : ident) (v : value)
| ONodeAttrGet (n : N) (k : ident)
| ONodeAttrIter (n : N)
| OEdgeAttrIter (src sink : N)
| OIterNodes
| OIterEdges (n : N)
| ONodeCount
| OEdgeCount (n : N)
| OVarNested | OVarPop
| OVarAdd (k : ident) (v : value)
| OVarGet (k : ident)
| OVarRemove (k : ident)
| OVarClear
| OVarIsEmpty
| OVarIter.

(* observable result of one operation *)
Inductive cres :=
| RUnit
| RNode (n : N)
| RBool (b : bool)
| ROptVal (v : option value)
| RAddAttr (conflict : option value)           (* Ok(()) = None, Err(old) = Some old *)
| RNoEdge                                       (* get_edge(_mut) returned None *)
| RAttrs (l : list (ident * value))            (* iteration, canonically sorted by name *)
| RNodes (l : list N)
| RCount (n : N)
| RSkipped.                                     (* op not applicable (index out of range): harness skips too *)

Record cstate := { cs_graph : graph; cs_vars : globals }.
Definition cinit : cstate := {| cs_graph := []; cs_vars := [[]] |}.

Definition in_range (g : graph) (n : N) : bool := N.ltb n (N.of_nat (length g)).

Definition cstep (s : cstate) (o : cop) : cstate * cres :=
  let g := cs_graph s in let vs := cs_vars s in
  let keep r := (s, r) in
  let setg g' r := ({| cs_graph := g'; cs_vars := vs |}, r) in
  let setv v' r := ({| cs_graph := g; cs_vars := v' |}, r) in
  match o with
  | OAddNode => let '(g', n) := add_graph_node g in setg g' (RNode n)
  | OAddEdge a b =>
      if in_range g a && in_range g b then
        match graph_add_edge g a b with Some (g', isnew) => setg g' (RBool isnew) | None => keep RSkipped end
      else keep RSkipped
  | OGetEdge a b =>
      match gnode_at g a with
      | Some n => keep (RBool (match edges_get b (g_edges n) with Some _ => true | None => false end))
      | None => keep RSkipped end
  | OEdgeAttrAdd a b k v =>
      match gnode_at g a with
      | Some n => match edges_get b (g_edges n) with
                  | Some m => let '(m', c) := attrs_add m k v in
                              setg (graph_update g a (with_edges (edges_set b m' (g_edges n)))) (RAddAttr c)
                  | None => keep RNoEdge end
      | None => keep RSkipped end
  | OEdgeAttrGet a b k =>
      match gnode_at g a with
      | Some n => match edges_get b (g_edges n) with
                  | Some m => keep (ROptVal (attrs_get m k))
                  | None => keep RNoEdge end
      | None => keep RSkipped end
  | ONodeAttrAdd a k v =>
      match gnode_at g a with
      | Some n => let '(m', c) := attrs_add (g_attrs n) k v in
                  setg (graph_update g a (with_attrs m')) (RAddAttr c)
      | None => keep RSkipped end
  | ONodeAttrGet a k =>
      match gnode_at g a with
      | Some n => keep (ROptVal (attrs_get (g_attrs n) k))
      | None => keep RSkipped end
  | ONodeAttrIter a =>
      match gnode_at g a with
      | Some n => keep (RAttrs (sort_alist (g_attrs n)))
      | None => keep RSkipped end
  | OEdgeAttrIter a b =>
      match gnode_at g a with
      | Some n => match edges_get b (g_edges n) with
                  | Some m => keep (RAttrs (sort_alist m))
                  | None => keep RNoEdge end
      | None => keep RSkipped end
  | OIterNodes => keep (RNodes (map N.of_nat (seq 0 (length g))))
  | OIterEdges a =>
      match gnode_at g a with
      | Some n => keep (RNodes (map fst (g_edges n)))
      | None => keep RSkipped end
  | ONodeCount => keep (RCount (N.of_nat (length g)))
  | OEdgeCount a =>
      match gnode_at g a with
      | Some n => keep (RCount (N.of_nat (length (g_edges n))))
      | None => keep RSkipped end
  | OVarNested => setv (globals_nested vs) RUnit
  | OVarPop => match vs with _ :: (_ :: _) as up => setv up RUnit | _ => keep RSkipped end
  | OVarAdd k v => let '(vs', ok) := globals_add vs k v in setv vs' (RBool ok)
  | OVarGet k => keep (ROptVal (globals_get vs k))
  | OVarRemove k => setv (globals_remove vs k) RUnit
  | OVarClear => setv (globals_clear vs) RUnit
  | OVarIsEmpty => keep (RBool (globals_is_empty vs))
  | OVarIter => keep (RAttrs (globals_iter vs))
  end.

Fixpoint crun (s : cstate) (ops : list cop) : list cres :=
  match ops with
  | [] => []
  | o :: ops' => let '(s', r) := cstep s o in r :: crun s' ops'
  end.

(* decidable equality of observations (used by the correspondence verdict) *)
Definition opt_eqb {A} (eqb : A -> A -> bool) (a b : option A) : bool :=
  match a, b with Some x, Some y => eqb x y | None, None => true | _, _ => false end.
Definition kv_eqb (a b : ident * value) : bool := str_eqb (fst a) (fst b) && value_eqb (snd a) (snd b).
Definition cres_eqb (a b : cres) : bool :=
  match a, b with
  | RUnit, RUnit | RNoEdge, RNoEdge | RSkipped, RSkipped => true
  | RNode x, RNode y | RCount x, RCount y => N.eqb x y
  | RBool x, RBool y => Bool.eqb x y
  | ROptVal x, ROptVal y | RAddAttr x, RAddAttr y => opt_eqb value_eqb x y
  | RAttrs x, RAttrs y => list_eqb kv_eqb x y
  | RNodes x, RNodes y => list_eqb N.eqb x y
  | _, _ => false
  end.

(* verdict of one correspondence case: index of the first differing observation, or agreement *)
Fixpoint first_diff (i : N) (a b : list cres) : option N :=
  match a, b with
  | [], [] => None
  | x :: a', y :: b' => if cres_eqb x y then first_diff (i + 1) a' b' else Some i
  | _, _ => Some i
  end.
Definition c17_verdict (ops : list cop) (impl : list cres) : N :=
  match first_diff 0 (crun cinit ops) impl with None => 0 | Some i => i + 1 end.
