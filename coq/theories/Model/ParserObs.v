(* Model/ParserObs.v — observation and verdict functions of the C07 / C05p correspondence streams:
   externals built from the per-case tables, boolean equality of ASTs, erasure of locations. *)
From TSG Require Export Model.Parser.

(* ------------------------------------------------------------------ externals from tables *)
Fixpoint uni_lookup (c : N) (t : list (N * (bool * bool * bool))) : option (bool * bool * bool) :=
  match t with [] => None | (c', v) :: t' => if c =? c' then Some v else uni_lookup c t' end.
Fixpoint span_lookup (a b : N) (t : list (N * N * qverdict)) : option qverdict :=
  match t with [] => None | (a', b', v) :: t' => if (a =? a') && (b =? b') then Some v else span_lookup a b t' end.
Fixpoint str_lookup {V} (k : str) (t : list (str * V)) : option V :=
  match t with [] => None | (k', v) :: t' => if str_eqb k k' then Some v else str_lookup k t' end.

Definition ext_of_tables (uni : list (N * (bool * bool * bool))) (queries : list (N * N * qverdict))
    (merged : list (str * bool)) (regexes : list (str * bool)) (print : list (N * bool)) : ext :=
  {| x_alpha := fun c => match uni_lookup c uni with Some (a, _, _) => a | None => false end;
     x_alnum := fun c => match uni_lookup c uni with Some (_, n, _) => n | None => false end;
     x_ws := fun c => match uni_lookup c uni with Some (_, _, w) => w | None => false end;
     x_query := fun a b => span_lookup a b queries;
     x_merged := fun s => str_lookup s merged;
     x_regex := fun s => str_lookup s regexes;
     x_print := print |}.

(* every non-ASCII character of the text has a row in the Unicode table *)
Definition uni_complete (uni : list (N * (bool * bool * bool))) (text : str) : bool :=
  forallb (fun c => (c <? 128) || match uni_lookup c uni with Some _ => true | None => false end) text.

(* the hypothesis UnicodeSane of the round-trip theorems, checked on the table of the case: a
   whitespace character is neither alphabetic nor alphanumeric *)
Definition uni_sane (uni : list (N * (bool * bool * bool))) : bool :=
  forallb (fun row => match row with (_, (a, n, w)) => negb w || (negb a && negb n) end) uni.

(* ------------------------------------------------------------------ equality of ASTs *)
Definition loc_eqb (a b : loc) : bool := (fst a =? fst b) && (snd a =? snd b).
Definition opt_eqb {A} (eqb : A -> A -> bool) (a b : option A) : bool :=
  match a, b with Some x, Some y => eqb x y | None, None => true | _, _ => false end.

Fixpoint expr_eqb (a b : expr) : bool :=
  let list_go := fix go (l1 l2 : list expr) : bool :=
    match l1, l2 with
    | [], [] => true
    | e1 :: r1, e2 :: r2 => expr_eqb e1 e2 && go r1 r2
    | _, _ => false
    end in
  match a, b with
  | EFalse, EFalse | ENull, ENull | ETrue, ETrue => true
  | EInt x, EInt y => x =? y
  | EStr x, EStr y => str_eqb x y
  | EList x, EList y => list_go x y
  | ESet x, ESet y => list_go x y
  | EListComp e1 v1 vl1 x1 l1, EListComp e2 v2 vl2 x2 l2
  | ESetComp e1 v1 vl1 x1 l1, ESetComp e2 v2 vl2 x2 l2 =>
      expr_eqb e1 e2 && str_eqb v1 v2 && loc_eqb vl1 vl2 && expr_eqb x1 x2 && loc_eqb l1 l2
  | ECapture n1 q1 f1 s1 l1, ECapture n2 q2 f2 s2 l2 =>
      str_eqb n1 n2 && quant_eqb q1 q2 && (f1 =? f2) && (s1 =? s2) && loc_eqb l1 l2
  | EUnscoped n1 l1, EUnscoped n2 l2 => str_eqb n1 n2 && loc_eqb l1 l2
  | EScoped s1 n1 l1, EScoped s2 n2 l2 => expr_eqb s1 s2 && str_eqb n1 n2 && loc_eqb l1 l2
  | ECall f1 a1, ECall f2 a2 => str_eqb f1 f2 && list_go a1 a2
  | ERegexCap i, ERegexCap j => i =? j
  | _, _ => false
  end.

Definition variable_eqb (a b : variable) : bool :=
  match a, b with
  | VarU n1 l1, VarU n2 l2 => str_eqb n1 n2 && loc_eqb l1 l2
  | VarS s1 n1 l1, VarS s2 n2 l2 => expr_eqb s1 s2 && str_eqb n1 n2 && loc_eqb l1 l2
  | _, _ => false
  end.
Definition attr_eqb (a b : attr) : bool :=
  match a, b with Attr n1 v1, Attr n2 v2 => str_eqb n1 n2 && expr_eqb v1 v2 end.
Definition cond_eqb (a b : cond) : bool :=
  match a, b with
  | CSome e1 l1, CSome e2 l2 | CNone e1 l1, CNone e2 l2 | CBool e1 l1, CBool e2 l2 => expr_eqb e1 e2 && loc_eqb l1 l2
  | _, _ => false
  end.

Fixpoint stmt_eqb (a b : stmt) : bool :=
  let stmts_go := fix go (l1 l2 : list stmt) : bool :=
    match l1, l2 with
    | [], [] => true
    | s1 :: r1, s2 :: r2 => stmt_eqb s1 s2 && go r1 r2
    | _, _ => false
    end in
  match a, b with
  | SLet v1 e1 l1, SLet v2 e2 l2 | SVar v1 e1 l1, SVar v2 e2 l2 | SSet v1 e1 l1, SSet v2 e2 l2 =>
      variable_eqb v1 v2 && expr_eqb e1 e2 && loc_eqb l1 l2
  | SNode v1 t1 l1, SNode v2 t2 l2 => variable_eqb v1 v2 && str_eqb t1 t2 && loc_eqb l1 l2
  | SAttrNode n1 a1 l1, SAttrNode n2 a2 l2 => expr_eqb n1 n2 && list_eqb attr_eqb a1 a2 && loc_eqb l1 l2
  | SEdge s1 k1 l1, SEdge s2 k2 l2 => expr_eqb s1 s2 && expr_eqb k1 k2 && loc_eqb l1 l2
  | SAttrEdge s1 k1 a1 l1, SAttrEdge s2 k2 a2 l2 =>
      expr_eqb s1 s2 && expr_eqb k1 k2 && list_eqb attr_eqb a1 a2 && loc_eqb l1 l2
  | SScan v1 arms1 l1, SScan v2 arms2 l2 =>
      expr_eqb v1 v2 && loc_eqb l1 l2 &&
      (fix go (x y : list (N * list stmt * loc)) : bool :=
         match x, y with
         | [], [] => true
         | (i1, b1, al1) :: r1, (i2, b2, al2) :: r2 => (i1 =? i2) && stmts_go b1 b2 && loc_eqb al1 al2 && go r1 r2
         | _, _ => false
         end) arms1 arms2
  | SPrint v1 l1, SPrint v2 l2 => list_eqb expr_eqb v1 v2 && loc_eqb l1 l2
  | SIf arms1 l1, SIf arms2 l2 =>
      loc_eqb l1 l2 &&
      (fix go (x y : list (list cond * list stmt * loc)) : bool :=
         match x, y with
         | [], [] => true
         | (c1, b1, al1) :: r1, (c2, b2, al2) :: r2 => list_eqb cond_eqb c1 c2 && stmts_go b1 b2 && loc_eqb al1 al2 && go r1 r2
         | _, _ => false
         end) arms1 arms2
  | SFor v1 vl1 e1 b1 l1, SFor v2 vl2 e2 b2 l2 =>
      str_eqb v1 v2 && loc_eqb vl1 vl2 && expr_eqb e1 e2 && stmts_go b1 b2 && loc_eqb l1 l2
  | _, _ => false
  end.

Definition global_eqb (a b : global) : bool :=
  str_eqb (gl_name a) (gl_name b) && quant_eqb (gl_quant a) (gl_quant b)
  && opt_eqb str_eqb (gl_default a) (gl_default b) && loc_eqb (gl_loc a) (gl_loc b).
Definition shorthand_eqb (a b : shorthand) : bool :=
  str_eqb (sh_name a) (sh_name b) && str_eqb (sh_var a) (sh_var b) && loc_eqb (sh_vloc a) (sh_vloc b)
  && list_eqb attr_eqb (sh_attrs a) (sh_attrs b) && loc_eqb (sh_loc a) (sh_loc b).
Definition stanza_eqb (a b : stanza) : bool :=
  list_eqb stmt_eqb (st_stmts a) (st_stmts b) && (st_full_stanza_idx a =? st_full_stanza_idx b)
  && (st_full_file_idx a =? st_full_file_idx b) && loc_eqb (st_start a) (st_start b).
Definition file_eqb (a b : file) : bool :=
  list_eqb global_eqb (f_globals a) (f_globals b) && list_eqb str_eqb (f_inherited a) (f_inherited b)
  && list_eqb shorthand_eqb (f_shorthands a) (f_shorthands b) && list_eqb stanza_eqb (f_stanzas a) (f_stanzas b).

(* ------------------------------------------------------------------ erasure *)
(* `keep_locs = true`: nothing is erased; `false`: every location becomes (0, 0).  The text of `node` statements (Display
   of the variable: `format!("{}", node)` in the dump of the real AST, `display_variable` in the parser model) is compared
   in both cases. *)
Section Erase.
  Variable keep : bool.
  Definition el (l : loc) : loc := if keep then l else (0, 0).
  Fixpoint erase_expr (e : expr) : expr :=
    match e with
    | EFalse | ENull | ETrue | EInt _ | EStr _ | ERegexCap _ => e
    | EList es => EList (map erase_expr es)
    | ESet es => ESet (map erase_expr es)
    | EListComp a v vl x l => EListComp (erase_expr a) v (el vl) (erase_expr x) (el l)
    | ESetComp a v vl x l => ESetComp (erase_expr a) v (el vl) (erase_expr x) (el l)
    | ECapture n q f s l => ECapture n q f s (el l)
    | EUnscoped n l => EUnscoped n (el l)
    | EScoped sc n l => EScoped (erase_expr sc) n (el l)
    | ECall f args => ECall f (map erase_expr args)
    end.
  Definition erase_variable (v : variable) : variable :=
    match v with VarU n l => VarU n (el l) | VarS sc n l => VarS (erase_expr sc) n (el l) end.
  Definition erase_attr (a : attr) : attr := match a with Attr n v => Attr n (erase_expr v) end.
  Definition erase_cond (c : cond) : cond :=
    match c with
    | CSome e l => CSome (erase_expr e) (el l) | CNone e l => CNone (erase_expr e) (el l)
    | CBool e l => CBool (erase_expr e) (el l)
    end.
  Fixpoint erase_stmt (s : stmt) : stmt :=
    match s with
    | SLet v e l => SLet (erase_variable v) (erase_expr e) (el l)
    | SVar v e l => SVar (erase_variable v) (erase_expr e) (el l)
    | SSet v e l => SSet (erase_variable v) (erase_expr e) (el l)
    | SNode v t l => SNode (erase_variable v) t (el l)
    | SAttrNode n a l => SAttrNode (erase_expr n) (map erase_attr a) (el l)
    | SEdge a b l => SEdge (erase_expr a) (erase_expr b) (el l)
    | SAttrEdge a b at_ l => SAttrEdge (erase_expr a) (erase_expr b) (map erase_attr at_) (el l)
    | SScan v arms l =>
        SScan (erase_expr v) (map (fun arm => match arm with (i, b, al) => (i, map erase_stmt b, el al) end) arms) (el l)
    | SPrint vs l => SPrint (map erase_expr vs) (el l)
    | SIf arms l =>
        SIf (map (fun arm => match arm with (c, b, al) => (map erase_cond c, map erase_stmt b, el al) end) arms) (el l)
    | SFor v vl e b l => SFor v (el vl) (erase_expr e) (map erase_stmt b) (el l)
    end.
  Definition erase_file (f : file) : file :=
    {| f_globals := map (fun g => {| gl_name := gl_name g; gl_quant := gl_quant g; gl_default := gl_default g; gl_loc := el (gl_loc g) |}) (f_globals f);
       f_inherited := f_inherited f;
       f_shorthands := map (fun h => {| sh_name := sh_name h; sh_var := sh_var h; sh_vloc := el (sh_vloc h);
                                        sh_attrs := map erase_attr (sh_attrs h); sh_loc := el (sh_loc h) |}) (f_shorthands f);
       f_stanzas := map (fun z => {| st_stmts := map erase_stmt (st_stmts z); st_full_stanza_idx := st_full_stanza_idx z;
                                     st_full_file_idx := st_full_file_idx z; st_start := el (st_start z) |}) (f_stanzas f) |}.
End Erase.

(* ------------------------------------------------------------------ verdicts *)
Inductive iobs :=
| IOk (f : file) (patterns : list str)                (* File::parse succeeded: AST dump, scan patterns *)
| IErr (variant : N) (l : loc) (payload : str)        (* ParseError variant, location, payload *)
| IPanic.                                             (* caught by catch_unwind *)

(* 0 agree | 1 AST differs | 2 only locations differ | 3 error variant | 4 error location |
   5 ORACLE_MISS | 6 model panics | 7 model out of fuel | 8 implementation panicked |
   9 Ok vs Err | 10 parsed AST is not the AST the generator wrote | 11 scan patterns differ |
   12 error payload differs *)
Definition compare_obs (r : PRes) (obs : iobs) (intended_ok : bool) : N :=
  match obs with
  | IPanic => 8
  | _ =>
    match r with
    | PMiss => 5
    | PPanic _ => 6
    | PFuel => 7
    | POk f pats =>
      match obs with
      | IOk f' pats' =>
        if negb intended_ok then 10
        else if file_eqb (erase_file true f') (erase_file true f) then
          (if list_eqb str_eqb pats' pats then 0 else 11)
        else if file_eqb (erase_file false f') (erase_file false f) then 2
        else 1
      | _ => 9
      end
    | PErr v l p =>
      match obs with
      | IErr v' l' p' =>
        if negb (v =? v') then 3 else if negb (loc_eqb l l') then 4 else if negb (str_eqb p p') then 12 else 0
      | _ => 9
      end
    end
  end.

(* every non-ASCII character of the text has a row in the <str as Debug> table (read by the text of `node` statements) *)
Definition print_complete (print : list (N * bool)) (text : str) : bool :=
  forallb (fun c => (c <? 128) || existsb (fun row => fst row =? c) print) text.

Definition c07_model (text : str) (uni : list (N * (bool * bool * bool))) (queries : list (N * N * qverdict))
    (merged : list (str * bool)) (regexes : list (str * bool)) (print : list (N * bool)) : PRes :=
  if uni_complete uni text && uni_sane uni && print_complete print text
  then parse (ext_of_tables uni queries merged regexes print) (fuel_of text) text
  else PMiss.

Definition c07_verdict (text : str) (uni : list (N * (bool * bool * bool))) (queries : list (N * N * qverdict))
    (merged : list (str * bool)) (regexes : list (str * bool)) (print : list (N * bool)) (obs : iobs) (intended_ok : bool) : N :=
  compare_obs (c07_model text uni queries merged regexes print) obs intended_ok.

Definition c07_detail := c07_model.
