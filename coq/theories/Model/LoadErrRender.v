(* Model/LoadErrRender.v — executable model of the pretty rendering of LOAD errors (property C05: rendering an
   error never panics): /repo/src/parser.rs `ParseError::display_pretty` (`DisplayParseErrorPretty::fmt`) and
   /repo/src/checker.rs `CheckError::display_pretty` (`DisplayCheckErrorPretty::fmt`).  Definitions only.

   Both impls select the Location of the error by a match over the variants (EVERY variant has one; for
   `ParseError::QueryError(err)` it is `Location { row: err.row, column: err.column }`), print the Display of the
   error and a newline, then `Excerpt::from_source(path, source, location.row, location.to_column_range(), 0)`;
   `ParseError::Check(err)` delegates to `err.display_pretty(path, source)` and returns.
   A load error is represented the way the parser and checker models observe their errors (Model/Parser.v `PErr
   variant loc payload`, Model/Checker.v `CkErr variant loc names`): variant number and location.  The Display of the
   error (the message line; it is `#[error(transparent)]` for `Check`, i.e. the CheckError's own Display) is an opaque
   string.  The excerpt is `excerpt_ind 0` of Model/ErrRender.v (= `excerpt` of Model/ParseErr.v). *)
From TSG Require Export Model.ErrRender.

Inductive load_error :=
| LParse (variant : N) (l : rloc)       (* ParseError other than Check: variants 1..13 in declaration order *)
| LCheck (variant : N) (l : rloc).      (* ParseError::Check(CheckError) / a CheckError: variants 1..13 of Model/Checker.v *)

Definition le_loc (e : load_error) : rloc := match e with LParse _ l => l | LCheck _ l => l end.

(* impl Display for DisplayCheckErrorPretty (checker.rs:75-103) *)
Definition check_error_pretty (path src msg : str) (l : rloc) : str :=
  msg ++ [10] ++ excerpt_loc 0 path src l.

(* impl Display for DisplayParseErrorPretty (parser.rs:107-144) *)
Definition load_error_pretty (path src msg : str) (e : load_error) : str :=
  match e with
  | LCheck _ l => check_error_pretty path src msg l          (* write!(f, "{}", err.display_pretty(..)); return Ok(()) *)
  | LParse _ l => msg ++ [10] ++ excerpt_loc 0 path src l
  end.

(* ------------------------------------------------------------------ correspondence (harness, stream C05r) *)

(* codes computed by the harness on the real text alone: 72 display_pretty panicked; 71 the real text does not contain
   "path:row+1:col+1:" of the error's location.  Computed here: 73 the text differs from the model's; 74 (Check only)
   CheckError::display_pretty differs from the model's *)
Definition c05r_verdict (path src msg : str) (e : load_error) (real : str) (real_check : option str) : N :=
  let m := load_error_pretty path src msg e in
  if negb (str_eqb m real) then 73
  else match e, real_check with
       | LCheck _ l, Some rc => if str_eqb (check_error_pretty path src msg l) rc then 0 else 74
       | LCheck _ _, None => 74
       | LParse _ _, Some _ => 74
       | LParse _ _, None => 0
       end.
Definition c05r_detail (path src msg : str) (e : load_error) := load_error_pretty path src msg e.
