(* Model/Globals.v — execution.rs `File::check_globals` as both interpreters call it on
   `Globals::nested(config.globals)` (strict.rs:77-78, lazy.rs:57-58), the global guards of
   `UnscopedVariable::{get,add,set}` (strict.rs:822-864, lazy.rs:767-819) and the static rules of
   checker.rs (duplicate / hide / set).  Definitions only. *)
From TSG Require Export Model.Vars Model.Errors Model.Ast.

(* `quantifier == ZeroOrMore || quantifier == OneOrMore` *)
Definition is_list_quant (q : quant) : bool :=
  match q with QStar | QPlus => true | _ => false end.

(* one iteration of the `for global in &self.globals` loop.  `g` is the `&mut Globals` (head = the
   nested copy, tail = the caller's chain).
   - `globals.get(&global.name)` searches the whole chain;
   - None + default: `globals.add(name, default.to_string().into())` inserts a `Value::String` into the
     HEAD map; `add` fails iff the head map already has the name, mapped to DuplicateVariable;
   - None without default: MissingGlobalVariable;
   - Some(value) with `*`/`+`: `value.as_list().is_err()` => ExpectedList. *)
Definition check_global (d : global) (g : globals) : res globals :=
  match globals_get g (gl_name d) with
  | None =>
      match gl_default d with
      | Some s =>
          let '(g', added) := globals_add g (gl_name d) (VStr s) in
          if added then Ok g' else Err EDuplicateVariable
      | None => Err EMissingGlobalVariable
      end
  | Some v =>
      if is_list_quant (gl_quant d)
      then match as_list v with
           | Ok _ => Ok g
           | _ => Err EExpectedList
           end
      else Ok g
  end.

(* File::check_globals: declarations in file order, `?` on the first error *)
Fixpoint check_globals (decls : list global) (g : globals) : res globals :=
  match decls with
  | [] => Ok g
  | d :: ds => obind (check_global d g) (check_globals ds)
  end.

(* `let mut globals = Globals::nested(config.globals); self.check_globals(&mut globals)?;`
   The resulting chain is what `exec.config.globals` points to during execution. *)
Definition run_globals (decls : list global) (supplied : globals) : res globals :=
  check_globals decls (globals_nested supplied).

(* ---- the global part of UnscopedVariable::{get, add, set} (identical in both interpreters) ---- *)
(* get: `if let Some(v) = globals.get(name) { Some(v) } else { locals.get(name) }` *)
Definition unscoped_lookup {V} (inj : value -> V) (g : globals) (local : option V) (name : ident) : option V :=
  match globals_get g name with Some v => Some (inj v) | None => local end.
(* add (let / var / node / loop variables): DuplicateVariable(" global ..") before touching locals *)
Definition unscoped_add_guard (g : globals) (name : ident) : res unit :=
  match globals_get g name with Some _ => Err EDuplicateVariable | None => Ok tt end.
(* set: CannotAssignImmutableVariable(" global ..") before touching locals *)
Definition unscoped_set_guard (g : globals) (name : ident) : res unit :=
  match globals_get g name with Some _ => Err ECannotAssignImmutableVariable | None => Ok tt end.

(* ---- static rules (checker.rs): File::check adds every global to one VariableMap (duplicate =>
   DuplicateGlobalVariable); UnscopedVariable::check_add / check_set consult it first. ---- *)
Inductive static_form :=
| SFGlobalAgain                   (* a second `global NAME` *)
| SFLet | SFVar | SFNode          (* let NAME = .. / var NAME = .. / node NAME *)
| SFFor | SFListComp | SFSetComp  (* for NAME in .. / [ .. for NAME in .. ] / { .. for NAME in .. } *)
| SFSet.                          (* set NAME = .. *)
(* codes of the CheckError variants: 1 DuplicateGlobalVariable, 2 CannotHideGlobalVariable,
   3 CannotSetGlobalVariable; None = the rule does not fire *)
Fixpoint declared_global (decls : list global) (name : ident) : bool :=
  match decls with
  | [] => false
  | d :: ds => if str_eqb name (gl_name d) then true else declared_global ds name
  end.
Definition static_global_rule (decls : list global) (form : static_form) (name : ident) : option N :=
  if declared_global decls name then
    Some (match form with SFGlobalAgain => 1 | SFSet => 3 | _ => 2 end)
  else None.

(* ================= correspondence verdicts (harness/src/c16.rs) ================= *)
Inductive c16_obs :=
| GObsErr (code : N)                               (* error_code of the root cause *)
| GObsOk (attrs : list (ident * value))            (* node attributes, sorted by name *)
| GObsPanic.

(* the generated program copies globals into attributes: (attribute name, global read), ascending
   attribute names; optionally one `let NAME = 1` of a name that is not declared in the file *)
Fixpoint attrs_match (g : globals) (reads : list (ident * ident)) (obs : list (ident * value)) (i : N) : N :=
  match reads, obs with
  | [], [] => 0
  | (a, x) :: reads', (a', v) :: obs' =>
      if str_eqb a a'
      then match globals_get g x with
           | Some w => if value_eqb v w then attrs_match g reads' obs' (i + 1) else 100 + i
           | None => 200 + i
           end
      else 300 + i
  | _, _ => 400 + i
  end.

Definition c16_expected (decls : list global) (supplied : globals) (shadow : option ident) : res globals :=
  obind (run_globals decls supplied) (fun g =>
    match shadow with
    | Some x => obind (unscoped_add_guard g x) (fun _ => Ok g)
    | None => Ok g
    end).

(* 0 agree; 1 error codes differ; 2 model Ok / impl Err; 3 model Err / impl Ok; 4 impl panicked;
   5 model panics/out of fuel; 90 the caller's variable sets changed; >= 100 attribute differences *)
Definition c16_verdict (decls : list global) (supplied : globals) (shadow : option ident)
    (reads : list (ident * ident)) (caller_changed : bool) (obs : c16_obs) : N :=
  if caller_changed then 90 else
  match c16_expected decls supplied shadow, obs with
  | _, GObsPanic => 4
  | Err e, GObsErr c => if N.eqb (error_code (root_cause e)) c then 0 else 1
  | Ok g, GObsOk attrs => attrs_match g reads attrs 0
  | Ok _, GObsErr _ => 2
  | Err _, GObsOk _ => 3
  | _, _ => 5
  end.

(* load-time cases: `File::from_str` rejected? with which CheckError variant (0 = other/none) *)
Definition c16_static_verdict (decls : list global) (form : static_form) (name : ident)
    (rejected : bool) (variant : N) : N :=
  match static_global_rule decls form name with
  | Some c => if rejected then (if N.eqb c variant then 0 else 11) else 12
  | None => if rejected then 13 else 0
  end.

Definition c16_detail (decls : list global) (supplied : globals) (shadow : option ident)
    (reads : list (ident * ident)) :=
  match c16_expected decls supplied shadow with
  | Ok g => (0, map (fun r => (fst r, globals_get g (snd r))) reads, g)
  | Err e => (error_code (root_cause e), [], [])
  | _ => (999, [], [])
  end.
