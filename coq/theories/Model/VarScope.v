(* Model/VarScope.v — the SCOPE discipline for unscoped variables that checker.rs enforces, restated without
   the checker (executable definitions only; the theorems are in Proofs/VarScope*.v and Props/C06.v).

   A static environment has the shape of the checker's `VariableMap` (head = innermost frame) and records ONE
   bit per unscoped variable, here its MUTABILITY (`var` = true; `let`, `node`, loop variables = false).  The
   type is the `lenv` of Model/Locality.v (frames of (name, bit)); only the reading of the bit differs.

     shape m            the static environment of ANY `VariableMap` m (the checker's, whose values are
                        `VariableResult`s, the strict interpreter's, whose values are `Value`s, the lazy
                        interpreter's, whose values are `LazyValue`s): names and mutability, values forgotten.
                        Whether `get` / `add` / `set` of variables.rs succeeds depends on the shape only.
     vs_expr env e      every unscoped name read in e is a global (G) or bound in env; the variable of a
                        comprehension is not a global, and its element expression is judged with the variable
                        bound in a fresh frame (UndefinedVariable, CannotHideGlobalVariable)
     vs_stmt env s      the same for a statement: `let`/`var`/`node`/`for` define a name that is not a global
                        and not yet in the INNERMOST frame (DuplicateVariable, CannotHideGlobalVariable);
                        `set` needs a name that is not a global and whose visible binding is mutable
                        (UndefinedVariable, CannotAssignImmutableVariable, CannotSetGlobalVariable); the bodies
                        of `scan` arms, `if` arms and `for` are judged in a fresh frame
     vs_env env s       the static environment after s (only `let`/`var`/`node` of an unscoped name bind)

   Two flags say which SCOPED-variable syntax is allowed: `sr` = a scoped read `e.x` may occur, `sd` = a scoped
   variable may be the target of `let`/`var`/`set`/`node`.  The checker accepts both (flags true, true); the
   flags exist because the strict interpreter reports an undefined scoped variable and a duplicate scoped
   variable with the SAME error values as the unscoped ones (Model/Strict.v: `scoped_get_at`,
   `scoped_add_at`, `scoped_set_at`), so the run-time theorem for the strict interpreter has to say "or the
   program contains a scoped read / a scoped target". *)
From TSG Require Export Model.Locality.

Section Shape.
  Context {V : Type}.
  Definition shape_entry (kv : ident * (V * bool)) : ident * bool := (fst kv, snd (snd kv)).
  Definition shape (m : varmap V) : lenv := map (map shape_entry) m.
End Shape.

(* does the frame bind x? *)
Definition frame_has (fr : list (ident * bool)) (x : ident) : bool :=
  match alist_get x fr with Some _ => true | None => false end.
(* VariableMap::add succeeds: there is an innermost frame and it does not bind x *)
Definition can_add (env : lenv) (x : ident) : bool :=
  match env with [] => false | fr :: _ => negb (frame_has fr x) end.
(* VariableMap::get succeeds *)
Definition is_bound (env : lenv) (x : ident) : bool :=
  match lenv_get env x with Some _ => true | None => false end.
(* VariableMap::set succeeds: the visible binding (innermost frame that binds x) is mutable *)
Definition can_set (env : lenv) (x : ident) : bool :=
  match lenv_get env x with Some m => m | None => false end.

Section VS.
  Variable G : ident -> bool.            (* the declared globals *)
  Variables sr sd : bool.                (* scoped reads / scoped targets allowed *)

  Fixpoint vs_expr (env : lenv) (e : expr) {struct e} : bool :=
    match e with
    | EList es | ESet es | ECall _ es => forallb (vs_expr env) es
    | EListComp el x _ v _ | ESetComp el x _ v _ =>
        vs_expr env v && negb (G x) && vs_expr ([(x, false)] :: env) el
    | EUnscoped x _ => G x || is_bound env x
    | EScoped sc _ _ => sr && vs_expr env sc
    | _ => true
    end.

  Definition vs_var_add (env : lenv) (v : variable) : bool :=
    match v with
    | VarU x _ => negb (G x) && can_add env x
    | VarS sc _ _ => sd && vs_expr env sc
    end.
  Definition vs_var_set (env : lenv) (v : variable) : bool :=
    match v with
    | VarU x _ => negb (G x) && can_set env x
    | VarS sc _ _ => sd && vs_expr env sc
    end.
  Definition vs_attr (env : lenv) (a : attr) : bool := match a with Attr _ e => vs_expr env e end.

  Definition vs_env (env : lenv) (s : stmt) : lenv :=
    match s with
    | SLet v _ _ | SNode v _ _ => bind_var env v false
    | SVar v _ _ => bind_var env v true
    | _ => env
    end.

  Fixpoint vs_stmt (env : lenv) (s : stmt) {struct s} : bool :=
    match s with
    | SLet v e _ | SVar v e _ => vs_expr env e && vs_var_add env v
    | SSet v e _ => vs_expr env e && vs_var_set env v
    | SNode v _ _ => vs_var_add env v
    | SAttrNode n attrs _ => vs_expr env n && forallb (vs_attr env) attrs
    | SEdge a b _ => vs_expr env a && vs_expr env b
    | SAttrEdge a b attrs _ => vs_expr env a && vs_expr env b && forallb (vs_attr env) attrs
    | SScan v arms _ =>
        vs_expr env v &&
        forallb (fun arm : N * list stmt * loc =>
                   let '(_, body, _) := arm in seq_eok vs_stmt vs_env ([] :: env) body) arms
    | SPrint vs _ => forallb (vs_expr env) vs
    | SIf arms _ =>
        forallb (fun arm : list cond * list stmt * loc =>
                   let '(conds, body, _) := arm in
                   forallb (fun c => vs_expr env (cond_expr c)) conds &&
                   seq_eok vs_stmt vs_env ([] :: env) body) arms
    | SFor x _ v body _ =>
        vs_expr env v && negb (G x) && seq_eok vs_stmt vs_env ([(x, false)] :: env) body
    end.
  Definition vs_block (env : lenv) (body : list stmt) : bool := seq_eok vs_stmt vs_env env body.
  Definition vs_block_env (env : lenv) (body : list stmt) : lenv := fold_left vs_env body env.

  (* K4: the checker does not visit shorthand bodies.  At run time a shorthand body runs in a fresh
     `VariableMap` that holds only the shorthand's parameter. *)
  Definition vs_shorthand (sh : shorthand) : bool :=
    negb (G (sh_var sh)) && forallb (vs_attr [[(sh_var sh, false)]]) (sh_attrs sh).
  Definition vs_shorthands (f : file) : bool := forallb vs_shorthand (f_shorthands f).
  Definition vs_stanza (st : stanza) : bool := vs_block [[]] (st_stmts st).
  Definition vs_stanzas (f : file) : bool := forallb vs_stanza (f_stanzas f).
End VS.

(* every stanza starts in one empty frame *)
Definition vs_file (sr sd : bool) (f : file) : bool :=
  vs_shorthands (is_global f) sr f && vs_stanzas (is_global f) sr sd f.
(* the hypothesis about shorthand bodies in the theorems about CHECKED files (K4) *)
Definition shorthands_scope_ok (f : file) : bool := vs_shorthands (is_global f) true f.

(* ---- where scoped-variable syntax occurs ---- *)
(* a scoped read `e.x` somewhere in the expression *)
Fixpoint expr_sr (e : expr) {struct e} : bool :=
  match e with
  | EList es | ESet es | ECall _ es => existsb expr_sr es
  | EListComp el _ _ v _ | ESetComp el _ _ v _ => expr_sr v || expr_sr el
  | EScoped _ _ _ => true
  | _ => false
  end.
Definition var_sr (v : variable) : bool := match v with VarU _ _ => false | VarS sc _ _ => expr_sr sc end.
Definition var_sd (v : variable) : bool := match v with VarU _ _ => false | VarS _ _ _ => true end.
Definition attr_sr (a : attr) : bool := match a with Attr _ e => expr_sr e end.

(* a scoped read somewhere in the statement *)
Fixpoint stmt_sr (s : stmt) {struct s} : bool :=
  match s with
  | SLet v e _ | SVar v e _ | SSet v e _ => expr_sr e || var_sr v
  | SNode v _ _ => var_sr v
  | SAttrNode n attrs _ => expr_sr n || existsb attr_sr attrs
  | SEdge a b _ => expr_sr a || expr_sr b
  | SAttrEdge a b attrs _ => expr_sr a || expr_sr b || existsb attr_sr attrs
  | SScan v arms _ =>
      expr_sr v || existsb (fun arm : N * list stmt * loc => let '(_, body, _) := arm in existsb stmt_sr body) arms
  | SPrint vs _ => existsb expr_sr vs
  | SIf arms _ =>
      existsb (fun arm : list cond * list stmt * loc =>
                 let '(conds, body, _) := arm in
                 existsb (fun c => expr_sr (cond_expr c)) conds || existsb stmt_sr body) arms
  | SFor _ _ v body _ => expr_sr v || existsb stmt_sr body
  end.
(* a scoped variable as the target of let / var / set / node somewhere in the statement *)
Fixpoint stmt_sd (s : stmt) {struct s} : bool :=
  match s with
  | SLet v _ _ | SVar v _ _ | SSet v _ _ | SNode v _ _ => var_sd v
  | SScan _ arms _ => existsb (fun arm : N * list stmt * loc => let '(_, body, _) := arm in existsb stmt_sd body) arms
  | SIf arms _ => existsb (fun arm : list cond * list stmt * loc => let '(_, body, _) := arm in existsb stmt_sd body) arms
  | SFor _ _ _ body _ => existsb stmt_sd body
  | _ => false
  end.
Definition file_sr (f : file) : bool :=
  existsb (fun sh => existsb attr_sr (sh_attrs sh)) (f_shorthands f) ||
  existsb (fun st => existsb stmt_sr (st_stmts st)) (f_stanzas f).
Definition file_sd (f : file) : bool := existsb (fun st => existsb stmt_sd (st_stmts st)) (f_stanzas f).

(* ---- the error values the theorems are about ---- *)
(* the four variable errors: root cause UndefinedVariable, DuplicateVariable, CannotAssignImmutableVariable,
   UndefinedCapture *)
Definition variable_error (e : exec_error) : bool :=
  match root_cause e with
  | EUndefinedVariable | EDuplicateVariable | ECannotAssignImmutableVariable | EUndefinedCapture => true
  | _ => false
  end.
(* the lazy interpreter raises DuplicateVariable for a SCOPED variable in one place only
   (LazyScopedVariables::force), directly inside a context that names TWO statements: the earlier
   definition and the failing one.  An unscoped duplicate would be a bare error value. *)
Fixpoint scoped_duplicate (e : exec_error) : bool :=
  match e with
  | EInContext c e' =>
      match c, e' with
      | CtxStmts [_; _], EDuplicateVariable => true
      | _, _ => scoped_duplicate e'
      end
  | _ => false
  end.
