(* Model/Regex.v — the modelled dependency `regex` (crate regex 1.x), restricted to a sub-language.
   Definitions only.

   The crate is NOT code under verification: every theorem about `scan` is proved for an arbitrary
   `find` (Section variable in Model/Scan.v).  This file is what makes the model executable; it is
   validated against `regex::Regex::captures` on every run by the correspondence stream "C10rx".

   Sub-language (what harness/src/c10.rs `parse_regex` accepts and the generators emit):
     literal char, `.` (any char but \n), class `[a-c x]` / negated class `[^...]` of ranges,
     concatenation, alternation `|`, capture group `( )` numbered 1.. in order of the opening
     parenthesis, non-capturing grouping `(?: )` (no AST node: it is the tree structure), greedy
     `?`, greedy `*` and `+` over bodies that cannot match the empty string, `^`, `$` (no multi-line
     flag: start / end of the haystack only), `\b` (Unicode word boundary).
   Semantics: leftmost-first (Perl-like, as the regex crate): the first start position with a match
   wins; at that position alternation prefers the left branch, `? * +` prefer one more iteration;
   a group keeps the span of its last participation on the successful path.

   `*`/`+` over a body that can match "" are outside the validated sub-language (the crate compiles
   them as `(x+)?` with a different preference order, regex issue 779); the matcher below is still
   total on them (an empty iteration is refused) but is not claimed to agree with the crate there. *)
From TSG Require Export Model.Base.

Inductive regex :=
| REps                                             (* the empty regex, e.g. `()` or `a|` *)
| RChr (c : N)                                     (* one literal code point *)
| RAny                                             (* `.` : any code point except 10 *)
| RCls (neg : bool) (items : list (N * N))         (* `[lo-hi ...]` / `[^lo-hi ...]`, inclusive ranges *)
| RSeq (a b : regex)
| RAlt (a b : regex)
| RGrp (n : N) (r : regex)                         (* capture group number n (>= 1) *)
| ROpt (r : regex) | RStar (r : regex) | RPlus (r : regex)      (* greedy *)
| RBol | REol | RWb.                               (* `^`  `$`  `\b` *)

(* number of capture groups = largest group number *)
Fixpoint rx_ngroups (r : regex) : N :=
  match r with
  | RSeq a b | RAlt a b => N.max (rx_ngroups a) (rx_ngroups b)
  | RGrp n r => N.max n (rx_ngroups r)
  | ROpt r | RStar r | RPlus r => rx_ngroups r
  | _ => 0
  end.

Fixpoint rx_size (r : regex) : nat :=
  match r with
  | RSeq a b | RAlt a b => S (rx_size a + rx_size b)
  | RGrp _ r | ROpt r | RStar r | RPlus r => S (rx_size r)
  | _ => 1%nat
  end.

(* can the regex match without consuming a character (syntactic; = `minimum_len() == 0` of
   regex-syntax; look-around assertions count as empty) — used only to delimit the sub-language *)
Fixpoint rx_can_empty (r : regex) : bool :=
  match r with
  | REps | ROpt _ | RStar _ | RBol | REol | RWb => true
  | RChr _ | RAny | RCls _ _ => false
  | RSeq a b => rx_can_empty a && rx_can_empty b
  | RAlt a b => rx_can_empty a || rx_can_empty b
  | RGrp _ r | RPlus r => rx_can_empty r
  end.
Fixpoint rx_in_sublang (r : regex) : bool :=
  match r with
  | RSeq a b | RAlt a b => rx_in_sublang a && rx_in_sublang b
  | RGrp _ r | ROpt r => rx_in_sublang r
  | RStar r | RPlus r => negb (rx_can_empty r) && rx_in_sublang r
  | _ => true
  end.

Definition in_range (lo hi c : N) : bool := (lo <=? c) && (c <=? hi).
Definition in_cls (items : list (N * N)) (c : N) : bool :=
  existsb (fun it => in_range (fst it) (snd it) c) items.

(* `\w` of the regex crate (Unicode): exact for ASCII, U+0080..U+02C1 and the CJK Unified
   Ideographs block U+4E00..U+9FFF; every other code point is treated as non-word, so `\b` is only
   claimed on subjects over these blocks (the generators stay inside; stream C10rx probes the table) *)
Definition is_word (c : N) : bool :=
  in_range 48 57 c || in_range 65 90 c || (c =? 95) || in_range 97 122 c
  || (c =? 170) || (c =? 181) || (c =? 186) || in_range 192 214 c || in_range 216 246 c
  || in_range 248 705 c || in_range 19968 40959 c.

(* internal capture table: index = group number, positions are nat offsets into the haystack *)
Definition mcaps := list (option (nat * nat)).

Fixpoint set_cap (n : nat) (v : nat * nat) (c : mcaps) : mcaps :=
  match n, c with
  | O, _ :: t => Some v :: t
  | O, [] => [Some v]
  | S n, h :: t => h :: set_cap n v t
  | S n, [] => None :: set_cap n v []
  end.

Section Matcher.
  Variable s : str.                                  (* the haystack *)

  Definition at_ (i : nat) : option N := nth_error s i.
  Definition wordb (o : option N) : bool := match o with Some c => is_word c | None => false end.

  (* backtracking matcher in continuation-passing style: try to match r at position i with capture
     table c, then continue with k; `None` = this path fails, the caller tries its next choice.
     One unit of fuel per nesting level; a continuation keeps the fuel of the level that built it,
     so fuel is not consumed along a concatenation, only by nesting and by `*` iterations. *)
  Fixpoint rx_m (fuel : nat) (r : regex) (i : nat) (c : mcaps)
                (k : nat -> mcaps -> option (nat * mcaps)) {struct fuel} : option (nat * mcaps) :=
    match fuel with
    | O => None
    | S fuel =>
      match r with
      | REps => k i c
      | RChr x => match at_ i with Some y => if x =? y then k (S i) c else None | None => None end
      | RAny => match at_ i with Some y => if y =? 10 then None else k (S i) c | None => None end
      | RCls neg items =>
          match at_ i with Some y => if xorb neg (in_cls items y) then k (S i) c else None | None => None end
      | RSeq a b => rx_m fuel a i c (fun j c' => rx_m fuel b j c' k)
      | RAlt a b => match rx_m fuel a i c k with Some x => Some x | None => rx_m fuel b i c k end
      | RGrp n r => rx_m fuel r i c (fun j c' => k j (set_cap (N.to_nat n) (i, j) c'))
      | ROpt r => match rx_m fuel r i c k with Some x => Some x | None => k i c end
      | RStar r =>
          match rx_m fuel r i c (fun j c' => if Nat.eqb j i then None else rx_m fuel (RStar r) j c' k) with
          | Some x => Some x
          | None => k i c
          end
      | RPlus r => rx_m fuel r i c (fun j c' => if Nat.eqb j i then None else rx_m fuel (RStar r) j c' k)
      | RBol => if Nat.eqb i 0 then k i c else None
      | REol => if Nat.eqb i (length s) then k i c else None
      | RWb => if xorb (wordb (match i with O => None | S p => at_ p end)) (wordb (at_ i)) then k i c else None
      end
    end.

  (* leftmost: first start position (0 .. length s, inclusive) at which r matches *)
  Fixpoint rx_find_from (n : nat) (start : nat) (fuel : nat) (r : regex) (ng : nat) : option mcaps :=
    match n with
    | O => None
    | S n =>
      match rx_m fuel r start (repeat None (S ng)) (fun j c => Some (j, c)) with
      | Some (j, c) => Some (set_cap 0 (start, j) c)
      | None => rx_find_from n (S start) fuel r ng
      end
    end.

  Definition rx_fuel (r : regex) : nat := ((length s + 2) * (rx_size r + 2))%nat.

  Definition rx_find (r : regex) : option mcaps :=
    rx_find_from (S (length s)) 0 (rx_fuel r) r (N.to_nat (rx_ngroups r)).
End Matcher.

Definition cap_to_N (o : option (nat * nat)) : option (N * N) :=
  match o with Some (a, b) => Some (N.of_nat a, N.of_nat b) | None => None end.

(* `Regex::captures(s)`: None = no match; otherwise element 0 = whole match, then groups 1..n,
   `None` = the group did not participate; positions are code-point offsets into s. *)
Definition rx_captures (r : regex) (s : str) : option (list (option (N * N))) :=
  match rx_find s r with
  | Some c => Some (map cap_to_N c)
  | None => None
  end.

(* ---- correspondence verdict of stream C10rx: model vs `regex::Regex::captures` ---- *)
Definition cap_eqb (a b : option (N * N)) : bool :=
  match a, b with
  | Some (x, y), Some (x', y') => (x =? x') && (y =? y')
  | None, None => true
  | _, _ => false
  end.
(* 0 = agree; 1 = one side matches, the other not; 2 = whole-match span differs; 3 = a group differs;
   4 = the AST is outside the sub-language (generator/parse_regex bug) *)
Definition c10rx_verdict (r : regex) (s : str) (impl : option (list (option (N * N)))) : N :=
  if negb (rx_in_sublang r) then 4 else
  match rx_captures r s, impl with
  | None, None => 0
  | Some (m0 :: mg), Some (i0 :: ig) =>
      if negb (cap_eqb m0 i0) then 2 else if list_eqb cap_eqb mg ig then 0 else 3
  | _, _ => 1
  end.
