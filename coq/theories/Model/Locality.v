(* Model/Locality.v — the LOCALITY discipline that checker.rs enforces, restated without the checker
   (executable definitions only; the theorems are in Proofs/Local*.v and Props/C06.v).

   A static environment `lenv` has the shape of the checker's `VariableMap` (head = innermost frame) and
   records ONE bit per unscoped variable:
     true   the variable is IMMUTABLE and its value cannot depend on a scoped variable: it was bound by
            `let x = e` with `eager_ok e`, by `node x`, or it is the loop variable of a `for` / of a
            comprehension (whose list is an eager position, hence `eager_ok`);
     false  anything else: every `var` (from its declaration on, whatever its initial value), and a `let`
            whose expression is not `eager_ok`.
   `eager_ok G env e` (G = the declared globals): e contains no scoped-variable read, and every unscoped
   name it mentions is a global or has bit `true` in env.  Captures, `$n`, constants are always fine; calls,
   lists, sets, comprehensions are fine when all their parts are.
   EAGER positions (evaluated during the execution phase of the lazy interpreter): the subject of `scan`,
   the conditions of `if`, the list of `for`, the list of a list/set comprehension — the last one inside any
   expression, at any depth.  `expr_eok` / `stmt_eok` / `block_eok` say that every eager position inside an
   expression / statement / block is `eager_ok` in the static environment of that position. *)
From TSG Require Export Model.Checker.

Definition lenv := list (list (ident * bool)).
Fixpoint lenv_get (env : lenv) (x : ident) : option bool :=
  match env with
  | [] => None
  | fr :: up => match alist_get x fr with Some b => Some b | None => lenv_get up x end
  end.
(* VariableMap::add on the innermost frame *)
Definition lenv_bind (env : lenv) (x : ident) (b : bool) : lenv :=
  match env with [] => [] | fr :: up => (fr ++ [(x, b)]) :: up end.
(* lookup order of UnscopedVariable::check_get / evaluate: globals first *)
Definition name_ok (G : ident -> bool) (env : lenv) (x : ident) : bool :=
  G x || match lenv_get env x with Some b => b | None => false end.

Fixpoint eager_ok (G : ident -> bool) (env : lenv) (e : expr) {struct e} : bool :=
  match e with
  | EFalse | ENull | ETrue | EInt _ | EStr _ | ECapture _ _ _ _ _ | ERegexCap _ => true
  | EList es | ESet es | ECall _ es => forallb (eager_ok G env) es
  | EListComp el x _ v _ | ESetComp el x _ v _ => eager_ok G env v && eager_ok G ([(x, true)] :: env) el
  | EUnscoped x _ => name_ok G env x
  | EScoped _ _ _ => false
  end.

(* every eager position INSIDE e (the lists of its comprehensions) is eager_ok *)
Fixpoint expr_eok (G : ident -> bool) (env : lenv) (e : expr) {struct e} : bool :=
  match e with
  | EList es | ESet es | ECall _ es => forallb (expr_eok G env) es
  | EListComp el x _ v _ | ESetComp el x _ v _ => eager_ok G env v && expr_eok G ([(x, true)] :: env) el
  | EScoped sc _ _ => expr_eok G env sc
  | _ => true
  end.

Definition cond_expr (c : cond) : expr := match c with CSome e _ | CNone e _ | CBool e _ => e end.
Definition var_eok (G : ident -> bool) (env : lenv) (v : variable) : bool :=
  match v with VarU _ _ => true | VarS sc _ _ => expr_eok G env sc end.
Definition attr_eok (G : ident -> bool) (env : lenv) (a : attr) : bool := match a with Attr _ e => expr_eok G env e end.
Definition bind_var (env : lenv) (v : variable) (b : bool) : lenv :=
  match v with VarU x _ => lenv_bind env x b | VarS _ _ _ => env end.

(* the static environment after a statement: blocks (`scan` arms, `if` arms, `for` bodies) are scoped,
   `set` changes no bit (it only succeeds on a `var`, whose bit is false already) *)
Definition stmt_env (G : ident -> bool) (env : lenv) (s : stmt) : lenv :=
  match s with
  | SLet v e _ => bind_var env v (eager_ok G env e)
  | SVar v _ _ => bind_var env v false
  | SNode v _ _ => bind_var env v true
  | _ => env
  end.

Section SeqOk.
  Context (ok : lenv -> stmt -> bool) (step : lenv -> stmt -> lenv).
  Fixpoint seq_eok (env : lenv) (l : list stmt) : bool :=
    match l with [] => true | s :: l' => ok env s && seq_eok (step env s) l' end.
End SeqOk.

Fixpoint stmt_eok (G : ident -> bool) (env : lenv) (s : stmt) {struct s} : bool :=
  match s with
  | SLet v e _ | SVar v e _ | SSet v e _ => expr_eok G env e && var_eok G env v
  | SNode v _ _ => var_eok G env v
  | SAttrNode n attrs _ => expr_eok G env n && forallb (attr_eok G env) attrs
  | SEdge a b _ => expr_eok G env a && expr_eok G env b
  | SAttrEdge a b attrs _ => expr_eok G env a && expr_eok G env b && forallb (attr_eok G env) attrs
  | SScan v arms _ =>
      eager_ok G env v &&
      forallb (fun arm : N * list stmt * loc =>
                 let '(_, body, _) := arm in seq_eok (stmt_eok G) (stmt_env G) ([] :: env) body) arms
  | SPrint vs _ => forallb (expr_eok G env) vs
  | SIf arms _ =>
      forallb (fun arm : list cond * list stmt * loc =>
                 let '(conds, body, _) := arm in
                 forallb (fun c => eager_ok G env (cond_expr c)) conds &&
                 seq_eok (stmt_eok G) (stmt_env G) ([] :: env) body) arms
  | SFor x _ v body _ => eager_ok G env v && seq_eok (stmt_eok G) (stmt_env G) ([(x, true)] :: env) body
  end.
Definition block_eok (G : ident -> bool) (env : lenv) (body : list stmt) : bool := seq_eok (stmt_eok G) (stmt_env G) env body.
Definition block_env (G : ident -> bool) (env : lenv) (body : list stmt) : lenv := fold_left (stmt_env G) body env.

(* the globals of a file, and the whole file: every stanza starts in the empty environment *)
Definition is_global (f : file) (x : ident) : bool := existsb (fun g => str_eqb x (gl_name g)) (f_globals f).
Definition stanza_eok (f : file) (st : stanza) : bool := block_eok (is_global f) [[]] (st_stmts st).
Definition file_eok (f : file) : bool := forallb (stanza_eok f) (f_stanzas f).

(* K4: shorthand bodies are not visited by the checker.  A shorthand body without comprehensions has no
   eager position at all. *)
Fixpoint no_comp (e : expr) {struct e} : bool :=
  match e with
  | EList es | ESet es | ECall _ es => forallb no_comp es
  | EListComp _ _ _ _ _ | ESetComp _ _ _ _ _ => false
  | EScoped sc _ _ => no_comp sc
  | _ => true
  end.
Definition shorthands_plain (f : file) : bool :=
  forallb (fun sh => forallb (fun a => match a with Attr _ e => no_comp e end) (sh_attrs sh)) (f_shorthands f).

(* ---- a NAME-based purity declaration that coincides with the bits (used to link the flow-insensitive fragment of
   the strict/lazy theorem, Proofs/SL2*.v, to the checker): `purev x` is true for every global, `node`, loop and
   comprehension variable, false for every `var` (and every `set` target), and equal to `eager_ok e` at every
   `let x = e`.  A file passes when it uses every name consistently. ---- *)
Fixpoint pv_expr (purev : ident -> bool) (e : expr) {struct e} : bool :=
  match e with
  | EList es | ESet es | ECall _ es => forallb (pv_expr purev) es
  | EListComp el x _ v _ | ESetComp el x _ v _ => purev x && pv_expr purev el && pv_expr purev v
  | EScoped sc _ _ => pv_expr purev sc
  | _ => true
  end.
Definition pv_attr (purev : ident -> bool) (a : attr) : bool := match a with Attr _ e => pv_expr purev e end.
Fixpoint pv_stmt (purev : ident -> bool) (G : ident -> bool) (env : lenv) (s : stmt) {struct s} : bool :=
  match s with
  | SLet v e _ =>
      pv_expr purev e && match v with VarU x _ => Bool.eqb (purev x) (eager_ok G env e) | VarS sc _ _ => pv_expr purev sc end
  | SVar v e _ | SSet v e _ =>
      pv_expr purev e && match v with VarU x _ => negb (purev x) | VarS sc _ _ => pv_expr purev sc end
  | SNode v _ _ => match v with VarU x _ => purev x | VarS sc _ _ => pv_expr purev sc end
  | SAttrNode n attrs _ => pv_expr purev n && forallb (pv_attr purev) attrs
  | SEdge a b _ => pv_expr purev a && pv_expr purev b
  | SAttrEdge a b attrs _ => pv_expr purev a && pv_expr purev b && forallb (pv_attr purev) attrs
  | SScan v arms _ =>
      pv_expr purev v &&
      forallb (fun arm : N * list stmt * loc =>
                 let '(_, body, _) := arm in seq_eok (pv_stmt purev G) (stmt_env G) ([] :: env) body) arms
  | SPrint vs _ => forallb (pv_expr purev) vs
  | SIf arms _ =>
      forallb (fun arm : list cond * list stmt * loc =>
                 let '(conds, body, _) := arm in
                 forallb (fun c => pv_expr purev (cond_expr c)) conds &&
                 seq_eok (pv_stmt purev G) (stmt_env G) ([] :: env) body) arms
  | SFor x _ v body _ => purev x && pv_expr purev v && seq_eok (pv_stmt purev G) (stmt_env G) ([(x, true)] :: env) body
  end.
Definition pv_file (purev : ident -> bool) (f : file) : bool :=
  forallb (fun g => purev (gl_name g)) (f_globals f) &&
  forallb (fun st => seq_eok (pv_stmt purev (is_global f)) (stmt_env (is_global f)) [[]] (st_stmts st)) (f_stanzas f).
