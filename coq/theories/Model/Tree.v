(* Model/Tree.v — the tree-sitter syntax tree as recorded by the harness (an external: modelled,
   not verified).  Nodes are identified by their preorder index. *)
From TSG Require Export Model.Base.

Record tnode := {
  tn_kind : str;
  tn_named : bool;
  tn_error : bool;          (* is_error() *)
  tn_missing : bool;        (* is_missing() *)
  tn_parent : option N;
  tn_children : list N;
  tn_start : N * N;         (* start_position(): row, byte column *)
  tn_end : N * N;
  tn_span : N * N;          (* character offsets of byte_range() into the source *)
}.
Record tree := { t_src : str; t_nodes : list tnode }.

Definition node_at (t : tree) (n : N) : option tnode := nth_error (t_nodes t) (N.to_nat n).

Definition sublist {A} (start len : nat) (l : list A) : list A := firstn len (skipn start l).
Definition node_text (t : tree) (n : tnode) : str :=
  let '(a, b) := tn_span n in sublist (N.to_nat a) (N.to_nat (b - a)) (t_src t).

Definition is_named (t : tree) (n : N) : bool :=
  match node_at t n with Some x => tn_named x | None => false end.
Definition named_children (t : tree) (n : tnode) : list N := filter (is_named t) (tn_children n).

Fixpoint index_of (x : N) (l : list N) (i : N) : option N :=
  match l with [] => None | y :: l' => if N.eqb x y then Some i else index_of x l' (i + 1) end.
