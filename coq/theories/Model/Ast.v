(* Model/Ast.v — ast.rs, as dumped from the real parser's public fields after checking. *)
From TSG Require Export Model.Errors.

Inductive quant := QZero | QOne | QOpt | QStar | QPlus.   (* Zero, One, ZeroOrOne, ZeroOrMore, OneOrMore *)
Definition quant_eqb (a b : quant) : bool :=
  match a, b with QZero, QZero | QOne, QOne | QOpt, QOpt | QStar, QStar | QPlus, QPlus => true | _, _ => false end.

Inductive expr :=
| EFalse | ENull | ETrue
| EInt (n : N)
| EStr (s : str)
| EList (es : list expr)
| ESet (es : list expr)
| EListComp (elem : expr) (var : ident) (vloc : loc) (value : expr) (l : loc)
| ESetComp (elem : expr) (var : ident) (vloc : loc) (value : expr) (l : loc)
| ECapture (name : ident) (q : quant) (file_idx stanza_idx : N) (l : loc)
| EUnscoped (name : ident) (l : loc)
| EScoped (scope : expr) (name : ident) (l : loc)
| ECall (f : ident) (args : list expr)
| ERegexCap (i : N).

Inductive variable := VarU (name : ident) (l : loc) | VarS (scope : expr) (name : ident) (l : loc).
Definition variable_loc (v : variable) : loc := match v with VarU _ l => l | VarS _ _ l => l end.

Inductive attr := Attr (name : ident) (value : expr).
Inductive cond := CSome (e : expr) (l : loc) | CNone (e : expr) (l : loc) | CBool (e : expr) (l : loc).

(* regex of a scan arm: an index into the case's regex table (Model/Regex.v ASTs), so that the
   statement type does not depend on the regex model *)
Inductive stmt :=
| SLet (v : variable) (e : expr) (l : loc)
| SVar (v : variable) (e : expr) (l : loc)
| SSet (v : variable) (e : expr) (l : loc)
| SNode (v : variable) (vtext : str) (l : loc)
| SAttrNode (node : expr) (attrs : list attr) (l : loc)
| SEdge (src snk : expr) (l : loc)
| SAttrEdge (src snk : expr) (attrs : list attr) (l : loc)
| SScan (value : expr) (arms : list (N * list stmt * loc)) (l : loc)
| SPrint (values : list expr) (l : loc)
| SIf (arms : list (list cond * list stmt * loc)) (l : loc)
| SFor (var : ident) (vloc : loc) (value : expr) (body : list stmt) (l : loc).

Definition stmt_loc (s : stmt) : loc :=
  match s with
  | SLet _ _ l | SVar _ _ l | SSet _ _ l | SNode _ _ l | SAttrNode _ _ l | SEdge _ _ l
  | SAttrEdge _ _ _ l | SScan _ _ l | SPrint _ l | SIf _ l | SFor _ _ _ _ l => l
  end.

Record global := { gl_name : ident; gl_quant : quant; gl_default : option str; gl_loc : loc }.
Record shorthand := { sh_name : ident; sh_var : ident; sh_vloc : loc; sh_attrs : list attr; sh_loc : loc }.
Record stanza := {
  st_stmts : list stmt;
  st_full_stanza_idx : N;          (* full_match_stanza_capture_index *)
  st_full_file_idx : N;            (* full_match_file_capture_index *)
  st_start : loc;                  (* range.start *)
}.
Record file := {
  f_globals : list global;
  f_inherited : list ident;
  f_shorthands : list shorthand;   (* a map by name: later definitions replace earlier ones *)
  f_stanzas : list stanza;
}.

Fixpoint find_shorthand (name : ident) (l : list shorthand) : option shorthand :=
  match l with
  | [] => None
  | s :: l' => match find_shorthand name l' with
               | Some s' => Some s'                   (* the last one with this name wins *)
               | None => if str_eqb name (sh_name s) then Some s else None
               end
  end.
