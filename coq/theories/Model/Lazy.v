(* Model/Lazy.v — execution/lazy.rs, lazy/values.rs, lazy/store.rs, lazy/statements.rs.
   Definitions only. *)
From TSG Require Export Model.Exec Model.Strict.

Inductive lvalue :=
| LValue (v : value)
| LList (l : list lvalue)
| LSet (l : list lvalue)
| LVar (loc : N)                               (* LazyVariable { store_location } *)
| LScoped (scope : lvalue) (name : ident)
| LCall (f : ident) (args : list lvalue).

Inductive thunk_state := TUnforced (lv : lvalue) | TForcing | TForced (v : value).
Record thunk := { th_state : thunk_state; th_dbg : stmt_ctx }.

Inductive scoped_values :=
| SVUnforced (pairs : list (lvalue * lvalue * stmt_ctx))
| SVForcing
| SVForced (map : list (N * lvalue)).

Inductive lstmt :=
| LSAttrNode (node : lvalue) (attrs : list (ident * lvalue)) (dbg : stmt_ctx)
| LSEdge (src snk : lvalue) (attrs : amap) (dbg : stmt_ctx)
| LSAttrEdge (src snk : lvalue) (attrs : list (ident * lvalue)) (dbg : stmt_ctx)
| LSPrint (args : list (option lvalue)) (dbg : stmt_ctx).

Inductive elem_key := KNode (n : N) (name : ident) | KEdge (a b : N) (name : ident).
Definition elem_key_eqb (x y : elem_key) : bool :=
  match x, y with
  | KNode n k, KNode n' k' => N.eqb n n' && str_eqb k k'
  | KEdge a b k, KEdge a' b' k' => N.eqb a a' && N.eqb b b' && str_eqb k k'
  | _, _ => false
  end.

Record lstate := {
  l_graph : graph;
  l_locals : varmap lvalue;
  l_store : list thunk;
  l_scoped : list (ident * scoped_values);     (* LazyScopedVariables.variables *)
  l_edges : list lstmt;                         (* LazyGraph.edge_statements *)
  l_attrs : list lstmt;
  l_prints : list lstmt;
  l_params : list value;
  l_prev : list (elem_key * stmt_ctx);          (* prev_element_debug_info *)
}.

Record llenv := {
  ll_match : qmatch;
  ll_full : N;                                  (* full_match_file_capture_index *)
  ll_caps : list str;
  ll_ctx : stmt_ctx;
}.
Definition ll_with_ctx (le : llenv) (c : stmt_ctx) : llenv :=
  {| ll_match := ll_match le; ll_full := ll_full le; ll_caps := ll_caps le; ll_ctx := c |}.
Definition ll_with_caps (le : llenv) (caps : list str) : llenv :=
  {| ll_match := ll_match le; ll_full := ll_full le; ll_caps := caps; ll_ctx := ll_ctx le |}.

Definition default_eval_fuel : nat := 200.

Section Lazy.
  Context {rx : Type}.
  Variable t : tree.
  Variable fl : file.
  Variable cfg : config.
  Variable glob : globals.
  Variable regexes : list rx.
  Variable find : rx -> str -> option (list (option (N * N))).
  Variable call : ident -> graph -> list value -> res (value * graph).

  Notation LM := (M lstate).

  Definition upd (f : lstate -> lstate) : LM unit := modify f.
  Definition set_lgraph (g : graph) : LM unit :=
    upd (fun s => {| l_graph := g; l_locals := l_locals s; l_store := l_store s; l_scoped := l_scoped s; l_edges := l_edges s;
                     l_attrs := l_attrs s; l_prints := l_prints s; l_params := l_params s; l_prev := l_prev s |}).
  Definition set_llocals (x : varmap lvalue) : LM unit :=
    upd (fun s => {| l_graph := l_graph s; l_locals := x; l_store := l_store s; l_scoped := l_scoped s; l_edges := l_edges s;
                     l_attrs := l_attrs s; l_prints := l_prints s; l_params := l_params s; l_prev := l_prev s |}).
  Definition set_lstore (x : list thunk) : LM unit :=
    upd (fun s => {| l_graph := l_graph s; l_locals := l_locals s; l_store := x; l_scoped := l_scoped s; l_edges := l_edges s;
                     l_attrs := l_attrs s; l_prints := l_prints s; l_params := l_params s; l_prev := l_prev s |}).
  Definition set_lscoped (x : list (ident * scoped_values)) : LM unit :=
    upd (fun s => {| l_graph := l_graph s; l_locals := l_locals s; l_store := l_store s; l_scoped := x; l_edges := l_edges s;
                     l_attrs := l_attrs s; l_prints := l_prints s; l_params := l_params s; l_prev := l_prev s |}).
  Definition push_lstmt (st : lstmt) : LM unit :=
    upd (fun s =>
      let '(e, a, p) := match st with
                        | LSEdge _ _ _ _ => (l_edges s ++ [st], l_attrs s, l_prints s)
                        | LSAttrNode _ _ _ | LSAttrEdge _ _ _ _ => (l_edges s, l_attrs s ++ [st], l_prints s)
                        | LSPrint _ _ => (l_edges s, l_attrs s, l_prints s ++ [st])
                        end in
      {| l_graph := l_graph s; l_locals := l_locals s; l_store := l_store s; l_scoped := l_scoped s; l_edges := e;
         l_attrs := a; l_prints := p; l_params := l_params s; l_prev := l_prev s |}).
  Definition set_lparams (x : list value) : LM unit :=
    upd (fun s => {| l_graph := l_graph s; l_locals := l_locals s; l_store := l_store s; l_scoped := l_scoped s; l_edges := l_edges s;
                     l_attrs := l_attrs s; l_prints := l_prints s; l_params := x; l_prev := l_prev s |}).
  Definition set_lprev (x : list (elem_key * stmt_ctx)) : LM unit :=
    upd (fun s => {| l_graph := l_graph s; l_locals := l_locals s; l_store := l_store s; l_scoped := l_scoped s; l_edges := l_edges s;
                     l_attrs := l_attrs s; l_prints := l_prints s; l_params := l_params s; l_prev := x |}).

  Definition lpoll (label : N) : LM unit := poll label.
  Fixpoint lpoll_n (n : nat) (label : N) : LM unit :=
    match n with O => ret tt | S n' => lpoll label ;;; lpoll_n n' label end.

  Definition ladd_node : LM N :=
    s <- get_state ;; let '(g', n) := add_graph_node (l_graph s) in set_lgraph g' ;;; ret n.
  (* Attributes::add on a graph node during the execution phase (debug attributes) *)
  Definition ladd_node_attr (n : N) (k : ident) (v : value) : LM unit :=
    s <- get_state ;;
    match gnode_at (l_graph s) n with
    | None => panic P_graph_index
    | Some nd => let '(m', c) := attrs_add (g_attrs nd) k v in
                 match c with
                 | Some _ => fail EDuplicateAttribute
                 | None => set_lgraph (graph_update (l_graph s) n (with_attrs m'))
                 end
    end.
  Definition lopt_node_attr (n : N) (name : option ident) (v : value) : LM unit :=
    match name with Some k => ladd_node_attr n k v | None => ret tt end.

  (* a fresh error raised directly inside a context (`Err(e).with_context(..)`) *)
  Definition fail_in {A} (c : context) (e : exec_error) : LM A := fun _ _ => Err (EInContext c e).

  (* graph mutations of the evaluation phase (statements.rs) *)
  Definition lattr_node_add (n : N) (k : ident) (v : value) (prev : option stmt_ctx) (dbg : stmt_ctx) : LM unit :=
    s <- get_state ;;
    match gnode_at (l_graph s) n with
    | None => panic P_graph_index
    | Some nd => let '(m', c) := attrs_add (g_attrs nd) k v in
                 match c with
                 | Some _ => fail_in (CtxStmts (match prev with Some p => [p; dbg] | None => [dbg] end)) EDuplicateAttribute
                 | None => set_lgraph (graph_update (l_graph s) n (with_attrs m'))
                 end
    end.
  (* add_edge; a NEW edge gets the debug attributes computed at execution time, an existing one keeps its own *)
  Definition ledge_add (a b : N) (eattrs : amap) : LM unit :=
    s <- get_state ;;
    match graph_add_edge (l_graph s) a b with
    | None => panic P_graph_index
    | Some (g', isnew) =>
        if isnew then set_lgraph (graph_update g' a (fun nd => with_edges (edges_set b eattrs (g_edges nd)) nd))
        else set_lgraph g'
    end.
  Definition lattr_edge_add (a b : N) (k : ident) (v : value) (prev : option stmt_ctx) (dbg : stmt_ctx) : LM unit :=
    s <- get_state ;;
    match gnode_at (l_graph s) a with
    | None => panic P_graph_index
    | Some nd =>
        match edges_get b (g_edges nd) with
        | None => fail EUndefinedEdge
        | Some m =>
            let '(m', c) := attrs_add m k v in
            match c with
            | Some _ => fail_in (CtxStmts (match prev with Some p => [p; dbg] | None => [dbg] end)) EDuplicateAttribute
            | None => set_lgraph (graph_update (l_graph s) a (with_edges (edges_set b m' (g_edges nd))))
            end
        end
    end.
  Definition ledge_exists (a b : N) : LM bool :=
    s <- get_state ;;
    match gnode_at (l_graph s) a with
    | None => panic P_graph_index
    | Some nd => ret (match edges_get b (g_edges nd) with Some _ => true | None => false end)
    end.

  Definition lpush_frame : LM unit := s <- get_state ;; set_llocals ([] :: l_locals s).
  Definition lpop_frame : LM unit :=
    s <- get_state ;; match l_locals s with _ :: up => set_llocals up | [] => panic P_locals_empty end.
  Definition lclear_frame : LM unit := s <- get_state ;; set_llocals (varmap_clear (l_locals s)).

  (* LazyStore::add *)
  Definition store_add (lv : lvalue) (dbg : stmt_ctx) : LM lvalue :=
    s <- get_state ;;
    let loc := N.of_nat (length (l_store s)) in
    set_lstore (l_store s ++ [{| th_state := TUnforced lv; th_dbg := dbg |}]) ;;; ret (LVar loc).
  Definition store_set_state (loc : N) (st : thunk_state) : LM unit :=
    s <- get_state ;;
    set_lstore (list_update (N.to_nat loc) (fun th => {| th_state := st; th_dbg := th_dbg th |}) (l_store s)).

  (* LazyScopedVariables cells *)
  Definition cell_get (name : ident) : LM (option scoped_values) := s <- get_state ;; ret (alist_get name (l_scoped s)).
  Definition cell_set (name : ident) (v : scoped_values) : LM unit := s <- get_state ;; set_lscoped (alist_set name v (l_scoped s)).

  (* LazyScopedVariables::add *)
  Definition scoped_store_add (scope : lvalue) (name : ident) (v : lvalue) (dbg : stmt_ctx) : LM unit :=
    c <- cell_get name ;;
    match c with
    | None => cell_set name (SVUnforced [(scope, v, dbg)])
    | Some (SVUnforced pairs) => cell_set name (SVUnforced (pairs ++ [(scope, v, dbg)]))
    | Some SVForcing => fail ERecursivelyDefinedScopedVariable
    | Some (SVForced _) => fail EVariableScopesAlreadyForced
    end.

  Fixpoint nmap_get (m : list (N * lvalue)) (n : N) : option lvalue :=
    match m with [] => None | (k, v) :: m' => if N.eqb n k then Some v else nmap_get m' n end.
  Fixpoint lancestor_lookup (fuel : nat) (m : list (N * lvalue)) (parent : option N) : option lvalue :=
    match fuel with
    | O => None
    | S f =>
        match parent with
        | None => None
        | Some p => match nmap_get m p with
                    | Some v => Some v
                    | None => lancestor_lookup f m (match node_at t p with Some nd => tn_parent nd | None => None end)
                    end
        end
    end.

  Definition linherited (name : ident) : bool := existsb (str_eqb name) (f_inherited fl).

  Definition lpush_param (v : value) : LM unit := s <- get_state ;; set_lparams (l_params s ++ [v]).
  Definition ldrain_params (n : nat) : LM (list value) :=
    s <- get_state ;;
    let len := length (l_params s) in
    if Nat.ltb len n then panic P_params_underflow
    else set_lparams (firstn (len - n) (l_params s)) ;;; ret (skipn (len - n) (l_params s)).
  Definition lcall_function (f : ident) (args : list value) : LM value :=
    s <- get_state ;;
    match call f (l_graph s) args with
    | Ok (v, g') => set_lgraph g' ;;; ret v
    | Err e => fail e
    | Panic p => panic p
    | OutOfFuel => out_of_fuel
    end.

  (* the loop of LazyScopedVariables::force over the collected definitions; `ev` evaluates a scope *)
  Fixpoint dbg_get (l : list (N * stmt_ctx)) (n : N) : option stmt_ctx :=
    match l with [] => None | (k, d) :: l' => if N.eqb n k then Some d else dbg_get l' n end.
  Fixpoint force_pairs (ev : lvalue -> LM N) (ps : list (lvalue * lvalue * stmt_ctx))
      (values : list (N * lvalue)) (dbgs : list (N * stmt_ctx)) : LM (list (N * lvalue)) :=
    match ps with
    | [] => ret values
    | (scope, v, dbg) :: ps' =>
        n <- ctx_wrap (CtxStmts [dbg]) (ctx_wrap CtxOther (ev scope)) ;;
        match nmap_get values n with
        | Some _ =>
            match dbg_get dbgs n with
            | Some prev => fail_in (CtxStmts [prev; dbg]) EDuplicateVariable
            | None => panic P_unreachable_scoped
            end
        | None => force_pairs ev ps' (values ++ [(n, v)]) (dbgs ++ [(n, dbg)])
        end
    end.

  (* ---------------- evaluation (values.rs, store.rs) ---------------- *)
  Fixpoint eval_lv (fuel : nat) (lv : lvalue) {struct fuel} : LM value :=
    match fuel with
    | O => out_of_fuel
    | S fuel =>
      lpoll L_eval_value ;;;
      match lv with
      | LValue v => ret v
      | LList es => vs <- mapM (eval_lv fuel) es ;; ret (VList vs)
      | LSet es => vs <- mapM (eval_lv fuel) es ;; ret (VSet (set_of_list vs))
      | LVar loc => force_thunk fuel loc
      | LScoped scope name =>
          (* LazyScopedVariable::resolve, then evaluate the resolved lazy value *)
          n <- ctx_wrap CtxOther (sv <- eval_lv fuel scope ;; lift (as_syn sv)) ;;
          c <- cell_get name ;;
          match c with
          | None => fail EUndefinedScopedVariable
          | Some cell =>
              cell_set name SVForcing ;;;
              map <- force_scoped fuel name cell ;;
              let result :=
                match nmap_get map n with
                | Some v => Some v
                | None => if linherited name then
                            lancestor_lookup (S (length (t_nodes t))) map
                              (match node_at t n with Some nd => tn_parent nd | None => None end)
                          else None
                end in
              cell_set name (SVForced map) ;;;
              match result with
              | Some v => eval_lv fuel v
              | None => fail EUndefinedScopedVariable
              end
          end
      | LCall f args =>
          iterM (fun a => v <- eval_lv fuel a ;; lpush_param v) args ;;;
          ps <- ldrain_params (length args) ;;
          lcall_function f ps
      end
    end
  (* LazyStore::evaluate / evaluate_all -> Thunk::force, with the thunk's debug info as context *)
  with force_thunk (fuel : nat) (loc : N) {struct fuel} : LM value :=
    match fuel with
    | O => out_of_fuel
    | S fuel =>
      s <- get_state ;;
      match nth_error (l_store s) (N.to_nat loc) with
      | None => panic P_store_index
      | Some th =>
          ctx_wrap (CtxStmts [th_dbg th])
            (match th_state th with
             | TUnforced inner =>
                 store_set_state loc TForcing ;;;
                 v <- eval_lv fuel inner ;;
                 store_set_state loc (TForced v) ;;; ret v
             | TForced v => ret v
             | TForcing => fail ERecursivelyDefinedVariable
             end)
      end
    end
  (* LazyScopedVariables::force *)
  with force_scoped (fuel : nat) (name : ident) (cell : scoped_values) {struct fuel} : LM (list (N * lvalue)) :=
    match fuel with
    | O => out_of_fuel
    | S fuel =>
      match cell with
      | SVUnforced pairs =>
          force_pairs (fun scope => sv <- eval_lv fuel scope ;; lift (as_syn sv)) pairs [] []
      | SVForcing => fail ERecursivelyDefinedScopedVariable
      | SVForced map => ret map
      end
    end.

  Definition eval_as_gnode (fuel : nat) (lv : lvalue) : LM N := v <- eval_lv fuel lv ;; lift (as_gnode v).

  Definition prev_insert (k : elem_key) (dbg : stmt_ctx) : LM (option stmt_ctx) :=
    s <- get_state ;;
    let old := (fix get (l : list (elem_key * stmt_ctx)) : option stmt_ctx :=
                  match l with [] => None | (k', d) :: l' => if elem_key_eqb k k' then Some d else get l' end) (l_prev s) in
    set_lprev ((k, dbg) :: filter (fun e => negb (elem_key_eqb k (fst e))) (l_prev s)) ;;; ret old.

  (* LazyStatement::evaluate *)
  Definition eval_lstmt (fuel : nat) (st : lstmt) : LM unit :=
    lpoll L_eval_stmt ;;;
    match st with
    | LSAttrNode node attrs dbg =>
        ctx_wrap (CtxStmts [dbg])
          (n <- ctx_wrap CtxOther (eval_as_gnode fuel node) ;;
           iterM (fun a : ident * lvalue =>
                    v <- eval_lv fuel (snd a) ;;
                    prev <- prev_insert (KNode n (fst a)) dbg ;;
                    lattr_node_add n (fst a) v prev dbg) attrs)
    | LSEdge src snk eattrs dbg =>
        ctx_wrap (CtxStmts [dbg])
          (a <- ctx_wrap CtxOther (eval_as_gnode fuel src) ;;
           b <- ctx_wrap CtxOther (eval_as_gnode fuel snk) ;;
           ledge_add a b eattrs)
    | LSAttrEdge src snk attrs dbg =>
        ctx_wrap (CtxStmts [dbg])
          (a <- ctx_wrap CtxOther (eval_as_gnode fuel src) ;;
           b <- ctx_wrap CtxOther (eval_as_gnode fuel snk) ;;
           iterM (fun ak : ident * lvalue =>
                    v <- eval_lv fuel (snd ak) ;;
                    ex <- ledge_exists a b ;;
                    if ex then
                      prev <- prev_insert (KEdge a b (fst ak)) dbg ;;
                      lattr_edge_add a b (fst ak) v prev dbg
                    else fail EUndefinedEdge) attrs)
    | LSPrint args dbg =>
        ctx_wrap (CtxStmts [dbg])
          (iterM (fun a => match a with Some lv => eval_lv fuel lv ;;; ret tt | None => ret tt end) args)
    end.

  (* LazyStore::evaluate_all *)
  Definition store_evaluate_all (fuel : nat) : LM unit :=
    s <- get_state ;;
    iterM (fun i => force_thunk fuel i ;;; ret tt) (map N.of_nat (seq 0 (length (l_store s)))).

  (* LazyScopedVariables::evaluate_all (names in sorted order) *)
  Definition scoped_evaluate_all (fuel : nat) : LM unit :=
    s <- get_state ;;
    iterM (fun name =>
             c <- cell_get name ;;
             match c with
             | None => ret tt
             | Some cell =>
                 cell_set name SVForcing ;;;
                 map <- force_scoped fuel name cell ;;
                 cell_set name (SVForced map)
             end)
          (map fst (sort_alist (l_scoped s))).

  (* LazyGraph::evaluate; then force everything *)
  Definition evaluate_phase (fuel : nat) : LM unit :=
    s <- get_state ;;
    iterM (eval_lstmt fuel) (l_edges s) ;;;
    iterM (eval_lstmt fuel) (l_attrs s) ;;;
    iterM (eval_lstmt fuel) (l_prints s) ;;;
    store_evaluate_all fuel ;;;
    scoped_evaluate_all fuel.

  (* ---------------- execution phase (lazy.rs) ---------------- *)
  Definition lfull_match_node (le : llenv) : LM N :=
    match nodes_for_capture (ll_match le) (ll_full le) with
    | n :: _ => ret n
    | [] => panic P_missing_full_capture
    end.

  Definition lunscoped_get (name : ident) : LM lvalue :=
    match globals_get glob name with
    | Some v => ret (LValue v)
    | None => s <- get_state ;;
              match varmap_get (l_locals s) name with Some v => ret v | None => fail EUndefinedVariable end
    end.
  Definition lunscoped_add (le : llenv) (name : ident) (v : lvalue) (mutable : bool) : LM unit :=
    match globals_get glob name with
    | Some _ => fail EDuplicateVariable
    | None =>
        var <- store_add v (ll_ctx le) ;;
        s <- get_state ;;
        match varmap_add (l_locals s) name var mutable with
        | inl l' => set_llocals l'
        | inr _ => fail EDuplicateVariable
        end
    end.
  Definition lunscoped_set (le : llenv) (name : ident) (v : lvalue) : LM unit :=
    match globals_get glob name with
    | Some _ => fail ECannotAssignImmutableVariable
    | None =>
        var <- store_add v (ll_ctx le) ;;
        s <- get_state ;;
        match varmap_set (l_locals s) name var with
        | inl l' => set_llocals l'
        | inr _ => match varmap_get (l_locals s) name with
                   | Some _ => fail ECannotAssignImmutableVariable
                   | None => fail EUndefinedVariable
                   end
        end
    end.

  Fixpoint leval (fuel : nat) (le : llenv) (e : expr) {struct fuel} : LM lvalue :=
    match fuel with
    | O => out_of_fuel
    | S fuel =>
      (* evaluate_eager = evaluate_lazy then LazyValue::evaluate on the current state *)
      let eager (e' : expr) : LM value := lv <- leval fuel le e' ;; eval_lv (S fuel + default_eval_fuel) lv in
      let comp (elem : expr) (var : ident) (value : expr) : LM (list lvalue) :=
        lv <- eager value ;; vals <- lift (as_list lv) ;;
        lpush_frame ;;;
        out <- mapM (fun v => lclear_frame ;;; lunscoped_add le var (LValue v) false ;;; leval fuel le elem) vals ;;
        lpop_frame ;;; ret out in
      match e with
      | EFalse => ret (LValue (VBool false))
      | ENull => ret (LValue VNull)
      | ETrue => ret (LValue (VBool true))
      | EInt n => ret (LValue (VInt n))
      | EStr s => ret (LValue (VStr s))
      | EList es => vs <- mapM (leval fuel le) es ;; ret (LList vs)
      | ESet es => vs <- mapM (leval fuel le) es ;; ret (LSet vs)
      | EListComp elem var _ value _ => out <- comp elem var value ;; ret (LList out)
      | ESetComp elem var _ value _ => out <- comp elem var value ;; ret (LSet out)
      | ECapture _ q file_idx _ _ => v <- lift (from_nodes (nodes_for_capture (ll_match le) file_idx) q) ;; ret (LValue v)
      | EUnscoped name _ => lunscoped_get name
      | EScoped scope name _ => sv <- leval fuel le scope ;; ret (LScoped sv name)
      | ECall f args => vs <- mapM (leval fuel le) args ;; ret (LCall f vs)
      | ERegexCap i =>
          match nth_error (ll_caps le) (N.to_nat i) with
          | Some s => ret (LValue (VStr s))
          | None => fail EUndefinedRegexCapture
          end
      end
    end.
  Definition leager (fuel : nat) (le : llenv) (e : expr) : LM value :=
    lv <- leval fuel le e ;; eval_lv (fuel + default_eval_fuel) lv.

  Definition lvar_add (fuel : nat) (le : llenv) (v : variable) (x : lvalue) (mutable : bool) : LM unit :=
    match v with
    | VarU name _ => lunscoped_add le name x mutable
    | VarS scope name _ =>
        if mutable then fail ECannotDefineMutableScopedVariable
        else
          sv <- leval fuel le scope ;;
          var <- store_add x (ll_ctx le) ;;
          scoped_store_add sv name var (ll_ctx le)
    end.
  Definition lvar_set (fuel : nat) (le : llenv) (v : variable) (x : lvalue) : LM unit :=
    match v with
    | VarU name _ => lunscoped_set le name x
    | VarS _ _ _ => fail ECannotAssignScopedVariable
    end.

  Definition ltest_cond (fuel : nat) (le : llenv) (c : cond) : LM bool :=
    match c with
    | CSome e _ => v <- leager fuel le e ;; ret (negb (match v with VNull => true | _ => false end))
    | CNone e _ => v <- leager fuel le e ;; ret (match v with VNull => true | _ => false end)
    | CBool e _ => v <- leager fuel le e ;; lift (as_bool v)
    end.

  (* Attribute::execute_lazy / AttributeShorthand::execute_lazy: returns the LazyAttributes pushed *)
  Fixpoint lexec_attr (fuel : nat) (le : llenv) (a : attr) {struct fuel} : LM (list (ident * lvalue)) :=
    match fuel with
    | O => out_of_fuel
    | S fuel =>
      let '(Attr name value) := a in
      lpoll L_exec_attr ;;;
      v <- leval fuel le value ;;
      match find_shorthand name (f_shorthands fl) with
      | Some sh =>
          s <- get_state ;;
          let saved := l_locals s in
          set_llocals [[]] ;;;
          lunscoped_add le (sh_var sh) v false ;;;
          outs <- mapM (lexec_attr fuel le) (sh_attrs sh) ;;
          set_llocals saved ;;; ret (concat outs)
      | None => ret [(name, v)]
      end
    end.

  Fixpoint lscan_loop (run_arm : list str -> list stmt -> LM unit) (arms : list (N * list stmt * loc)) (rs : list rx)
      (subject : str) (sfuel : nat) (i : N) {struct sfuel} : LM unit :=
    match sfuel with
    | O => out_of_fuel
    | S sfuel =>
      if N.ltb i (N.of_nat (length subject)) then
        let suffix := skipn (N.to_nat i) subject in
        let sel := arm_select find rs suffix in
        (* one poll per arm examined *)
        lpoll_n (match sel with ASelEmpty k => S (N.to_nat k) | _ => length rs end) L_scan ;;;
        match sel with
        | ASelNone => ret tt
        | ASelEmpty _ => fail EEmptyRegexCapture
        | ASelArm k caps =>
            match nth_error arms (N.to_nat k) with
            | None => panic P_regex_table
            | Some (_, body, _) =>
                lpush_frame ;;;
                run_arm (cap_texts suffix caps) body ;;;
                lpop_frame ;;;
                lscan_loop run_arm arms rs subject sfuel (i + snd (cap0 caps))
            end
        end
      else ret tt
    end.
  Fixpoint lif_loop (test : cond -> LM bool) (run_body : list stmt -> LM unit)
      (arms : list (list cond * list stmt * loc)) : LM unit :=
    match arms with
    | [] => ret tt
    | (conds, body, _) :: arms' =>
        bs <- mapM test conds ;;
        if forallb (fun b => b) bs then lpush_frame ;;; run_body body ;;; lpop_frame
        else lif_loop test run_body arms'
    end.

  Fixpoint lexec_stmt (fuel : nat) (le : llenv) (s : stmt) {struct fuel} : LM unit :=
    match fuel with
    | O => out_of_fuel
    | S fuel =>
      (* nested block in `if`/`for`: error_context updated, NO with_context *)
      let block (le' : llenv) (body : list stmt) : LM unit :=
        iterM (fun st => lexec_stmt fuel (ll_with_ctx le' (ctx_update (ll_ctx le') st)) st) body in
      (* nested block in a scan arm: with_context(Other) then with_context(statement) *)
      let arm_block (le' : llenv) (body : list stmt) : LM unit :=
        iterM (fun st => let c := ctx_update (ll_ctx le') st in
                         ctx_wrap (CtxStmts [c]) (ctx_wrap CtxOther (lexec_stmt fuel (ll_with_ctx le' c) st))) body in
      lpoll L_exec_stmt ;;;
      match s with
      | SLet v e _ => x <- leval fuel le e ;; lvar_add fuel le v x false
      | SVar v e _ => x <- leval fuel le e ;; lvar_add fuel le v x true
      | SSet v e _ => x <- leval fuel le e ;; lvar_set fuel le v x
      | SNode v vtext _ =>
          n <- ladd_node ;;
          lopt_node_attr n (c_var_attr cfg) (VStr vtext) ;;;
          lopt_node_attr n (c_loc_attr cfg) (VStr (loc_text (variable_loc v))) ;;;
          match c_match_attr cfg with
          | Some k => mn <- lfull_match_node le ;; ladd_node_attr n k (VSyn mn)
          | None => ret tt
          end ;;;
          lvar_add fuel le v (LValue (VGraph n)) false
      | SAttrNode node attrs _ =>
          nv <- leval fuel le node ;;
          outs <- mapM (lexec_attr fuel le) attrs ;;
          push_lstmt (LSAttrNode nv (concat outs) (ll_ctx le))
      | SEdge src snk l =>
          a <- leval fuel le src ;; b <- leval fuel le snk ;;
          let eattrs := match c_loc_attr cfg with Some k => [(k, VStr (loc_text l))] | None => [] end in
          push_lstmt (LSEdge a b eattrs (ll_ctx le))
      | SAttrEdge src snk attrs _ =>
          a <- leval fuel le src ;; b <- leval fuel le snk ;;
          outs <- mapM (lexec_attr fuel le) attrs ;;
          push_lstmt (LSAttrEdge a b (concat outs) (ll_ctx le))
      | SScan value arms _ =>
          sv <- leager fuel le value ;; subject <- lift (as_str sv) ;;
          match arm_table regexes arms with
          | None => panic P_regex_table
          | Some rs =>
              lscan_loop (fun caps body => arm_block (ll_with_caps le caps) body) arms rs subject (S (length subject)) 0
          end
      | SPrint values _ =>
          args <- mapM (fun e => match e with
                                 | EStr _ => ret None
                                 | _ => lv <- leval fuel le e ;; ret (Some lv)
                                 end) values ;;
          push_lstmt (LSPrint args (ll_ctx le))
      | SIf arms _ => lif_loop (ltest_cond fuel le) (block le) arms
      | SFor var _ value body _ =>
          lv <- leager fuel le value ;; vals <- lift (as_list lv) ;;
          lpush_frame ;;;
          iterM (fun v => lclear_frame ;;; lunscoped_add le var (LValue v) false ;;; block le body) vals ;;;
          lpop_frame
      end
    end.

  (* Stanza::execute_lazy for one match (the poll "processing matches" comes first) *)
  Definition lexec_stanza (fuel : nat) (st : stanza) (m : qmatch) : LM unit :=
    lpoll L_matches ;;;
    lclear_frame ;;;
    let le0 := {| ll_match := m; ll_full := st_full_file_idx st; ll_caps := [];
                  ll_ctx := {| sc_stmt := (0, 0); sc_stanza := st_start st; sc_node := 0 |} |} in
    match nodes_for_capture m (st_full_file_idx st) with
    | [] => panic P_missing_full_capture                       (* .expect("missing capture for full match") *)
    | n :: _ =>
        iterM (fun s =>
                 let c := {| sc_stmt := stmt_loc s; sc_stanza := st_start st; sc_node := n |} in
                 ctx_wrap (CtxStmts [c]) (lexec_stmt fuel (ll_with_ctx le0 c) s))
              (st_stmts st)
    end.

  (* File::execute_lazy_into after check_globals: merged matches in oracle order, then evaluation *)
  Definition lexec_file (fuel : nat) (ms : list (N * qmatch)) : LM unit :=
    iterM (fun pm : N * qmatch =>
             match nth_error (f_stanzas fl) (N.to_nat (fst pm)) with
             | Some st => lexec_stanza fuel st (snd pm)
             | None => panic P_stanza_index
             end) ms ;;;
    evaluate_phase (fuel + default_eval_fuel).
End Lazy.

Definition linit (g : graph) : lstate :=
  {| l_graph := g; l_locals := [[]]; l_store := []; l_scoped := []; l_edges := []; l_attrs := []; l_prints := [];
     l_params := []; l_prev := [] |}.

Definition run_lazy {rx : Type} (t : tree) (fl : file) (cfg : config) (supplied : globals) (budget : option N)
    (regexes : list rx) (find : rx -> str -> option (list (option (N * N))))
    (call : ident -> graph -> list value -> res (value * graph))
    (fuel : nat) (matches : list (N * qmatch)) (g0 : graph) : outcome exec_error (lstate * polls) :=
  match check_globals (f_globals fl) (globals_nested supplied) with
  | Ok glob =>
      match lexec_file t fl cfg glob regexes find call fuel matches (linit g0) (polls0 budget) with
      | Ok (_, s, p) => Ok (s, p)
      | Err e => Err e
      | Panic p => Panic p
      | OutOfFuel => OutOfFuel
      end
  | Err e => Err e
  | Panic p => Panic p
  | OutOfFuel => OutOfFuel
  end.
