(* AUDIT scratch: joint satisfiability of ALL hypotheses of the theorem with the longest hypothesis list,
   strict_fail_lazy_err_any_order_scoped_partial (Props/C02.v) — no Example in the sources instantiates them together.
   Program ay4 of Proofs/SLF2AnyExample.v, interleaved order ay_ms'. *)
From Coq Require Import List Permutation.
From TSG Require Import Model.Run Model.Stdlib Proofs.K7 Proofs.SLExpr Proofs.StrictLazy Proofs.SL2Whole Proofs.SLF2File Proofs.SLFailGraph
  Proofs.BlockPermRen Proofs.BlockPermExample Proofs.SLAnyExample Proofs.SLF2AnyExample Proofs.NoPanicStrict Proofs.NoPanicLazy Proofs.SLF2Expr Proofs.SLF2Example Proofs.ScPermExec.
From TSG Require Props.C02.
Import ListNotations.
Goal forall lfuel,
  match run_lazy k7_tree ay4_file config0 [[]] None ([] : list regex) rx_captures c8_call lfuel ay_ms' [] with
  | Err _ | OutOfFuel => True | Ok _ | Panic _ => False end.
Proof.
  destruct (err_cause_okerr2 _ _ ay4_strict I) as (e & He & Ho).
  eapply (Props.C02.strict_fail_lazy_err_any_order_scoped_partial regex k7_tree ay4_file [[]] [] rx_captures c8_call c8_okfn c8_call_ok []
            ay_closed ay1_globals_ok (syn_ok k7_tree) (fun _ => false) default_fuel ay_ms e ay_ms' ay_graph_ext ay4_file_ok
            (inh_static_nil k7_tree ay4_file ay_ms eq_refl) ay4_blocks_ok); [| | | |exact He|exact Ho|exact ay_perm].
  - vm_compute. reflexivity.
  - unfold GoodMatchesLazy. vm_compute. repeat constructor; try discriminate; try reflexivity; try (eexists; split; [reflexivity|]; repeat split; repeat constructor; try discriminate; try reflexivity).
  - vm_compute. repeat constructor.
  - apply stdlib_good_call.
Qed.
