#!/usr/bin/env python3
"""extract_case.py <cases_file.v> <case_name> <prefix>  -> prints Coq definitions <prefix>_tree, <prefix>_run (run_in)
Reads a recorded correspondence case (both_verdict form) of /verif/.work (read only)."""
import re,sys
s=open(sys.argv[1]).read()
name=sys.argv[2]; pre=sys.argv[3]
m=re.search(r'Definition '+name+r' : N := both_verdict \((.*?)\) \((\{\| ri_lazy.*?\|\})\) \((.*?)\)\.\nEval', s, re.S)
tree,ri=m.group(1),m.group(2)
print("From TSG Require Import Model.Run.\nOpen Scope N_scope.")
print("Definition %s_tree : tree := %s." % (pre,tree))
print("Definition %s_run : run_in := %s." % (pre,ri))
