(* AUDIT scratch: a REAL recorded case (C03 stream, case_16 of /verif/.work/C03/run-C03/cases_0.v): four stanzas, no scoped
   variables, only node/attr statements with captures.  The strict matches carry STANZA capture indices, the lazy (merged query)
   matches FILE capture indices, as the harness dumps them (harness/src/dump.rs raw_matches). *)
From Coq Require Import Permutation List.
From TSG Require Import Model.Run Proofs.SLExpr Proofs.StrictLazy Proofs.BlockPermSwap Proofs.BlockPermExec.
Require Import Real16.
Import ListNotations.
Open Scope N_scope.

(* both runs succeed (the harness verdict was 0) *)
Goal exists g g', drop_polls (run_one r16_tree config0 None (with_lazy r16_run false) []) = Ok g /\
                  drop_polls (run_one r16_tree config0 None (with_lazy r16_run true) []) = Ok g' /\ length g = 6%nat /\ length g' = 6%nat.
Proof. do 2 eexists. split; [vm_compute; reflexivity|]. split; [vm_compute; reflexivity|]. split; reflexivity. Qed.

(* (1) the Permutation hypothesis of every `.._run_one_..` theorem of Props/C02.v is FALSE of this real case *)
Lemma perm_in {A} (l l' : list A) x : Permutation l l' -> In x l -> In x l'.
Proof. intros. eapply Permutation_in; eauto. Qed.
Goal ~ Permutation (lmatches_of (ri_smatches r16_run)) (ri_lmatches r16_run).
Proof.
  intros H. assert (I : In (1, [(2, [7]); (3, [7])]) (ri_lmatches r16_run)).
  { apply (perm_in _ _ _ H). vm_compute. right. right. left. reflexivity. }
  vm_compute in I. repeat (destruct I as [I|I]; [discriminate I|]). exact I.
Qed.

(* (2) `file_ok` (fragment v1 of C02) is FALSE of this case with its real strict matches, for every okfn: stanza 1 has the
   capture @blk with file index 4 and stanza index 2; the strict match has no capture 4 *)
Goal forall okfn, ~ file_ok okfn (ri_file r16_run) (f_stanzas (ri_file r16_run)) (ri_smatches r16_run).
Proof.
  intros okfn H. cbn [file_ok ri_file r16_run f_stanzas ri_smatches] in H.
  destruct H as (_ & H & _). apply Forall_inv in H. destruct H as (Hs & _).
  cbn [All st_stmts fstmt fattr fexpr] in Hs. destruct Hs as (_ & _ & (_ & X & _) & _).
  vm_compute in X. discriminate X.
Qed.

(* (3) `pm_ok` (fragment of C08 step 3) is FALSE of the real merged-query match list, for every okfn *)
Goal forall okfn, ~ Forall (pm_ok (ri_file r16_run) okfn) (ri_lmatches r16_run).
Proof.
  intros okfn H. apply Forall_inv in H. specialize (H _ eq_refl). destruct H as (Hs & _).
  cbn [All st_stmts fstmt fattr fexpr snd] in Hs. destruct Hs as (_ & _ & _ & _ & (_ & X & _) & _).
  vm_compute in X. discriminate X.
Qed.
