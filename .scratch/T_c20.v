(* AUDIT scratch (C20): `fails_directly` (conclusion of strict_error_stmt_loc / strict_file_error_stmt_loc) quantifies existentially over the
   STATE.  In the program of c20_strict_innermost_nonvacuous the first statement `node x` never fails in the run (the run fails in the
   nested `attr (5) k = 1` with ExpectedGraphNode), yet `fails_directly .. (node x) DuplicateVariable` holds: pick a state in which x is
   already bound.  So the conjunct says "s' CAN fail with e1", not "s' failed with e1 in this run". *)
From Coq Require Import List.
From TSG Require Import Model.Strict Proofs.StrictMeta Proofs.ErrorCtx Proofs.ErrorCtxValid.
From TSG Require Props.C20.
Import ListNotations.
Open Scope N_scope.
Definition x := [120]. Definition k := [107].
Definition inner := SAttrNode (EInt 5) [Attr k (EInt 1)] (3, 2).
Definition nodex := SNode (VarU x (1, 2)) x (1, 0).
Definition st := {| st_stmts := [nodex; SIf [([CBool ETrue (2, 3)], [inner], (2, 0))] (2, 0)];
               st_full_stanza_idx := 0; st_full_file_idx := 0; st_start := (0, 0) |}.
Definition fl := {| f_globals := []; f_inherited := []; f_shorthands := []; f_stanzas := [st] |}.
Definition m : qmatch := [(0, [7])].
Goal fails_directly Props.C20.ex_tree fl config0 [[]] (@nil unit) (fun _ _ => None) Props.C20.ex_call (0, 0) 7 m nodex EDuplicateVariable.
Proof.
  exists 10%nat, {| le_match := m; le_full := 0; le_caps := []; le_ctx := {| sc_stmt := (1, 0); sc_stanza := (0, 0); sc_node := 7 |} |},
         {| s_graph := []; s_locals := [[(x, (VInt 0, false))]]; s_scoped := []; s_params := [] |}, (polls0 None).
  split; [vm_compute; reflexivity|]. split; [apply U_base; exact I|]. split; reflexivity.
Qed.
