(* AUDIT scratch (C20): `fails_directly` (conclusion of strict_error_stmt_loc / strict_file_error_stmt_loc) quantifies existentially over the
   STATE.  In the program of c20_strict_innermost_nonvacuous the first statement `node x` never fails in the run (the run fails in the
   nested `attr (5) k = 1` with ExpectedGraphNode), yet `fails_directly .. (node x) DuplicateVariable` holds: pick a state in which x is
   already bound.  So the conjunct says "s' CAN fail with e1", not "s' failed with e1 in this run". *)
From Coq Require Import List.
From TSG Require Import Model.Strict Proofs.StrictMeta Proofs.ErrorCtx Proofs.ErrorCtxValid.
From TSG Require Props.C20.
Import ListNotations.
Open Scope N_scope.
Definition x := [120]. Definition k := [107].
Definition inner := SAttrNode (EInt 5) [Attr k (EInt 1)] (3, 2).
Definition nodex := SNode (VarU x (1, 2)) x (1, 0).
Definition st := {| st_stmts := [nodex; SIf [([CBool ETrue (2, 3)], [inner], (2, 0))] (2, 0)];
               st_full_stanza_idx := 0; st_full_file_idx := 0; st_start := (0, 0) |}.
Definition fl := {| f_globals := []; f_inherited := []; f_shorthands := []; f_stanzas := [st] |}.
Definition m : qmatch := [(0, [7])].
Goal fails_directly Props.C20.ex_tree fl config0 [[]] (@nil unit) (fun _ _ => None) Props.C20.ex_call (0, 0) 7 m nodex EDuplicateVariable.
Proof.
  exists 10%nat, {| le_match := m; le_full := 0; le_caps := []; le_ctx := {| sc_stmt := (1, 0); sc_stanza := (0, 0); sc_node := 7 |} |},
         {| s_graph := []; s_locals := [[(x, (VInt 0, false))]]; s_scoped := []; s_params := [] |}, (polls0 None).
  split; [vm_compute; reflexivity|]. split; [apply U_base; exact I|]. split; reflexivity.
Qed.

(* the same for the lazy "WHICH statement" theorems: `forced e` := exists STATE, origin state e.  It holds of an error that cites a
   location (999, 999) / node 12345 existing in no file and no run (whatever the file fl and whenever the library can fail):
   so the disjunct `forced t fl call e` of lazy_stmt_error_cites_statement / lazy_exec_error_cites_statement / lazy_run_error_cites does
   not tie the cited context to the run; that link is only given by lazy_error_ctx_valid (valid_ctx) and lazy_created_values_cite_statement. *)
From TSG Require Import Model.Lazy Proofs.CiteEval Proofs.CiteExec.
Definition dfake : stmt_ctx := {| sc_stmt := (999, 999); sc_stanza := (888, 888); sc_node := 12345 |}.
Goal forall fl0, forced Props.C20.ex_tree fl0 Props.C20.ex_call (EInContext (CtxStmts [dfake]) EUndefinedFunction).
Proof.
  intros fl0.
  set (s := {| l_graph := []; l_locals := [[]];
               l_store := [{| th_state := TUnforced (LCall [102] []); th_dbg := dfake |}];
               l_scoped := []; l_edges := []; l_attrs := []; l_prints := []; l_params := []; l_prev := [] |}).
  exists s. eapply (O_thunk _ _ _ _ _ 0 dfake EUndefinedFunction); [reflexivity| |reflexivity].
  split; [apply U_base; exact I|]. eexists 3%nat, _, s, (polls0 None).
  split; [apply same_dbgs_refl|]. split; [reflexivity|]. split; [reflexivity|]. vm_compute. reflexivity.
Qed.
