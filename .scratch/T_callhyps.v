(* AUDIT scratch: the hypotheses on the function library used by C01 / C20 (call_errors_base), C11 (call_errors_ok), C09 (call_extends,
   call_extends_sorted) are nowhere discharged for the standard library in coq/theories (grep).  Are they at least TRUE of it? *)
From TSG Require Import Model.Stdlib Spec.StdlibDoc Proofs.StrictMeta Proofs.ErrorCtx Proofs.Cancel Proofs.Extends Proofs.ExtendsLazy Proofs.Containers.
From TSG Require Props.C13 Props.C02.
(* true, and a two-line consequence of C13.error_classes *)
Goal forall rx t, call_errors_base (stdlib_call rx t).
Proof. intros rx t f g args e H. apply Props.C13.error_classes in H. destruct e; cbn in *; try discriminate; exact I. Qed.
Goal forall rx t, call_errors_ok (stdlib_call rx t).
Proof. intros rx t f g args e H. apply cancel_shape_base. apply Props.C13.error_classes in H. destruct e; cbn in *; try discriminate; exact I. Qed.
