(* AUDIT scratch: which typical tree-sitter-graph statements do the fragment predicates of C02 / C08 admit?
   Match m: capture 0 (@id) = node 2, capture 1 (@st) = node 1, capture 2 (@sts, a `*` capture) = nodes 1 3 5, capture 3 = full match;
   stanza index = file index everywhere (the IDEAL case: see T_real16.v for what real dumps look like). *)
From Coq Require Import List.
From TSG Require Import Model.Run Model.Stdlib Proofs.SLExpr Proofs.StrictLazy Proofs.SL2Expr Proofs.SL2Stmt Proofs.SL2Whole
  Proofs.ScPermSim Proofs.ScThTy.
Import ListNotations.
Open Scope N_scope.

Definition l0 : loc := (0, 0).
Definition m : qmatch := [(0, [2]); (1, [1]); (2, [1; 3; 5]); (3, [1])].
Definition cid := ECapture [105;100] QOne 0 0 l0.
Definition cst := ECapture [115;116] QOne 1 1 l0.
Definition csts := ECapture [115;116;115] QStar 2 2 l0.
Definition v (c : N) := EUnscoped [c] l0.
Definition sc (e : expr) (c : N) := EScoped e [c] l0.         (* e.c *)
Definition src (e : expr) := ECall Lit.source_text [e].
Definition empty_file : file := {| f_globals := []; f_inherited := []; f_shorthands := []; f_stanzas := [] |}.
Definition sh_file : file :=
  {| f_globals := []; f_inherited := [];
     f_shorthands := [{| sh_name := [100]; sh_var := [120]; sh_vloc := l0; sh_attrs := [Attr [116] (v 120)]; sh_loc := l0 |}]; f_stanzas := [] |}.

(* function names allowed: C02: everything but `node` (stdlib_graph_pure_partial); C08: also not format / join (stdlib_call_ok_partial) *)
Definition ok2 (f : ident) : Prop := f <> Lit.node.
Definition ok8 (f : ident) : Prop := f <> Lit.node /\ f <> Lit.format /\ f <> Lit.join.
(* purity declaration of C02 v2: x (loop variable), s pure; r, p impure *)
Definition pv (x : ident) : bool := match x with [120] | [115] | [99] => true | _ => false end.
(* taint of C08 step 5: r, p tainted *)
Definition tn (x : ident) : bool := match x with [114] | [112] => true | _ => false end.

Ltac sf := repeat match goal with
 | |- _ /\ _ => split
 | |- True => exact I
 | |- _ = _ => reflexivity
 | |- _ <> _ => discriminate
 | |- _ -> _ => intro
 | H : _ = _ |- _ => discriminate H
 | |- _ \/ _ => (left; solve [sf]) || (right; solve [sf])
 end.
Ltac yes := cbn; unfold ok2, ok8; solve [sf].
Ltac no := cbn; unfold ok2, ok8; intuition (try discriminate; try congruence).

(* S1  node @id.ref *)
Definition S1 := SNode (VarS cid [114] l0) [] l0.
Goal fstmt2 ok2 pv m S1 /\ sstmt empty_file ok8 m S1 /\ tstmt empty_file ok8 tn m S1 /\ ~ fstmt ok2 m S1. Proof. split; [yes|]. split; [yes|]. split; [yes|no]. Qed.

(* S2  attr (@id.ref) name = (source-text @id) *)
Definition S2 := SAttrNode (sc cid 114) [Attr [110] (src cid)] l0.
Goal fstmt2 ok2 pv m S2 /\ sstmt empty_file ok8 m S2 /\ tstmt empty_file ok8 tn m S2.
Proof. split; [yes|]. split; yes. Qed.

(* S3  edge @id.ref -> @st.scope *)
Definition S3 := SEdge (sc cid 114) (sc cst 115) l0.
Goal fstmt2 ok2 pv m S3 /\ sstmt empty_file ok8 m S3.
Proof. split; yes. Qed.

(* S4  let p = @st.scope      (a scoped read kept in a local variable) *)
Definition S4 := SLet (VarU [112] l0) (sc cst 115) l0.
Goal fstmt2 ok2 pv m S4 /\ ~ sstmt empty_file ok8 m S4 /\ tstmt empty_file ok8 tn m S4.
Proof. split; [yes|]. split; [no|yes]. Qed.
(* ... but only under a name that is impure / tainted EVERYWHERE in the file: the same with the name x, which pv declares pure (it is used in an `if` elsewhere) *)
Goal ~ fstmt2 ok2 pv m (SLet (VarU [120] l0) (sc cst 115) l0). Proof. no. Qed.

(* S5  let @id.def = @st.scope   (one scoped variable defined from another) *)
Definition S5 := SLet (VarS cid [100] l0) (sc cst 115) l0.
Goal fstmt2 ok2 pv m S5 /\ ~ sstmt empty_file ok8 m S5 /\ tstmt empty_file ok8 tn m S5.
Proof. split; [yes|]. split; [no|yes]. Qed.

(* S6  for x in @sts { node x.elem }     (a definition whose scope is the loop variable, not a capture) *)
Definition S6 := SFor [120] l0 csts [SNode (VarS (v 120) [101] l0) [] l0] l0.
Goal fstmt2 ok2 pv m S6 /\ ~ sstmt empty_file ok8 m S6 /\ ~ tstmt empty_file ok8 tn m S6.
Proof. split; [yes|]. split; no. Qed.

(* S7  for x in @sts { edge @st.n -> x.elem }   (a READ whose scope is the loop variable) *)
Definition S7 := SFor [120] l0 csts [SEdge (sc cst 110) (sc (v 120) 101) l0] l0.
Goal fstmt2 ok2 pv m S7 /\ sstmt empty_file ok8 m S7.
Proof. split; yes. Qed.

(* S8  attr (@id.ref) label = (format "{}" (source-text @id))   (format: in C02, not in C08) *)
Definition S8 := SAttrNode (sc cid 114) [Attr [108] (ECall Lit.format [EStr [123;125]; src cid])] l0.
Goal fstmt2 ok2 pv m S8 /\ ~ sstmt empty_file ok8 m S8 /\ ~ tstmt empty_file ok8 tn m S8.
Proof. split; [yes|]. split; no. Qed.

(* S9  attr (@id.ref) t = (node-type @st.parent)   (a scoped read as an ARGUMENT of a call) *)
Definition S9 := SAttrNode (sc cid 114) [Attr [116] (ECall Lit.node_type [sc cst 112])] l0.
Goal fstmt2 ok2 pv m S9 /\ ~ sstmt empty_file ok8 m S9 /\ ~ tstmt empty_file ok8 tn m S9.
Proof. split; [yes|]. split; no. Qed.

(* S10 attr (@id.ref) peers = { @id.a, @st.b }   (set literal of scoped reads)  and  [ y.ref for y in @sts ] (comprehension element) *)
Definition S10 := SAttrNode (sc cid 114) [Attr [112] (ESet [sc cid 97; sc cst 98])] l0.
Definition S10' := SAttrNode (sc cid 114) [Attr [112] (EListComp (sc (v 121) 114) [121] l0 csts l0)] l0.
Goal fstmt2 ok2 pv m S10 /\ ~ sstmt empty_file ok8 m S10 /\ ~ tstmt empty_file ok8 tn m S10 /\
     fstmt2 ok2 pv m S10' /\ ~ sstmt empty_file ok8 m S10' /\ ~ tstmt empty_file ok8 tn m S10'.
Proof. split; [yes|]. split; [no|]. split; [no|]. split; [yes|]. split; no. Qed.

(* S11 attr (n) d = @id.name   where d is an attribute SHORTHAND: a scoped read as the value of a shorthand attribute *)
Definition S11 := SAttrNode (v 110) [Attr [100] (sc cid 110)] l0.
Goal fstmt2 ok2 pv m S11 /\ ~ sstmt sh_file ok8 m S11 /\ ~ tstmt sh_file ok8 tn m S11.
Proof. split; [yes|]. split; no. Qed.

(* S12 let n = (node)   /  attr ((node)) ..   : the `node` FUNCTION is in no fragment *)
Definition S12 := SLet (VarU [110] l0) (ECall Lit.node []) l0.
Goal ~ fstmt ok2 m S12 /\ ~ fstmt2 ok2 pv m S12 /\ ~ sstmt empty_file ok8 m S12.
Proof. split; [no|]. split; no. Qed.

(* S13 var c = 0 ... set c = (plus c 1) ; if (eq c 1) {..}    (a counter used in a condition: the CHECKER rejects the `if` — not typical; counters in attributes are fine) *)
Definition S13 := SSet (VarU [99] l0) (ECall Lit.plus [v 99; EInt 1]) l0.
Goal fstmt ok2 m S13 /\ fstmt2 ok2 pv m S13 /\ sstmt empty_file ok8 m S13. Proof. split; [yes|]. split; yes. Qed.

(* S14 scan (source-text @id) { "re" { attr (@id.ref) x = $0 } }   and  if some @id { attr (@st.elem) n = (source-text @id) } *)
Definition S14 := SScan (src cid) [(0, [SAttrNode (sc cid 114) [Attr [120] (ERegexCap 0)] l0], l0)] l0.
Definition S14' := SIf [([CSome cid l0], [SAttrNode (sc cst 101) [Attr [110] (src cid)] l0], l0)] l0.
Goal fstmt2 ok2 pv m S14 /\ sstmt empty_file ok8 m S14 /\ fstmt2 ok2 pv m S14' /\ sstmt empty_file ok8 m S14'.
Proof. split; [yes|]. split; [yes|]. split; yes. Qed.

(* S15 scan @id.text { .. }  /  for x in @st.children { .. }   — scoped reads in eager positions: rejected by the CHECKER too (not a restriction of the fragments) *)
