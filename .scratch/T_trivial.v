(* AUDIT scratch: Props theorems whose statement holds by definitional unfolding (reflexivity / exact H): they restate a definition. *)
From Coq Require Import List.
From TSG Require Model.Parser.
From TSG Require Import Model.Strict Model.Lazy Model.Scan Proofs.Extends Model.AstDisplay Proofs.Cancel.
Import ListNotations.
(* C10 regex_capture_lookup, first conjunct: the two functions are the same term *)
Goal regex_capture_strict = regex_capture_lazy. Proof. reflexivity. Qed.
(* C03 lazy_blocks_once_per_match *)
Goal forall {rx : Type} t fl cfg glob (regexes : list rx) find call fuel ms,
  lexec_file t fl cfg glob regexes find call fuel ms =
  (iterM (fun pm : N * qmatch => match nth_error (f_stanzas fl) (N.to_nat (fst pm)) with
            | Some st => lexec_stanza t fl cfg glob regexes find call fuel st (snd pm) | None => panic P_stanza_index end) ms ;;;
   evaluate_phase t fl call (fuel + default_eval_fuel)).
Proof. reflexivity. Qed.
(* C05parse fuel_is_linear *)
Goal forall text, Parser.fuel_of text = S (length text). Proof. reflexivity. Qed.
(* C09 new_nodes_after is the definition of graph_ext *)
Goal forall g g', graph_ext g g' = ((length g <= length g')%nat /\ forall i n, nth_error g i = Some n -> exists n', nth_error g' i = Some n' /\ gnode_ext n n').
Proof. reflexivity. Qed.
(* C11 polls: every `.._polls_each_..` theorem is `eexists. reflexivity.`, e.g. *)
Goal forall {rx : Type} t fl cfg glob (regexes : list rx) find call fuel le s,
  exists k, exec_stmt t fl cfg glob regexes find call (S fuel) le s = (poll L_exec_stmt ;;; k).
Proof. intros. eexists. reflexivity. Qed.
(* C20disp display_stmt_total, first conjunct: exists text, f x = text *)
Goal forall E s, exists text, display_stmt E s = text. Proof. intros. eexists. reflexivity. Qed.
(* C11 with_context_cancel, C20 with_context_keeps_innermost, C15 debug_location_text, C18 early_return_none: Proof. reflexivity. in the source *)
