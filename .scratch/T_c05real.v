(* AUDIT scratch: the hypotheses of strict_exec_no_panic / lazy_exec_no_panic (C05) on the REAL recorded case Real16: they hold
   (each uses the capture index of its own query), in contrast with the fragments of C02/C08 (T_real16.v). *)
From Coq Require Import List.
From TSG Require Import Model.Run Model.Stdlib Proofs.NoPanicStrict Proofs.NoPanicLazy.
Require Import Real16.
Import ListNotations.
Goal WellFormedFile (ri_rxs r16_run) (ri_file r16_run). Proof. vm_compute. reflexivity. Qed.
Goal GoodGlobals (syn_ok r16_tree) [] (ri_supplied r16_run). Proof. vm_compute. repeat constructor. Qed.
Goal GoodMatches (syn_ok r16_tree) (ri_file r16_run) (ri_smatches r16_run).
Proof. unfold GoodMatches. cbn [ri_file ri_smatches r16_run f_stanzas good_matches]. repeat split; repeat constructor; try discriminate; try reflexivity. Qed.
Goal GoodMatchesLazy (syn_ok r16_tree) (ri_file r16_run) (ri_lmatches r16_run).
Proof. unfold GoodMatchesLazy. cbn [ri_file ri_lmatches r16_run]. repeat constructor; try discriminate; try reflexivity; try (eexists; split; [reflexivity|]; repeat split; repeat constructor; try discriminate; try reflexivity). Qed.
