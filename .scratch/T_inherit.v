(* AUDIT scratch: the TYPICAL use of `inherit` — a scope defined on the module AND re-defined on nested nodes, read from below:
     inherit .scope
     (module) @x               { node @x.scope }
     (expression_statement) @x { node @x.scope }
     (identifier) @x           { node @x.ref  edge @x.ref -> @x.scope }
   All definitions precede all reads (the property's own side condition holds: "all defining stanzas precede all reading stanzas");
   file_ok2 holds; strict and lazy give the SAME graph; but inh_antichain (hypothesis of every scoped C02 theorem) is FALSE of the
   final strict store, and inh_static (failure direction) is false as well. *)
From Coq Require Import List.
From TSG Require Import Model.Run Model.Stdlib Proofs.K7 Proofs.SLExpr Proofs.StrictLazy Proofs.SL2Expr Proofs.SL2Stmt Proofs.SL2Whole Proofs.SLF2File.
Import ListNotations.
Open Scope N_scope.
Definition l0 : loc := (0, 0).
Definition cx := ECapture [120] QOne 0 0 l0.
Definition nsc : ident := [115].
Definition nref : ident := [114].
Definition fl : file :=
  {| f_globals := []; f_inherited := [nsc]; f_shorthands := [];
     f_stanzas := [
       {| st_stmts := [SNode (VarS cx nsc l0) [] l0]; st_full_stanza_idx := 1; st_full_file_idx := 1; st_start := l0 |};
       {| st_stmts := [SNode (VarS cx nsc l0) [] l0]; st_full_stanza_idx := 1; st_full_file_idx := 1; st_start := l0 |};
       {| st_stmts := [SNode (VarS cx nref l0) [] l0; SEdge (EScoped cx nref l0) (EScoped cx nsc l0) l0];
          st_full_stanza_idx := 1; st_full_file_idx := 1; st_start := l0 |} ] |}.
Definition mm (i : N) : qmatch := [(0, [i]); (1, [i])].
Definition ms : list (list qmatch) := [[mm 0]; [mm 1; mm 3; mm 5]; [mm 2; mm 4; mm 6]].
Definition okfn (f : ident) : Prop := False.

Lemma fl_ok : file_ok2 okfn (fun _ => false) fl (f_stanzas fl) ms.
Proof. cbn [file_ok2 fl f_stanzas ms]. repeat split; repeat constructor; unfold match_ok2; cbn; repeat split; try reflexivity; try discriminate; try (intros; discriminate); constructor. Qed.

Definition g_expected : graph :=
  [ new_gnode; new_gnode; new_gnode; new_gnode;
    {| g_attrs := []; g_edges := [(1, [])] |}; {| g_attrs := []; g_edges := [(2, [])] |}; {| g_attrs := []; g_edges := [(3, [])] |} ].
Lemma strict_ok : graph_of (run_strict k7_tree fl config0 [[]] None ([] : list regex) rx_captures (the_call k7_tree []) default_fuel ms []) = Ok g_expected.
Proof. vm_compute. reflexivity. Qed.
Lemma lazy_ok : lgraph_of (run_lazy k7_tree fl config0 [[]] None ([] : list regex) rx_captures (the_call k7_tree []) default_fuel (lmatches_of ms) []) = Ok g_expected.
Proof. vm_compute. reflexivity. Qed.

(* the side condition of strict_lazy_same_graph_scoped_partial fails on the final strict store *)
Lemma not_antichain : forall s p,
  run_strict k7_tree fl config0 [[]] None ([] : list regex) rx_captures (the_call k7_tree []) default_fuel ms [] = Ok (s, p) ->
  ~ inh_antichain k7_tree fl (s_scoped s).
Proof.
  intros s p H A. vm_compute in H. inversion H; subst s. clear H.
  apply (A nsc 1 0); [reflexivity|vm_compute; left; reflexivity|vm_compute; discriminate|vm_compute; discriminate].
Qed.

(* ... and the static condition of the failure-direction theorems fails too: D would have to contain the module (0) and its child (1) *)
From TSG Require Import Proofs.SLF2Store.
Lemma not_static : ~ inh_static k7_tree fl ms.
Proof.
  intros (D & Hsd & Hanti). cbn [file_sdef fl f_stanzas ms] in Hsd. destruct Hsd as (H0 & H1 & _).
  apply Forall_inv in H0. apply Forall_inv in H1. cbn [st_stmts All sdef inh_scope_ok] in H0, H1.
  destruct H0 as [H0 _]. destruct H1 as [H1 _].
  destruct (H0 eq_refl) as (nm & q & fi & si & l & E & HD0). inversion E; subst. 
  destruct (H1 eq_refl) as (nm' & q' & fi' & si' & l' & E' & HD1). inversion E'; subst.
  apply (Hanti nsc 1 0 eq_refl); [apply HD1; vm_compute; left; reflexivity|apply HD0; vm_compute; left; reflexivity|vm_compute; left; reflexivity].
Qed.
