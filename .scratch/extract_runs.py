#!/usr/bin/env python3
"""extract_runs.py <glob> <max> <module> : writes <module>.v with all_runs : list run_in (distinct run_in records, at most max)."""
import re,sys,glob
runs=[];seen=set()
for f in sorted(glob.glob(sys.argv[1])):
    s=open(f).read()
    for m in re.finditer(r'\{\| ri_lazy := .*?ri_lmatches := .*?\] \|\}', s, re.S):
        r=m.group(0)
        k=re.sub(r'ri_lazy := \w+','',r)
        if k in seen: continue
        seen.add(k); runs.append(r)
        if len(runs)>=int(sys.argv[2]): break
    if len(runs)>=int(sys.argv[2]): break
out=["From TSG Require Import Model.Run.","Open Scope N_scope."]
for i,r in enumerate(runs): out.append("Definition run_%d : run_in := %s."%(i,r))
out.append("Definition all_runs : list run_in := [%s]." % "; ".join("run_%d"%i for i in range(len(runs))))
open(sys.argv[3]+'.v','w').write("\n".join(out)+"\n")
print(len(runs))
