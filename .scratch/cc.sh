#!/bin/sh
cd /root/wt/c02failsc/coq && timeout ${2:-900} coqc -Q theories TSG -w -notation-overridden,-deprecated-hint-without-locality,-deprecated-instance-without-locality theories/$1 2>&1 | head -${3:-40}
