From Coq Require Import List Bool.
From TSG Require Import Model.Run Model.IdxBridge.
Require Import Mirror PairsC04a.
Import ListNotations.
Open Scope N_scope.
Definition cand (r : run_in) : bool :=
  let fl := ri_file r in
  Nat.ltb 1 (length (f_stanzas fl)) && has_scoped fl && b_pm_ok2 fl && b_file_ok2 (fun _ => false) fl &&
  match f_inherited fl with [] => true | _ => false end.
Definition oc (t : tree) (r : run_in) (b : bool) : N :=
  match run_one t config0 None (with_lazy r b) [] with Ok _ => 0 | Err e => 1000 + error_code (root_cause e) | Panic _ => 2 | OutOfFuel => 3 end.
Definition info (c : N * tree * run_in) := let '(n, t, r) := c in (n, oc t r false, oc t r true, length (f_stanzas (ri_file r)), length (ri_lmatches r), length (t_nodes t)).
Eval vm_compute in (map info (filter (fun c => cand (snd c)) all_cases)).
