#!/usr/bin/env python3
"""extract_files.py <glob of cases files> <max> <module name> : writes <module>.v with Definition fl_i : file for the first <max> distinct files that contain a scoped variable (VarS or EScoped)."""
import re,sys,glob
files=[];seen=set()
for f in sorted(glob.glob(sys.argv[1])):
    s=open(f).read()
    for m in re.finditer(r'\{\| f_globals.*?f_stanzas := .*?\] \|\}', s, re.S):
        fl=m.group(0)
        if fl in seen: continue
        seen.add(fl)
        if sys.argv[4]=='scoped' and not ('VarS' in fl or 'EScoped' in fl): continue
        files.append(fl)
        if len(files)>=int(sys.argv[2]): break
    if len(files)>=int(sys.argv[2]): break
out=["From TSG Require Import Model.Run.","Open Scope N_scope."]
for i,fl in enumerate(files): out.append("Definition fl_%d : file := %s."%(i,fl))
out.append("Definition all_files : list file := [%s]." % "; ".join("fl_%d"%i for i in range(len(files))))
open(sys.argv[3]+'.v','w').write("\n".join(out)+"\n")
print(len(files))
