(* AUDIT scratch: a REAL recorded case WITH scoped variables (C04 stream, cases_11.v case_1627; three stanzas:
     (module) @m                { node @m.scope  attr (@m.scope) kind = "module" }
     (.. @stmts* .. @d ..)      { node r  attr (r) k = @d.k  print @stmts }
     (..) @again                { let @again.k = 99 }
   G1 on the scoped fragments: file_ok2 (C02 v2), pm_ok2 and pm_ok3 (C08 steps 4, 5) are false of it for EVERY okfn / purev / taint, and the
   merged-query matches are not a permutation of the per-stanza matches. *)
From Coq Require Import Permutation List.
From TSG Require Import Model.Run Proofs.SLExpr Proofs.StrictLazy Proofs.SL2Expr Proofs.SL2Stmt Proofs.SL2Whole Proofs.ScPermSim Proofs.ScPermSwap Proofs.ScPermExec
  Proofs.ScThTy Proofs.ScThSwap Proofs.ScThExec.
Require Import Real4.
Import ListNotations.
Open Scope N_scope.

Eval vm_compute in (both_detail r4_tree r4_run).

Goal ~ Permutation (lmatches_of (ri_smatches r4_run)) (ri_lmatches r4_run).
Proof.
  intros H. assert (I : In (2, [(0, [1]); (1, [1])]) (ri_lmatches r4_run)).
  { eapply Permutation_in; [exact H|]. vm_compute. right. right. left. reflexivity. }
  vm_compute in I. repeat (destruct I as [I|I]; [discriminate I|]). exact I.
Qed.

Goal forall okfn purev, ~ file_ok2 okfn purev (ri_file r4_run) (f_stanzas (ri_file r4_run)) (ri_smatches r4_run).
Proof.
  intros okfn purev H. cbn [file_ok2 ri_file r4_run f_stanzas ri_smatches] in H.
  destruct H as (_ & H & _). apply Forall_inv in H. destruct H as (Hs & _).
  cbn [All st_stmts fstmt2 fattr2 fexpr2] in Hs. destruct Hs as (_ & (_ & (_ & X) & _) & _).
  vm_compute in X. discriminate X.
Qed.

Goal forall okfn, ~ Forall (pm_ok2 (ri_file r4_run) okfn) (ri_lmatches r4_run).
Proof.
  intros okfn H. apply Forall_inv_tail in H. apply Forall_inv in H. specialize (H _ eq_refl). destruct H as (Hs & _).
  cbn [All st_stmts sstmt svar snd] in Hs. destruct Hs as (((_ & X) & _) & _). cbn [fexpr] in X. vm_compute in X. discriminate X.
Qed.

Goal forall okfn tnt, ~ Forall (pm_ok3 (ri_file r4_run) okfn tnt) (ri_lmatches r4_run).
Proof.
  intros okfn tnt H. apply Forall_inv_tail in H. apply Forall_inv_tail in H. apply Forall_inv in H. specialize (H _ eq_refl). destruct H as (Hs & _).
  cbn [All st_stmts tstmt snd] in Hs. destruct Hs as (_ & _ & Hp & _). cbn [All texpr lexpr] in Hp. destruct Hp as ([X|[]] & _).
  vm_compute in X. discriminate X.
Qed.
