(* AUDIT scratch: a TYPICAL two-stanza rules file with IDEAL capture indices (stanza index = file index), tree "p\nq\nr\n":
     (expression_statement (identifier)? @id) @st {                       ; stanza 0
        node @st.scope   attr (@st.scope) kind = "stmt"
        if some @id { attr (@st.scope) name = (source-text @id)
                      scan (source-text @id) { "p" { attr (@st.scope) p = $0 } } } }
     (module (expression_statement)* @sts) @m {                           ; stanza 1
        node @m.scope   for s in @sts { edge s.scope -> @m.scope } }
   It IS inside the intersection fragment (file_ok_any2 = file_ok2 /\ pm_ok2), the C05 hypotheses hold, and
   strict_lazy_iso_any_order_scoped_partial applies to every order of the four blocks: the fragments are not vacuous for such rules —
   provided the indices coincide (G1) and there is no format/join/(node), no definition scoped on a loop variable, no nested `inherit`. *)
From Coq Require Import List Permutation.
From TSG Require Import Model.Run Model.Stdlib Proofs.K7 Proofs.SLExpr Proofs.StrictLazy Proofs.SL2Expr Proofs.SL2Stmt Proofs.SL2Whole
  Proofs.BlockPermRen Proofs.BlockPermGraph Proofs.BlockPermStd Proofs.ScPermSim Proofs.ScPermSwap Proofs.ScPermExec Proofs.SLAny Proofs.NoPanicStrict Proofs.NoPanicLazy.
From TSG Require Props.C02.
Import ListNotations.
Open Scope N_scope.
Definition l0 : loc := (0, 0).
Definition cid := ECapture [105;100] QOpt 0 0 l0.
Definition cst := ECapture [115;116] QOne 1 1 l0.
Definition csts := ECapture [115;116;115] QStar 0 0 l0.
Definition cm := ECapture [109] QOne 1 1 l0.
Definition nsc : ident := [115;99].
Definition src (e : expr) := ECall Lit.source_text [e].
Definition fl : file :=
  {| f_globals := []; f_inherited := []; f_shorthands := [];
     f_stanzas := [
       {| st_stmts := [ SNode (VarS cst nsc l0) [] l0;
                        SAttrNode (EScoped cst nsc l0) [Attr [107] (EStr [115])] l0;
                        SIf [([CSome cid l0],
                              [SAttrNode (EScoped cst nsc l0) [Attr [110] (src cid)] l0;
                               SScan (src cid) [(0, [SAttrNode (EScoped cst nsc l0) [Attr [112] (ERegexCap 0)] l0], l0)] l0], l0)] l0 ];
          st_full_stanza_idx := 2; st_full_file_idx := 2; st_start := l0 |};
       {| st_stmts := [ SNode (VarS cm nsc l0) [] l0;
                        SFor [115] l0 csts [SEdge (EScoped (EUnscoped [115] l0) nsc l0) (EScoped cm nsc l0) l0] l0 ];
          st_full_stanza_idx := 2; st_full_file_idx := 2; st_start := l0 |} ] |}.
Definition mB (s i : N) : qmatch := [(0, [i]); (1, [s]); (2, [s])].
Definition mA : qmatch := [(0, [1; 3; 5]); (1, [0]); (2, [0])].
Definition ms : list (list qmatch) := [[mB 1 2; mB 3 4; mB 5 6]; [mA]].
Definition rxs : list regex := [RChr 112].
Definition call := the_call k7_tree [].
Definition okfn (f : ident) : Prop := f = Lit.source_text.
Definition pv (x : ident) : bool := true.       (* the loop variable s is pure *)

Lemma okfn_call_ok : forall f, okfn f -> call_ok call f.
Proof. intros f ->. apply stdlib_call_ok. intros fn E. vm_compute in E. inversion E; subst fn. exact I. Qed.

Ltac sf := repeat match goal with
 | |- _ /\ _ => split
 | |- True => exact I
 | |- _ = _ => reflexivity
 | |- _ <> _ => discriminate
 | |- _ -> _ => intro
 | |- _ \/ _ => (left; solve [sf]) || (right; solve [sf])
 end.
Lemma fl_any : file_ok_any2 okfn pv fl (f_stanzas fl) ms.
Proof.
  cbn [file_ok_any2 fl f_stanzas ms]. split; [|split; [|exact I]]; repeat (apply Forall_cons; [split|]); try apply Forall_nil;
    unfold match_ok2, block_ok2, okfn; cbn; solve [sf | repeat split; try apply Forall_nil; sf].
Qed.

(* both runs succeed; strict order *)
Lemma strict_run : exists s p, run_strict k7_tree fl config0 [[]] None rxs rx_captures call default_fuel ms [] = Ok (s, p) /\ length (s_graph s) = 4%nat.
Proof. do 2 eexists. split; [vm_compute; reflexivity|reflexivity]. Qed.
(* a "merged query" order: the module block FIRST (its `for` reads s.scope before any stanza-0 block defined it) *)
Definition ms' : list (N * qmatch) := [(1, mA); (0, mB 5 6); (0, mB 1 2); (0, mB 3 4)].
Lemma perm : Permutation (lmatches_of ms) ms'.
Proof. change (lmatches_of ms) with [(0, mB 1 2); (0, mB 3 4); (0, mB 5 6); (1, mA)]. unfold ms'.
  apply Permutation_sym.
  eapply Permutation_trans; [apply (Permutation_cons_append [(0, mB 5 6); (0, mB 1 2); (0, mB 3 4)] (1, mA))|]. cbn [app].
  change [(0, mB 5 6); (0, mB 1 2); (0, mB 3 4); (1, mA)] with ([(0, mB 5 6); (0, mB 1 2); (0, mB 3 4)] ++ [(1, mA)]).
  change [(0, mB 1 2); (0, mB 3 4); (0, mB 5 6); (1, mA)] with ([(0, mB 1 2); (0, mB 3 4); (0, mB 5 6)] ++ [(1, mA)]).
  apply Permutation_app_tail. apply (Permutation_cons_append [(0, mB 1 2); (0, mB 3 4)] (0, mB 5 6)).
Qed.
Goal exists r r', (forall i, r' (r i) = i) /\ (forall i, r (r' i) = i) /\
  exists lfuel0, forall lfuel, (lfuel0 <= lfuel)%nat -> exists ls pl s p,
    run_strict k7_tree fl config0 [[]] None rxs rx_captures call default_fuel ms [] = Ok (s, p) /\
    run_lazy k7_tree fl config0 [[]] None rxs rx_captures call lfuel ms' [] = Ok (ls, pl) /\ graph_iso r (s_graph s) (l_graph ls).
Proof.
  destruct strict_run as (s & p & Hs & _).
  destruct (Props.C02.file_ok_any2_intersection_partial okfn pv fl ms fl_any) as [H2 Hp].
  destruct (Props.C02.strict_lazy_iso_any_order_scoped_partial regex k7_tree fl [[]] rxs rx_captures call okfn okfn_call_ok [] (Forall_nil _)
              (fun glob H name v Hg => ltac:(vm_compute in H; inversion H; subst; discriminate Hg)) pv default_fuel ms s p ms' H2 Hp Hs
              (Props.C02.inh_antichain_nil_partial k7_tree fl (s_scoped s) eq_refl) perm) as (r & r' & A & B & _ & F0 & HF).
  exists r, r'. split; [exact A|]. split; [exact B|]. exists F0. intros lfuel Hl. destruct (HF lfuel Hl) as (ls & pl & Hr & Hi).
  exists ls, pl, s, p. auto.
Qed.
(* C05 hypotheses *)
Goal WellFormedFile rxs fl /\ GoodMatches (syn_ok k7_tree) fl ms /\ GoodMatchesLazy (syn_ok k7_tree) fl ms'.
Proof.
  split; [vm_compute; reflexivity|]. split.
  - unfold GoodMatches. cbn [fl ms f_stanzas good_matches]. repeat split; repeat constructor; try discriminate; try reflexivity.
  - unfold GoodMatchesLazy, ms'. repeat constructor; try discriminate; try reflexivity; try (eexists; split; [reflexivity|]; repeat split; repeat constructor; try discriminate; try reflexivity).
Qed.
