(* AUDIT scratch: statistics of the fragments on REAL generated files (read from /verif/.work, streams C04 = files with scoped variables,
   C01 = whole grammar), using the boolean mirrors of Mirror.v.  First: the mirrors agree with the Prop predicates on the statements of T_frag.v. *)
From Coq Require Import List Bool String.
From TSG Require Import Model.Run Model.Stdlib Model.Locality.
Require Import Mirror T_frag RealC04 RealC01.
Import ListNotations.

(* validation of the mirrors: same verdicts as proved in T_frag.v (1 = in fragment) *)
Goal map (b_fstmt2 pv) [S1;S2;S3;S4;S5;S6;S7;S8;S9;S10;S10';S11;S12;S13;S14;S14'] =
     [true;true;true;true;true;true;true;true;true;true;true;true;false;true;true;true]. Proof. vm_compute. reflexivity. Qed.
Goal map (b_sstmt empty_file) [S1;S2;S3;S4;S5;S6;S7;S8;S9;S10;S10';S12;S13;S14;S14'] =
     [true;true;true;false;false;false;true;false;false;false;false;false;true;true;true] /\ b_sstmt sh_file S11 = false. Proof. vm_compute. split; reflexivity. Qed.
Goal map (b_tstmt tn empty_file) [S1;S2;S4;S5;S6;S8;S9;S10;S10'] = [true;true;true;true;false;false;false;false;false] /\ b_tstmt tn sh_file S11 = false.
Proof. vm_compute. split; reflexivity. Qed.
Goal b_fstmt okf2 S1 = false /\ b_fstmt okf2 S13 = true /\ b_fstmt okf2 S12 = false. Proof. vm_compute. repeat split. Qed.

Local Open Scope string_scope.
Definition stats (l : list file) :=
  (length l, ("has scoped vars", count has_scoped l),
   ("v1 file_ok", count b_file_ok l), ("C08 pm_ok", count b_pm_ok l),
   ("v2 file_ok2 (some purev)", count ex_file_ok2 l), ("pv_file (some purev)", count ex_pv_file l), ("v2 via checker (pv_file && file_ok2)", count ex_checked_ok2 l),
   ("C08 pm_ok2", count b_pm_ok2 l), ("C08 pm_ok3 (some taint)", count ex_pm_ok3 l),
   ("C02xC08 any-order scoped: file_ok2 && pm_ok2", count (fun f => ex_file_ok2 f && b_pm_ok2 f) l),
   ("max binders", fold_right Nat.max 0%nat (map (fun f => length (f_binders f)) l))).
Eval vm_compute in ("C04 stream (scoped files)", stats RealC04.all_files).
Definition small (f : file) : bool := Nat.leb (length (f_binders f)) 11.
Eval vm_compute in ("C01 stream, files with <= 11 binder names", stats (filter small RealC01.all_files)).
Eval vm_compute in ("C01 stream, <= 11 binder names AND scoped vars", stats (filter (fun f => small f && has_scoped f) RealC01.all_files)).
(* match-independent, name-independent parts on ALL 150 files of the C01 stream *)
Eval vm_compute in ("C01 stream, all", length RealC01.all_files, ("has scoped vars", count has_scoped RealC01.all_files),
  ("v1 file_ok", count b_file_ok RealC01.all_files), ("C08 pm_ok", count b_pm_ok RealC01.all_files), ("C08 pm_ok2", count b_pm_ok2 RealC01.all_files)).
