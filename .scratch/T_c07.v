(* AUDIT scratch (C07): parse_render_stmt returns `sloc tbl L p k st`, a function of the SPEC.  No Props theorem says that sloc changes
   locations only.  Sanity check by evaluation on the example of Props/C07.v: it does there, EXCEPT for the text of a `node` statement
   (SNode v vtext): sloc sets vtext to the variable's source text whatever the AST said. *)
From Coq Require Import List.
From TSG Require Import Model.Parser Spec.Render Proofs.AstDisplay Props.C07.
Import ListNotations.
Open Scope N_scope.
Goal stmt_erase (sloc [[97; 43]] ex_layout (0, 0) 0 ex_stmt) = stmt_erase ex_stmt.
Proof. vm_compute. Fail reflexivity. Abort.
Goal True. let x := eval vm_compute in (stmt_erase (sloc [[97; 43]] ex_layout (0, 0) 0 (SNode (VarU [110] (0, 0)) [] (0, 0)))) in idtac x. exact I. Qed.
