#!/usr/bin/env python3
"""extract_pairs.py <cases_file.v> <module> : writes <module>.v with pc_<name>_tree / pc_<name>_run for every both_verdict case and all_cases : list (N * tree * run_in)."""
import re,sys
s=open(sys.argv[1]).read()
out=["From TSG Require Import Model.Run.","Open Scope N_scope."]
names=[]
for m in re.finditer(r'Definition case_(\d+) : N := both_verdict \((.*?)\) \((\{\| ri_lazy.*?\|\})\) \((.*?)\)\.\nEval', s, re.S):
    n=m.group(1)
    out.append("Definition pc_%s_tree : tree := %s."%(n,m.group(2)))
    out.append("Definition pc_%s_run : run_in := %s."%(n,m.group(3)))
    names.append(n)
out.append("Definition all_cases : list (N * tree * run_in) := [%s]." % "; ".join("(%s, pc_%s_tree, pc_%s_run)"%(n,n,n) for n in names))
open(sys.argv[2]+'.v','w').write("\n".join(out)+"\n")
print(len(names))
