#!/usr/bin/env python3
"""extract_pairs20.py <glob> <module> <max>: (tree, run_in) pairs of c20_verdict cases -> all_cases : list (N * tree * run_in)."""
import re,sys,glob
out=["From TSG Require Import Model.Run.","Open Scope N_scope."]
names=[];k=0;seen=set()
for f in sorted(glob.glob(sys.argv[1])):
    s=open(f).read()
    for m in re.finditer(r'Definition case_(\d+) : N := c20_verdict \((.*?)\) \((\{\| ri_lazy.*?ri_lmatches := .*?\] \|\})\)', s, re.S):
        key=re.sub(r'ri_lazy := \w+','',m.group(3))
        if key in seen: continue
        seen.add(key)
        n=str(k);k+=1
        out.append("Definition pc_%s_tree : tree := %s."%(n,m.group(2)))
        out.append("Definition pc_%s_run : run_in := %s."%(n,m.group(3)))
        names.append(n)
        if k>=int(sys.argv[3]): break
    if k>=int(sys.argv[3]): break
out.append("Definition all_cases : list (N * tree * run_in) := [%s]." % "; ".join("(%s, pc_%s_tree, pc_%s_run)"%(n,n,n) for n in names))
open(sys.argv[2]+'.v','w').write("\n".join(out)+"\n")
print(len(names))
