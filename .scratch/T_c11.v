(* AUDIT scratch (C11): Props/C11.v has no Example; instantiate the hypotheses on a concrete run (program of c15_neutral_nonvacuous, stdlib). *)
From Coq Require Import List.
From TSG Require Import Model.Strict Model.Lazy Model.Stdlib Proofs.Cancel Proofs.StrictMeta.
From TSG Require Props.C11 Props.C13.
Import ListNotations.
Open Scope N_scope.
Definition x := [120]. Definition y := [121]. Definition k := [107].
Definition st := {| st_stmts := [SNode (VarU x (1, 2)) x (1, 0); SNode (VarU y (2, 2)) y (2, 0);
                            SEdge (EUnscoped x (3, 0)) (EUnscoped y (3, 0)) (3, 0);
                            SAttrNode (EUnscoped x (4, 0)) [Attr k (EInt 7)] (4, 0)];
               st_full_stanza_idx := 0; st_full_file_idx := 0; st_start := (0, 0) |}.
Definition fl := {| f_globals := []; f_inherited := []; f_shorthands := []; f_stanzas := [st] |}.
Definition t := {| t_src := []; t_nodes := [] |}.
Definition call := stdlib_call (fun _ _ _ => None) t.
Lemma call_ok : call_errors_ok call.
Proof. intros f g args e H. apply cancel_shape_base. apply Props.C13.error_classes in H. destruct e; cbn in *; try discriminate; exact I. Qed.
Goal exists s p, run_strict t fl config0 [[]] None (@nil unit) (fun _ _ => None) call 50 [[[(0, [0])]]] [] = Ok (s, p) /\ p_count p = 5 /\
  (forall kk, 1 <= kk <= 5 -> exists l, run_strict t fl config0 [[]] (Some kk) (@nil unit) (fun _ _ => None) call 50 [[[(0, [0])]]] [] = Err (ECancelled l)) /\
  run_strict t fl config0 [[]] (Some 3) (@nil unit) (fun _ _ => None) call 50 [[[(0, [0])]]] [] = Err (ECancelled L_exec_stmt).
Proof.
  eexists. eexists. split; [vm_compute; reflexivity|]. split; [reflexivity|]. split.
  - intros kk Hk. eapply (@Props.C11.strict_cancel_at_k unit t fl config0 [[]] [] (fun _ _ => None) call call_ok 50 [[[(0, [0])]]] []); [vm_compute; reflexivity|exact Hk].
  - vm_compute. reflexivity.
Qed.
