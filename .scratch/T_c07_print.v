From Coq Require Import List.
From TSG Require Import Model.Parser Spec.Render Proofs.AstDisplay Props.C07.
Import ListNotations.
Open Scope N_scope.
Eval vm_compute in (stmt_erase (sloc [[97; 43]] ex_layout (0, 0) 0 ex_stmt)).
Eval vm_compute in (stmt_erase ex_stmt).
