From TSG Require Import Proofs.SLF2File.
Print Assumptions strict_fail_lazy_fail_scoped_lemma.
Print Assumptions strict_fail_lazy_err_scoped_lemma.
Print Assumptions inh_static_nil.
