From TSG Require Import Proofs.SLF2Store Proofs.SLF2Jok.
Set Printing Width 300.
Check K_J. Check J_K. Check n_push_args. Check evJ. Check n_sweep_step. Check J_same. Check storeK_forcing. Check jk_eval_as_gnode. Check jk_eval_lstmt. Check jk_sweep_step. Check sweep_step. Check jk_force_thunk. Check cellK. Check bad_scope. Check J_set_cell. Check jk_lexec_stmt. Check jk_lexec_stanza.
