From TSG Require Import Proofs.SL2Stmt Proofs.SLF2Expr.
Set Printing Width 250.
About rel_step2. About endpoint_sim2. About attrs_all_sim2. About print_arg_sim2. About arg_ok2. About arg_ok2_mono. About trav_fail2. About pfr2_lexec_attr. About pfr2_leval. About unscoped_add_fail2. About epost2_K. About K_step0. About wstatic_ext0. About Renv2_static.
