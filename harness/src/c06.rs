//! C06 — the static checker (checker.rs) vs Model/Checker.v.
//! Stream "C06": (a) valid programs from `gen::gen_program` under several option mixes and (b) the
//! SINGLE-FAULT stream: a valid generated program with exactly one rule violation from the catalogue
//! injected at a random eligible position and nesting depth.  Every case is parsed with the real
//! `File::parse` (files that do not parse are skipped), the UNCHECKED AST, the capture tables of the real
//! tree-sitter queries and the regex crate's `captures("")` bits are written as Coq terms, the real
//! `File::check` runs under catch_unwind, and its outcome (variant, location, names / the checked AST)
//! is compared with `check_file` by `c06_verdict`.
use crate::common::*;
use crate::dump::*;
use crate::exec::quiet_panics;
use crate::gen::*;
use crate::rng::Rng;
use serde_json::json;
use std::panic::{catch_unwind, AssertUnwindSafe};
use tree_sitter_graph::ast;
use tree_sitter_graph::ast::File;

// ---------------------------------------------------------------- implementation side

pub const VARIANTS: [&str; 13] = ["CannotHideGlobalVariable", "CannotSetGlobalVariable", "DuplicateGlobalVariable",
    "ExpectedListValue", "ExpectedLocalValue", "ExpectedOptionalValue", "NullableRegex", "UndefinedSyntaxCapture",
    "UndefinedVariable", "UnusedCaptures", "Variable:VariableAlreadyDefined", "Variable:UndefinedVariable",
    "Variable:CannotAssignImmutableVariable"];

/// (variant code of Model/Checker.v `ce_variant`, (row, column), text of UnusedCaptures) from `{:?}`
pub fn parse_check_error(dbg: &str) -> (u32, (usize, usize), String) {
    let head: String = dbg.chars().take_while(|c| c.is_alphanumeric()).collect();
    let name = if head == "Variable" {
        let inner: String = dbg["Variable(".len()..].chars().take_while(|c| c.is_alphanumeric()).collect();
        format!("Variable:{}", inner)
    } else { head };
    let code = VARIANTS.iter().position(|v| *v == name).map(|i| i as u32 + 1).unwrap_or(0);
    let mut loc = (usize::MAX, usize::MAX);
    if let Some(p) = dbg.rfind("Location { row: ") {
        let rest = &dbg[p + "Location { row: ".len()..];
        let row: String = rest.chars().take_while(|c| c.is_ascii_digit()).collect();
        if let Some(q) = rest.find("column: ") {
            let col: String = rest[q + "column: ".len()..].chars().take_while(|c| c.is_ascii_digit()).collect();
            loc = (row.parse().unwrap_or(usize::MAX), col.parse().unwrap_or(usize::MAX));
        }
    }
    let mut names = String::new();
    if code == 10 {
        if let (Some(a), Some(b)) = (dbg.find("(\""), dbg.rfind("\", Location")) { if a + 2 <= b { names = dbg[a + 2..b].to_string(); } }
    }
    (code, loc, names)
}

/// `arm.regex.captures("").is_some()` per scan arm, in the order in which `AstDump` numbers the arms
fn nullable_bits(stmts: &[ast::Statement], out: &mut Vec<bool>) {
    for s in stmts {
        match s {
            ast::Statement::Scan(d) => for a in &d.arms { out.push(a.regex.captures("").is_some()); nullable_bits(&a.statements, out); },
            ast::Statement::If(d) => for a in &d.arms { nullable_bits(&a.statements, out); },
            ast::Statement::ForIn(d) => nullable_bits(&d.statements, out),
            _ => {}
        }
    }
}

fn tables_term(f: &File) -> String {
    let fq = f.query.as_ref().expect("file query after parse");
    let names = |ns: &[&str]| coq_list(&ns.iter().map(|n| coq_str(n)).collect::<Vec<_>>());
    let stanza_names: Vec<String> = f.stanzas.iter().map(|s| names(s.query.capture_names())).collect();
    let rows: Vec<String> = (0..f.stanzas.len().min(fq.pattern_count())).map(|i|
        coq_list(&fq.capture_quantifiers(i).iter().map(|q| quant(*q).to_string()).collect::<Vec<_>>())).collect();
    let mut bits = Vec::new();
    for s in &f.stanzas { nullable_bits(&s.statements, &mut bits); }
    format!("{{| qt_stanza_names := {}; qt_file_names := {}; qt_file_quants := {}; qt_nullable := {} |}}",
        coq_list(&stanza_names), names(fq.capture_names()), coq_list(&rows),
        coq_list(&bits.iter().map(|b| coq_bool(*b).to_string()).collect::<Vec<_>>()))
}

#[derive(Clone, Debug)]
pub struct Spec { pub dsl: String, pub rule: String, pub depth: usize, pub ctx: Vec<String>, pub fault: bool }

/// None: the text does not parse (not C06's concern)
pub fn make_case(spec: &Spec) -> Option<Case> {
    let mut f = File::new(tree_sitter_python::LANGUAGE.into());
    #[allow(deprecated)]
    let parsed = catch_unwind(AssertUnwindSafe(|| f.parse(&spec.dsl)));
    match parsed { Ok(Ok(())) => {}, _ => return None }
    let unchecked = AstDump::new().file(&f);
    let tables = tables_term(&f);
    let nstanzas = f.stanzas.len();
    // assumption A1 / `tables_consistent` of Model/Checker.v, validated on every case
    let consistent = {
        let fq = f.query.as_ref().expect("file query after parse");
        fq.pattern_count() == nstanzas
            && (0..nstanzas).all(|i| fq.capture_quantifiers(i).len() == fq.capture_names().len())
            && f.stanzas.iter().all(|s| s.query.capture_names().iter().all(|n| fq.capture_index_for_name(n).is_some()))
            && (nstanzas == 0 || fq.capture_index_for_name("__tsg__full_match").is_some())
    };
    // the check error is also RENDERED, plain and pretty (C05: rendering returns text): a panic there is a panic of the case
    let dsl_text = spec.dsl.clone();
    let r = catch_unwind(AssertUnwindSafe(|| f.check().map_err(|e| {
        let _ = format!("{}", e);
        let _ = format!("{}", e.display_pretty(std::path::Path::new("rules.tsg"), &dsl_text));
        format!("{:?}", e)
    })));
    let (obs, outcome, impl_txt) = match r {
        Ok(Ok(())) => (format!("(CObsOk ({}))", AstDump::new().file(&f)), "Ok".to_string(), "Ok".to_string()),
        Ok(Err(dbg)) => {
            let (code, loc, names) = parse_check_error(&dbg);
            (format!("(CObsErr {} ({}, {}) {})", code, loc.0, loc.1, coq_str(&names)),
             VARIANTS.get((code as usize).wrapping_sub(1)).unwrap_or(&"?").to_string(), dbg)
        }
        Err(_) => ("CObsPanic".to_string(), "PANIC".to_string(), "PANIC".to_string()),
    };
    let args = format!("({}) ({})", tables, unchecked);
    let mut tags = vec![format!("rule:{}", spec.rule), format!("depth:{}", spec.depth), format!("outcome:{}", outcome),
                        format!("stanzas:{}", nstanzas.min(6)), format!("rule->outcome:{}->{}", spec.rule.split(':').next().unwrap_or(""), outcome)];
    for c in &spec.ctx { tags.push(format!("in:{}", c)); }
    tags.push(format!("tables:{}", if consistent { "consistent" } else { "INCONSISTENT" }));
    Some(Case {
        verdict: format!("c06_verdict {} {}", args, obs),
        detail: format!("c06_detail {}", args),
        replay: json!({"prop": "C06", "dsl": spec.dsl, "rule": spec.rule, "depth": spec.depth, "ctx": spec.ctx, "fault": spec.fault, "impl": impl_txt}),
        nontrivial: (spec.fault && spec.depth >= 1) || (!spec.fault && nstanzas >= 3),
        key: fnv(&spec.dsl),
        tags,
    })
}

// ---------------------------------------------------------------- positions in a generated stanza

#[derive(Clone, Debug)]
struct Pos { line: usize, ind: usize, stack: Vec<&'static str> }

fn block_depth(stack: &[&'static str]) -> usize { stack.iter().filter(|k| **k != "scan").count() }

/// insertion points of one stanza text (`QUERY {\n  stmt\n ... }\n`): before every statement line and at
/// the end of every statement block, with the stack of enclosing blocks (if / for / scan / arm)
fn positions(lines: &[String]) -> Vec<Pos> {
    let mut out = Vec::new();
    let mut stack: Vec<&'static str> = Vec::new();
    for (k, line) in lines.iter().enumerate().skip(1) {
        let t = line.trim_start();
        if t.is_empty() { continue; }
        let ind = (line.len() - t.len()) / 2;
        if t.starts_with('}') {
            if stack.last() != Some(&"scan") { out.push(Pos { line: k, ind: ind + 1, stack: stack.clone() }); }
            if stack.is_empty() { break; }          // the stanza's closing brace
            stack.pop();
            if t.ends_with('{') { stack.push("if"); }
        } else if t.starts_with('"') && t.ends_with('{') {
            stack.push("arm");
        } else {
            out.push(Pos { line: k, ind, stack: stack.clone() });
            if t.ends_with('{') {
                stack.push(if t.starts_with("if ") { "if" } else if t.starts_with("for ") { "for" } else { "scan" });
            }
        }
    }
    out
}

fn indent(lines: &[String], ind: usize) -> Vec<String> {
    let pad = "  ".repeat(ind);
    lines.iter().map(|l| format!("{}{}", pad, l)).collect()
}
fn sv(xs: &[&str]) -> Vec<String> { xs.iter().map(|x| x.to_string()).collect() }
fn nest(lines: Vec<String>) -> Vec<String> { indent(&lines, 1) }

/// wrap statements into one more block; returns the kind
fn wrap(rng: &mut Rng, k: usize, body: Vec<String>) -> (Vec<String>, &'static str) {
    match rng.below(5) {
        0 => { let mut v = sv(&["if #true {"]); v.extend(nest(body)); v.push("}".into()); (v, "if") }
        1 => { let mut v = sv(&["if #false {", "  print 0", "} else {"]); v.extend(nest(body)); v.push("}".into()); (v, "if") }
        2 => { let mut v = sv(&["if #false {", "  print 0", "} elif #true {"]); v.extend(nest(body)); v.push("}".into()); (v, "if") }
        3 => { let mut v = vec![format!("for zw{} in [1, 2] {{", k)]; v.extend(nest(body)); v.push("}".into()); (v, "for") }
        _ => { let mut v = sv(&["scan \"xy\" {", "  \"x\" {"]); v.extend(nest(nest(body))); v.push("  }".into()); v.push("}".into()); (v, "arm") }
    }
}

fn stanza_caps(query_line: &str) -> Vec<(String, K)> {
    let q = query_line.trim_end().trim_end_matches('{').trim_end();
    for t in TMPLS { if t.query == q { return t.caps.iter().map(|c| (c.0.to_string(), c.1)).collect(); } }
    Vec::new()
}

/// an expression context around a faulty expression `e`
fn ectx(rng: &mut Rng, e: &str, ctx: &mut Vec<String>) -> String {
    let mut cur = e.to_string();
    let n = rng.below(3);
    for i in 0..n {
        cur = match rng.below(11) {
            // AFTER a non-local sibling (a scoped read): later call parameters / list elements are checked all the same
            8 => format!("(format \"{{}}{{}}\" [1].zw {})", cur),
            9 => format!("[[1].zw, {}]", cur),
            10 => format!("(plus [1].zw 2 {})", cur),
            0 => format!("[1, {}]", cur),
            1 => format!("{{{}}}", cur),
            2 => format!("(plus {} 1)", cur),
            3 => format!("{}.zf", cur),
            4 => { ctx.push("comp".into()); format!("[ {} for zc{} in [1] ]", cur, i) }
            5 => { ctx.push("comp".into()); format!("{{ zc{} for zc{} in [{}] }}", i, i, cur) }
            6 => format!("[{}, #true]", cur),
            _ => format!("(format \"{{}}\" {})", cur),
        };
    }
    cur
}

/// a statement (or two) that contains expression `e` once
fn carrier(rng: &mut Rng, e: &str, cap: Option<&str>) -> Vec<String> {
    match rng.below(12) {
        0 => vec![format!("print {}", e)],
        1 => vec![format!("print \"p\", {}, 2", e)],
        2 => vec![format!("let zq = {}", e)],
        3 => vec![format!("var zq = {}", e)],
        4 => vec!["node zn".into(), format!("attr (zn) zk = {}", e)],
        5 => vec!["node zn".into(), format!("attr (zn -> zn) zk = 1, zj = {}", e)],
        6 => vec!["node zn".into(), format!("edge zn -> {}", e)],
        7 => vec!["var zq = 0".into(), format!("set zq = {}", e)],
        8 => vec![format!("if {} {{", e), "  print 1".into(), "}".into()],
        9 => vec![format!("for zq in [{}] {{", e), "  print zq".into(), "}".into()],
        10 => match cap { Some(c) => vec![format!("let @{}.zs = {}", c, e)], None => vec![format!("print {}", e)] },
        _ => vec![format!("node {}.zs", e)],
    }
}

const NULLABLE_POOL: &[&str] = &["a*", "", "(a|)", "x?", "^", "$", "(ab)*", "a*b*", "[0-9]*", "()"];
const NON_NULLABLE_POOL: &[&str] = &["\\\\b", "a+", "x", ".", "\\\\bx"];
const UNUSED_POOL: &[&str] = &["zz_b", "zz_a", "_zz_h", "zz_c", "Zq", "zz_a1", "_q", "zz-d"];

pub const RULES: [&str; 15] = ["undef_var", "out_of_scope", "redefine", "set_immutable", "set_undefined", "hide_global",
    "set_global", "dup_global", "unused_capture", "undef_capture", "nonlocal_source", "some_none_nonopt", "for_nonlist",
    "nullable_regex", "benign"];

/// a non-local expression (depends on a scoped variable or on a `var`), possibly reaching the construct
/// through list literals, calls, comprehensions and let-bindings; `pre` receives the statements needed first
fn nonlocal_expr(rng: &mut Rng, cap: Option<&str>, pre: &mut Vec<String>, sub: &mut String) -> String {
    let mut cur = match (cap, rng.below(3)) {
        (Some(c), 0) | (Some(c), 1) => { sub.push_str("scoped"); format!("@{}.zv", c) }
        _ => {
            sub.push_str("var");
            pre.push("var zm = [1]".into());
            if rng.chance(40) { pre.push("set zm = [2]".into()); sub.push_str("+set"); }
            "zm".to_string()
        }
    };
    let n = rng.below(4);
    for i in 0..n {
        cur = match rng.below(9) {
            7 => { sub.push_str("+setcomp-elem"); format!("{{ {} for zc{} in [1, 2] }}", cur, i) }
            8 => { sub.push_str("+comp-elem"); format!("[ [{}, zc{}] for zc{} in [1] ]", cur, i, i) }
            0 => { sub.push_str("+list"); format!("[{}]", cur) }
            1 => { sub.push_str("+set-lit"); format!("{{{}, 1}}", cur) }
            2 => { sub.push_str("+call"); format!("(concat {} [1])", cur) }
            3 => { sub.push_str("+let"); pre.push(format!("let zl{} = {}", i, cur)); format!("zl{}", i) }
            4 => { sub.push_str("+comp-elem"); format!("[ {} for zc{} in [1] ]", cur, i) }
            5 => { sub.push_str("+scoped-of"); format!("{}.zw", cur) }
            _ => { sub.push_str("+list2"); format!("[1, {}, 2]", cur) }
        };
    }
    cur
}

/// a LOCAL expression of a chosen shape that is not `want`; shapes: "one", "opt", "list"
fn local_expr_not(rng: &mut Rng, want: &str, caps: &[(String, K)], pre: &mut Vec<String>, sub: &mut String) -> String {
    let one: Vec<String> = caps.iter().filter(|c| c.1 == K::Syn).map(|c| format!("@{}", c.0)).collect();
    let opt: Vec<String> = caps.iter().filter(|c| c.1 == K::OptSyn).map(|c| format!("@{}", c.0)).collect();
    let lst: Vec<String> = caps.iter().filter(|c| c.1 == K::ListSyn).map(|c| format!("@{}", c.0)).collect();
    let mut pool: Vec<(String, &str)> = vec![("1".into(), "int"), ("\"s\"".into(), "str"), ("#null".into(), "null"), ("#true".into(), "bool"),
        ("(concat [1] [2])".into(), "call"), ("(node)".into(), "call")];
    for c in &one { pool.push((c.clone(), "cap-one")); }
    if want != "opt" { for c in &opt { pool.push((c.clone(), "cap-opt")); } }
    if want != "list" {
        for c in &lst { pool.push((c.clone(), "cap-list")); }
        pool.push(("[1, 2]".into(), "list-lit")); pool.push(("{1}".into(), "set-lit")); pool.push(("[ zc for zc in [1] ]".into(), "comp"));
    }
    let (mut cur, what) = rng.pick(&pool).clone();
    sub.push_str(what);
    let n = rng.below(3);
    for i in 0..n {
        if rng.chance(60) { sub.push_str("+let"); pre.push(format!("let zl{} = {}", i, cur)); cur = format!("zl{}", i); }
        else if want == "list" || want == "opt" { sub.push_str("+call"); cur = format!("(format \"{{}}\" {})", cur); }
    }
    cur
}

struct Injected { preamble: Vec<String>, stanzas: Vec<String>, rule: String, depth: usize, ctx: Vec<String> }

fn global_names(preamble: &[String]) -> Vec<String> {
    preamble.iter().filter_map(|l| l.strip_prefix("global ")).map(|r| r.chars().take_while(|c| c.is_alphanumeric() || *c == '_' || *c == '-').collect()).collect()
}

/// inject exactly one violation of `rule` (index into RULES) into a valid program
fn inject(rng: &mut Rng, p: &Program, rule: usize) -> Option<Injected> {
    let mut preamble = p.preamble.clone();
    let mut stanzas = p.stanzas.clone();
    let si = rng.below(stanzas.len());
    let mut lines: Vec<String> = stanzas[si].split('\n').map(|s| s.to_string()).collect();
    let caps = stanza_caps(&lines[0]);
    let any_cap: Option<String> = if caps.is_empty() { None } else { Some(rng.pick(&caps).0.clone()) };
    let cap = any_cap.as_deref();
    let mut ctx: Vec<String> = Vec::new();
    let mut sub = String::new();
    let mut globals = global_names(&preamble);
    if (rule == 5 || rule == 6 || rule == 7) && globals.is_empty() {
        let g = rng.pick(&["gzz", "gzz*", "gzz?", "gzz = \"d\""]).to_string();
        preamble.insert(0, format!("global {}", g));
        globals = global_names(&preamble);
    }

    // rules that do not insert statements
    if rule == 7 {
        let g = rng.pick(&globals).clone();
        let form = rng.pick(&["", "*", "?", "+", " = \"x\""]).to_string();
        let at = rng.below(preamble.len() + 1);
        let first = preamble.iter().position(|l| l.starts_with(&format!("global {}", g))).unwrap_or(0);
        preamble.insert(at, format!("global {}{}", g, form));
        return Some(Injected { preamble, stanzas, rule: format!("dup_global:{}", if at <= first { "before" } else { "after" }), depth: 0, ctx });
    }
    if rule == 8 {
        if rng.chance(30) {
            // rename a capture that is only used by its trailing `print @cap`
            let cands: Vec<String> = caps.iter().map(|c| c.0.clone()).filter(|c| {
                let uses = lines[1..].iter().filter(|l| contains_capture(l, c)).count();
                uses == 1 && lines.iter().any(|l| l.trim() == format!("print @{}", c))
            }).collect();
            if cands.is_empty() { return None; }
            let c = rng.pick(&cands).clone();
            let new = rng.pick(&["zz_r", "_zz_r", "a", "zzzz"]).to_string();
            lines[0] = rename_capture(&lines[0], &c, &new);
            for l in lines.iter_mut().skip(1) { if l.trim() == format!("print @{}", c) { *l = "  print 1".into(); } }
            stanzas[si] = lines.join("\n");
            return Some(Injected { preamble, stanzas, rule: format!("unused_capture:rename{}", if new.starts_with('_') { ":underscore" } else { "" }), depth: 0, ctx });
        }
        let at = lines[0].find('@')?;
        let end = at + 1 + lines[0][at + 1..].chars().take_while(|c| c.is_alphanumeric() || *c == '_' || *c == '-' || *c == '.').map(|c| c.len_utf8()).sum::<usize>();
        let k = 1 + rng.below(3);
        let mut extra: Vec<&str> = Vec::new();
        while extra.len() < k { let n = *rng.pick(UNUSED_POOL); if !extra.contains(&n) { extra.push(n); } }
        let all_us = extra.iter().all(|n| n.starts_with('_'));
        let ins: String = extra.iter().map(|n| format!(" @{}", n)).collect();
        lines[0] = format!("{}{}{}", &lines[0][..end], ins, &lines[0][end..]);
        stanzas[si] = lines.join("\n");
        return Some(Injected { preamble, stanzas, rule: format!("unused_capture:add{}{}", k, if all_us { ":underscore" } else { "" }), depth: 0, ctx });
    }

    let mut snippet: Vec<String> = match rule {
        0 => { let e = ectx(rng, "zz_undef", &mut ctx); carrier(rng, &e, cap) }
        1 => {
            let (mut v, name) = match rng.below(5) {
                0 => (sv(&["if #true {", "  let zz_in = 1", "}"]), "zz_in"),
                1 => (sv(&["for zz_in in [1] {", "  print zz_in", "}"]), "zz_in"),
                2 => (sv(&["scan \"x\" {", "  \"x\" {", "    var zz_in = 1", "  }", "}"]), "zz_in"),
                3 => (sv(&["print [ zz_in for zz_in in [1] ]"]), "zz_in"),
                _ => (sv(&["if #false {", "  node zz_in", "} else {", "  print 1", "}"]), "zz_in"),
            };
            sub = "mini-block".into();
            let e = ectx(rng, name, &mut ctx); v.extend(carrier(rng, &e, cap)); v
        }
        2 => {
            let d1 = rng.pick(&["let zz_d = 1", "var zz_d = 1", "node zz_d"]).to_string();
            let d2 = rng.pick(&["let zz_d = 2", "var zz_d = 2", "node zz_d"]).to_string();
            match rng.below(4) {
                0 => { sub = "for-var-in-body".into(); vec!["for zz_d in [1] {".into(), format!("  {}", d2), "}".into()] }
                1 => { sub = "after-inner-block".into(); vec![d1, "if #true {".into(), "  let zz_d = 5".into(), "}".into(), d2] }
                _ => { sub = "same-block".into(); vec![d1, "print 1".into(), d2] }
            }
        }
        3 => {
            let d = rng.pick(&["let zz_i = 1", "node zz_i"]).to_string();
            match rng.below(5) {
                0 => { sub = "same-block".into(); vec![d, "set zz_i = 2".into()] }
                1 => { sub = "from-inner-block".into(); vec![d, "if #true {".into(), "  set zz_i = 2".into(), "}".into()] }
                2 => { sub = "loop-var".into(); sv(&["for zz_i in [1] {", "  set zz_i = 2", "}"]) }
                3 => { sub = "from-2-inner".into(); vec![d, "for zw9 in [1] {".into(), "  if #true {".into(), "    set zz_i = 2".into(), "  }".into(), "}".into()] }
                _ => { sub = "shadowing-let".into(); sv(&["var zz_i = 1", "if #true {", "  let zz_i = 2", "  set zz_i = 3", "}"]) }
            }
        }
        4 => match rng.below(4) {
            0 => { sub = "plain".into(); sv(&["set zz_u = 1"]) }
            1 => { sub = "after-scope-exit".into(); sv(&["if #true {", "  var zz_u = 1", "}", "set zz_u = 2"]) }
            2 => { sub = "nested".into(); sv(&["if #true {", "  for zw8 in [1] {", "    set zz_u = 2", "  }", "}"]) }
            _ => { sub = "sibling-arm".into(); sv(&["if #false {", "  var zz_u = 1", "} else {", "  set zz_u = 2", "}"]) }
        },
        5 => {
            let g = rng.pick(&globals).clone();
            match rng.below(7) {
                0 => { sub = "let".into(); vec![format!("let {} = 1", g)] }
                1 => { sub = "var".into(); vec![format!("var {} = 1", g)] }
                2 => { sub = "node".into(); vec![format!("node {}", g)] }
                3 => { sub = "for".into(); vec![format!("for {} in [1] {{", g), "  print 1".into(), "}".into()] }
                4 => { sub = "list-comp".into(); ctx.push("comp".into()); vec![format!("print [ 1 for {} in [1] ]", g)] }
                5 => { sub = "set-comp".into(); ctx.push("comp".into()); vec![format!("print {{ 1 for {} in [1] }}", g)] }
                _ => { sub = "let-in-comp-elem".into(); ctx.push("comp".into()); vec![format!("print [ [ 2 for {} in [zc] ] for zc in [1] ]", g)] }
            }
        }
        6 => { let g = rng.pick(&globals).clone(); sub = "set".into(); vec![format!("set {} = 1", g)] }
        9 => { let e = ectx(rng, "@nope", &mut ctx); carrier(rng, &e, cap) }
        10 => {
            let mut pre = Vec::new();
            let e = nonlocal_expr(rng, cap, &mut pre, &mut sub);
            // `for` gets extra weight: its source can break TWO rules at once (non-local AND not a list: a scoped variable),
            // and which of the two is reported is part of the verdict
            let c: Vec<String> = match rng.below(12) {
                0 => { sub.push_str("->scan"); vec![format!("scan {} {{", e), "  \"x\" {".into(), "    print 1".into(), "  }".into(), "}".into()] }
                1 => { sub.push_str("->if"); vec![format!("if {} {{", e), "  print 1".into(), "}".into()] }
                2 => { sub.push_str("->elif"); vec!["if #false {".into(), "  print 0".into(), format!("}} elif {} {{", e), "  print 1".into(), "}".into()] }
                3 => { sub.push_str("->if-2nd-cond"); vec![format!("if #true, {} {{", e), "  print 1".into(), "}".into()] }
                4 => { sub.push_str("->if-some"); vec![format!("if some {} {{", e), "  print 1".into(), "}".into()] }
                5 => { sub.push_str("->if-none"); vec![format!("if none {} {{", e), "  print 1".into(), "}".into()] }
                6 | 9 | 10 | 11 => { sub.push_str("->for"); vec![format!("for zq in {} {{", e), "  print zq".into(), "}".into()] }
                7 => { sub.push_str("->list-comp"); ctx.push("comp".into()); vec![format!("print [ zc for zc in {} ]", e)] }
                _ => { sub.push_str("->set-comp"); ctx.push("comp".into()); vec![format!("let zq = {{ zc for zc in {} }}", e)] }
            };
            pre.extend(c); pre
        }
        11 => {
            let mut pre = Vec::new();
            let e = local_expr_not(rng, "opt", &caps, &mut pre, &mut sub);
            let kw = rng.pick(&["some", "none"]).to_string();
            let c = match rng.below(3) {
                0 => vec![format!("if {} {} {{", kw, e), "  print 1".into(), "}".into()],
                1 => vec!["if #false {".into(), "  print 0".into(), format!("}} elif {} {} {{", kw, e), "  print 1".into(), "}".into()],
                _ => vec![format!("if #true, {} {} {{", kw, e), "  print 1".into(), "}".into()],
            };
            pre.extend(c); pre
        }
        12 => {
            let mut pre = Vec::new();
            let e = local_expr_not(rng, "list", &caps, &mut pre, &mut sub);
            let c = match rng.below(3) {
                0 => { sub.push_str("->for"); vec![format!("for zq in {} {{", e), "  print zq".into(), "}".into()] }
                1 => { sub.push_str("->list-comp"); ctx.push("comp".into()); vec![format!("print [ zc for zc in {} ]", e)] }
                _ => { sub.push_str("->set-comp"); ctx.push("comp".into()); vec![format!("print {{ zc for zc in {} }}", e)] }
            };
            pre.extend(c); pre
        }
        13 => {
            let rx = rng.pick(NULLABLE_POOL).to_string();
            sub = format!("/{}/", rx);
            match rng.below(3) {
                0 => vec!["scan \"abc\" {".into(), format!("  \"{}\" {{", rx), "    print 1".into(), "  }".into(), "}".into()],
                1 => vec!["scan \"abc\" {".into(), "  \"b\" {".into(), "    print $0".into(), "  }".into(), format!("  \"{}\" {{", rx), "    print 1".into(), "  }".into(), "}".into()],
                _ => vec!["scan \"abc\" {".into(), format!("  \"{}\" {{", rx), "    print zz_undef_in_arm".into(), "  }".into(), "}".into()],
            }
        }
        _ => match rng.below(12) {   // benign neighbours: no violation
            11 => { sub = "capture-after-nonlocal-argument".into();
                   match cap { Some(c) => vec!["var zz_m = 1".into(), format!("print (format \"{{}}{{}}\" zz_m @{}), [[1].zw, @{}]", c, c)], None => sv(&["var zz_m = 1", "print (plus zz_m 1 2)"]) } }
            9 => { sub = "keyword-prefixed-names-in-conditions".into();
                   let n1 = *rng.pick(&["some1", "some-flag", "something", "some_x", "some2nd"]); let n2 = *rng.pick(&["none2", "none-missing", "none_left", "nonempty", "none9"]);
                   vec![format!("let {} = #true", n1), format!("let {} = #false", n2), format!("if {} {{", n1), "  print 1".into(), format!("}} elif #true, {} {{", n2), "  print 2".into(), "}".into()] }
            10 => { sub = "keyword-prefixed-names".into();
                   sv(&["let letter = 1", "let nodes = [letter]", "for forx in nodes {", "  let edge-count = forx", "  print edge-count, letter", "}", "let ifx = #true", "if ifx {", "  print 1", "}"]) }
            0 => { sub = "shadow-in-inner-block".into(); sv(&["let zz_s = 1", "if #true {", "  let zz_s = 2", "  print zz_s", "}", "print zz_s"]) }
            1 => { sub = "set-var-from-inner".into(); sv(&["var zz_s = 1", "for zw7 in [1] {", "  if #true {", "    set zz_s = [2]", "  }", "}", "print zz_s"]) }
            2 => { sub = "word-boundary-regex".into(); let rx = rng.pick(NON_NULLABLE_POOL).to_string(); vec!["scan \"abc\" {".into(), format!("  \"{}\" {{", rx), "    print 1".into(), "  }".into(), "}".into()] }
            3 => { sub = "for-over-loop-var".into(); sv(&["for zq in [[1], [2]] {", "  for zr in zq {", "    print zr", "  }", "}"]) }
            4 => { sub = "same-name-sibling-arms".into(); sv(&["if #false {", "  let zz_s = 1", "} elif #true {", "  let zz_s = 2", "} else {", "  var zz_s = 3", "}"]) }
            5 => { sub = "some-on-loop-var".into(); sv(&["for zq in [1] {", "  if some zq {", "    print 1", "  }", "}"]) }
            6 => { sub = "comp-var-shadows-local".into(); sv(&["let zz_s = 1", "print [ zz_s for zz_s in [1, 2] ]", "print zz_s"]) }
            7 => { sub = "scoped-decl-twice".into(); match cap { Some(c) => vec![format!("let @{}.zz_t = 1", c), format!("let @{}.zz_t = 2", c), format!("set @{}.zz_u = 3", c)], None => sv(&["print 1"]) } }
            _ => { sub = "list-of-local".into(); sv(&["let zz_s = [1]", "for zq in [zz_s, zz_s] {", "  print zq", "}"]) }
        },
    };

    // synthetic nesting around the snippet
    let nwrap = match rng.below(10) { 0..=3 => 0, 4..=7 => 1, 8 => 2, _ => 3 };
    let mut wkinds = Vec::new();
    for k in 0..nwrap { let (s, kind) = wrap(rng, k, snippet); snippet = s; wkinds.push(kind); }
    wkinds.reverse();

    // position: pick a depth class first so that deep positions are not starved
    let poss = positions(&lines);
    if poss.is_empty() { return None; }
    let maxd = poss.iter().map(|p| block_depth(&p.stack)).max().unwrap_or(0);
    let want = rng.below(maxd + 1);
    let cands: Vec<&Pos> = poss.iter().filter(|p| block_depth(&p.stack) == want).collect();
    let pos = (*rng.pick(&cands)).clone();
    let ins = indent(&snippet, pos.ind);
    for (i, l) in ins.into_iter().enumerate() { lines.insert(pos.line + i, l); }
    stanzas[si] = lines.join("\n");
    let mut kinds: Vec<String> = pos.stack.iter().filter(|k| **k != "scan").map(|k| k.to_string()).collect();
    kinds.extend(wkinds.iter().map(|k| k.to_string()));
    let depth = kinds.len();
    kinds.sort(); kinds.dedup();
    ctx.extend(kinds);
    ctx.sort(); ctx.dedup();
    Some(Injected { preamble, stanzas, rule: format!("{}:{}", RULES[rule], sub), depth, ctx })
}

fn contains_capture(line: &str, c: &str) -> bool {
    let pat = format!("@{}", c);
    let mut from = 0;
    while let Some(p) = line[from..].find(&pat) {
        let end = from + p + pat.len();
        let next = line[end..].chars().next();
        if !next.map(|ch| ch.is_alphanumeric() || ch == '_' || ch == '-').unwrap_or(false) { return true; }
        from = end;
    }
    false
}
fn rename_capture(line: &str, c: &str, new: &str) -> String {
    let pat = format!("@{}", c);
    let mut out = String::new();
    let mut from = 0;
    while let Some(p) = line[from..].find(&pat) {
        let end = from + p + pat.len();
        let next = line[end..].chars().next();
        out.push_str(&line[from..from + p]);
        if !next.map(|ch| ch.is_alphanumeric() || ch == '_' || ch == '-').unwrap_or(false) { out.push_str(&format!("@{}", new)); } else { out.push_str(&pat); }
        from = end;
    }
    out.push_str(&line[from..]);
    out
}

fn opt_mix(rng: &mut Rng) -> GenOpts {
    let mut o = GenOpts::full();
    match rng.below(6) {
        0 => {}
        1 => { o.use_scoped = false; o.inherit = false; }
        2 => { o.allow_scan = false; o.stdlib = false; }
        3 => { o.max_depth = 4; o.max_stanzas = 7; }
        4 => { o.shorthands = false; o.globals = false; o.max_stanzas = 3; }
        _ => { o.max_depth = 2; o.max_stanzas = 2; o.stdlib = false; }
    }
    o
}

fn accepted(dsl: &str) -> bool {
    matches!(catch_unwind(AssertUnwindSafe(|| File::from_str(tree_sitter_python::LANGUAGE.into(), dsl).is_ok())), Ok(true))
}

pub fn gen(rng: &mut Rng, n: usize) -> Vec<Case> {
    quiet_panics();
    let mut out: Vec<Case> = Vec::new();
    let mut tries = 0;
    let mut skipped = 0;
    let mut next_rule = 0usize;
    while out.len() < n && tries < n * 40 {
        tries += 1;
        let opts = opt_mix(rng);
        let p = gen_program(rng, &opts);
        let valid_turn = out.len() % 5 == 0;
        if valid_turn {
            // (a) generated programs as they are
            let spec = Spec { dsl: p.text(), rule: "valid".into(), depth: 0, ctx: vec![], fault: false };
            match make_case(&spec) { Some(c) => out.push(c), None => skipped += 1 }
            continue;
        }
        // (b) single fault in an accepted program
        if !accepted(&p.text()) { continue; }
        let rule = next_rule % RULES.len();
        let inj = match inject(rng, &p, rule) { Some(i) => i, None => { if rng.chance(20) { next_rule += 1; } continue } };
        let q = Program { preamble: inj.preamble, stanzas: inj.stanzas, supplied: vec![] };
        let fault = !inj.rule.starts_with("benign");
        let spec = Spec { dsl: q.text(), rule: inj.rule, depth: inj.depth, ctx: inj.ctx, fault };
        match make_case(&spec) { Some(c) => { out.push(c); next_rule += 1; }, None => { skipped += 1; if rng.chance(20) { next_rule += 1; } } }
    }
    eprintln!("C06: {} cases, {} candidate files did not parse (skipped), {} programs drawn", out.len(), skipped, tries);
    out
}

/// Rule-breaking DSL texts (one injected violation of a checker rule in an accepted generated program): (text, rule).
/// Input of stream C05r (rendering of load errors); the C06 stream itself draws with `gen`.
pub fn faulty_texts(rng: &mut Rng, n: usize) -> Vec<(String, String)> {
    let mut out = Vec::new();
    let mut tries = 0;
    let mut next_rule = 0usize;
    while out.len() < n && tries < n * 40 {
        tries += 1;
        let opts = opt_mix(rng);
        let p = gen_program(rng, &opts);
        if !accepted(&p.text()) { continue; }
        let rule = next_rule % RULES.len();
        let inj = match inject(rng, &p, rule) { Some(i) => i, None => { if rng.chance(20) { next_rule += 1; } continue } };
        next_rule += 1;
        if inj.rule.starts_with("benign") { continue; }
        let q = Program { preamble: inj.preamble, stanzas: inj.stanzas, supplied: vec![] };
        out.push((q.text(), inj.rule));
    }
    out
}

pub fn replay(j: &serde_json::Value) -> Case {
    quiet_panics();
    let spec = Spec { dsl: j["dsl"].as_str().unwrap().to_string(), rule: j["rule"].as_str().unwrap_or("replay").to_string(),
        depth: j["depth"].as_u64().unwrap_or(0) as usize,
        ctx: j["ctx"].as_array().map(|a| a.iter().filter_map(|x| x.as_str().map(|s| s.to_string())).collect()).unwrap_or_default(),
        fault: j["fault"].as_bool().unwrap_or(true) };
    make_case(&spec).expect("replayed file parses")
}
