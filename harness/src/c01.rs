//! C01: strict execution vs the model of strict.rs (which is proved equal to the reference semantics).
use crate::common::*;
use crate::dump::*;
use crate::exec::*;
use crate::gen::*;
use crate::rng::Rng;
use serde_json::json;

pub struct ExecInput { pub dsl: String, pub src: String, pub supplied: Vec<(String, GV)> }

pub fn input_json(i: &ExecInput) -> serde_json::Value {
    json!({"dsl": i.dsl, "src": i.src, "globals": i.supplied.iter().map(|(k, v)| json!([k, v.json()])).collect::<Vec<_>>()})
}
pub fn input_from_json(j: &serde_json::Value) -> ExecInput {
    ExecInput { dsl: j["dsl"].as_str().unwrap().to_string(), src: j["src"].as_str().unwrap().to_string(),
        supplied: j["globals"].as_array().unwrap().iter().map(|p| (p[0].as_str().unwrap().to_string(), GV::from_json(&p[1]))).collect() }
}

/// Returns None when the loader rejects the file (C01 quantifies over accepted files).
pub fn make_case(inp: &ExecInput) -> Option<Case> { make_case_mode(inp, false) }
pub fn make_case_mode(inp: &ExecInput, lazy: bool) -> Option<Case> {
    let file = load(&inp.dsl).ok()?;
    let tree = parse_python(&inp.src);
    let info = TreeInfo::new(&tree, &inp.src);
    let obs = execute_fresh(&file, &tree, &info, &inp.supplied, lazy, false);
    let mut d = AstDump::new();
    let file_t = d.file(&file);
    let tree_t = tree_term(&info);
    let (matches_t, nmatches) = stanza_matches_term(&file, &tree, &info);
    let matches_t = if lazy { file_matches_term(&file, &tree, &info) } else { matches_t };
    let mut rx_terms = Vec::new();
    for pat in &d.regexes { rx_terms.push(crate::c10::parse_regex(pat)?.coq()); }   // outside the modelled sub-language: skip
    let args = format!("({}) ({}) {} {} {} {}", tree_t, file_t, coq_list(&rx_terms), replace_table(&inp.dsl), globals_term(&inp.supplied), matches_t);
    let mut tags = vec![format!("outcome:{}", obs.class()), format!("stanzas:{}", file.stanzas.len()), format!("matches:{}", (nmatches / 10) * 10)];
    if let Obs::Err(c, _) = &obs { tags.push(format!("err:{}", c)); }
    for kw in ["scan ", "for ", "if ", "var ", "set ", "attribute ", "global ", "inherit "] { if inp.dsl.contains(kw) { tags.push(format!("has:{}", kw.trim())); } }
    let nontrivial = file.stanzas.len() >= 2 && nmatches >= 3;
    let mut replay = input_json(inp);
    replay["impl"] = json!(match &obs { Obs::Ok(g) => format!("Ok: {} graph nodes", g.len()), Obs::Err(c, t) => format!("Err code {}: {}", c, t), Obs::Panic => "PANIC".into() });
    Some(Case {
        verdict: format!("{} {} {}", if lazy { "lazy_verdict" } else { "c01_verdict" }, args, obs.coq()),
        detail: format!("{} {}", if lazy { "lazy_detail" } else { "c01_detail" }, args),
        key: fnv(&format!("{}|{}", inp.dsl, inp.src)),
        nontrivial, tags, replay,
    })
}

/// Patterns that `replace` may be called with: every string literal of the DSL text that parses in the
/// regex sub-language, cannot match the empty string and has no anchors.
pub fn replace_table(dsl: &str) -> String {
    use crate::c10::RegexAst as R;
    fn anchored(r: &R) -> bool {
        match r { R::Bol | R::Eol | R::Wb => true, R::Seq(a, b) | R::Alt(a, b) => anchored(a) || anchored(b),
                  R::Grp(_, a) | R::Opt(a) | R::Star(a) | R::Plus(a) => anchored(a), _ => false }
    }
    let mut out: Vec<String> = Vec::new();
    let mut seen: Vec<String> = Vec::new();
    let chars: Vec<char> = dsl.chars().collect();
    let mut i = 0;
    while i < chars.len() {
        if chars[i] == '"' {
            let mut j = i + 1; let mut lit = String::new();
            while j < chars.len() && chars[j] != '"' {
                if chars[j] == '\\' && j + 1 < chars.len() { j += 1; lit.push(match chars[j] { 'n' => '\n', 't' => '\t', 'r' => '\r', '0' => '\0', c => c }); } else { lit.push(chars[j]); }
                j += 1;
            }
            if !seen.contains(&lit) {
                seen.push(lit.clone());
                if let Some(r) = crate::c10::parse_regex(&lit) { if !r.can_empty() && !anchored(&r) { out.push(format!("({}, {})", coq_str(&lit), r.coq())); } }
            }
            i = j + 1;
        } else { i += 1; }
    }
    coq_list(&out)
}

pub fn gen_input(rng: &mut Rng, opts: &GenOpts) -> ExecInput {
    let mut p = gen_program(rng, opts);
    // one program in five is ill-typed at run time (the failing half of the properties)
    if rng.chance(20) { let _ = crate::gen::inject_runtime_fault(rng, &mut p); }
    let src = gen_source(rng);
    ExecInput { dsl: p.text(), src, supplied: p.supplied }
}

pub fn gen(rng: &mut Rng, n: usize) -> Vec<Case> { gen_mode(rng, n, false) }
pub fn gen_mode(rng: &mut Rng, n: usize, lazy: bool) -> Vec<Case> {
    quiet_panics();
    let mut opts = GenOpts::full();
    let mut out = Vec::new();
    let mut tries = 0;
    while out.len() < n && tries < n * 20 {
        tries += 1;
        // lazy stream: one case in six is built from the scoped-variable idioms (inheritance, definitions after reads)
        let inp = if rng.chance(if lazy { 16 } else { 12 }) { crate::streams::c04_input(rng) } else { gen_input(rng, &opts) };
        if let Some(c) = make_case_mode(&inp, lazy) { out.push(c); }
    }
    out
}
pub fn replay(j: &serde_json::Value) -> Case { replay_mode(j, false) }
pub fn replay_mode(j: &serde_json::Value, lazy: bool) -> Case {
    quiet_panics();
    make_case_mode(&input_from_json(j), lazy).expect("replayed file loads")
}
