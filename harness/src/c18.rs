//! C18: syntax-error discovery (ParseError::first/all/into_first/into_all) and the two Display impls
//! vs the model of Model/ParseErr.v — generated Python sources with 0-6 injected syntax faults.
use crate::common::*;
use crate::rng::Rng;
use serde_json::json;
use std::panic::{catch_unwind, AssertUnwindSafe};
use std::path::Path;
use tree_sitter::Tree;
use tree_sitter_graph::parse_error::ParseError;

// ------------------------------------------------------------------------------------- generator

const IDENTS: &[&str] = &["x", "y", "foo", "bar_1", "n", "items", "self", "naïve", "变量", "π", "größe"];
const FUNCS: &[&str] = &["f", "g", "print", "len", "compute", "λ_fn", "取得"];
const STRS: &[&str] = &["\"a\"", "'b c'", "\"héllo\"", "'日本語'", "\"😀 ok\"", "\"\"", "'x=1'", "\"ß→∂\""];
const NUMS: &[&str] = &["0", "1", "42", "3.5", "0x1f", "1000000"];
const BINOPS: &[&str] = &["+", "-", "*", "/", "==", "<", "and", "or", "%", "not in", "is not", "in", "is", "not in", "is not"];
const STRAY: &[&str] = &["$", "?", "!", "¤", "€", "`", "§", "@@", "\\", "😀", "'", "\""];
const BRACKETS: &[&str] = &["(", ")", "[", "]", "{", "}"];

#[derive(Clone, Debug)]
struct Line { indent: usize, toks: Vec<String> }

fn s(x: &str) -> String { x.to_string() }
fn pk(rng: &mut Rng, xs: &[&str]) -> String { rng.pick(xs).to_string() }

fn gen_atom(rng: &mut Rng) -> Vec<String> {
    match rng.below(10) {
        0..=3 => vec![pk(rng, IDENTS)],
        4..=5 => vec![pk(rng, NUMS)],
        6..=7 => vec![pk(rng, STRS)],
        8 => vec![pk(rng, IDENTS), s("."), pk(rng, IDENTS)],
        _ => vec![s("None")],
    }
}

fn gen_expr(rng: &mut Rng, depth: usize) -> Vec<String> {
    if depth == 0 { return gen_atom(rng); }
    match rng.below(10) {
        0..=2 => gen_atom(rng),
        3..=4 => { // call
            let mut v = vec![pk(rng, FUNCS), s("(")];
            let n = rng.below(4);
            for i in 0..n { if i > 0 { v.push(s(",")); } v.extend(gen_expr(rng, depth - 1)); }
            v.push(s(")"));
            v
        }
        5..=6 => { let mut v = gen_expr(rng, depth - 1); for w in pk(rng, BINOPS).split(' ') { v.push(s(w)); } v.extend(gen_expr(rng, depth - 1)); v }   // multi-word operators are separate tokens, so faults can land between them
        7 => { // list
            let mut v = vec![s("[")];
            let n = rng.below(4);
            for i in 0..n { if i > 0 { v.push(s(",")); } v.extend(gen_expr(rng, depth - 1)); }
            v.push(s("]"));
            v
        }
        8 => { // dict
            let mut v = vec![s("{")];
            let n = rng.below(3);
            for i in 0..n { if i > 0 { v.push(s(",")); } v.push(pk(rng, STRS)); v.push(s(":")); v.extend(gen_expr(rng, depth - 1)); }
            v.push(s("}"));
            v
        }
        _ => { let mut v = vec![s("(")]; v.extend(gen_expr(rng, depth - 1)); v.push(s(")")); v }
    }
}

fn gen_simple(rng: &mut Rng) -> Vec<String> {
    match rng.below(10) {
        0..=3 => { let mut v = vec![pk(rng, IDENTS), s("=")]; v.extend(gen_expr(rng, 2)); v }
        4..=6 => { let mut v = vec![pk(rng, FUNCS), s("(")];
                   let n = rng.below(3);
                   for i in 0..n { if i > 0 { v.push(s(",")); } v.extend(gen_expr(rng, 1)); }
                   v.push(s(")")); v }
        7 => { let mut v = vec![s("return")]; v.extend(gen_expr(rng, 1)); v }
        8 => vec![s("pass")],
        _ => { let mut v = vec![pk(rng, IDENTS), s("+=")]; v.extend(gen_expr(rng, 1)); v }
    }
}

fn gen_block(rng: &mut Rng, indent: usize, depth: usize, out: &mut Vec<Line>) {
    let n = rng.range(1, 3);
    for _ in 0..n { gen_stmt(rng, indent, depth, out); }
}

fn gen_stmt(rng: &mut Rng, indent: usize, depth: usize, out: &mut Vec<Line>) {
    let k = if depth == 0 { rng.below(6) } else { rng.below(10) };
    match k {
        0..=5 => out.push(Line { indent, toks: gen_simple(rng) }),
        6..=7 => { // def
            let mut v = vec![s("def"), pk(rng, FUNCS), s("(")];
            let n = rng.below(3);
            for i in 0..n { if i > 0 { v.push(s(",")); } v.push(pk(rng, IDENTS)); }
            v.push(s(")")); v.push(s(":"));
            out.push(Line { indent, toks: v });
            gen_block(rng, indent + 1, depth - 1, out);
        }
        8 => { // if / else
            let mut v = vec![s("if")]; v.extend(gen_expr(rng, 1)); v.push(s(":"));
            out.push(Line { indent, toks: v });
            gen_block(rng, indent + 1, depth - 1, out);
            if rng.chance(50) {
                out.push(Line { indent, toks: vec![s("else"), s(":")] });
                gen_block(rng, indent + 1, depth - 1, out);
            }
        }
        _ => { // for
            let mut v = vec![s("for"), pk(rng, IDENTS), s("in")]; v.extend(gen_expr(rng, 1)); v.push(s(":"));
            out.push(Line { indent, toks: v });
            gen_block(rng, indent + 1, depth - 1, out);
        }
    }
}

/// Inject one syntax fault. `bias`: 0 = anywhere, 1 = file start, 2 = file end, 3 = a line after the first.
fn inject(rng: &mut Rng, lines: &mut Vec<Line>, bias: usize) {
    if lines.is_empty() { lines.push(Line { indent: 0, toks: vec![] }); }
    let li = match bias {
        1 => 0,
        2 => lines.len() - 1,
        3 => if lines.len() > 1 { rng.range(1, lines.len() - 1) } else { 0 },
        _ => rng.below(lines.len()),
    };
    let line = &mut lines[li];
    let ti = match bias {
        1 => 0,
        2 => line.toks.len(),
        _ => rng.below(line.toks.len() + 1),
    };
    let kind = match rng.below(100) { 0..=12 => 0, 13..=25 => 1, 26..=38 => 2, 39..=54 => 3, 55..=74 => 4, 75..=82 => 5, _ => 6 };
    match kind {
        0 => { // delete a token
            if !line.toks.is_empty() { let i = ti.min(line.toks.len() - 1); line.toks.remove(i); }
        }
        1 => { // duplicate a token
            if !line.toks.is_empty() { let i = ti.min(line.toks.len() - 1); let t = line.toks[i].clone(); line.toks.insert(i, t); }
        }
        2 => line.toks.insert(ti, pk(rng, BRACKETS)),
        3 => line.toks.insert(ti, pk(rng, STRAY)),
        4 => { // delete a closing bracket or colon of this line if there is one (typical MISSING producers)
            if let Some(i) = line.toks.iter().rposition(|t| t == ")" || t == "]" || t == "}" || t == ":") { line.toks.remove(i); }
            else { line.toks.insert(ti, pk(rng, STRAY)); }
        }
        6 => { // shapes that tree-sitter-python repairs with a MISSING node: `x. = 1`, `if :`, `f(a.)`
            if let Some(i) = line.toks.iter().position(|t| t == "=" || t == "+=") { if i > 0 { line.toks.insert(i, s(".")); return; } }
            if line.toks.len() > 2 && (line.toks[0] == "if" || line.toks[0] == "for") && line.toks.last().map_or(false, |t| t == ":") {
                let n = line.toks.len(); line.toks.drain(1..n - 1); line.toks[0] = s(if rng.chance(50) { "if" } else { "while" }); return;
            }
            if let Some(i) = line.toks.iter().rposition(|t| t == ")") { line.toks.insert(i, s(".")); return; }
            line.toks.insert(ti, s("."));
        }
        _ => { // a keyword in the wrong place
            line.toks.insert(ti, pk(rng, &["def", "else", "in", "=", ",", ":"]));
        }
    }
}

fn render(rng: &mut Rng, lines: &[Line], crlf: bool, final_newline: bool) -> Vec<String> {
    let mut out = Vec::new();
    for (k, l) in lines.iter().enumerate() {
        let mut t = " ".repeat(4 * l.indent);
        for (i, tok) in l.toks.iter().enumerate() {
            if i > 0 {
                let prev = &l.toks[i - 1];
                let tight = tok == "(" || tok == ")" || tok == "," || tok == "]" || tok == "." || tok == ":" || prev == "(" || prev == "[" || prev == ".";
                // mostly conventional spacing; sometimes everything spaced out (columns vary)
                if !(tight && rng.chance(80)) { t.push(' '); }
            }
            t.push_str(tok);
        }
        if k + 1 < lines.len() || final_newline { t.push_str(if crlf { "\r\n" } else { "\n" }); }
        out.push(t);
    }
    out
}

pub fn gen_source(rng: &mut Rng, i: usize) -> (Vec<String>, usize) {
    let mut lines = Vec::new();
    let n = rng.range(1, 6);
    for _ in 0..n { gen_stmt(rng, 0, 2, &mut lines); }
    // fault count: i%7 cycles 0..6 so that every count is exercised
    let faults = i % 7;
    for f in 0..faults {
        let bias = if f == 0 { [0, 1, 2, 3][(i / 7) % 4] } else { rng.below(4) };
        inject(rng, &mut lines, bias);
    }
    let crlf = rng.chance(5);
    let final_newline = !rng.chance(15);
    (render(rng, &lines, crlf, final_newline), faults)
}

// ------------------------------------------------------------------------- implementation runner

#[derive(Clone, Debug, PartialEq)]
pub struct Rep { missing: bool, id: usize }

fn reps<'a, 'b: 'a>(errs: impl Iterator<Item = &'a ParseError<'b>>, info: &TreeInfo) -> Vec<Rep> {
    errs.map(|e| Rep { missing: matches!(e, ParseError::Missing(_)), id: *info.ids.get(&e.node().id()).expect("reported node is a node of the tree") }).collect()
}

fn display_both(e: &ParseError, path: &Path, src: &str) -> (Option<String>, Option<String>) {
    let plain = catch_unwind(AssertUnwindSafe(|| format!("{}", e.display(path, src)))).ok();
    let pretty = catch_unwind(AssertUnwindSafe(|| format!("{}", e.display_pretty(path, src)))).ok();
    (plain, pretty)
}

fn coq_rep(r: &Rep) -> String { format!("({}, {})", if r.missing { "KMissing" } else { "KUnexpected" }, r.id) }

fn tree_term(info: &TreeInfo) -> String {
    let n = info.nodes.len();
    let mut children: Vec<Vec<usize>> = vec![Vec::new(); n];
    for (i, p) in info.parent.iter().enumerate() { if let Some(p) = p { children[*p].push(i); } }
    fn go(i: usize, info: &TreeInfo, ch: &Vec<Vec<usize>>, out: &mut String) {
        let nd = info.nodes[i];
        out.push_str(&format!("(PT {} {} {} [", coq_bool(nd.is_error()), coq_bool(nd.is_missing()), i));
        for (k, c) in ch[i].iter().enumerate() { if k > 0 { out.push_str("; "); } go(*c, info, ch, out); }
        out.push_str("])");
    }
    let mut out = String::new();
    go(0, info, &children, &mut out);
    out
}

pub fn make_case(lines: &[String], path_s: &str, faults: usize) -> Case {
    let src: String = lines.concat();
    let path = Path::new(path_s);
    let tree: Tree = parse_python(&src);
    let info = TreeInfo::new(&tree, &src);
    let has_error = tree.root_node().has_error();

    // borrowed APIs
    let all = ParseError::all(&tree);
    let all_r = reps(all.iter(), &info);
    let first = ParseError::first(&tree);
    let first_r = reps(first.iter(), &info);
    let displays: Vec<(Option<String>, Option<String>)> = all.iter().map(|e| display_both(e, path, &src)).collect();

    // owning APIs on freshly parsed trees (parsing is deterministic, so preorder ids coincide); the
    // bundles are moved to another thread and only read there
    let into_all_bundle = ParseError::into_all(parse_python(&src));
    let (src2, path2) = (src.clone(), path_s.to_string());
    let (into_all_r, moved_displays) = std::thread::spawn(move || {
        let bundle = into_all_bundle;
        let info2 = TreeInfo::new(bundle.tree(), &src2);
        let r = reps(bundle.errors().iter(), &info2);
        let d: Vec<(Option<String>, Option<String>)> = bundle.errors().iter().map(|e| display_both(e, Path::new(&path2), &src2)).collect();
        (r, d)
    }).join().expect("into_all thread");
    let into_first_bundle = ParseError::into_first(parse_python(&src));
    let src3 = src.clone();
    let into_first_r = std::thread::spawn(move || {
        let bundle = into_first_bundle;
        let info3 = TreeInfo::new(bundle.tree(), &src3);
        let r = reps(bundle.error().iter(), &info3);
        // into_option/into_tree keep working after the move
        let again = bundle.into_option().map(|b| { let i4 = TreeInfo::new(b.tree(), &src3); reps(std::iter::once(b.error()), &i4) }).unwrap_or_default();
        assert_eq!(r, again);
        r
    }).join().expect("into_first thread");

    // position data of every flagged node
    let mut pos = Vec::new();
    let mut nested = false;
    let mut any_missing = false;
    for (i, nd) in info.nodes.iter().enumerate() {
        if nd.is_error() || nd.is_missing() {
            pos.push(format!("({}, {{| np_row := {}; np_col := {}; np_start := {}; np_end := {} |}})",
                i, nd.start_position().row, nd.start_position().column, nd.start_byte(), nd.end_byte()));
            if nd.is_missing() { any_missing = true; }
            let mut p = info.parent[i];
            while let Some(q) = p { if info.nodes[q].is_error() || info.nodes[q].is_missing() { nested = true; } p = info.parent[q]; }
        }
    }

    // citation flags, computed here independently of the model
    let mut disp = Vec::new();
    let mut pretty_uncited = 0;
    let mut panics = 0;
    for (e, (plain, pretty)) in all.iter().zip(displays.iter()) {
        let p = e.node().start_position();
        let cite = format!("{}:{}:{}:", path.display(), p.row + 1, p.column + 1);
        let cp = plain.as_ref().map_or(false, |t| t.starts_with(&cite));
        let cq = pretty.as_ref().map_or(false, |t| t.contains(&cite));
        if !cq { pretty_uncited += 1; }
        if plain.is_none() || pretty.is_none() { panics += 1; }
        disp.push(format!("{{| d_plain := {}; d_pretty := {}; d_cites_plain := {}; d_cites_pretty := {} |}}",
            coq_opt(plain.as_ref().map(|t| coq_str(t))), coq_opt(pretty.as_ref().map(|t| coq_str(t))), coq_bool(cp), coq_bool(cq)));
    }

    let tree_coq = tree_term(&info);
    let opt_rep = |v: &Vec<Rep>| coq_opt(v.first().map(coq_rep));
    let list_rep = |v: &Vec<Rep>| coq_list(&v.iter().map(coq_rep).collect::<Vec<_>>());
    let pos_coq = coq_list(&pos);
    let obs = format!("{{| o_has_error := {}; o_all := {}; o_first := {}; o_into_all := {}; o_into_first := {}; o_moved_display_same := {}; o_pos := {}; o_disp := {} |}}",
        coq_bool(has_error), list_rep(&all_r), opt_rep(&first_r), list_rep(&into_all_r), opt_rep(&into_first_r),
        coq_bool(moved_displays == displays), pos_coq, coq_list(&disp));

    let non_ascii = !src.is_ascii();
    let mut tags = vec![format!("faults{}", faults), format!("errors{}", if all_r.len() >= 5 { "5+".to_string() } else { all_r.len().to_string() })];
    if nested { tags.push("nested_flagged".into()); }
    // tree-sitter reports an error (e.g. a MISSING hidden `_newline`) that no visible node carries
    if has_error && pos.is_empty() { tags.push("has_error_without_flagged_node".into()); }
    if !has_error { tags.push("no_error_early_return".into()); }
    if any_missing { tags.push("missing_node".into()); }
    if all_r.iter().any(|r| r.missing) { tags.push("missing_reported".into()); }
    if non_ascii { tags.push("non_ascii".into()); }
    // since the fix in /repo every display must cite its location: such a case is a DIFF (verdict 6/11), the tag only names it
    if pretty_uncited > 0 { tags.push("pretty_without_position".into()); }
    if all_r.iter().any(|r| r.missing) && pretty_uncited == 0 { tags.push("missing_pretty_cited".into()); }
    if panics > 0 { tags.push("display_panicked".into()); }
    if src.contains("\r\n") { tags.push("crlf".into()); }
    if !src.ends_with('\n') { tags.push("no_final_newline".into()); }
    if all.iter().any(|e| e.node().start_position().row > 0) { tags.push("error_on_later_line".into()); }
    if all.iter().any(|e| e.node().start_byte() == 0) { tags.push("error_at_file_start".into()); }
    if all.iter().any(|e| e.node().end_byte() == src.len()) { tags.push("error_at_file_end".into()); }
    if all.iter().any(|e| e.node().start_position().row != e.node().end_position().row) { tags.push("multi_line_error".into()); }

    let replay = json!({"prop": "C18", "lines": lines, "path": path_s, "faults": faults,
        "impl": {"has_error": has_error, "all": list_rep(&all_r), "first": opt_rep(&first_r), "into_all": list_rep(&into_all_r), "into_first": opt_rep(&into_first_r),
                 "display": displays.iter().map(|(a, b)| json!([a, b])).collect::<Vec<_>>()}});
    Case {
        verdict: format!("c18_verdict {} {} {} {} {}", wording_term(), tree_coq, coq_str(path_s), coq_str(&src), obs),
        detail: format!("c18_detail {} {} {} {} {} {}", wording_term(), coq_bool(has_error), tree_coq, coq_str(path_s), coq_str(&src), pos_coq),
        key: fnv(&src),
        nontrivial: all_r.len() >= 2 || nested,
        tags, replay,
    }
}

/// The wording of the two kinds of error is not constrained by the property: it is read off the implementation once
/// (plain display of a zero-width MISSING node = "path:r:c: <missing wording>\n", of a non-empty ERROR node =
/// "path:r:c: <unexpected wording>: <first line of the node>") and handed to the model.  If the format cannot be
/// recognised the wording of the pinned commit is used (and a reworded message then shows as code 5/6).
fn calibrate_wording() -> (String, String) {
    let mut missing: Option<String> = None;
    let mut unexpected: Option<String> = None;
    let path = Path::new("cal.py");
    for src in ["f(1\n", "x = )\n", "def g(:\n    pass\n", "y = [1, 2\n", "z = 1 +\n", "a = $\n", "if x\n    pass\n"] {
        let tree = parse_python(src);
        let got = catch_unwind(AssertUnwindSafe(|| {
            let mut out: Vec<(bool, String, String)> = Vec::new();
            for e in ParseError::all(&tree) {
                let n = *e.node();
                let cite = format!("{}:{}:{}: ", path.display(), n.start_position().row + 1, n.start_position().column + 1);
                let text = format!("{}", e.display(path, src));
                let Some(rest) = text.strip_prefix(&cite) else { continue };
                if n.start_byte() == n.end_byte() {
                    if let Some(w) = rest.strip_suffix('\n') { out.push((matches!(e, ParseError::Missing(_)), w.to_string(), String::new())); }
                } else {
                    let first_line = src[n.start_byte()..n.end_byte()].split('\n').next().unwrap_or("");
                    if let Some(w) = rest.strip_suffix(&format!(": {}", first_line)) { out.push((matches!(e, ParseError::Missing(_)), w.to_string(), first_line.to_string())); }
                }
            }
            out
        })).unwrap_or_default();
        for (is_missing, w, _) in got {
            if w.is_empty() || w.contains('\n') { continue; }
            if is_missing { missing.get_or_insert(w); } else { unexpected.get_or_insert(w); }
        }
    }
    (missing.unwrap_or_else(|| "missing syntax".into()), unexpected.unwrap_or_else(|| "unexpected syntax".into()))
}
fn wording_term() -> String {
    static W: std::sync::OnceLock<String> = std::sync::OnceLock::new();
    W.get_or_init(|| { let (m, u) = calibrate_wording(); format!("(kt_of {} {})", coq_str(&m), coq_str(&u)) }).clone()
}

const PATHS: &[&str] = &["test.py", "src/módulo.py", "a b/c.py"];

/// sources kept in every run: shapes that random fault injection reaches rarely — an unterminated statement (a hidden
/// MISSING newline: `has_error()` without a visible node) that is not the first of a nested block, followed by a later
/// error; the ROOT itself an ERROR node; only MISSING anonymous tokens; adjacent ERROR siblings; a MISSING node as last child
const FIXED_SOURCES: &[&str] = &[
    "def f():\n    g()\n    h()é\nb 11\n",
    "class K:\n    def m(self):\n        x = 1\n        y = a + b.\n    z = 2\nq = = 3\n",
    "def f():\n    g()\n    h()é\n",
    "if x:\n  (",
    "while x:\n  y = (\n",
    "def f(:\n    pass\n",
    "def f(a,:\n    pass\nx = (1\n",
    "x = 1, 2, (3, 4)]\ny = f(x)0]\n",
    "x = 1, (3 4)]\ny = f(x)[0\nwhile y:\n    y -= 1\n",
    "def f(:\n    pass\nz = 1 1\n",
    "s = [\"é\", \"ö\", \"ü\" 3]\n",
    "if x:\n    y = foo(1,\n 2\n",
    // a MISSING node wrapped only in zero-width parents (with_clause > with_item > MISSING identifier), alone, between and before other errors
    "with :\n  pass\n",
    "a 42\nwith :\n  pass\nb 11\n",
    "with :\n  pass\na 42\n",
    // the missing closer of an EMPTY bracket pair (all siblings of the MISSING token are anonymous)
    "x = (;\n", "x = [;\ny = 1\n", "for x in (:\n  pass\n", "x = {;\nz 1\n",
];
pub fn gen(rng: &mut Rng, n: usize) -> Vec<Case> {
    let mut cases = Vec::new();
    for (k, src) in FIXED_SOURCES.iter().enumerate() {
        if cases.len() >= n { break; }
        let lines: Vec<String> = src.split_inclusive('\n').map(|l| l.to_string()).collect();
        let _ = k;
        cases.push(make_case(&lines, "test.py", 1));
    }
    for i in 0..n {
        let (lines, faults) = gen_source(rng, i);
        let path = *rng.pick(PATHS);
        cases.push(make_case(&lines, path, faults));
    }
    cases
}

pub fn replay(j: &serde_json::Value) -> Case {
    let lines: Vec<String> = j["lines"].as_array().unwrap().iter().map(|l| l.as_str().unwrap().to_string()).collect();
    let path = j["path"].as_str().unwrap_or("test.py").to_string();
    make_case(&lines, &path, j["faults"].as_u64().unwrap_or(0) as usize)
}
