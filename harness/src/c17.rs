//! C17: containers vs their models — random API histories.
use crate::common::*;
use crate::rng::Rng;
use serde_json::json;
use tree_sitter_graph::graph::Graph;
use tree_sitter_graph::{Identifier, Variables};

#[derive(Clone, Debug)]
pub enum Op {
    AddNode, AddEdge(u32, u32), GetEdge(u32, u32), EdgeAttrAdd(u32, u32, String, GV), EdgeAttrGet(u32, u32, String),
    NodeAttrAdd(u32, String, GV), NodeAttrGet(u32, String), NodeAttrIter(u32), EdgeAttrIter(u32, u32), IterNodes, IterEdges(u32),
    NodeCount, EdgeCount(u32), VarNested, VarPop, VarAdd(String, GV), VarGet(String), VarRemove(String), VarClear, VarIsEmpty, VarIter,
}
#[derive(Clone, Debug, PartialEq)]
pub enum Res { Unit, Node(u32), Bool(bool), OptVal(Option<GV>), AddAttr(Option<GV>), NoEdge, Attrs(Vec<(String, GV)>), Nodes(Vec<u32>), Count(usize), Skipped }

const NAMES: &[&str] = &["a", "b", "name", "k1", "k2", "ty-pe", "x_y",
    // longer than 32 bytes (ASCII and not): lookups by `&str` and by `Identifier` must agree for every name
    "a_rather_long_attribute_name_of_more_than_32_bytes", "éééééééééééééééééééé", "Name"];
pub const SRC: &str = "x = f(1, y)\nq = a.b.c + g()() + 1\npass\n";

impl Op {
    pub fn coq(&self) -> String {
        match self {
            Op::AddNode => "OAddNode".into(),
            Op::AddEdge(a, b) => format!("(OAddEdge {} {})", a, b),
            Op::GetEdge(a, b) => format!("(OGetEdge {} {})", a, b),
            Op::EdgeAttrAdd(a, b, k, v) => format!("(OEdgeAttrAdd {} {} {} {})", a, b, coq_str(k), v.coq()),
            Op::EdgeAttrGet(a, b, k) => format!("(OEdgeAttrGet {} {} {})", a, b, coq_str(k)),
            Op::NodeAttrAdd(a, k, v) => format!("(ONodeAttrAdd {} {} {})", a, coq_str(k), v.coq()),
            Op::NodeAttrGet(a, k) => format!("(ONodeAttrGet {} {})", a, coq_str(k)),
            Op::NodeAttrIter(a) => format!("(ONodeAttrIter {})", a),
            Op::EdgeAttrIter(a, b) => format!("(OEdgeAttrIter {} {})", a, b),
            Op::IterNodes => "OIterNodes".into(),
            Op::IterEdges(a) => format!("(OIterEdges {})", a),
            Op::NodeCount => "ONodeCount".into(),
            Op::EdgeCount(a) => format!("(OEdgeCount {})", a),
            Op::VarNested => "OVarNested".into(),
            Op::VarPop => "OVarPop".into(),
            Op::VarAdd(k, v) => format!("(OVarAdd {} {})", coq_str(k), v.coq()),
            Op::VarGet(k) => format!("(OVarGet {})", coq_str(k)),
            Op::VarRemove(k) => format!("(OVarRemove {})", coq_str(k)),
            Op::VarClear => "OVarClear".into(),
            Op::VarIsEmpty => "OVarIsEmpty".into(),
            Op::VarIter => "OVarIter".into(),
        }
    }
    pub fn json(&self) -> serde_json::Value {
        match self {
            Op::AddNode => json!(["AddNode"]),
            Op::AddEdge(a, b) => json!(["AddEdge", a, b]),
            Op::GetEdge(a, b) => json!(["GetEdge", a, b]),
            Op::EdgeAttrAdd(a, b, k, v) => json!(["EdgeAttrAdd", a, b, k, v.json()]),
            Op::EdgeAttrGet(a, b, k) => json!(["EdgeAttrGet", a, b, k]),
            Op::NodeAttrAdd(a, k, v) => json!(["NodeAttrAdd", a, k, v.json()]),
            Op::NodeAttrGet(a, k) => json!(["NodeAttrGet", a, k]),
            Op::NodeAttrIter(a) => json!(["NodeAttrIter", a]),
            Op::EdgeAttrIter(a, b) => json!(["EdgeAttrIter", a, b]),
            Op::IterNodes => json!(["IterNodes"]),
            Op::IterEdges(a) => json!(["IterEdges", a]),
            Op::NodeCount => json!(["NodeCount"]),
            Op::EdgeCount(a) => json!(["EdgeCount", a]),
            Op::VarNested => json!(["VarNested"]),
            Op::VarPop => json!(["VarPop"]),
            Op::VarAdd(k, v) => json!(["VarAdd", k, v.json()]),
            Op::VarGet(k) => json!(["VarGet", k]),
            Op::VarRemove(k) => json!(["VarRemove", k]),
            Op::VarClear => json!(["VarClear"]),
            Op::VarIsEmpty => json!(["VarIsEmpty"]),
            Op::VarIter => json!(["VarIter"]),
        }
    }
    pub fn from_json(j: &serde_json::Value) -> Op {
        let a = j.as_array().unwrap();
        let u = |i: usize| a[i].as_u64().unwrap() as u32;
        let s = |i: usize| a[i].as_str().unwrap().to_string();
        match a[0].as_str().unwrap() {
            "AddNode" => Op::AddNode, "AddEdge" => Op::AddEdge(u(1), u(2)), "GetEdge" => Op::GetEdge(u(1), u(2)),
            "EdgeAttrAdd" => Op::EdgeAttrAdd(u(1), u(2), s(3), GV::from_json(&a[4])), "EdgeAttrGet" => Op::EdgeAttrGet(u(1), u(2), s(3)),
            "NodeAttrAdd" => Op::NodeAttrAdd(u(1), s(2), GV::from_json(&a[3])), "NodeAttrGet" => Op::NodeAttrGet(u(1), s(2)),
            "NodeAttrIter" => Op::NodeAttrIter(u(1)), "EdgeAttrIter" => Op::EdgeAttrIter(u(1), u(2)), "IterNodes" => Op::IterNodes,
            "IterEdges" => Op::IterEdges(u(1)), "NodeCount" => Op::NodeCount, "EdgeCount" => Op::EdgeCount(u(1)),
            "VarNested" => Op::VarNested, "VarPop" => Op::VarPop, "VarAdd" => Op::VarAdd(s(1), GV::from_json(&a[2])),
            "VarGet" => Op::VarGet(s(1)), "VarRemove" => Op::VarRemove(s(1)), "VarClear" => Op::VarClear,
            "VarIsEmpty" => Op::VarIsEmpty, "VarIter" => Op::VarIter, x => panic!("bad op {}", x),
        }
    }
}
impl Res {
    pub fn coq(&self) -> String {
        let kv = |l: &Vec<(String, GV)>| coq_list(&l.iter().map(|(k, v)| format!("({}, {})", coq_str(k), v.coq())).collect::<Vec<_>>());
        match self {
            Res::Unit => "RUnit".into(),
            Res::Node(n) => format!("(RNode {})", n),
            Res::Bool(b) => format!("(RBool {})", coq_bool(*b)),
            Res::OptVal(v) => format!("(ROptVal {})", coq_opt(v.as_ref().map(|x| x.coq()))),
            Res::AddAttr(v) => format!("(RAddAttr {})", coq_opt(v.as_ref().map(|x| x.coq()))),
            Res::NoEdge => "RNoEdge".into(),
            Res::Attrs(l) => format!("(RAttrs {})", kv(l)),
            Res::Nodes(l) => format!("(RNodes {})", coq_list(&l.iter().map(|x| x.to_string()).collect::<Vec<_>>())),
            Res::Count(n) => format!("(RCount {})", n),
            Res::Skipped => "RSkipped".into(),
        }
    }
}

pub fn gen_ops(rng: &mut Rng, len: usize, n_syn: usize) -> Vec<Op> {
    let mut ops = Vec::new();
    let mut nodes: u32 = 0;
    let mut depth = 1;
    // a "hub" node gets many edges so that the small-vector spills (> 8 entries)
    let hub_mode = rng.chance(50);
    while ops.len() < len {
        let vg = ValGen { n_syn, n_graph: nodes, allow_syn_in_set: true };
        let name = rng.pick(NAMES).to_string();
        let nd = |rng: &mut Rng| -> u32 { if nodes == 0 { 0 } else if rng.chance(3) { nodes + rng.below(2) as u32 } else { rng.below(nodes as usize) as u32 } };
        let src = |rng: &mut Rng| -> u32 { if hub_mode && nodes > 0 && rng.chance(60) { 0 } else { nd(rng) } };
        let k = rng.below(100);
        // focused sequence: two DIFFERENT syntax nodes of the same kind starting at the same position assigned to one
        // attribute (a conflict), and both in one set (two elements)
        if nodes >= 1 && rng.chance(6) {
            let pairs = { let t = parse_python(SRC); let info = TreeInfo::new(&t, SRC); same_start_pairs(&info) };
            if !pairs.is_empty() {
                let (i, j) = *rng.pick(&pairs);
                let n = nd(rng);
                let (x, y) = if rng.chance(50) { (i, j) } else { (j, i) };
                ops.push(Op::NodeAttrAdd(n, "synpair".into(), GV::Syn(x)));
                ops.push(Op::NodeAttrAdd(n, "synpair".into(), GV::Syn(y)));
                ops.push(Op::NodeAttrGet(n, "synpair".into()));
                ops.push(Op::NodeAttrAdd(n, "synlist".into(), GV::List(vec![GV::Syn(x), GV::Syn(y)])));
                ops.push(Op::NodeAttrAdd(n, "synlist".into(), GV::List(vec![GV::Syn(y), GV::Syn(x)])));
                continue;
            }
        }
        // focused sequence: look an edge up mutably, insert a new edge right before it, look it up again
        if nodes >= 3 && rng.chance(4) {
            let a = src(rng);
            let c = 1 + rng.below(nodes as usize - 1) as u32;
            let vg2 = ValGen { n_syn, n_graph: nodes, allow_syn_in_set: true };
            ops.push(Op::AddEdge(a, c));
            ops.push(Op::EdgeAttrAdd(a, c, "k1".into(), vg2.gen(rng, 1)));
            ops.push(Op::AddEdge(a, c - 1));
            ops.push(Op::EdgeAttrAdd(a, c, "k2".into(), vg2.gen(rng, 1)));
            ops.push(Op::EdgeAttrGet(a, c, "k2".into()));
            ops.push(Op::EdgeAttrIter(a, c - 1));
            ops.push(Op::EdgeAttrIter(a, c));
            continue;
        }
        let op = if nodes < 3 || k < 10 { nodes += 1; Op::AddNode }
            else if k < 30 { Op::AddEdge(src(rng), nd(rng)) }
            else if k < 36 { Op::GetEdge(src(rng), nd(rng)) }
            else if k < 44 { Op::EdgeAttrAdd(src(rng), nd(rng), name, vg.gen(rng, 2)) }
            else if k < 48 { Op::EdgeAttrGet(src(rng), nd(rng), name) }
            else if k < 58 { Op::NodeAttrAdd(nd(rng), name, vg.gen(rng, 2)) }
            else if k < 62 { Op::NodeAttrGet(nd(rng), name) }
            else if k < 65 { Op::NodeAttrIter(nd(rng)) }
            else if k < 67 { Op::EdgeAttrIter(src(rng), nd(rng)) }
            else if k < 69 { Op::IterNodes }
            else if k < 74 { Op::IterEdges(src(rng)) }
            else if k < 75 { Op::NodeCount }
            else if k < 77 { Op::EdgeCount(src(rng)) }
            else if k < 80 { depth += 1; Op::VarNested }
            else if k < 82 { if depth > 1 { depth -= 1; } Op::VarPop }
            else if k < 89 { Op::VarAdd(name, vg.gen(rng, 2)) }
            else if k < 94 { Op::VarGet(name) }
            else if k < 96 { Op::VarRemove(name) }
            else if k < 97 { Op::VarClear }
            else if k < 98 { Op::VarIsEmpty }
            else { Op::VarIter };
        ops.push(op);
    }
    ops
}

fn sorted_attrs<'a, 't>(it: impl Iterator<Item = (&'a Identifier, &'a tree_sitter_graph::graph::Value)>, graph: &Graph<'t>, tree: &TreeInfo<'t>) -> Vec<(String, GV)> {
    let mut v: Vec<(String, GV)> = it.map(|(k, v)| (k.to_string(), GV::from_value(v, graph, tree))).collect();
    v.sort_by(|a, b| a.0.cmp(&b.0));
    v
}

/// Run the operations on the real containers.
pub fn run_impl<'t>(ops: &[Op], tree: &TreeInfo<'t>) -> Vec<Res> {
    let mut graph = Graph::new();
    let mut out = Vec::new();
    let root = Variables::new();
    run_vars(ops, 0, &mut graph, tree, root, &mut out, true);
    out
}

// returns the index after the op that popped this level (or ops.len())
fn run_vars<'a, 't>(ops: &[Op], mut i: usize, graph: &mut Graph<'t>, tree: &TreeInfo<'t>, mut vars: Variables<'a>, out: &mut Vec<Res>, is_root: bool) -> usize {
    while i < ops.len() {
        let op = &ops[i];
        i += 1;
        let nref = |g: &Graph<'t>, n: u32| g.iter_nodes().nth(n as usize);
        let r = match op {
            Op::AddNode => Res::Node(graph.add_graph_node().index() as u32),
            Op::AddEdge(a, b) => match (nref(graph, *a), nref(graph, *b)) {
                (Some(a), Some(b)) => Res::Bool(graph[a].add_edge(b).is_ok()),
                _ => Res::Skipped },
            Op::GetEdge(a, b) => match nref(graph, *a) {
                Some(ar) => Res::Bool(graph[ar].get_edge(fake_ref(graph, *b)).is_some()),
                None => Res::Skipped },
            Op::EdgeAttrAdd(a, b, k, v) => match nref(graph, *a) {
                Some(ar) => {
                    let val = v.to_value_checked(graph, tree);
                    let br = fake_ref(graph, *b);
                    match graph[ar].get_edge_mut(br) {
                        Some(e) => { let r = e.attributes.add(Identifier::from(k.as_str()), val); Res::AddAttr(r.err().map(|old| GV::from_value(&old, graph, tree))) }
                        None => Res::NoEdge } }
                None => Res::Skipped },
            Op::EdgeAttrGet(a, b, k) => match nref(graph, *a) {
                Some(ar) => match graph[ar].get_edge(fake_ref(graph, *b)) {
                    Some(e) => { let by_str = e.attributes.get(k.as_str()).is_some(); let r = e.attributes.get(&Identifier::from(k.as_str())).map(|v| GV::from_value(v, graph, tree)); if by_str != r.is_some() { Res::OptVal(Some(GV::Str("GET-BY-STR-DISAGREES-WITH-GET-BY-IDENTIFIER".into()))) } else { Res::OptVal(r) } }
                    None => Res::NoEdge },
                None => Res::Skipped },
            Op::NodeAttrAdd(a, k, v) => match nref(graph, *a) {
                Some(ar) => { let val = v.to_value_checked(graph, tree);
                    let r = graph[ar].attributes.add(Identifier::from(k.as_str()), val);
                    Res::AddAttr(r.err().map(|old| GV::from_value(&old, graph, tree))) }
                None => Res::Skipped },
            Op::NodeAttrGet(a, k) => match nref(graph, *a) {
                Some(ar) => { let by_str = graph[ar].attributes.get(k.as_str()).is_some(); let r = graph[ar].attributes.get(&Identifier::from(k.as_str())).map(|v| GV::from_value(v, graph, tree)); if by_str != r.is_some() { Res::OptVal(Some(GV::Str("GET-BY-STR-DISAGREES-WITH-GET-BY-IDENTIFIER".into()))) } else { Res::OptVal(r) } }
                None => Res::Skipped },
            Op::NodeAttrIter(a) => match nref(graph, *a) {
                Some(ar) => Res::Attrs(sorted_attrs(graph[ar].attributes.iter(), graph, tree)),
                None => Res::Skipped },
            Op::EdgeAttrIter(a, b) => match nref(graph, *a) {
                Some(ar) => match graph[ar].get_edge(fake_ref(graph, *b)) {
                    Some(e) => Res::Attrs(sorted_attrs(e.attributes.iter(), graph, tree)),
                    None => Res::NoEdge },
                None => Res::Skipped },
            Op::IterNodes => Res::Nodes(graph.iter_nodes().map(|n| n.index() as u32).collect()),
            Op::IterEdges(a) => match nref(graph, *a) {
                Some(ar) => Res::Nodes(graph[ar].iter_edges().map(|(s, _)| s.index() as u32).collect()),
                None => Res::Skipped },
            Op::NodeCount => Res::Count(graph.node_count()),
            Op::EdgeCount(a) => match nref(graph, *a) { Some(ar) => Res::Count(graph[ar].edge_count()), None => Res::Skipped },
            Op::VarNested => { out.push(Res::Unit); let nested = Variables::nested(&vars); i = run_vars(ops, i, graph, tree, nested, out, false); continue; }
            Op::VarPop => { if is_root { Res::Skipped } else { out.push(Res::Unit); return i; } }
            Op::VarAdd(k, v) => { let val = v.to_value_checked(graph, tree); Res::Bool(vars.add(Identifier::from(k.as_str()), val).is_ok()) }
            Op::VarGet(k) => Res::OptVal(vars.get(&Identifier::from(k.as_str())).map(|v| GV::from_value(v, graph, tree))),
            Op::VarRemove(k) => { vars.remove(&Identifier::from(k.as_str())); Res::Unit }
            Op::VarClear => { vars.clear(); Res::Unit }
            Op::VarIsEmpty => Res::Bool(vars.is_empty()),
            Op::VarIter => Res::Attrs(sorted_attrs(vars.iter(), graph, tree)),
        };
        out.push(r);
    }
    i
}

/// A GraphNodeRef for index `n` even when out of range (sink lookups never index the node vector).
/// GraphNodeRef has no public constructor: obtain it from a throw-away graph that is large enough.
fn fake_ref(_g: &Graph, n: u32) -> tree_sitter_graph::graph::GraphNodeRef {
    let mut tmp = Graph::new();
    let mut r = tmp.add_graph_node();
    for _ in 0..n { r = tmp.add_graph_node(); }
    r
}

impl GV {
    /// Graph-node references beyond the current node count are clamped to existing nodes by the generator.
    pub fn to_value_checked<'t>(&self, graph: &mut Graph<'t>, tree: &TreeInfo<'t>) -> tree_sitter_graph::graph::Value {
        self.to_value(graph, tree)
    }
}

pub fn make_case(ops: &[Op], tree: &TreeInfo) -> Case {
    let res = run_impl(ops, tree);
    let ops_coq = coq_list(&ops.iter().map(|o| o.coq()).collect::<Vec<_>>());
    let res_coq = coq_list(&res.iter().map(|r| r.coq()).collect::<Vec<_>>());
    let conflicts = res.iter().filter(|r| matches!(r, Res::AddAttr(Some(_)))).count();
    let readds = res.iter().filter(|r| matches!(r, Res::Bool(false))).count();
    let spill = ops.iter().filter(|o| matches!(o, Op::AddEdge(0, _))).count() > 8;
    let mut tags = vec![format!("len{}", ops.len() / 50 * 50)];
    if conflicts > 0 { tags.push("attr_conflict".into()); }
    if spill { tags.push("spill>8".into()); }
    if ops.iter().any(|o| matches!(o, Op::VarNested)) { tags.push("nested_vars".into()); }
    let replay = json!({"prop": "C17", "ops": ops.iter().map(|o| o.json()).collect::<Vec<_>>(), "impl": res.iter().map(|r| r.coq()).collect::<Vec<_>>()});
    Case {
        verdict: format!("c17_verdict {} {}", ops_coq, res_coq),
        detail: format!("crun cinit {}", ops_coq),
        key: fnv(&ops_coq),
        nontrivial: conflicts > 0 && readds > 0,
        tags, replay,
    }
}

pub fn gen(rng: &mut Rng, n: usize) -> Vec<Case> {
    let tree = parse_python(SRC);
    let info = TreeInfo::new(&tree, SRC);
    let mut cases = Vec::new();
    for i in 0..n {
        let len = if i % 10 == 0 { 200 } else { rng.range(5, 120) };
        let ops = gen_ops(rng, len, info.nodes.len());
        cases.push(make_case(&ops, &info));
    }
    cases
}

pub fn replay(j: &serde_json::Value) -> Case {
    let tree = parse_python(SRC);
    let info = TreeInfo::new(&tree, SRC);
    let ops: Vec<Op> = j["ops"].as_array().unwrap().iter().map(Op::from_json).collect();
    make_case(&ops, &info)
}
