//! Shared machinery for the execution streams: load a DSL file with the real loader, dump
//! AST/tree/matches, run the real interpreters under catch_unwind, canonical observations.
use crate::common::*;
use crate::dump::*;
use std::panic::{catch_unwind, AssertUnwindSafe};
use tree_sitter::Tree;
use tree_sitter_graph::ast::File;
use tree_sitter_graph::functions::Functions;
use tree_sitter_graph::graph::Graph;
use tree_sitter_graph::{CancellationError, CancellationFlag, ExecutionConfig, ExecutionError, Identifier, NoCancellation, Variables};

pub fn quiet_panics() {
    if std::env::var("TSGV_SHOWPANIC").is_err() { std::panic::set_hook(Box::new(|_| {})); }
}

pub fn load(dsl: &str) -> Result<File, String> {
    crate::common::note_input("load", &serde_json::json!({"dsl": dsl}));
    match catch_unwind(AssertUnwindSafe(|| File::from_str(tree_sitter_python::LANGUAGE.into(), dsl))) {
        Ok(Ok(f)) => Ok(f),
        Ok(Err(e)) => Err(format!("{:?}", e)),
        Err(_) => Err("PANIC".into()),
    }
}

#[derive(Clone, Debug, PartialEq)]
pub enum Obs {
    Ok(Vec<(Vec<(String, GV)>, Vec<(u32, Vec<(String, GV)>)>)>),
    Err(u32, String),       // root-cause variant code, debug text of the whole error
    Panic,
}
impl Obs {
    pub fn coq(&self) -> String {
        match self {
            Obs::Ok(g) => format!("(XOk {})", graph_obs_term(g)),
            Obs::Err(c, _) => format!("(XErr {})", c),
            Obs::Panic => "XPanic".into(),
        }
    }
    pub fn class(&self) -> &'static str { match self { Obs::Ok(_) => "ok", Obs::Err(_, _) => "err", Obs::Panic => "panic" } }
}

#[derive(Clone, Default)]
pub struct DebugCfg { pub on: bool }
pub const DLOC: &str = "dbg_loc";
pub const DVAR: &str = "dbg_var";
pub const DMATCH: &str = "dbg_match";

/// A flag that never signals in an ordinary run but ends a run that does not terminate: it signals after two million polls
/// (every loop of the interpreters polls), which turns a hang into an ordinary `Cancelled` outcome that the comparison with
/// the model reports together with the input.
pub struct WatchdogFlag { count: std::cell::Cell<u64> }
impl WatchdogFlag { pub fn new() -> WatchdogFlag { WatchdogFlag { count: std::cell::Cell::new(0) } } }
impl CancellationFlag for WatchdogFlag {
    fn check(&self, at: &'static str) -> Result<(), CancellationError> {
        self.count.set(self.count.get() + 1);
        if self.count.get() > 2_000_000 { return Err(CancellationError(at)); }
        Ok(())
    }
}

pub struct CountingFlag { pub count: std::cell::Cell<u64>, pub fail_from: Option<u64>, pub trace: std::cell::RefCell<Vec<&'static str>> }
impl CountingFlag {
    pub fn new(fail_from: Option<u64>) -> CountingFlag { CountingFlag { count: std::cell::Cell::new(0), fail_from, trace: std::cell::RefCell::new(Vec::new()) } }
}
impl CancellationFlag for CountingFlag {
    fn check(&self, at: &'static str) -> Result<(), CancellationError> {
        self.count.set(self.count.get() + 1);
        self.trace.borrow_mut().push(at);
        if let Some(k) = self.fail_from { if self.count.get() >= k { return Err(CancellationError(at)); } }
        Ok(())
    }
}

pub fn make_globals<'t>(supplied: &[(String, GV)], graph: &mut Graph<'t>, info: &TreeInfo<'t>) -> Variables<'static> {
    let mut g = Variables::new();
    for (k, v) in supplied { let _ = g.add(Identifier::from(k.as_str()), v.to_value(graph, info)); }
    g
}
pub fn globals_term(supplied: &[(String, GV)]) -> String {
    format!("[{}]", attrs_term(supplied))
}

/// Execute with the real library into `graph`. Returns the observation of the resulting graph.
pub fn execute<'t>(file: &File, tree: &'t Tree, info: &TreeInfo<'t>, graph: &mut Graph<'t>, supplied: &[(String, GV)],
                   lazy: bool, debug: bool, flag: &dyn CancellationFlag) -> Obs {
    let r = catch_unwind(AssertUnwindSafe(|| {
        let globals = make_globals(supplied, graph, info);
        let functions = Functions::stdlib();
        let mut config = ExecutionConfig::new(&functions, &globals).lazy(lazy);
        if debug { config = config.debug_attributes(Identifier::from(DLOC), Identifier::from(DVAR), Identifier::from(DMATCH)); }
        file.execute_into(graph, tree, info.src, &config, flag)
    }));
    match r {
        Ok(Ok(())) => Obs::Ok(graph_obs(graph, info)),
        Ok(Err(e)) => Obs::Err(error_code(root_cause(&e)), format!("{:?}", e)),
        Err(_) => Obs::Panic,
    }
}
pub fn execute_fresh<'t>(file: &File, tree: &'t Tree, info: &TreeInfo<'t>, supplied: &[(String, GV)], lazy: bool, debug: bool) -> Obs {
    let mut graph = Graph::new();
    execute(file, tree, info, &mut graph, supplied, lazy, debug, &WatchdogFlag::new())
}

/// Per-stanza raw matches (stanza queries) as a Coq term `list (list qmatch)`.
pub fn stanza_matches_term(file: &File, tree: &Tree, info: &TreeInfo) -> (String, usize) {
    let mut total = 0;
    let per: Vec<String> = file.stanzas.iter().map(|st| {
        let ms = raw_matches(&st.query, tree, info);
        total += ms.len();
        coq_list(&ms.iter().map(|(_, caps)| qmatch_term(caps)).collect::<Vec<_>>())
    }).collect();
    (coq_list(&per), total)
}
/// Raw matches of the merged file query: `list (N * qmatch)` (pattern index, captures by file index).
pub fn file_matches_term(file: &File, tree: &Tree, info: &TreeInfo) -> String {
    let q = file.query.as_ref().expect("file query");
    let ms = raw_matches(q, tree, info);
    coq_list(&ms.iter().map(|(p, caps)| format!("({}, {})", p, qmatch_term(caps))).collect::<Vec<_>>())
}

pub fn err_text(e: &ExecutionError) -> String { format!("{:?}", e) }
