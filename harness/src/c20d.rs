//! C20d: the `Display` impls of ast.rs (statement texts of error contexts, property C20) against Model/AstDisplay.v.
//! Direct sweep: a generated DSL text is parsed by the real parser; the REAL AST is walked (stanza order, preorder,
//! arms in order) and `format!("{}", ..)` of every statement at any depth, every scan arm and every attribute
//! shorthand is compared with `display_stmt` / `display_scan_arm` / `display_shorthand` of the dumped AST.
use crate::common::*;
use crate::dump::AstDump;
use crate::rng::Rng;
use serde_json::json;
use std::collections::BTreeSet;
use std::panic::{catch_unwind, AssertUnwindSafe};
use tree_sitter_graph::ast;

/// truth table of `<str as Debug>` for the non-ASCII characters of `texts`: printed verbatim (true) or as \u{..}
pub fn print_table(texts: &[&str]) -> String {
    let mut chars: BTreeSet<char> = BTreeSet::new();
    for t in texts { for c in t.chars() { if !c.is_ascii() { chars.insert(c); } } }
    coq_list(&chars.iter().map(|c| format!("({}, {})", *c as u32, coq_bool(format!("{:?}", c.to_string()).chars().count() == 3))).collect::<Vec<_>>())
}

pub struct Walk { pub stmts: Vec<String>, pub arms: Vec<(String, String)>, pub kinds: BTreeSet<&'static str>, pub nested: usize, pub strings: Vec<String> }

fn walk_expr(e: &ast::Expression, w: &mut Walk, depth: usize) {
    use ast::Expression as E;
    match e {
        E::StringConstant(c) => w.strings.push(c.value.clone()),
        E::ListLiteral(l) => { w.kinds.insert("expr:list"); for x in &l.elements { walk_expr(x, w, depth) } }
        E::SetLiteral(l) => { w.kinds.insert("expr:set"); for x in &l.elements { walk_expr(x, w, depth) } }
        E::ListComprehension(c) => { w.kinds.insert(if depth > 0 { "expr:nested_comprehension" } else { "expr:list_comprehension" }); walk_expr(&c.element, w, depth + 1); walk_expr(&c.value, w, depth + 1) }
        E::SetComprehension(c) => { w.kinds.insert(if depth > 0 { "expr:nested_comprehension" } else { "expr:set_comprehension" }); walk_expr(&c.element, w, depth + 1); walk_expr(&c.value, w, depth + 1) }
        E::Variable(ast::Variable::Scoped(v)) => { w.kinds.insert("expr:scoped"); walk_expr(&v.scope, w, depth) }
        E::Variable(ast::Variable::Unscoped(_)) => { w.kinds.insert("expr:unscoped"); }
        E::Call(c) => { w.kinds.insert("expr:call"); for x in &c.parameters { walk_expr(x, w, depth) } }
        E::Capture(_) => { w.kinds.insert("expr:capture"); }
        E::RegexCapture(_) => { w.kinds.insert("expr:regex_capture"); }
        E::IntegerConstant(_) => { w.kinds.insert("expr:int"); }
        E::FalseLiteral | E::TrueLiteral | E::NullLiteral => { w.kinds.insert("expr:literal"); }
    }
}
fn walk_var(v: &ast::Variable, w: &mut Walk) { if let ast::Variable::Scoped(s) = v { w.kinds.insert("var:scoped"); walk_expr(&s.scope, w, 0) } }
fn walk_attrs(a: &[ast::Attribute], w: &mut Walk) { if a.len() >= 2 { w.kinds.insert("attrs:2+"); } for x in a { walk_expr(&x.value, w, 0) } }

/// the traversal of Model/AstDisplay.v `block_stmts`: each statement, then the statements nested in it
pub fn walk_stmts(stmts: &[ast::Statement], w: &mut Walk, depth: usize) {
    use ast::Statement as S;
    for s in stmts {
        w.stmts.push(format!("{}", s));
        if depth > 0 { w.nested += 1; }
        match s {
            S::DeclareImmutable(d) => { w.kinds.insert("stmt:let"); walk_var(&d.variable, w); walk_expr(&d.value, w, 0) }
            S::DeclareMutable(d) => { w.kinds.insert("stmt:var"); walk_var(&d.variable, w); walk_expr(&d.value, w, 0) }
            S::Assign(d) => { w.kinds.insert("stmt:set"); walk_var(&d.variable, w); walk_expr(&d.value, w, 0) }
            S::CreateGraphNode(d) => { w.kinds.insert("stmt:node"); walk_var(&d.node, w) }
            S::AddGraphNodeAttribute(d) => { w.kinds.insert("stmt:attr_node"); walk_expr(&d.node, w, 0); walk_attrs(&d.attributes, w) }
            S::CreateEdge(d) => { w.kinds.insert("stmt:edge"); walk_expr(&d.source, w, 0); walk_expr(&d.sink, w, 0) }
            S::AddEdgeAttribute(d) => { w.kinds.insert("stmt:attr_edge"); walk_expr(&d.source, w, 0); walk_expr(&d.sink, w, 0); walk_attrs(&d.attributes, w) }
            S::Print(d) => { w.kinds.insert(if d.values.is_empty() { "stmt:print_empty" } else { "stmt:print" }); for x in &d.values { walk_expr(x, w, 0) } }
            S::Scan(d) => {
                w.kinds.insert("stmt:scan");
                walk_expr(&d.value, w, 0);
                for a in &d.arms {
                    w.arms.push((a.regex.as_str().to_string(), format!("{}", a)));
                    walk_stmts(&a.statements, w, depth + 1);
                }
            }
            S::If(d) => {
                w.kinds.insert("stmt:if");
                for (i, a) in d.arms.iter().enumerate() {
                    if i > 0 { w.kinds.insert(if a.conditions.is_empty() { "if:else" } else { "if:elif" }); }
                    if a.conditions.len() >= 2 { w.kinds.insert("if:conditions2+"); }
                    for c in &a.conditions {
                        match c {
                            ast::Condition::Some { value, .. } => { w.kinds.insert("cond:some"); walk_expr(value, w, 0) }
                            ast::Condition::None { value, .. } => { w.kinds.insert("cond:none"); walk_expr(value, w, 0) }
                            ast::Condition::Bool { value, .. } => { w.kinds.insert("cond:bool"); walk_expr(value, w, 0) }
                        }
                    }
                    walk_stmts(&a.statements, w, depth + 1);
                }
            }
            S::ForIn(d) => { w.kinds.insert("stmt:for"); walk_expr(&d.value, w, 0); walk_stmts(&d.statements, w, depth + 1) }
        }
    }
}

fn parse_only(text: &str) -> Option<ast::File> {
    let r = catch_unwind(AssertUnwindSafe(|| {
        let mut f = ast::File::new(tree_sitter_python::LANGUAGE.into());
        #[allow(deprecated)]
        let r = f.parse(text);
        r.ok().map(|_| f)
    }));
    match r { Ok(Some(f)) => Some(f), _ => None }
}

pub fn c20d_case(text: &str, source: &str) -> Option<Case> {
    let file = parse_only(text)?;
    let mut w = Walk { stmts: Vec::new(), arms: Vec::new(), kinds: BTreeSet::new(), nested: 0, strings: Vec::new() };
    for st in &file.stanzas { walk_stmts(&st.statements, &mut w, 0); }
    let mut shs: Vec<&ast::AttributeShorthand> = file.shorthands.iter().collect();
    shs.sort_by(|a, b| a.name.as_str().cmp(b.name.as_str()));          // the order of AstDump::file
    let sh_texts: Vec<String> = shs.iter().map(|s| format!("{}", s)).collect();
    for s in &shs { walk_attrs(&s.attributes, &mut w); }
    let mut d = AstDump::new();
    let file_t = d.file(&file);
    let mut all: Vec<&str> = vec![text];
    for (p, _) in &w.arms { all.push(p); }
    let print = print_table(&all);
    let verdict = format!("c20d_verdict {} ({}) {} {} {}", print, file_t,
        coq_list(&w.stmts.iter().map(|s| coq_str(s)).collect::<Vec<_>>()),
        coq_list(&w.arms.iter().map(|(p, t)| format!("({}, {})", coq_str(p), coq_str(t))).collect::<Vec<_>>()),
        coq_list(&sh_texts.iter().map(|s| coq_str(s)).collect::<Vec<_>>()));
    // property level, judged on the real text alone: the statement text is ONE line (no control character at all)
    let control_in_text = w.stmts.iter().any(|t| t.chars().any(|c| (c as u32) < 0x20));
    let verdict = if control_in_text { "72".to_string() } else { verdict };
    let detail = format!("c20d_detail {} ({})", print, file_t);
    let mut tags: Vec<String> = w.kinds.iter().map(|k| k.to_string()).collect();
    tags.push(source.to_string());
    let strs: Vec<&String> = w.strings.iter().chain(w.arms.iter().map(|(p, _)| p)).collect();
    let non_ascii = strs.iter().any(|s| !s.is_ascii());
    let escaped_non_ascii = strs.iter().any(|s| s.chars().any(|c| !c.is_ascii() && format!("{:?}", c.to_string()).chars().count() != 3));
    let quote = strs.iter().any(|s| s.contains('"'));
    let backslash = strs.iter().any(|s| s.contains('\\'));
    let newline = strs.iter().any(|s| s.contains('\n'));
    let control = strs.iter().any(|s| s.chars().any(|c| (c as u32) < 32 && c != '\n' || c == '\u{7f}'));
    if non_ascii { tags.push("string:non_ascii".into()); }
    if escaped_non_ascii { tags.push("string:non_ascii_escaped_by_debug".into()); }
    if quote { tags.push("string:quote".into()); }
    if backslash { tags.push("string:backslash".into()); }
    if newline { tags.push("string:newline".into()); }
    if control { tags.push("string:control".into()); }
    if !w.arms.is_empty() { tags.push("scan_arms".into()); }
    if !sh_texts.is_empty() { tags.push("shorthands".into()); }
    tags.push(format!("statements:{}", match w.stmts.len() { 0 => "0", 1..=5 => "1-5", 6..=20 => "6-20", _ => "21+" }));
    tags.push(format!("nested_statements:{}", w.nested > 0));
    let replay = json!({"prop": "C20d", "text": text, "source": source,
        "impl": {"statements": w.stmts, "arms": w.arms.iter().map(|(_, t)| t.clone()).collect::<Vec<_>>(), "shorthands": sh_texts}});
    Some(Case { verdict, detail, key: fnv(text), nontrivial: w.nested > 0 && (non_ascii || quote || backslash || newline || control), tags, replay })
}

/// hand-written programs: every statement kind, every expression kind, characters that `<str as Debug>` escapes
/// (controls, DEL, Grapheme_Extend U+0301, format U+200B / U+FEFF, separators U+2028, no-break space, private use)
const FIXED: &[&str] = &[
    "(module) @m {\n  let x = \"a\"\n  var y = [1, #true, #false, #null]\n  set y = {x, \"b\"}\n  node n\n  attr (n) k = 1, l = \"two\", m\n  edge n -> n\n  attr (n -> n) e = $0, f\n  print x, y, \"z\"\n  print \"\"\n}\n",
    "(module) @m {\n  node @m.n\n  let @m.v = (plus 1 2)\n  var @m.n.w = [ (f a) for a in [ b for b in @m.v ] ]\n  attr (@m.n) s = { {c} for c in {1, 2} }\n  edge @m.n -> @m.n.w.z\n}\n",
    "(module) @m {\n  if some @m, none x, (f) {\n    print 1\n  } elif #true {\n    print 2\n  } elif some y {\n    if none z { print 3 }\n  } else {\n    for q in [1] { scan \"s\" { \"a(b)\" { print $1 } \"\\\\d\" { let w = $0 } } }\n  }\n}\n",
    "(module) @m {\n  let a = \"q\\\"uote\"\n  let b = \"back\\\\slash\"\n  let c = \"nl\\nline\"\n  let d = \"tab\\there\\rcr\\0nul\"\n  let e = \"'single' {brace} [x]\"\n  scan a { \"\\\"\" { print \"\\\"\\\"\" } \"\\n|\\t\" { print a } }\n}\n",
    "(module) @m {\n  let a = \"h\u{e9}llo \u{65e5}\u{672c} \u{1F600}\"\n  let b = \"e\u{301} zw\u{200b}sp bom\u{feff} ls\u{2028} nb\u{a0}sp pu\u{e000} del\u{7f} c1\u{85} bell\u{7}\"\n  let \u{e9} = (\u{e9} \"\u{e9}\")\n  attr (a) \u{e9} = \"\u{301}\"\n  scan b { \"\u{e9}+\u{301}\" { print \"\u{200d}\" } }\n}\n",
    "attribute sh = v => a = v, b = \"x\\ny\", c\nattribute \u{e9} = w => d = [w, \"\u{301}\"]\n(module) @m {\n  node n\n  attr (n) sh = 1, \u{e9} = 2\n}\n",
    "(module) @m {\n  print 0, 4294967295, $18446744073709551615, @m, true, false, null\n  let true = #true\n  print true, #true, \"true\"\n  print [], {}, [[]], {[]}, (f), (f (g) [ (h) ])\n}\n",
];

pub fn gen(rng: &mut Rng, n: usize) -> Vec<Case> {
    crate::exec::quiet_panics();
    let mut out = Vec::new();
    for t in FIXED.iter().take(n) {
        match c20d_case(t, "src:fixed") {
            Some(c) => out.push(c),
            // never dropped silently: a hand-written program that does not parse is a defect of this file
            None => out.push(Case { verdict: "70".into(), detail: "0".into(), key: fnv(t), nontrivial: false, tags: vec!["FIXED-PROGRAM-DOES-NOT-PARSE".into()],
                                    replay: json!({"prop": "C20d", "text": t, "source": "src:fixed"}) }),
        }
    }
    let mut tries = 0;
    while out.len() < n && tries < n * 40 {
        tries += 1;
        let (text, source) = if rng.chance(25) {
            (crate::c01::gen_input(rng, &crate::gen::GenOpts::full()).dsl, "src:exec_generator")
        } else { crate::c07::gen_valid_text(rng) };
        if let Some(c) = c20d_case(&text, source) { out.push(c); }
    }
    out
}

pub fn replay(j: &serde_json::Value) -> Case {
    crate::exec::quiet_panics();
    let text = j["text"].as_str().unwrap_or("");
    c20d_case(text, j["source"].as_str().unwrap_or("replay")).expect("replayed text parses")
}
