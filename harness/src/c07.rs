//! C07 / C05p — the parser (parser.rs) against Model/Parser.v.
//!
//! Stream "C07": valid programs in random layouts (re-laid-out `gen::gen_program` texts and an
//! AST-directed generator that knows the intended AST including every location).
//! Stream "C05p": malformed texts (token-/character-level mutations and hand-written edge cases).
//!
//! Per case the harness runs the real `ast::File::parse` (parser only) under catch_unwind + a wall clock
//! and writes: the text, the Unicode classes of its non-ASCII characters, tree-sitter's verdict for
//! every query span, the merged file query, the validity of every scan pattern (all found by an
//! untrusted structure-only PREDICTOR, a port of parser.rs that builds no AST), and the observation.
use crate::common::*;
use crate::dump::AstDump;
use crate::gen::{self, GenOpts};
use crate::rng::Rng;
use serde_json::json;
use std::cell::RefCell;
use std::collections::{BTreeSet, HashMap};
use std::panic::{catch_unwind, AssertUnwindSafe};
use tree_sitter::{CaptureQuantifier, Language, Query};
use tree_sitter_graph::{ast, ParseError};

const FULL: &str = "@__tsg__full_match";
const MAX_TEXT: usize = 1500;

fn lang() -> Language { tree_sitter_python::LANGUAGE.into() }
fn is_ident_start(c: char) -> bool { c == '_' || c.is_alphabetic() }
fn is_ident(c: char) -> bool { c == '_' || c == '-' || c.is_alphanumeric() }

// ---------------------------------------------------------------- tree-sitter / regex oracles
#[derive(Clone, Debug)]
enum QV { Ok(usize, Option<u32>), Err(usize, usize, usize) }
impl QV {
    fn coq(&self) -> String {
        match self {
            QV::Ok(n, i) => format!("QOk {} {}", n, coq_opt(i.map(|x| x.to_string()))),
            QV::Err(r, c, o) => format!("QErr {} {} {}", r, c, o),
        }
    }
}
thread_local! {
    static QCACHE: RefCell<HashMap<String, QV>> = RefCell::new(HashMap::new());
    static MCACHE: RefCell<HashMap<String, bool>> = RefCell::new(HashMap::new());
}
/// tree-sitter's verdict on `src` (which already ends in the full-match suffix)
fn query_verdict(src: &str) -> QV {
    if let Some(v) = QCACHE.with(|c| c.borrow().get(src).cloned()) { return v; }
    // tree-sitter 0.24.7 panics while BUILDING the QueryError for an unknown name at offset 0 of the source (it reads the
    // byte before the offset): the oracle asks behind a newline and takes it off the reported position again
    let v = match Query::new(&lang(), &format!("\n{}", src)) {
        Ok(q) => QV::Ok(q.pattern_count(), q.capture_index_for_name(&FULL[1..])),
        Err(e) => QV::Err(e.row.saturating_sub(1), e.column, e.offset.saturating_sub(1)),
    };
    QCACHE.with(|c| c.borrow_mut().insert(src.to_string(), v.clone()));
    v
}
fn merged_ok(src: &str) -> bool {
    if let Some(v) = MCACHE.with(|c| c.borrow().get(src).cloned()) { return v; }
    let v = Query::new(&lang(), &format!("\n{}", src)).is_ok();
    MCACHE.with(|c| c.borrow_mut().insert(src.to_string(), v));
    v
}

// ---------------------------------------------------------------- tokens
#[derive(Clone, Copy, PartialEq, Debug)]
pub enum TC { Word, Str, Pat, Int, Lit, Cap, RCap, Punct, Query, Quant }
#[derive(Clone, Copy, PartialEq, Debug)]
/// BareName: the name of a global without quantifier character - any gap (also none) may follow, but the next
/// character must neither continue the name nor be `?` `*` `+` (it would be taken for the quantifier)
pub enum Glue { Free, NoGap, BareName }
#[derive(Clone, Debug)]
pub struct Tok { text: String, class: TC, glue: Glue }
fn pk<'a>(rng: &mut Rng, xs: &[&'a str]) -> &'a str { xs[rng.below(xs.len())] }
fn tk(text: &str, class: TC) -> Tok { Tok { text: text.to_string(), class, glue: Glue::Free } }

const KEYWORDS: &[&str] = &["attribute", "global", "inherit", "let", "var", "set", "node", "edge", "attr", "print", "scan",
    "if", "elif", "else", "for", "in", "some", "none"];

// ---------------------------------------------------------------- the predictor (structure-only port of parser.rs)
#[derive(Clone, Copy, PartialEq)]
enum EK { Unscoped, Scoped, Other }
type R<T> = Result<T, ()>;

struct Pred {
    cs: Vec<char>,
    offs: Vec<usize>,          // byte offset of every character index (len + 1 entries)
    i: usize,
    queries: Vec<(usize, usize, QV)>,
    regexes: Vec<(String, bool)>,
    merged: String,
    complete: bool,
    toks: Vec<Tok>,
    mute: usize,
    tags: BTreeSet<String>,
    n_stmts: usize,
}

impl Pred {
    fn run(text: &str) -> Pred {
        let cs: Vec<char> = text.chars().collect();
        let mut offs = Vec::with_capacity(cs.len() + 1);
        let mut o = 0;
        for c in &cs { offs.push(o); o += c.len_utf8(); }
        offs.push(o);
        let mut p = Pred { cs, offs, i: 0, queries: vec![], regexes: vec![], merged: String::new(), complete: false,
                           toks: vec![], mute: 0, tags: BTreeSet::new(), n_stmts: 0 };
        if p.file().is_ok() { p.complete = true; }
        p
    }
    fn tag(&mut self, t: &str) { if !self.tags.contains(t) { self.tags.insert(t.to_string()); } }
    fn slice(&self, a: usize, b: usize) -> String { self.cs[a..b].iter().collect() }
    fn push_tok(&mut self, a: usize, b: usize, class: TC) {
        if self.mute == 0 { let text = self.slice(a, b); self.toks.push(Tok { text, class, glue: Glue::Free }); }
    }
    fn peek(&self) -> R<char> { self.cs.get(self.i).copied().ok_or(()) }
    fn try_peek(&self) -> Option<char> { self.cs.get(self.i).copied() }
    fn next(&mut self) -> R<char> { let c = self.peek()?; self.i += 1; Ok(c) }
    fn ws(&mut self) {
        let mut in_comment = false;
        while let Some(ch) = self.try_peek() {
            if in_comment {
                if ch == '\n' { in_comment = false; }
                if !ch.is_ascii() { self.tag("multibyte-in-comment"); }
            } else if ch == ';' { in_comment = true; self.tag("comment"); }
            else if !ch.is_whitespace() { return; }
            else if ch == '\t' { self.tag("tab"); }
            else if ch == '\r' { self.tag("cr"); }
            self.i += 1;
        }
    }
    fn starts(&self, t: &str) -> bool {
        let mut k = self.i;
        for c in t.chars() { if self.cs.get(k) != Some(&c) { return false; } k += 1; }
        true
    }
    /// consume_token: PREFIX match
    fn token(&mut self, t: &str) -> R<()> {
        if !self.starts(t) { return Err(()); }
        let a = self.i;
        self.i += t.chars().count();
        let class = if t.chars().next().map_or(false, |c| c.is_alphabetic()) { TC::Word } else { TC::Punct };
        self.push_tok(a, self.i, class);
        Ok(())
    }
    fn keyword(&mut self, t: &str) -> R<()> {
        if !self.starts(t) { return Err(()); }
        if let Some(c) = self.cs.get(self.i + t.chars().count()) { if is_ident(*c) { return Err(()); } }
        self.token(t)
    }
    fn name(&mut self) -> R<String> {
        let a = self.i;
        let ch = self.next()?;
        if !is_ident_start(ch) { return Err(()); }
        while let Some(c) = self.try_peek() { if !is_ident(c) { break; } self.i += 1; }
        self.push_tok(a, self.i, TC::Word);
        Ok(self.slice(a, self.i))
    }
    fn kwprefix(&mut self, n: &str) {
        if KEYWORDS.iter().any(|k| n.starts_with(k) && n.len() > k.len()) { self.tag("kwprefix-ident"); }
        if !n.is_ascii() { self.tag("multibyte-ident"); }
    }
    fn string(&mut self, class: TC) -> R<String> {
        let a = self.i;
        self.mute += 1;
        let r = self.string_body();
        self.mute -= 1;
        let v = r?;
        self.push_tok(a, self.i, class);
        let raw = self.slice(a, self.i);
        if !raw.is_ascii() { self.tag("multibyte-in-string"); }
        if raw.contains('\n') { self.tag("raw-newline-in-string"); }
        if raw.contains('\\') { self.tag("string-escape"); }
        Ok(v)
    }
    fn string_body(&mut self) -> R<String> {
        self.token("\"")?;
        let mut escape = false;
        let mut value = String::new();
        loop {
            let ch = self.next()?;
            if escape {
                escape = false;
                value.push(match ch { '0' => '\0', 'n' => '\n', 'r' => '\r', 't' => '\t', c => c });
            } else {
                match ch { '"' => return Ok(value), '\\' => escape = true, c => value.push(c) }
            }
        }
    }

    // ---- expressions
    fn expression(&mut self) -> R<EK> {
        let c = self.peek()?;
        let mut k = EK::Other;
        match c {
            '#' => {
                let a = self.i;
                self.mute += 1;
                let r = self.token("#").and_then(|_| self.name());
                self.mute -= 1;
                let n = r?;
                if n != "false" && n != "null" && n != "true" { return Err(()); }
                self.push_tok(a, self.i, TC::Lit);
                self.tag("expr:literal");
            }
            '"' => { self.string(TC::Str)?; self.tag("expr:string"); }
            '@' => {
                let a = self.i;
                self.i += 1;
                let ch = self.next()?;
                if !is_ident_start(ch) { return Err(()); }
                while let Some(c) = self.try_peek() { if !is_ident(c) { break; } self.i += 1; }
                self.push_tok(a, self.i, TC::Cap);
                self.tag("expr:capture");
            }
            '$' => {
                let a = self.i;
                self.i += 1;
                let s = self.i;
                while let Some(c) = self.try_peek() { if !c.is_ascii_digit() { break; } self.i += 1; }
                if s == self.i { return Err(()); }
                if usize::from_str_radix(&self.slice(s, self.i), 10).is_err() { return Err(()); }
                self.push_tok(a, self.i, TC::RCap);
                self.tag("expr:regexcap");
            }
            '(' => {
                self.token("(")?;
                self.ws();
                let f = self.name()?;
                self.kwprefix(&f);
                self.ws();
                let mut n = 0;
                while self.peek()? != ')' { self.expression()?; self.ws(); n += 1; }
                self.token(")")?;
                self.tag(&format!("expr:call/{}", if n > 3 { 3 } else { n }));
            }
            '[' => self.collection("[", "]", ']', "list")?,
            '{' => self.collection("{", "}", '}', "set")?,
            c if c.is_ascii_digit() => {
                let a = self.i;
                while let Some(c) = self.try_peek() { if !c.is_ascii_digit() { break; } self.i += 1; }
                let s = self.slice(a, self.i);
                if u32::from_str_radix(&s, 10).is_err() { return Err(()); }
                self.push_tok(a, self.i, TC::Int);
                self.tag("expr:int");
                if s.len() > 1 && s.starts_with('0') { self.tag("int-leading-zero"); }
            }
            c if is_ident_start(c) => { let n = self.name()?; self.kwprefix(&n); k = EK::Unscoped; self.tag("expr:unscoped"); }
            _ => return Err(()),
        }
        self.ws();
        while self.try_peek() == Some('.') {
            self.i += 1;
            self.push_tok(self.i - 1, self.i, TC::Punct);
            self.ws();
            let n = self.name()?;
            self.kwprefix(&n);
            self.ws();
            if k == EK::Scoped { self.tag("expr:scoped-chain"); }
            k = EK::Scoped;
            self.tag("expr:scoped");
        }
        Ok(k)
    }
    fn collection(&mut self, open: &str, close: &str, close_ch: char, what: &str) -> R<()> {
        self.token(open)?;
        self.ws();
        if self.token(close).is_ok() { self.tag(&format!("expr:{}-empty", what)); return Ok(()); }
        self.expression()?;
        self.ws();
        if self.token(close).is_ok() { self.tag(&format!("expr:{}", what)); return Ok(()); }
        if self.token(",").is_ok() {
            self.ws();
            if self.try_peek() == Some(close_ch) { self.tag("trailing-comma"); }
            while self.peek()? != close_ch {
                self.expression()?;
                self.ws();
                if self.peek()? != close_ch {
                    self.token(",")?;
                    self.ws();
                    if self.try_peek() == Some(close_ch) { self.tag("trailing-comma"); }
                }
            }
            self.ws();
            self.token(close)?;
            self.tag(&format!("expr:{}", what));
            Ok(())
        } else {
            self.token("for")?;
            self.ws();
            self.unscoped_variable()?;
            self.ws();
            self.token("in")?;
            self.ws();
            self.expression()?;
            self.ws();
            self.token(close)?;
            self.tag(&format!("expr:{}comp", what));
            Ok(())
        }
    }
    fn variable(&mut self) -> R<EK> { match self.expression()? { EK::Other => Err(()), k => Ok(k) } }
    fn unscoped_variable(&mut self) -> R<()> { match self.variable()? { EK::Unscoped => Ok(()), _ => Err(()) } }

    // ---- attributes, conditions
    fn attribute(&mut self) -> R<()> {
        let n = self.name()?;
        self.kwprefix(&n);
        self.ws();
        if self.try_peek() == Some('=') { self.token("=")?; self.ws(); self.expression()?; } else { self.tag("bare-attr"); }
        Ok(())
    }
    fn attributes(&mut self) -> R<()> {
        self.attribute()?;
        self.ws();
        while self.try_peek() == Some(',') {
            self.token(",")?;
            self.ws();
            self.attribute()?;
            self.ws();
            self.tag("attrs:many");
        }
        Ok(())
    }
    fn condition(&mut self) -> R<()> {
        if self.keyword("some").is_ok() { self.ws(); self.expression()?; self.tag("cond:some"); }
        else if self.keyword("none").is_ok() { self.ws(); self.expression()?; self.tag("cond:none"); }
        else { self.expression()?; self.ws(); self.tag("cond:bool"); }
        self.ws();
        Ok(())
    }
    fn conditions(&mut self) -> R<()> {
        let mut n = 0;
        loop {
            self.condition()?;
            n += 1;
            self.ws();
            if self.try_peek() == Some(',') { self.token(",")?; self.ws(); } else { break; }
        }
        self.tag(&format!("conds={}", if n > 3 { 3 } else { n }));
        Ok(())
    }

    // ---- statements
    fn statements(&mut self, depth: usize) -> R<()> {
        self.token("{")?;
        self.ws();
        while self.peek()? != '}' { self.statement(depth)?; self.ws(); }
        self.token("}")
    }
    fn assignment_tail(&mut self) -> R<()> {
        if self.variable()? == EK::Scoped { self.tag("assign:scoped"); }
        self.ws();
        self.token("=")?;
        self.ws();
        self.expression()?;
        Ok(())
    }
    fn statement(&mut self, depth: usize) -> R<()> {
        let kw = self.name()?;
        self.ws();
        self.tag(&format!("depth={}", depth.min(6)));
        match kw.as_str() {
            "let" | "var" | "set" => self.assignment_tail()?,
            "node" => { self.variable()?; }
            "edge" => { self.expression()?; self.ws(); self.token("->")?; self.ws(); self.expression()?; }
            "attr" => {
                self.token("(")?;
                self.ws();
                self.expression()?;
                self.ws();
                if self.peek()? == '-' {
                    self.token("->")?;
                    self.ws();
                    self.expression()?;
                    self.ws();
                    self.token(")")?;
                    self.ws();
                    self.attributes()?;
                    self.tag("stmt:attr-edge");
                } else {
                    self.ws();
                    self.token(")")?;
                    self.ws();
                    self.attributes()?;
                    self.tag("stmt:attr-node");
                }
            }
            "print" => {
                self.expression()?;
                self.ws();
                let mut n = 1;
                while self.try_peek() == Some(',') { self.token(",")?; self.ws(); self.expression()?; self.ws(); n += 1; }
                self.ws();
                self.tag(&format!("print/{}", if n > 3 { 3 } else { n }));
            }
            "scan" => {
                self.expression()?;
                self.ws();
                self.token("{")?;
                self.ws();
                let mut n = 0;
                while self.peek()? != '}' {
                    let pat = self.string(TC::Pat)?;
                    let ok = regex::Regex::new(&pat).is_ok();
                    if !self.regexes.iter().any(|(p, _)| *p == pat) { self.regexes.push((pat, ok)); }
                    if !ok { return Err(()); }
                    self.ws();
                    self.statements(depth + 1)?;
                    self.ws();
                    n += 1;
                }
                self.token("}")?;
                self.tag(&format!("scan-arms={}", if n > 3 { 3 } else { n }));
            }
            "if" => {
                self.ws();
                self.conditions()?;
                self.ws();
                self.statements(depth + 1)?;
                self.ws();
                while self.token("elif").is_ok() {
                    self.ws();
                    self.conditions()?;
                    self.ws();
                    self.statements(depth + 1)?;
                    self.ws();
                    self.ws();
                    self.tag("if:elif");
                }
                if self.token("else").is_ok() {
                    self.ws();
                    self.statements(depth + 1)?;
                    self.ws();
                    self.ws();
                    self.tag("if:else");
                }
            }
            "for" => {
                self.ws();
                self.unscoped_variable()?;
                self.ws();
                self.token("in")?;
                self.ws();
                self.expression()?;
                self.ws();
                self.statements(depth + 1)?;
            }
            _ => return Err(()),
        }
        if kw != "attr" { self.tag(&format!("stmt:{}", kw)); }
        self.n_stmts += 1;
        Ok(())
    }

    // ---- top level
    fn global(&mut self) -> R<()> {
        let n = self.name()?;
        self.kwprefix(&n);
        let name_tok = self.toks.len().wrapping_sub(1);
        let mut q = "none";
        // parse_quantifier (repaired): only `?` `*` `+` are consumed, anything else is left for the caller
        match self.try_peek() {
            Some(c) if c == '?' || c == '*' || c == '+' => {
                self.i += 1;
                if let Some(t) = self.toks.get_mut(name_tok) { t.glue = Glue::NoGap; }
                self.push_tok(self.i - 1, self.i, TC::Quant);
                q = match c { '?' => "?", '*' => "*", _ => "+" };
            }
            other => {
                if let Some(t) = self.toks.get_mut(name_tok) { t.glue = Glue::BareName; }
                match other {
                    None => self.tag("global:name-then-eof"),
                    Some('=') => self.tag("global:name-then-eq"),
                    Some(';') => self.tag("global:name-then-comment"),
                    Some(c) if !c.is_whitespace() => self.tag("global:name-then-other"),
                    _ => {}
                }
            }
        }
        if self.try_peek() == Some('=') && q != "none" { self.tag("global:quant-then-eq"); }
        self.ws();
        if self.token("=").is_ok() { self.ws(); self.string(TC::Str)?; self.tag("global:default"); }
        self.tag(&format!("global:{}", q));
        Ok(())
    }
    fn shorthand(&mut self) -> R<()> {
        let n = self.name()?;
        self.kwprefix(&n);
        self.ws();
        self.token("=")?;
        self.ws();
        self.unscoped_variable()?;
        self.ws();
        self.token("=>")?;
        self.ws();
        self.attributes()?;
        self.tag("shorthand");
        Ok(())
    }
    fn skip_query(&mut self) -> R<usize> {
        let (mut in_string, mut in_escape, mut in_comment) = (false, false, false);
        let mut sig_end = self.i;
        loop {
            let ch = self.peek()?;
            if in_escape { in_escape = false; sig_end = self.i + 1; }
            else if in_string {
                match ch { '\\' => in_escape = true, '"' | '\n' => in_string = false, _ => {} }
                sig_end = self.i + 1;
            } else if in_comment {
                if ch == '\n' { in_comment = false; }
            } else {
                match ch {
                    '"' => { in_string = true; sig_end = self.i + 1; }
                    '{' => return Ok(sig_end),
                    ';' => { in_comment = true; self.tag("query:comment"); }
                    ' ' | '\t' | '\n' | '\r' => { if ch == '\n' { self.tag("query:multiline"); } }
                    _ => sig_end = self.i + 1,
                }
            }
            self.i += 1;
        }
    }
    fn query(&mut self) -> R<()> {
        let a = self.i;
        let start = self.offs[a];
        let sig_end = self.skip_query()?;
        let end = self.offs[self.i];
        let src = self.slice(a, self.i) + FULL;
        let v = query_verdict(&src);
        self.queries.push((start, end, v.clone()));
        self.merged.push_str(&src);
        self.merged.push('\n');
        self.push_tok(a, sig_end, TC::Query);
        match v {
            QV::Ok(n, Some(_)) if n <= 1 => Ok(()),
            _ => Err(()),
        }
    }
    fn file(&mut self) -> R<()> {
        self.ws();
        while self.try_peek().is_some() {
            if self.token("attribute").is_ok() { self.ws(); self.shorthand()?; }
            else if self.token("global").is_ok() { self.ws(); self.global()?; }
            else if self.token("inherit").is_ok() {
                self.ws();
                self.token(".")?;
                if let Some(t) = self.toks.last_mut() { t.glue = Glue::NoGap; }
                let n = self.name()?;
                self.kwprefix(&n);
                self.tag("inherit");
            } else {
                self.query()?;
                self.ws();
                self.statements(1)?;
                self.tag("stanza");
            }
            self.ws();
        }
        Ok(())
    }
}

/// tokens of a text the predictor accepts completely
fn tokens_of(text: &str) -> Option<Vec<Tok>> {
    let p = Pred::run(text);
    if p.complete { Some(p.toks) } else { None }
}

// ---------------------------------------------------------------- running the implementation
enum Outcome { Ok(ast::File), Err(ParseError), Panic, Hang }

fn run_real(text: &str) -> Outcome {
    // wall clock: a run that exceeds 2 s is repeated (the machine may be busy); a hang is three slow runs in a row
    let mut last = Outcome::Hang;
    for _ in 0..3 {
        let (o, secs) = run_real_once(text);
        if secs <= 2.0 { return o; }
        last = o;
    }
    let _ = last;
    Outcome::Hang
}
fn run_real_once(text: &str) -> (Outcome, f64) {
    let t0 = std::time::Instant::now();
    let r = catch_unwind(AssertUnwindSafe(|| {
        let mut f = ast::File::new(lang());
        #[allow(deprecated)]
        let r = f.parse(text);
        // a parse error is also RENDERED, plain and pretty (C05: rendering any error returns text)
        if let Err(e) = &r {
            let _ = format!("{}", e);
            let _ = format!("{}", e.display_pretty(std::path::Path::new("rules.tsg"), text));
        }
        (r, f)
    }));
    let secs = t0.elapsed().as_secs_f64();
    (match r {
        Err(_) => Outcome::Panic,
        Ok((Ok(()), f)) => Outcome::Ok(f),
        Ok((Err(e), _)) => Outcome::Err(e),
    }, secs)
}

/// (variant number, variant name, location, payload term)
pub fn err_obs(e: &ParseError) -> (u32, &'static str, (usize, usize), String) {
    let l = |x: &tree_sitter_graph::Location| (x.row, x.column);
    let none = "[]".to_string();
    match e {
        ParseError::ExpectedQuantifier(x) => (1, "ExpectedQuantifier", l(x), none),
        ParseError::ExpectedToken(t, x) => (2, "ExpectedToken", l(x), coq_str(t)),
        ParseError::ExpectedVariable(x) => (3, "ExpectedVariable", l(x), none),
        ParseError::ExpectedUnscopedVariable(x) => (4, "ExpectedUnscopedVariable", l(x), none),
        ParseError::InvalidRegex(p, x) => (5, "InvalidRegex", l(x), coq_str(p)),
        ParseError::InvalidIntegerConstant(x) => (6, "InvalidIntegerConstant", l(x), none),
        ParseError::InvalidRegexCapture(x) => (7, "InvalidRegexCapture", l(x), none),
        ParseError::QueryError(q) => (8, "QueryError", (q.row, q.column), format!("[{}]", q.offset)),
        ParseError::UnexpectedCharacter(c, w, x) => (9, "UnexpectedCharacter", l(x), coq_str(&format!("{}{}", c, w))),
        ParseError::UnexpectedEOF(x) => (10, "UnexpectedEOF", l(x), none),
        ParseError::UnexpectedKeyword(k, x) => (11, "UnexpectedKeyword", l(x), coq_str(k)),
        ParseError::UnexpectedLiteral(k, x) => (12, "UnexpectedLiteral", l(x), coq_str(k)),
        ParseError::UnexpectedQueryPatterns(x) => (13, "UnexpectedQueryPatterns", l(x), none),
        ParseError::Check(_) => (99, "Check", (0, 0), none),
    }
}

// ---------------------------------------------------------------- the harness's own AST (mirrors Model/Ast.v)
type L = (usize, usize);
#[derive(Clone, Debug, PartialEq)]
enum E {
    False, Null, True, Int(u32), Str(String), List(Vec<E>), Set(Vec<E>),
    ListComp(Box<E>, String, L, Box<E>, L), SetComp(Box<E>, String, L, Box<E>, L),
    Capture(String, L, bool),          // bool: quantifier Zero and both indices usize::MAX
    Unscoped(String, L), Scoped(Box<E>, String, L), Call(String, Vec<E>), RegexCap(usize),
}
#[derive(Clone, Debug, PartialEq)]
struct A(String, E);
#[derive(Clone, Debug, PartialEq)]
enum C { Some(E, L), None(E, L), Bool(E, L) }
#[derive(Clone, Debug, PartialEq)]
enum S {
    Let(E, E, L), Var(E, E, L), Set(E, E, L), Node(E, L), AttrNode(E, Vec<A>, L), Edge(E, E, L),
    AttrEdge(E, E, Vec<A>, L), Scan(E, Vec<(String, Vec<S>, L)>, L), Print(Vec<E>, L),
    If(Vec<(Vec<C>, Vec<S>, L)>, L), For(String, L, E, Vec<S>, L),
}
#[derive(Clone, Debug, PartialEq)]
struct G { name: String, quant: u8, default: Option<String>, loc: L }
#[derive(Clone, Debug, PartialEq)]
struct Sh { name: String, var: String, vloc: L, attrs: Vec<A>, loc: L }
#[derive(Clone, Debug, PartialEq)]
struct St { stmts: Vec<S>, full_idx: usize, file_idx_max: bool, start: L }
#[derive(Clone, Debug, PartialEq)]
struct F { globals: Vec<G>, inherited: Vec<String>, shorthands: Vec<Sh>, stanzas: Vec<St> }
#[derive(Clone, Debug)]
enum Item { G(G), Inh(String), Sh(Sh), St(String, St) }

fn file_of_items(items: &[Item]) -> F {
    let mut f = F { globals: vec![], inherited: vec![], shorthands: vec![], stanzas: vec![] };
    for it in items {
        match it {
            Item::G(g) => f.globals.push(g.clone()),
            Item::Inh(n) => if !f.inherited.contains(n) { f.inherited.push(n.clone()) },
            Item::Sh(s) => { f.shorthands.retain(|x| x.name != s.name); f.shorthands.push(s.clone()); }
            Item::St(_, s) => f.stanzas.push(s.clone()),
        }
    }
    f.inherited.sort();
    f.shorthands.sort_by(|a, b| a.name.cmp(&b.name));
    f
}

// ---- the real AST in the same shape
fn cl(x: &tree_sitter_graph::Location) -> L { (x.row, x.column) }
fn c_expr(e: &ast::Expression) -> E {
    use ast::Expression as X;
    match e {
        X::FalseLiteral => E::False, X::NullLiteral => E::Null, X::TrueLiteral => E::True,
        X::IntegerConstant(c) => E::Int(c.value),
        X::StringConstant(c) => E::Str(c.value.clone()),
        X::ListLiteral(x) => E::List(x.elements.iter().map(c_expr).collect()),
        X::SetLiteral(x) => E::Set(x.elements.iter().map(c_expr).collect()),
        X::ListComprehension(c) => E::ListComp(Box::new(c_expr(&c.element)), c.variable.name.as_str().to_string(), cl(&c.variable.location), Box::new(c_expr(&c.value)), cl(&c.location)),
        X::SetComprehension(c) => E::SetComp(Box::new(c_expr(&c.element)), c.variable.name.as_str().to_string(), cl(&c.variable.location), Box::new(c_expr(&c.value)), cl(&c.location)),
        X::Capture(c) => E::Capture(c.name.as_str().to_string(), cl(&c.location),
            c.quantifier == CaptureQuantifier::Zero && c.file_capture_index == usize::MAX && c.stanza_capture_index == usize::MAX),
        X::Variable(v) => c_var(v),
        X::Call(c) => E::Call(c.function.as_str().to_string(), c.parameters.iter().map(c_expr).collect()),
        X::RegexCapture(c) => E::RegexCap(c.match_index),
    }
}
fn c_var(v: &ast::Variable) -> E {
    match v {
        ast::Variable::Unscoped(v) => E::Unscoped(v.name.as_str().to_string(), cl(&v.location)),
        ast::Variable::Scoped(v) => E::Scoped(Box::new(c_expr(&v.scope)), v.name.as_str().to_string(), cl(&v.location)),
    }
}
fn c_attrs(a: &[ast::Attribute]) -> Vec<A> { a.iter().map(|a| A(a.name.as_str().to_string(), c_expr(&a.value))).collect() }
fn c_stmts(s: &[ast::Statement]) -> Vec<S> { s.iter().map(c_stmt).collect() }
fn c_cond(c: &ast::Condition) -> C {
    match c {
        ast::Condition::Some { value, location } => C::Some(c_expr(value), cl(location)),
        ast::Condition::None { value, location } => C::None(c_expr(value), cl(location)),
        ast::Condition::Bool { value, location } => C::Bool(c_expr(value), cl(location)),
    }
}
fn c_stmt(s: &ast::Statement) -> S {
    use ast::Statement as X;
    match s {
        X::DeclareImmutable(d) => S::Let(c_var(&d.variable), c_expr(&d.value), cl(&d.location)),
        X::DeclareMutable(d) => S::Var(c_var(&d.variable), c_expr(&d.value), cl(&d.location)),
        X::Assign(d) => S::Set(c_var(&d.variable), c_expr(&d.value), cl(&d.location)),
        X::CreateGraphNode(d) => S::Node(c_var(&d.node), cl(&d.location)),
        X::AddGraphNodeAttribute(d) => S::AttrNode(c_expr(&d.node), c_attrs(&d.attributes), cl(&d.location)),
        X::CreateEdge(d) => S::Edge(c_expr(&d.source), c_expr(&d.sink), cl(&d.location)),
        X::AddEdgeAttribute(d) => S::AttrEdge(c_expr(&d.source), c_expr(&d.sink), c_attrs(&d.attributes), cl(&d.location)),
        X::Scan(d) => S::Scan(c_expr(&d.value), d.arms.iter().map(|a| (a.regex.as_str().to_string(), c_stmts(&a.statements), cl(&a.location))).collect(), cl(&d.location)),
        X::Print(d) => S::Print(d.values.iter().map(c_expr).collect(), cl(&d.location)),
        X::If(d) => S::If(d.arms.iter().map(|a| (a.conditions.iter().map(c_cond).collect(), c_stmts(&a.statements), cl(&a.location))).collect(), cl(&d.location)),
        X::ForIn(d) => S::For(d.variable.name.as_str().to_string(), cl(&d.variable.location), c_expr(&d.value), c_stmts(&d.statements), cl(&d.location)),
    }
}
fn c_file(f: &ast::File) -> F {
    let q = |q: CaptureQuantifier| match q { CaptureQuantifier::One => 0, CaptureQuantifier::ZeroOrOne => 1, CaptureQuantifier::ZeroOrMore => 2, CaptureQuantifier::OneOrMore => 3, CaptureQuantifier::Zero => 9 };
    let mut inherited: Vec<String> = f.inherited_variables.iter().map(|i| i.as_str().to_string()).collect();
    inherited.sort();
    let mut shorthands: Vec<Sh> = f.shorthands.iter().map(|s| Sh { name: s.name.as_str().to_string(), var: s.variable.name.as_str().to_string(),
        vloc: cl(&s.variable.location), attrs: c_attrs(&s.attributes), loc: cl(&s.location) }).collect();
    shorthands.sort_by(|a, b| a.name.cmp(&b.name));
    F { globals: f.globals.iter().map(|g| G { name: g.name.as_str().to_string(), quant: q(g.quantifier), default: g.default.clone(), loc: cl(&g.location) }).collect(),
        inherited, shorthands,
        stanzas: f.stanzas.iter().map(|s| St { stmts: c_stmts(&s.statements), full_idx: s.full_match_stanza_capture_index,
            file_idx_max: s.full_match_file_capture_index == usize::MAX, start: cl(&s.range.start) }).collect() }
}

// ---------------------------------------------------------------- layout
const COMMENTS: &[&str] = &["", " note", "x", " héllo 日本", " { \" ; } (", "\"", "{", ";; x", "\ttab", " cr\r here", " (a) @b", " é"];
struct Layout { out: String, row: usize, col: usize, prev_last: Option<char>, prev_glue: Glue, started: bool,
                exotic: usize, tight: usize, feats: BTreeSet<&'static str> }
impl Layout {
    fn new(exotic: usize, tight: usize) -> Layout {
        Layout { out: String::new(), row: 0, col: 0, prev_last: None, prev_glue: Glue::Free, started: false, exotic, tight, feats: BTreeSet::new() }
    }
    fn style(rng: &mut Rng) -> Layout {
        let exotic = *rng.pick(&[0, 0, 3, 8, 8, 20, 45]);
        let tight = *rng.pick(&[0, 20, 50, 90]);
        Layout::new(exotic, tight)
    }
    fn raw(&mut self, s: &str) {
        for c in s.chars() { if c == '\n' { self.row += 1; self.col = 0; } else { self.col += 1; } }
        self.out.push_str(s);
    }
    fn gap(&mut self, rng: &mut Rng, must: bool) -> String {
        let mut g = String::new();
        if rng.below(100) < self.exotic {
            for _ in 0..rng.range(1, 3) {
                match rng.below(10) {
                    0 | 1 => g.push(' '),
                    2 => g.push('\t'),
                    3 | 4 => g.push('\n'),
                    5 => { g.push('\r'); if rng.chance(60) { g.push('\n'); } }
                    _ => { g.push(';'); g.push_str(pk(rng, COMMENTS)); g.push('\n'); }
                }
            }
        } else if must || !rng.chance(self.tight) {
            g.push(if rng.chance(12) { '\n' } else { ' ' });
        }
        if must && g.is_empty() { g.push(' '); }
        g
    }
    fn tok(&mut self, rng: &mut Rng, text: &str, glue: Glue) -> L {
        let first = text.chars().next();
        let g = if !self.started {
            self.started = true;
            if rng.chance(20) { self.gap(rng, false) } else { String::new() }
        } else {
            match self.prev_glue {
                Glue::NoGap => String::new(),
                Glue::BareName => {
                    let must = first.map_or(false, |b| is_ident(b) || b == '?' || b == '*' || b == '+');
                    let g = match rng.below(10) {
                        0 | 1 | 2 if !must => String::new(),                                   // `global x="a"`, `global x(module) ...`
                        3 => format!(";{}\n", pk(rng, COMMENTS)),                             // `global x;c`
                        4 => rng.pick(&["\n", "\r\n", "\t", "\r"]).to_string(),
                        _ => self.gap(rng, must),
                    };
                    if g.is_empty() { self.feats.insert("global-name-glued"); }
                    if g.starts_with(';') { self.feats.insert("global-name-then-comment"); }
                    g
                }
                Glue::Free => {
                    let must = match (self.prev_last, first) { (Some(a), Some(b)) => is_ident(a) && is_ident(b), _ => false };
                    let g = self.gap(rng, must);
                    if g.is_empty() { self.feats.insert("empty-gap"); }
                    g
                }
            }
        };
        self.raw(&g);
        let l = (self.row, self.col);
        self.raw(text);
        if let Some(c) = text.chars().last() { self.prev_last = Some(c); }
        self.prev_glue = glue;
        l
    }
    fn finish(mut self, rng: &mut Rng) -> (String, BTreeSet<&'static str>) {
        match self.prev_glue {
            Glue::NoGap => {}
            Glue::BareName => match rng.below(5) {                                           // `global x` may end the input
                0 | 1 => { self.feats.insert("global-name-at-eof"); }
                2 => { let c = format!(";{}", pk(rng, COMMENTS)); self.raw(&c); if rng.chance(50) { self.raw("\n"); } }
                _ => { let g = self.gap(rng, false); self.raw(&g); }
            },
            Glue::Free => if rng.chance(60) { let g = self.gap(rng, false); self.raw(&g); },
        }
        (self.out, self.feats)
    }
}
fn layout_tokens(rng: &mut Rng, toks: &[Tok], mut lay: Layout) -> (String, BTreeSet<&'static str>) {
    for t in toks { lay.tok(rng, &t.text, t.glue); }
    lay.finish(rng)
}

// ---------------------------------------------------------------- rendering the harness AST
/// a DSL string literal for `s`, choosing at random among the legal spellings of every character
fn enc_string(rng: &mut Rng, s: &str) -> String {
    let mut o = String::from("\"");
    for c in s.chars() {
        match c {
            '"' => o.push_str("\\\""),
            '\\' => o.push_str("\\\\"),
            '\n' => if rng.chance(50) { o.push_str("\\n") } else { o.push('\n') },
            '\t' => if rng.chance(50) { o.push_str("\\t") } else { o.push('\t') },
            '\r' => if rng.chance(60) { o.push_str("\\r") } else { o.push('\r') },
            '\0' => if rng.chance(70) { o.push_str("\\0") } else { o.push('\0') },
            c => { if !matches!(c, '0' | 'n' | 'r' | 't') && rng.chance(6) { o.push('\\'); } o.push(c); }
        }
    }
    o.push('"');
    o
}
fn num(rng: &mut Rng, s: String) -> String { if rng.chance(15) { format!("{}{}", "0".repeat(rng.range(1, 3)), s) } else { s } }

struct Rend<'a> { rng: &'a mut Rng, lay: Layout }
impl<'a> Rend<'a> {
    fn t(&mut self, s: &str) -> L { self.lay.tok(self.rng, s, Glue::Free) }
    fn seq(&mut self, open: &str, close: &str, es: &mut Vec<E>) -> L {
        let l = self.t(open);
        for (i, x) in es.iter_mut().enumerate() { if i > 0 { self.t(","); } self.expr(x); }
        if !es.is_empty() && self.rng.chance(20) { self.t(","); }
        self.t(close);
        l
    }
    fn comp(&mut self, open: &str, close: &str, el: &mut E, v: &str, vl: &mut L, val: &mut E, l: &mut L) -> L {
        *l = self.t(open);
        self.expr(el);
        self.t("for");
        *vl = self.t(v);
        self.t("in");
        self.expr(val);
        self.t(close);
        *l
    }
    /// returns the position of the expression's first token
    fn expr(&mut self, e: &mut E) -> L {
        match e {
            E::False => self.t("#false"), E::Null => self.t("#null"), E::True => self.t("#true"),
            E::Int(n) => { let s = num(self.rng, n.to_string()); self.t(&s) }
            E::Str(s) => { let s = enc_string(self.rng, s); self.t(&s) }
            E::List(es) => self.seq("[", "]", es),
            E::Set(es) => self.seq("{", "}", es),
            E::ListComp(el, v, vl, val, l) => { let v = v.clone(); self.comp("[", "]", el, &v, vl, val, l) }
            E::SetComp(el, v, vl, val, l) => { let v = v.clone(); self.comp("{", "}", el, &v, vl, val, l) }
            E::Capture(n, l, _) => { *l = self.t(&format!("@{}", n)); *l }
            E::Unscoped(n, l) => { *l = self.t(n); *l }
            E::Scoped(sc, n, l) => { let first = self.expr(sc); self.t("."); *l = self.t(n); first }
            E::Call(f, args) => { let l = self.t("("); self.t(f); for a in args.iter_mut() { self.expr(a); } self.t(")"); l }
            E::RegexCap(i) => { let s = format!("${}", num(self.rng, i.to_string())); self.t(&s) }
        }
    }
    fn attrs(&mut self, attrs: &mut Vec<A>) {
        for (i, a) in attrs.iter_mut().enumerate() {
            if i > 0 { self.t(","); }
            self.t(&a.0);
            if a.1 == E::True && self.rng.chance(60) { continue; }
            self.t("=");
            self.expr(&mut a.1);
        }
    }
    fn block(&mut self, stmts: &mut Vec<S>) {
        self.t("{");
        for s in stmts.iter_mut() { self.stmt(s); }
        self.t("}");
    }
    fn stmt(&mut self, s: &mut S) {
        match s {
            S::Let(v, e, l) => { *l = self.t("let"); self.expr(v); self.t("="); self.expr(e); }
            S::Var(v, e, l) => { *l = self.t("var"); self.expr(v); self.t("="); self.expr(e); }
            S::Set(v, e, l) => { *l = self.t("set"); self.expr(v); self.t("="); self.expr(e); }
            S::Node(v, l) => { *l = self.t("node"); self.expr(v); }
            S::AttrNode(n, a, l) => { *l = self.t("attr"); self.t("("); self.expr(n); self.t(")"); self.attrs(a); }
            S::Edge(a, b, l) => { *l = self.t("edge"); self.expr(a); self.t("->"); self.expr(b); }
            S::AttrEdge(a, b, at, l) => { *l = self.t("attr"); self.t("("); self.expr(a); self.t("->"); self.expr(b); self.t(")"); self.attrs(at); }
            S::Scan(v, arms, l) => {
                *l = self.t("scan");
                self.expr(v);
                self.t("{");
                for arm in arms.iter_mut() {
                    let p = enc_string(self.rng, &arm.0);
                    self.t(&p);
                    self.block(&mut arm.1);
                    arm.2 = *l;
                }
                self.t("}");
            }
            S::Print(vs, l) => { *l = self.t("print"); for (i, v) in vs.iter_mut().enumerate() { if i > 0 { self.t(","); } self.expr(v); } }
            S::If(arms, l) => {
                for (i, arm) in arms.iter_mut().enumerate() {
                    let kw = if i == 0 { "if" } else if arm.0.is_empty() { "else" } else { "elif" };
                    arm.2 = self.t(kw);
                    if i == 0 { *l = arm.2; }
                    for (k, c) in arm.0.iter_mut().enumerate() {
                        if k > 0 { self.t(","); }
                        match c {
                            C::Some(e, cl) => { *cl = self.t("some"); self.expr(e); }
                            C::None(e, cl) => { *cl = self.t("none"); self.expr(e); }
                            C::Bool(e, cl) => { *cl = self.expr(e); }
                        }
                    }
                    self.block(&mut arm.1);
                }
            }
            S::For(v, vl, val, body, l) => { *l = self.t("for"); *vl = self.t(v); self.t("in"); self.expr(val); self.block(body); }
        }
    }
    fn item(&mut self, it: &mut Item) {
        match it {
            Item::G(g) => {
                self.t("global");
                let glue = if g.quant == 0 { Glue::BareName } else { Glue::NoGap };
                g.loc = self.lay.tok(self.rng, &g.name, glue);
                if g.quant != 0 { self.t(["", "?", "*", "+"][g.quant as usize]); }
                if let Some(d) = &g.default { self.t("="); let s = enc_string(self.rng, d); self.t(&s); }
            }
            Item::Inh(n) => { self.t("inherit"); self.lay.tok(self.rng, ".", Glue::NoGap); self.t(n); }
            Item::Sh(s) => {
                self.t("attribute");
                s.loc = self.t(&s.name);
                self.t("=");
                s.vloc = self.t(&s.var);
                self.t("=>");
                self.attrs(&mut s.attrs);
            }
            Item::St(q, st) => { st.start = self.t(q); self.block(&mut st.stmts); }
        }
    }
}

// ---------------------------------------------------------------- AST-directed generator
const IDENTS: &[&str] = &["x", "y", "n", "a1", "_r", "x-", "pkg-name", "foo", "v_2", "something", "none_left", "format", "inside",
    "letter", "nodes", "elsewhere", "some_thing", "nonex", "iffy", "forest", "inner", "scanner", "settle", "variable", "lets",
    "edges", "attrs", "printer", "elif_x", "else_y", "attribute_x", "global_y", "inherit_z", "é", "héllo", "日本", "in", "for", "let",
    "true", "Ünï", "k9-", "__"];
const FUNCS: &[&str] = &["node", "plus", "format", "is-null", "source-text", "f", "something", "é", "not", "for", "inner", "elif_x"];
const ATTR_NAMES: &[&str] = &["type", "dup", "a", "node_id", "letter", "some_thing", "attrs", "é", "is-def", "else_y", "x-"];
const STRINGS: &[&str] = &["", "a", "x y", "héllo", "日本", "q\"uote", "back\\slash", "nl\nline", "tab\there", "nul\0x", "cr\rlf", "{}",
    "{ a; b }", ";not a comment", "\\n literal", "\"", "\\", "mixed é\"\\\n{;}日", "'single'", "\u{1F600}", "0nrt", "}{"];
const INTS: &[u32] = &[0, 1, 7, 42, 65536, 2147483648, 4294967294, 4294967295];
const RCAPS: &[usize] = &[0, 1, 2, 10, 4294967296, 18446744073709551615];
/// decoded scan patterns (all valid for the regex crate)
const PATTERNS: &[&str] = &["([a-z]+)", "([0-9])", "(_|-)", "s([0-9]?)", "(a|e|i|o|u)+", "\\(", "([a-z])([a-z])", "[^a-z]", "f(o)?o",
    "x$", "^d", "é+", "日(本)", "\\d+", "a{2}", "\"q\"", "\\s*;", "", "[{}]", "\\\\", "\t|\n"];
const EXTRA_QUERIES: &[&str] = &[
    "(function_definition\n  name: (identifier) @name\n  body: (block (_)* @body)) @def",
    "(call ; the function\n function: (identifier) @fn) @call",
    "((string) @s (#match? @s \"\\\\{;\"))",
    "((identifier) @id (#eq? @id \"a\\\"b{\"))",
    "((identifier) @id (#match? @id \"^[a-z;]+$\"))",
    "(binary_operator left: (_) @l\r\n right: (_) @r) @bin",
    "(module) @m ; trailing { comment \"\n",
    "(assignment\n\tleft: (identifier) @l ;; one\n\tright: (_)? @r ; two é日\n) @asg",
    "(module)",
    "(_) @any",
    "\"def\" @kw",
    "[\n (integer)\n (string) ; { in a comment\n] @lit",
];
fn query_pool() -> Vec<String> {
    let mut v: Vec<String> = gen::TMPLS.iter().map(|t| t.query.to_string()).collect();
    v.extend(EXTRA_QUERIES.iter().map(|s| s.to_string()));
    v.retain(|q| matches!(query_verdict(&format!("{} {}", q, FULL)), QV::Ok(1, Some(_))));
    v
}

struct AG<'a> { rng: &'a mut Rng, left: i32, deep: bool }
impl<'a> AG<'a> {
    fn ident(&mut self) -> String { self.rng.pick(IDENTS).to_string() }
    fn leafvar(&mut self) -> E {
        if self.rng.chance(30) { E::Capture(self.ident(), (0, 0), true) } else { E::Unscoped(self.ident(), (0, 0)) }
    }
    fn expr(&mut self, d: usize) -> E {
        let leaf = d >= 3 || self.left <= 0;
        self.left -= 1;
        let k = if leaf { self.rng.below(10) } else { self.rng.below(18) };
        match k {
            0 => match self.rng.below(3) { 0 => E::False, 1 => E::Null, _ => E::True },
            1 => E::Int(if self.rng.chance(50) { *self.rng.pick(INTS) } else { self.rng.below(1000) as u32 }),
            2 => E::Str(self.rng.pick(STRINGS).to_string()),
            3 => E::Capture(self.ident(), (0, 0), true),
            4 | 5 => E::Unscoped(self.ident(), (0, 0)),
            6 => E::RegexCap(if self.rng.chance(50) { *self.rng.pick(RCAPS) } else { self.rng.below(12) }),
            7 | 8 => {
                let mut e = self.leafvar();
                for _ in 0..self.rng.range(1, 3) { e = E::Scoped(Box::new(e), self.ident(), (0, 0)); }
                e
            }
            9 => if self.rng.chance(50) { E::List(vec![]) } else { E::Set(vec![]) },
            10 => { let n = self.rng.range(1, 3); E::List((0..n).map(|_| self.expr(d + 1)).collect()) }
            11 => { let n = self.rng.range(1, 3); E::Set((0..n).map(|_| self.expr(d + 1)).collect()) }
            12 => E::ListComp(Box::new(self.expr(d + 1)), self.ident(), (0, 0), Box::new(self.expr(d + 1)), (0, 0)),
            13 => E::SetComp(Box::new(self.expr(d + 1)), self.ident(), (0, 0), Box::new(self.expr(d + 1)), (0, 0)),
            14 | 15 | 16 => { let n = self.rng.below(4); E::Call(self.rng.pick(FUNCS).to_string(), (0..n).map(|_| self.expr(d + 1)).collect()) }
            _ => E::Scoped(Box::new(self.expr(d + 1)), self.ident(), (0, 0)),
        }
    }
    fn var(&mut self, d: usize) -> E {
        match self.rng.below(10) {
            0..=5 => E::Unscoped(self.ident(), (0, 0)),
            6 | 7 => { let mut e = self.leafvar(); for _ in 0..self.rng.range(1, 3) { e = E::Scoped(Box::new(e), self.ident(), (0, 0)); } e }
            _ => E::Scoped(Box::new(self.expr(d + 1)), self.ident(), (0, 0)),
        }
    }
    fn attrs(&mut self) -> Vec<A> {
        let n = self.rng.range(1, 3);
        (0..n).map(|_| A(self.rng.pick(ATTR_NAMES).to_string(), if self.rng.chance(35) { E::True } else { self.expr(1) })).collect()
    }
    fn cond(&mut self) -> C {
        match self.rng.below(4) {
            0 => C::Some(self.expr(1), (0, 0)),
            1 => C::None(self.expr(1), (0, 0)),
            2 => C::Bool(self.expr(1), (0, 0)),
            // a plain condition that BEGINS with the text of the keywords `some` / `none` (word boundary of consume_keyword)
            _ => {
                let name = self.rng.pick(&["something", "none_left", "some_thing", "nonex", "somex", "nonesuch", "some-", "none1", "some_", "nones", "someé"]).to_string();
                let mut e = E::Unscoped(name, (0, 0));
                if self.rng.chance(30) { e = E::Scoped(Box::new(e), self.ident(), (0, 0)); }
                C::Bool(e, (0, 0))
            }
        }
    }
    fn conds(&mut self) -> Vec<C> { let n = *self.rng.pick(&[1, 1, 1, 2, 3]); (0..n).map(|_| self.cond()).collect() }
    fn block(&mut self, d: usize) -> Vec<S> {
        if self.left <= 0 { return vec![]; }
        let n = self.rng.below(if self.deep { 3 } else { 4 });
        (0..n).map(|_| self.stmt(d)).collect()
    }
    fn stmt(&mut self, d: usize) -> S {
        self.left -= 1;
        let z = (0, 0);
        let flat = d >= 5 || self.left <= 0;
        let k = if flat { self.rng.below(8) } else if self.deep && self.rng.chance(55) { 8 + self.rng.below(3) } else { self.rng.below(11) };
        match k {
            0 => S::Let(self.var(0), self.expr(0), z),
            1 => S::Var(self.var(0), self.expr(0), z),
            2 => S::Set(self.var(0), self.expr(0), z),
            3 => S::Node(self.var(0), z),
            4 => S::AttrNode(self.expr(1), self.attrs(), z),
            5 => S::Edge(self.expr(1), self.expr(1), z),
            6 => S::AttrEdge(self.expr(1), self.expr(1), self.attrs(), z),
            7 => { let n = *self.rng.pick(&[1, 1, 2, 3]); S::Print((0..n).map(|_| self.expr(0)).collect(), z) }
            8 => {
                let n = *self.rng.pick(&[1, 1, 2, 3]);
                S::Scan(self.expr(1), (0..n).map(|_| (self.rng.pick(PATTERNS).to_string(), self.block(d + 1), z)).collect(), z)
            }
            9 => {
                let mut arms = vec![(self.conds(), self.block(d + 1), z)];
                for _ in 0..*self.rng.pick(&[0, 0, 1, 2]) { arms.push((self.conds(), self.block(d + 1), z)); }
                if self.rng.chance(45) { arms.push((vec![], self.block(d + 1), z)); }
                S::If(arms, z)
            }
            _ => S::For(self.ident(), z, self.expr(1), self.block(d + 1), z),
        }
    }
    fn items(&mut self, queries: &[String]) -> Vec<Item> {
        let z = (0, 0);
        let mut pre: Vec<Item> = vec![];
        let mut sh_names: Vec<String> = vec![];
        for _ in 0..*self.rng.pick(&[0, 0, 1, 1, 2, 3]) {
            match self.rng.below(3) {
                0 => pre.push(Item::G(G { name: self.ident(), quant: self.rng.below(4) as u8,
                    default: if self.rng.chance(45) { Some(self.rng.pick(STRINGS).to_string()) } else { None }, loc: z })),
                1 => pre.push(Item::Inh(self.ident())),
                _ => {
                    let name = self.ident();
                    if sh_names.contains(&name) { continue; }
                    sh_names.push(name.clone());
                    pre.push(Item::Sh(Sh { name, var: self.ident(), vloc: z, attrs: self.attrs(), loc: z }));
                }
            }
        }
        let ns = *self.rng.pick(&[1, 1, 1, 2, 2, 3]);
        let mut items: Vec<Item> = vec![];
        for _ in 0..ns {
            let q = self.rng.pick(queries).clone();
            let idx = match query_verdict(&format!("{} {}", q, FULL)) { QV::Ok(_, Some(i)) => i as usize, _ => usize::MAX };
            let n = self.rng.range(1, 5);
            let stmts = (0..n).map(|_| self.stmt(1)).collect();
            items.push(Item::St(q, St { stmts, full_idx: idx, file_idx_max: true, start: z }));
        }
        // preamble items go before, between and after the stanzas
        for p in pre { let at = if self.rng.chance(60) { 0 } else { self.rng.below(items.len() + 1) }; items.insert(at, p); }
        items
    }
}

/// the full-match capture index depends on the captures of the query only, not on the gap that the
/// layout puts between the query and `{`; it is looked up with the query text alone
fn gen_ast_text(rng: &mut Rng, queries: &[String], small: bool) -> (String, F, BTreeSet<&'static str>) {
    loop {
        let left = if small { rng.range(4, 14) } else { rng.range(8, 70) } as i32;
        let deep = !small && rng.chance(30);
        let mut items = AG { rng, left, deep }.items(queries);
        let lay = if small { Layout::new(*rng.pick(&[0, 0, 5]), 20) } else { Layout::style(rng) };
        let mut r = Rend { rng, lay };
        for it in items.iter_mut() { r.item(it); }
        let lay = r.lay;
        let (text, feats) = lay.finish(rng);
        if text.chars().count() > MAX_TEXT { continue; }
        return (text, file_of_items(&items), feats);
    }
}

/// source (a): a `gen::gen_program` text, tokenised by the predictor and laid out again
fn gen_relayout_text(rng: &mut Rng, small: bool) -> Option<(String, BTreeSet<&'static str>)> {
    for _ in 0..30 {
        let opts = GenOpts { use_scoped: rng.chance(60), allow_scan: rng.chance(70), stdlib: rng.chance(70), globals: rng.chance(60),
            shorthands: rng.chance(60), inherit: rng.chance(60), max_depth: if small { 1 } else { rng.range(1, 5) },
            max_stanzas: if small { 1 } else { rng.range(1, 4) }, render_nodes: false, node_globals: 0, scoped_mut: false, syn_sets: true };
        let text = gen::gen_program(rng, &opts).text();
        if text.len() > MAX_TEXT { continue; }
        let toks = match tokens_of(&text) {
            Some(t) => t,
            // never skipped silently: the unchanged text becomes the case (the parser rejects a generated program, or the predictor is wrong)
            None => { let mut f = BTreeSet::new(); f.insert("GEN-PROGRAM-NOT-TOKENISED"); return Some((text, f)); }
        };
        let lay = if small { Layout::new(*rng.pick(&[0, 0, 5]), 20) } else { Layout::style(rng) };
        let (out, feats) = layout_tokens(rng, &toks, lay);
        if out.chars().count() > MAX_TEXT { continue; }
        return Some((out, feats));
    }
    None
}

/// For other streams that need parsed programs of every shape (C20d): a text of one of the two C07 sources.
pub fn gen_valid_text(rng: &mut Rng) -> (String, &'static str) {
    static POOL: std::sync::OnceLock<Vec<String>> = std::sync::OnceLock::new();
    let queries = POOL.get_or_init(query_pool);
    if rng.chance(35) {
        if let Some((text, _)) = gen_relayout_text(rng, false) { return (text, "src:gen_program"); }
    }
    let small = rng.chance(30);
    let (text, _, _) = gen_ast_text(rng, queries, small);
    (text, "src:ast")
}

// ---------------------------------------------------------------- cases
fn make_case(stream: &str, text: &str, intended: Option<&str>, mut tags: Vec<String>, note: &str) -> Case {
    crate::exec::quiet_panics();
    let pred = Pred::run(text);
    let outcome = run_real(text);
    // tables
    let mut seen: BTreeSet<char> = BTreeSet::new();
    for c in text.chars() { if !c.is_ascii() { seen.insert(c); } }
    let uni = coq_list(&seen.iter().map(|c| format!("({}, ({}, {}, {}))", *c as u32, coq_bool(c.is_alphabetic()), coq_bool(c.is_alphanumeric()), coq_bool(c.is_whitespace()))).collect::<Vec<_>>());
    let mut spans: Vec<(usize, usize)> = vec![];
    let mut qrows = vec![];
    for (a, b, v) in &pred.queries { if !spans.contains(&(*a, *b)) { spans.push((*a, *b)); qrows.push(format!("({}, {}, {})", a, b, v.coq())); } }
    let queries = coq_list(&qrows);
    let merged = if pred.complete { coq_list(&[format!("({}, {})", coq_str(&pred.merged), coq_bool(merged_ok(&pred.merged)))]) } else { "[]".to_string() };
    let regexes = coq_list(&pred.regexes.iter().map(|(p, ok)| format!("({}, {})", coq_str(p), coq_bool(*ok))).collect::<Vec<_>>());
    // observation
    let mut intended_ok = true;
    let (obs, imp, parsed_ok) = match &outcome {
        Outcome::Ok(f) => {
            let mut d = AstDump::new();
            let ft = d.file(f);
            let pats = coq_list(&d.regexes.iter().map(|p| coq_str(p)).collect::<Vec<_>>());
            if let Some(want) = intended { intended_ok = format!("{:?}", c_file(f)) == want; }
            tags.push("out:ok".into());
            (format!("(IOk {} {})", ft, pats), format!("Ok: {} globals, {} stanzas, {} statements", f.globals.len(), f.stanzas.len(), pred.n_stmts), true)
        }
        Outcome::Err(e) => {
            let (v, name, l, payload) = err_obs(e);
            if intended.is_some() { intended_ok = false; tags.push("INTENDED-VALID-BUT-REJECTED".into()); }
            tags.push(format!("out:err:{}", name));
            (format!("(IErr {} ({}, {}) {})", v, l.0, l.1, payload), format!("{:?}", e), false)
        }
        Outcome::Panic => { tags.push("out:panic".into()); ("IPanic".to_string(), "PANIC".to_string(), false) }
        Outcome::Hang => { tags.push("out:panic".into()); tags.push("HANG".into()); ("IPanic".to_string(), "HANG (> 2 s)".to_string(), false) }
    };
    if !intended_ok { tags.push("INTENDED-AST-MISMATCH".into()); }
    for t in &pred.tags { tags.push(t.clone()); }
    if !text.is_ascii() { tags.push("multibyte".into()); }
    let n_chars = text.chars().count();
    tags.push(format!("len:{}", match n_chars { 0..=99 => "<100", 100..=399 => "100-399", 400..=999 => "400-999", _ => ">=1000" }));
    tags.sort();
    tags.dedup();
    // <str as Debug> on the non-ASCII characters of the text (verbatim or \u{..}): read by the model for the text of `node`
    // statements (Display of the variable; dump.rs writes `format!("{}", node)` into that field of the real AST)
    let print = crate::c20d::print_table(&[text]);
    let args = format!("{} {} {} {} {} {}", coq_str(text), uni, queries, merged, regexes, print);
    let nontrivial = if stream == "C07" { parsed_ok && (pred.tags.contains("comment") || pred.tags.contains("query:comment") || !text.is_ascii()) && pred.n_stmts >= 3 }
                     else { pred.toks.len() >= 3 || n_chars >= 8 };
    let replay = json!({"stream": stream, "text": text, "impl": imp, "intended": intended,
        "intended_note": if intended.is_some() { "Debug text of the AST the generator wrote (names, values, every location); compared with the parsed AST" }
                         else { "no intended AST for this case: INTENDED_OK = true" },
        "note": note});
    Case { verdict: format!("c07_verdict {} {} {}", args, obs, coq_bool(intended_ok)), detail: format!("c07_detail {}", args),
           replay, nontrivial, key: fnv(text), tags }
}

/// hand-written VALID texts in every C07 run: a `node` statement whose Display text needs the <str as Debug> table, and the
/// layouts of a global that the repaired parse_quantifier accepts
/// (no whitespace needed after the name; formerly ExpectedQuantifier) next to the ones that were always accepted
const FIXED_VALID: &[&str] = &[
    "global x=\"a\"\n(module) @m { }",
    "global x=\"a\"(module) @m { }",
    "global x;c\n(module) @m { }",
    "global x= \"a\" (module) @m { }",
    "global x?=\"a\"\n(module) @m { }",
    "global x\n(module) @m { }",
    "global x(module) @m { }",
    "global x \"def\" @k { }",
    "global x\"def\" @k { }",
    "(module) @m { }global x",
    "(module) @m { }\nglobal x;c",
    "global x=\"a\"global y*global z;c\n=;d\n\"e\"inherit .w global v",
    "global x = \"a\"\nglobal y ;c\n(module) @m { }",
    // the text of a `node` statement whose scope is a string constant: <str as Debug> escapes U+00A0 and U+2028 and prints é
    // verbatim (rows false / false / true of the model's x_print table)
    "(module) @m { node \"a\u{a0}\u{e9}\u{2028}\\n\".x node @m.\u{e9}y }",
];

pub fn gen(rng: &mut Rng, n: usize) -> Vec<Case> {
    let queries = query_pool();
    let mut out = Vec::with_capacity(n);
    for t in FIXED_VALID.iter().take(n / 4) {
        out.push(make_case("C07", t, None, vec!["src:fixed".into()], "hand-written valid layout of a global"));
    }
    while out.len() < n {
        if rng.chance(50) {
            if let Some((text, feats)) = gen_relayout_text(rng, false) {
                let mut tags: Vec<String> = feats.iter().map(|s| s.to_string()).collect();
                tags.push("src:gen_program".into());
                out.push(make_case("C07", &text, None, tags, "gen_program text in a random layout"));
            }
        } else {
            let (text, f, feats) = gen_ast_text(rng, &queries, false);
            let mut tags: Vec<String> = feats.iter().map(|s| s.to_string()).collect();
            tags.push("src:ast".into());
            out.push(make_case("C07", &text, Some(&format!("{:?}", f)), tags, "AST-directed generator"));
        }
    }
    out
}

pub fn replay(j: &serde_json::Value) -> Case {
    let stream = j["stream"].as_str().unwrap_or("C07").to_string();
    let text = j["text"].as_str().unwrap_or("").to_string();
    make_case(&stream, &text, j["intended"].as_str(), vec!["replay".into()], "replay")
}

// ---------------------------------------------------------------- stream C05p: malformed texts
const STRAY: &[&str] = &["(", ")", "[", "]", "{", "}", "\"", ";", ",", ".", "@", "#", "$", "=", "-", ">"];
const ODD_CHARS: &[char] = &['\0', 'é', '\u{a0}', '\u{2028}', '日', '\u{ff10}', '\u{661}', '\u{b}', '\u{3000}'];
const HUGE_INTS: &[&str] = &["4294967296", "99999999999999999999999", "4294967295", "04294967296", "00000000000000000000001"];
const HUGE_CAPS: &[&str] = &["$99999999999999999999999", "$18446744073709551615", "$18446744073709551616", "$", "$018446744073709551615", "$x", "$-1"];
const BAD_ATOMS: &[&str] = &["#maybe", "#", "#1", "#truex", "#tru", "@", "@1", "@-x", "@ x", "#é", "@é"];
const NEAR: &[(&str, &[&str])] = &[("let", &["lett", "le", "Let"]), ("var", &["va", "vars"]), ("set", &["sett", "se"]), ("node", &["nodes", "nod"]),
    ("edge", &["edges", "edg"]), ("attr", &["attrs", "att", "attribute"]), ("print", &["printer", "prin"]), ("scan", &["scanner", "sca"]),
    ("if", &["iff", "i", "elif", "else"]), ("elif", &["eli", "elifx", "elsif"]), ("else", &["els", "elsey", "otherwise"]), ("for", &["fo", "forest", "foreach"]),
    ("in", &["i", "inside", "of"]), ("some", &["somex", "som", "Some"]), ("none", &["nonex", "non", "null"]),
    ("global", &["globalx", "globa", "globals"]), ("attribute", &["attribut", "attributex", "attr"]), ("inherit", &["inheri", "inheritx", "inherits"])];
const QUERIES_2PAT: &[&str] = &["(identifier) @a (call) @b", "(module) @m\n(identifier) @i\n", "(identifier) (identifier) @x", "(pass_statement) @p ; c\n (call) @c"];
const QUERIES_BAD: &[&str] = &["nofield: (identifier) @x", "zz: _", "(nonexistent) @x", "(identifier", "(identifier)) @x", "identifier", "(identifier) @", "\"unterminated", "(identifier) (#eq? @x)",
    "", "(identifier) @id ; comment without newline", "(call function: (nope) @f) @c", "(call nofield: (identifier) @f) @c", "\n\n  (module) @m (#bad) ",
    "((identifier) @id (#eq? @id \"x))", "(é) @x", "@x", "(identifier) @é", "(module) \"{\" @x", "[(integer) (string) @lit", "(identifier)\u{a0}@id"];
const BAD_REGEX: &[&str] = &["\"(\"", "\"[\"", "\"*\"", "\"(?P<\"", "\"a{2,1}\"", "\"\\\\\"", "\"é(\""];

fn specials() -> Vec<(String, String)> {
    let mut v: Vec<(String, String)> = vec![];
    let mut add = |k: &str, t: String| v.push((k.to_string(), t));
    add("empty", String::new());
    // CRLF texts that stop right after a sigil / keyword at the end of a line: the parser takes the `\r` into the
    // token it is reading, so the error location lies beyond the line that `str::lines` cuts out for the excerpt
    for t in ["(module) @m {\r\n  node @\r\n}\r\n", "inherit .\r\n(module) @m { }\r\n", "(module) @m {\r\n  attr (n) a = #\r\n}\r\n", "(module) @m {\r\n  let x = $\r\n}\r\n",
              "global\r\n", "(module) @m {\r\n  edge a ->\r\n}\r\n", "(module) @m {\r\n  print \"abc\r\n}\r\n", "attribute a = x =>\r\n", "(module) @m {\r\n  scan x {\r\n    \"(\" {\r\n    }\r\n  }\r\n}\r\n",
              "(module) @m {\r\n  node n\r\n  attr (n) k = @\r", "(module) @\r\n{ }"] { add("crlf-dangling", t.to_string()); }
    // a stanza whose query STARTS with a name tree-sitter reports an error about (unknown field / capture at offset 0 of the
    // query source handed to Query::new): the error is built from the byte BEFORE the offset
    for t in ["x: (_) { }", "  x: (_) { }", "(module) { }\n\n  nae: (identifier) { }", "x:(_){}", "\u{e9}: (_) { }", "nofield: (identifier) @x {\n  node n\n}\n", "name: (identifier) @n { }",
              "; c\nzz: (module) @m { }", "global g\nfld: _ @x { print g }"] { add("query-start", t.to_string()); }
    // multi-byte characters around byte offset 4 of an `if` / `elif` condition (where the `some` / `none` keywords are probed)
    for t in ["(module) {\n  let abc\u{e9} = #true\n  if abc\u{e9} {\n  }\n}\n", "(module) {\n  if #false {\n  } elif \"ab\u{2192}\" {\n  }\n}\n", "(module) {\n  if som\u{20ac} {\n  }\n}\n",
              "(module) {\n  if non\u{65e5} {\n  }\n}\n", "(module) {\n  if \u{e9} {\n  }\n}\n", "(module) {\n  if so\u{1f600} {\n  }\n}\n"] { add("cond-multibyte", t.to_string()); }
    for t in [" \n\t\r\n", "\u{a0}\u{2028} ", "\n", "\u{b}\u{c}"] { add("ws-only", t.to_string()); }
    for t in ["; c", "; c\n", ";\n;;\n ; é {", ";", ";\n", "; (module) @m { }", " ; a\r; b\n"] { add("comment-only", t.to_string()); }
    for sfx in ["", " ", "\n", "\t", "\r", ";", "; c\n", "?", "*", "+", "??", "=", "= \"d\"", "(", "\"", "\u{a0}", "\u{2028}", "é", "\0", "0", "-", "_", "?=\"d\"",
                " = ", " = x", "? (module) @m { }", " (module) @m { }", ";(module) @m { }\n", " ;c\n= \"d\"", "+;c\n=;d\n\"d\";e", "?\u{a0}=\u{a0}\"d\"", "{", ".", "\u{ff10}", "\u{b}",
                // formerly ExpectedQuantifier (one character after the name was consumed and had to be whitespace or ? * +)
                "!", "!x", "! (module) @m { }", "- (module) @m { }", "-! { }", "#", "@", ",", "/", "%", ")", "]", "}", "=x", "==\"d\"", "=\"a\"", "= \"a\"", ";c", ";c\n", "?*", "*?", "+ +", "?;c\n=\"a\"",
                "=\"a\" (module) @m { }", "=\"a\"(module) @m { }", ";c\n(module) @m { }", "(module) @m { }", "\n(module) @m { }", "?=\"a\"\n(module) @m { }", "= \"a\"\n(module) @m { }",
                "\"a\" (module) @m { }", "=\"a\"global y", "=\"a\"global y=\"b\"inherit .z", "{ }", "! { }", "\u{a0}=\u{a0}\"d\"", "é=\"d\"", "\u{661}", "\u{2028}=\"d\""] {
        add("global-lone", format!("global x{}", sfx));
    }
    for t in ["global", "global ", "global 1", "globalx", "globalx?", "global;c\nx", "global\u{a0}x", "global global", "global é*", "global x = \"a\\", "global x = 'd'"] { add("global-form", t.to_string()); }
    for t in ["inherit", "inherit .", "inherit .x", "inherit . x", "inherit x", "inherit.x.y", "inherit .1", "inherit;c\n.x", "inherit .é", "inheritx", "inherit .x(module) @m { }"] { add("inherit-form", t.to_string()); }
    for t in ["attribute", "attribute a", "attribute a = b", "attribute a = b =>", "attribute a = b => c", "attribute a = b.c => d", "attribute a = 1 => d",
              "attribute a = b => c = ", "attribute (module) @m {}", "attributex = y => z", "attribute a = b = > c", "attribute a = b => c, ", "attribute a = b => c = 1, d\n(module) @m { }",
              "attribute a=b=>c=1,d=[x for x in y]", "attribute a = @b => c"] { add("shorthand-form", t.to_string()); }
    for t in ["lett x = 1", "", "node", "node 1", "node (f)", "node @c", "node a.b", "node \"s\".b", "let a.b.c = #maybe", "let 1 = 2", "let x 1", "let x =", "var = 1", "set [x] = 1",
              "for a.b in c { }", "for 1 in c { }", "for x c { }", "for x in { }", "for x inc { }", "for x in c", "for x in c { node }", "for in in in { }",
              "scan x { \"(\" { } }", "scan x { \"[\" { } }", "scan x { \"a\" }", "scan x { a { } }", "scan x \"a\" { }", "scan x { \"a\" { } \"(\" { } }", "scan { } { }", "scan x { \"a\\", "scan x {",
              "if { }", "if some { }", "if some x, { }", "if x { } elif { }", "if x { } else x { }", "if something { } elifx { } else{ }", "if none(x) { }", "if some, { }", "if x y { }",
              "if x { } elif y { } else { } else { }", "if somex { }", "if some-x { }", "if some\u{a0}x { }", "if some;c\nx { }", "if nonex, some_thing { }", "if x { } else", "if x { } eli",
              "edge a - b", "edge a -> ", "edge a b", "edge -> b", "edge a->b", "edge a-->b", "edge a- ->b",
              "attr (a -) b", "attr (a) ", "attr (a) 1", "attr a", "attr (a b) c", "attr (a -> b c) d", "attr (a -> b) ", "attr (a) b =", "attr (a) b, ", "attr (a) b = 1,, c", "attr(a)b", "attr (a->b)c=1,d",
              "print", "print a,", "print a, , b", "print a b", "print,", "print \"a\" \"b\"", "prints a"] { add("stmt-form", format!("(module) @m {{ {} }}", t)); }
    for t in ["[1,,2]", "[1 2]", "[1 for 2 in 3]", "[1 for x.y in 3]", "[1 for x in]", "{1 for x in y]", "[1 forx in y]", "[1 for x iny]", "[,]", "[1,", "[", "{", "{,}", "{1,}", "[1,]", "[1 , ]",
              "(1)", "()", "( f", "(f", "(f,)", "(f x,y)", "(é 日本)", "(f (g (h)))", "#", "#1", "#tru", "#truex", "#true", "# true", "@", "@1", "@ x", "@x", "@x-y.z", "x.", "x.1", "x . y . ", "x..y", ".x", "x.y.z",
              "\"unterminated", "\"esc\\", "\"a\\\"", "\"\\q\\0\\n\\r\\t\\\\\"", "é", "日本.x", "\u{ff10}", "x\u{ff10}", "\u{661}", "1\u{661}", "x\0y", "x\u{a0}.\u{2028}y", "-x", "_", "x-", "1x", "1.x", "007",
              "4294967295", "4294967296", "99999999999999999999999", "$", "$x", "$0", "$18446744073709551615", "$18446744073709551616", "$99999999999999999999999", "$1.x", "'a'", "x;", "%", "\\", "x\r.\ry"] {
        add("expr-form", format!("(module) @m {{ print {} }}", t));
    }
    for t in ["{ }", "(module) @m", "(module) @m {", "(module) @m { ", "(module) @m { }", "(module) @m { } }", "(module) @m (identifier) @i { }", "(nope) @m { }", "(module @m { }", "(module)) @m { }",
              "\n\n  (module) @m (#bad) { }", "(module) @m\n(identifier) @i\n{ }", "(module) @m ; c { }", "(module) @m ; c\n{ }", "   (nope) @x { }", "  \n  (module) @m\n  (nope) @x { }",
              "(module) @m { }\n  (module) @m\n  (nope) @x { }", "é (nope) @x { }", "(module) @m { } é(nope) @x { }", "(module) @m \"{\" { }", "(module) @m \"a\\\"{\" { }", "(module) @m \"a\n{ }",
              "(module) @m{}(module) @n{}", "(module)@m{}", "(module){}", "(module) @__tsg__full_match { }", "(module) @m @__tsg__full_match { }", "((module) @m (#eq? @m \"x\")) { }",
              "\"def\" @k { }", "(module) @m ;{\n ;}\n { }", "(module) @m { } (nope", "(module) @m { } ; c", "(module) @m \\{ }", "(module) @m \"\\\\\" { }", "(module) @m ;\\\n{ }"] { add("stanza-form", t.to_string()); }
    for d in [1usize, 2, 8, 32, 64] {
        add("nest", format!("(module) @m {{ print {}1{} }}", "[".repeat(d), "]".repeat(d)));
        add("nest", format!("(module) @m {{ print {}x{} }}", "{".repeat(d), "}".repeat(d)));
        add("nest", format!("(module) @m {{ print {}{} }}", "(f ".repeat(d), ")".repeat(d)));
        add("nest", format!("(module) @m {{ print {}f{} }}", "(".repeat(d), ")".repeat(d)));
        add("nest", format!("(module) @m {{ print {}1{} }}", "[".repeat(d), "]".repeat(d - 1)));
        add("nest", format!("(module) @m {{ print {}", "{".repeat(d)));
        add("nest", format!("(module) @m {{ {}{} }}", "if x { ".repeat(d), "}".repeat(d)));
        add("nest", format!("(module) @m {{ {}{} }}", "scan x { \"a\" { ".repeat(d), "} }".repeat(d)));
        add("nest", format!("(module) @m {{ print x{} }}", ".y".repeat(d)));
        add("nest", format!("{}(module){} @m {{ }}", "(".repeat(d), ")".repeat(d)));
    }
    v
}

fn is_atom(t: &Tok) -> bool { matches!(t.class, TC::Int | TC::Str | TC::Lit | TC::Cap | TC::RCap) }
fn pick_idx(rng: &mut Rng, toks: &[Tok], f: impl Fn(&Tok) -> bool) -> Option<usize> {
    let c: Vec<usize> = toks.iter().enumerate().filter(|(_, t)| f(t)).map(|(i, _)| i).collect();
    if c.is_empty() { None } else { Some(*rng.pick(&c)) }
}
/// an atom position, or (if the text has none) any word position
fn atom_idx(rng: &mut Rng, toks: &[Tok]) -> Option<usize> {
    pick_idx(rng, toks, is_atom).or_else(|| pick_idx(rng, toks, |t| t.class == TC::Word && !KEYWORDS.contains(&t.text.as_str())))
}
fn nest(rng: &mut Rng) -> String {
    let d = *rng.pick(&[2usize, 3, 5, 9, 17, 33, 64]);
    let missing = if rng.chance(30) { 1 } else { 0 };
    match rng.below(5) {
        0 => format!("{}1{}", "[".repeat(d), "]".repeat(d - missing)),
        1 => format!("{}x{}", "{".repeat(d), "}".repeat(d - missing)),
        2 => format!("{}{}", "(f ".repeat(d), ")".repeat(d - missing)),
        3 => format!("{}f{}", "(".repeat(d), ")".repeat(d)),
        _ => format!("{}[x for x in y]{}", "[".repeat(d), "]".repeat(d - missing)),
    }
}
fn mutate_tokens(rng: &mut Rng, toks: &mut Vec<Tok>) -> &'static str {
    if toks.is_empty() { toks.push(tk(pk(rng, STRAY), TC::Punct)); return "insert-delim"; }
    let n = toks.len();
    match rng.below(16) {
        0 => { toks.remove(rng.below(n)); "tok-delete" }
        1 => { let i = rng.below(n); let t = toks[i].clone(); toks.insert(i, t); "tok-dup" }
        2 => { if n >= 2 { let i = rng.below(n - 1); toks.swap(i, i + 1); } "tok-swap" }
        3 => { let (i, j) = (rng.below(n), rng.below(n)); toks.swap(i, j); "tok-swap-far" }
        4 | 5 => { let i = rng.below(n + 1); toks.insert(i, tk(pk(rng, STRAY), TC::Punct)); "insert-delim" }
        6 => match atom_idx(rng, toks) { Some(i) => { toks[i] = tk(pk(rng, HUGE_INTS), TC::Int); "huge-int" } None => { toks.remove(rng.below(n)); "tok-delete" } },
        7 => match atom_idx(rng, toks) { Some(i) => { toks[i] = tk(pk(rng, HUGE_CAPS), TC::RCap); "huge-regexcap" } None => { toks.remove(rng.below(n)); "tok-delete" } },
        8 | 9 => match pick_idx(rng, toks, |t| t.class == TC::Word && NEAR.iter().any(|(k, _)| *k == t.text)) {
            Some(i) => { let alts = NEAR.iter().find(|(k, _)| *k == toks[i].text).unwrap().1; toks[i] = tk(pk(rng, alts), TC::Word); "near-keyword" }
            None => { let i = rng.below(n + 1); toks.insert(i, tk(pk(rng, STRAY), TC::Punct)); "insert-delim" }
        },
        10 => match pick_idx(rng, toks, |t| t.class == TC::Query) {
            Some(i) => { toks.insert(i, tk(pk(rng, &["attribute", "global", "inherit", "attribute x", "global x", "inherit ."]), TC::Word)); "keyword-at-stanza-start" }
            None => { toks.insert(0, tk("attribute", TC::Word)); "keyword-at-stanza-start" }
        },
        11 => match atom_idx(rng, toks) { Some(i) => { toks[i] = tk(&nest(rng), TC::Punct); "nest" } None => { toks.push(tk(&nest(rng), TC::Punct)); "nest" } },
        12 => match pick_idx(rng, toks, |t| t.class == TC::Query) { Some(i) => { toks[i] = tk(pk(rng, QUERIES_2PAT), TC::Query); "query-2pat" } None => { toks.push(tk("(a) @a (b) @b { }", TC::Query)); "query-2pat" } },
        13 => match pick_idx(rng, toks, |t| t.class == TC::Query) { Some(i) => { toks[i] = tk(pk(rng, QUERIES_BAD), TC::Query); "query-invalid" } None => { toks.push(tk("(nope) @x { }", TC::Query)); "query-invalid" } },
        14 => match pick_idx(rng, toks, |t| t.class == TC::Pat) {
            Some(i) => { toks[i] = tk(pk(rng, BAD_REGEX), TC::Pat); "bad-regex" }
            None => match toks.iter().position(|t| t.class == TC::Query) {
                Some(q) if q + 1 < toks.len() => { let s = format!("scan \"x\" {{ {} {{ }} }}", pk(rng, BAD_REGEX)); toks.insert(q + 2, tk(&s, TC::Punct)); "bad-regex" }
                _ => { toks.push(tk("(module) @m { scan x { \"(\" { } } }", TC::Punct)); "bad-regex" }
            },
        },
        _ => match atom_idx(rng, toks) { Some(i) => { toks[i] = tk(pk(rng, BAD_ATOMS), TC::Lit); "bad-atom" } None => { toks.remove(rng.below(n)); "tok-delete" } },
    }
}
fn mutate_chars(rng: &mut Rng, text: &str) -> (String, &'static str) {
    let mut cs: Vec<char> = text.chars().collect();
    let n = cs.len();
    match rng.below(7) {
        0 | 1 => { cs.truncate(rng.below(n + 1)); (cs.into_iter().collect(), "truncate") }
        2 | 3 => { cs.insert(rng.below(n + 1), *rng.pick(ODD_CHARS)); (cs.into_iter().collect(), "insert-odd-char") }
        4 => { let s: Vec<char> = pk(rng, STRAY).chars().collect(); cs.insert(rng.below(n + 1), s[0]); (cs.into_iter().collect(), "insert-delim-char") }
        5 => { if n > 0 { cs.remove(rng.below(n)); } (cs.into_iter().collect(), "char-delete") }
        _ => { if n > 0 { let i = rng.below(n); cs[i] = *rng.pick(ODD_CHARS); } (cs.into_iter().collect(), "char-replace") }
    }
}

/// The malformed texts of stream C05p: (text, tags, note).  Also the input of stream C05r (rendering of load errors).
pub fn malformed_texts(rng: &mut Rng, n: usize) -> Vec<(String, Vec<String>, &'static str)> {
    let queries = query_pool();
    let mut out = Vec::with_capacity(n);
    // hand-written edge cases: a random subset (at most 2/5 of the stream), all of them in thorough runs
    let (core, mut sp): (Vec<_>, Vec<_>) = specials().into_iter().partition(|(k, _)| k == "empty" || k == "ws-only" || k == "comment-only" || k == "query-start" || k == "cond-multibyte");
    for i in (1..sp.len()).rev() { let j = rng.below(i + 1); sp.swap(i, j); }
    let mut sp: Vec<(String, String)> = core.into_iter().chain(sp).collect();   // empty / blank / comment-only inputs are in every run
    sp.truncate(n * 2 / 5);
    for (kind, text) in sp { out.push((text, vec![format!("mut:special:{}", kind), "src:special".into()], "hand-written edge case")); }
    while out.len() < n {
        let (base, src) = if rng.chance(50) {
            match gen_relayout_text(rng, true) { Some((t, _)) => (t, "src:gen_program"), None => continue }
        } else { (gen_ast_text(rng, &queries, true).0, "src:ast") };
        let mut tags = vec![src.to_string()];
        let k = rng.range(1, 3);
        let k_tok = (0..k).filter(|_| rng.chance(60)).count();
        let mut text = base;
        if k_tok > 0 {
            let mut toks = match tokens_of(&text) { Some(t) => t, None => { tags.push("BASE-NOT-TOKENISED".into()); vec![tk(&text, TC::Punct)] } };
            for _ in 0..k_tok { tags.push(format!("mut:{}", mutate_tokens(rng, &mut toks))); }
            let lay = Layout::new(*rng.pick(&[0, 0, 5, 15]), *rng.pick(&[0, 30, 80]));
            text = layout_tokens(rng, &toks, lay).0;
        }
        for _ in k_tok..k { let (t, kind) = mutate_chars(rng, &text); text = t; tags.push(format!("mut:{}", kind)); }
        // CRLF line ends (the `\r` is whitespace for the parser but is stripped by `str::lines` when an error excerpt
        // is cut out), and a text truncated right after a sigil at the end of a line
        if rng.chance(20) { text = text.replace('\n', "\r\n"); tags.push("layout:crlf".into());
            if rng.chance(60) { let lines: Vec<&str> = text.split("\r\n").collect(); if lines.len() > 2 { let at = 1 + rng.below(lines.len() - 1);
                let sig = *rng.pick(&["@", "#", ".", "$", "\""]); let mut v: Vec<String> = lines.iter().map(|l| l.to_string()).collect(); v[at] = format!("{} {}", v[at].trim_end(), sig);
                text = v.join("\r\n"); tags.push("mut:dangling-sigil-before-crlf".into()); } } }
        if text.chars().count() > MAX_TEXT { continue; }
        tags.push(format!("mutations={}", k));
        out.push((text, tags, "mutated valid text"));
    }
    out
}
pub fn gen_malformed(rng: &mut Rng, n: usize) -> Vec<Case> {
    malformed_texts(rng, n).into_iter().map(|(text, tags, note)| make_case("C05p", &text, None, tags, note)).collect()
}
