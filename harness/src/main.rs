#![allow(dead_code)]
mod rng;
mod common;
mod c17;
mod dump;
mod gen;
mod exec;
mod c01;
mod streams;
mod iso;
mod c18;
mod c16;
mod c19;
mod c10;
mod c14;
mod c13;
mod c12;
mod c06;
mod c07;
mod c20r;
mod c20d;
mod c05r;

use common::Case;
use std::fs;
use std::io::Write;

fn header(prop: &str) -> &'static str {
    match prop {
        "C17" => "From TSG Require Import Model.ContainerOps.\n",
        "C01" | "LAZY" | "C09" | "C11" | "C15" | "C20" | "C02" | "C08" | "C03" | "C04" | "C05x" => "From TSG Require Import Model.Run Model.IdxBridge.\n",
        "C18" => "From TSG Require Import Model.ParseErr.\n",
        "C16" => "From TSG Require Import Model.Globals.\n",
        "C19" => "From TSG Require Import Model.Cli.\n",
        "C10" | "C10rx" => "From TSG Require Import Model.ScanOps.\n",
        "C14" => "From TSG Require Import Model.C14TextObs.\n",
        "C13" | "C13D" => "From TSG Require Import Model.Stdlib.\n",
        "C12" => "From TSG Require Import Model.HashOrder.\n",
        "C06" => "From TSG Require Import Model.Checker.\n",
        "C07" | "C05p" => "From TSG Require Import Model.ParserObs.\n",
        "C20r" | "C20d" => "From TSG Require Import Model.AstDisplayObs.\n",
        "C05r" => "From TSG Require Import Model.LoadErrRender.\n",
        _ => "",
    }
}

fn write_cases(prop: &str, cases: &[Case], shards: usize, out: &str) {
    fs::create_dir_all(out).unwrap();
    let shards = shards.max(1).min(cases.len().max(1));
    let mut meta = Vec::new();
    for k in 0..shards {
        let mut f = fs::File::create(format!("{}/cases_{}.v", out, k)).unwrap();
        write!(f, "{}Open Scope N_scope.\n", header(prop)).unwrap();
        for (i, c) in cases.iter().enumerate() {
            if i % shards != k { continue; }
            write!(f, "Definition case_{} : N := {}.\nEval vm_compute in (({}, case_{})).\n", i, c.verdict, i, i).unwrap();
        }
    }
    for (i, c) in cases.iter().enumerate() {
        meta.push(serde_json::json!({"i": i, "shard": i % shards, "replay": c.replay, "nontrivial": c.nontrivial,
            "key": format!("{:016x}", c.key), "tags": c.tags, "detail": c.detail}));
    }
    fs::write(format!("{}/meta.json", out), serde_json::to_string(&serde_json::json!({"prop": prop, "header": header(prop), "cases": meta})).unwrap()).unwrap();
}

fn main() {
    common::limit_memory();
    let args: Vec<String> = std::env::args().collect();
    let get = |name: &str, def: &str| -> String {
        args.iter().position(|a| a == name).and_then(|i| args.get(i + 1)).cloned().unwrap_or(def.to_string())
    };
    let cmd = args.get(1).map(|s| s.as_str()).unwrap_or("");
    let prop = args.get(2).cloned().unwrap_or_default();
    let seed: u64 = get("--seed", "1").parse().unwrap();
    let n: usize = get("--n", "100").parse().unwrap();
    let shards: usize = get("--shards", "16").parse().unwrap();
    let out = get("--out", "out");
    let mut rng = rng::Rng::new(seed.wrapping_mul(1000003).wrapping_add(common::fnv(&prop)));
    match cmd {
        "gen" => {
            let cases = match prop.as_str() {
                "C17" => c17::gen(&mut rng, n),
                "C01" => c01::gen(&mut rng, n),
                "LAZY" => c01::gen_mode(&mut rng, n, true),
                "C09" => streams::c09_gen(&mut rng, n),
                "C11" => streams::c11_gen(&mut rng, n),
                "C15" => streams::c15_gen(&mut rng, n),
                "C20" => streams::c20_gen(&mut rng, n),
                "C20r" => c20r::gen(&mut rng, n),
                "C20d" => c20d::gen(&mut rng, n),
                "C05r" => c05r::gen(&mut rng, n),
                "C02" => streams::c02_gen(&mut rng, n),
                "C08" => streams::c08_gen(&mut rng, n),
                "C05x" => streams::c05x_gen(&mut rng, n),
                "C03" => streams::c03_gen(&mut rng, n),
                "C04" => streams::c04_gen(&mut rng, n),
                "C18" => c18::gen(&mut rng, n),
                "C16" => c16::gen(&mut rng, n),
                "C19" => c19::gen(&mut rng, n),
                "C10" => c10::gen(&mut rng, n),
                "C10rx" => c10::gen_rx_stream(&mut rng, n),
                "C14" => c14::gen(&mut rng, n),
                "C13" | "C13D" => c13::gen(&mut rng, n),
                "C12" => c12::gen(&mut rng, n),
                "C06" => c06::gen(&mut rng, n),
                "C07" => c07::gen(&mut rng, n),
                "C05p" => c07::gen_malformed(&mut rng, n),
                _ => { eprintln!("unknown property {}", prop); std::process::exit(2) }
            };
            write_cases(&prop, &cases, shards, &out);
        }
        "replay" => {
            let path = get("--file", "");
            let j: serde_json::Value = serde_json::from_str(&fs::read_to_string(&path).unwrap()).unwrap();
            let case = match prop.as_str() {
                "C17" => c17::replay(&j["case"]),
                "C01" => c01::replay(&j["case"]),
                "LAZY" => c01::replay_mode(&j["case"], true),
                "C09" => streams::c09_replay(&j["case"]),
                "C11" => streams::c11_replay(&j["case"]),
                "C15" => streams::c15_replay(&j["case"]),
                "C20" => streams::c20_replay(&j["case"]),
                "C20r" => c20r::replay(&j["case"]),
                "C20d" => c20d::replay(&j["case"]),
                "C05r" => c05r::replay(&j["case"]),
                "C02" => streams::c02_replay(&j["case"]),
                "C08" => streams::c08_replay(&j["case"]),
                "C05x" => streams::c05x_replay(&j["case"]),
                "C03" => streams::c03_replay(&j["case"]),
                "C04" => streams::c04_replay(&j["case"]),
                "C18" => c18::replay(&j["case"]),
                "C16" => c16::replay(&j["case"]),
                "C19" => c19::replay(&j["case"]),
                "C10" => c10::replay(&j["case"]),
                "C10rx" => c10::replay_rx(&j["case"]),
                "C14" => c14::replay(&j["case"]),
                "C13" | "C13D" => c13::replay(&j["case"]),
                "C12" => c12::replay(&j["case"]),
                "C06" => c06::replay(&j["case"]),
                "C07" | "C05p" => c07::replay(&j["case"]),
                _ => { eprintln!("unknown property {}", prop); std::process::exit(2) }
            };
            write_cases(&prop, &[case], 1, &out);
        }
        // C12 (e): observations of this process as one line per case, compared across OS processes
        "known" => streams::known_main(&prop),
        "transcript" if prop == "C12" => c12::transcript_main(&args),
        _ => { eprintln!("usage: tsgv gen|replay <prop> [--seed S] [--n N] [--shards K] [--out DIR]"); std::process::exit(2) }
    }
}
