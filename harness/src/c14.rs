//! C14: JSON serialisation (value tree and text) and pretty-printed form of graphs vs the model
//! (Model/Json.v, Model/JsonText.v, Model/Pretty.v).
//!
//! A case = a graph built through the public API (add_graph_node / add_edge / Attributes::add /
//! add_syntax_node) or by executing a small generated DSL program.  Observations of the implementation:
//!   * `serde_json::to_value(&graph)` converted to the model's `json` term.  Members are emitted in
//!     whatever order serde_json's Map yields; the model sorts the members of BOTH sides by key (`jsort`)
//!     before comparing, so hash-map iteration order is not compared (DESIGN 4.3).  Syntax-node ids
//!     (truncated addresses) are rewritten to preorder ids, the only canonicalisation done here.
//!   * `to_string_pretty` (what display_json writes) and `to_string` re-parsed with serde_json and
//!     compared with the value (serde_json against itself: a modelled dependency).
//!   * the REAL text that `Graph::display_json(Some(path))` writes into a file (checked here to equal
//!     `to_string_pretty(&graph)`), as a code-point list: the model (Model/JsonText.v, Model/C14TextObs.v)
//!     parses it with its own JSON parser, prints the parsed tree with its own `print_pretty` and compares
//!     the result with the real text character by character (verdict bit 32); the parsed tree must be the
//!     `to_value` tree up to member order (the text has hash-map order, which the model reads off the text).
//!   * `graph.pretty_print().to_string()` as a code-point list; the model compares the whole text and
//!     also parses it back (split into lines, node/edge/attribute lines).
//! The graph the model is run on is the in-memory API view (iter_nodes, iter_edges, Attributes::iter),
//! so `decode(impl JSON) = API view` inside the verdict is the property predicate itself.
use crate::common::*;
use crate::rng::Rng;
use serde_json::json;
use std::collections::{BTreeSet, HashMap};
use tree_sitter_graph::ast::File;
use tree_sitter_graph::functions::Functions;
use tree_sitter_graph::graph::{Attributes, Graph};
use tree_sitter_graph::{ExecutionConfig, Identifier, NoCancellation, Variables};

pub const SRC: &str = "x = f(1, y)\nif x:\n    z = 'é', y\npass\n";

/// attribute names: identifiers, names equal to the JSON structure keys, non-ASCII, space/quote.
/// None contains ':' or a newline (hypothesis `names_ok` of pretty_extract).
const NAMES: &[&str] = &["a", "b", "name", "k1", "k2", "ty-pe", "x_y", "type", "id", "attrs", "values", "sink", "edges",
    "naïve", "ключ", "a b", "q\"q", "Z", "aa", "zz9", "b\\s", "t\tb", "\u{7f}d", "\u{1}k", "a/b"];
const DSL_NAMES: &[&str] = &["a", "b", "name", "k1", "k2", "ty-pe", "x_y", "type", "id", "attrs", "values", "sink", "edges", "Z", "aa"];

/// strings: empty, quotes (both kinds), backslashes, every ASCII escape class of escape_debug,
/// other control characters, DEL, C1 control, Latin-1, combining mark (Grapheme_Extend), zero-width /
/// format characters, CJK, astral plane, private use, line separator, noncharacter-adjacent maximum.
pub const STRS: &[&str] = &["", "a", "ab", "x y", "a\"q", "it's", "\\", "\\\\n", "tab\t", "nl\n", "cr\r", "nul\0x", "\u{1}", "\u{1b}[0m", "\u{1f}",
    "\u{7f}", "\u{85}", "\u{a0}", "\u{ad}", "héllo", "e\u{301}", "\u{200b}", "\u{200d}", "日本", "😀", "\u{e000}", "\u{2028}", "\u{2029}", "a\u{2029}b", "\u{2027}\u{202a}", "\u{10ffff}", "\u{feff}", "\u{fffd}", "\u{d7ff}\u{e000}",
    "{}", "[1, 2]", "#null", "node 0", "  k: v", "edge 0 -> 1", "a: b", "\"", "\"\"", "{\"type\":\"int\"}", "ß→∀",
    // JSON text level (Model/JsonText.v): the two-letter escapes \b \f, \u00XX with hex letters in either digit, '/' (not escaped),
    // an escape sequence spelled out in the string itself, quote/backslash runs next to escapes
    "\u{8}", "\u{c}", "bs\u{8}ff\u{c}vt\u{b}", "\u{e}\u{10}\u{1a}\u{1e}", "a/b", "\\u0041", "\\\"", "\r\n\t\"\\/\u{7f}\u{2028}😀\u{1}"];

#[derive(Clone, Debug)]
pub enum BOp { NodeAttr(u32, String, GV), Edge(u32, u32), EdgeAttr(u32, u32, String, GV) }
impl BOp {
    fn json(&self) -> serde_json::Value {
        match self {
            BOp::NodeAttr(n, k, v) => json!(["nattr", n, k, v.json()]),
            BOp::Edge(a, b) => json!(["edge", a, b]),
            BOp::EdgeAttr(a, b, k, v) => json!(["eattr", a, b, k, v.json()]),
        }
    }
    fn from_json(j: &serde_json::Value) -> BOp {
        let a = j.as_array().unwrap();
        let u = |i: usize| a[i].as_u64().unwrap() as u32;
        match a[0].as_str().unwrap() {
            "nattr" => BOp::NodeAttr(u(1), a[2].as_str().unwrap().into(), GV::from_json(&a[3])),
            "edge" => BOp::Edge(u(1), u(2)),
            "eattr" => BOp::EdgeAttr(u(1), u(2), a[3].as_str().unwrap().into(), GV::from_json(&a[4])),
            x => panic!("bad bop {}", x),
        }
    }
}

#[derive(Clone, Debug)]
pub enum Input { Api { nodes: usize, ops: Vec<BOp> }, Dsl { dsl: String, lazy: bool } }

// ---------------------------------------------------------------- generators

fn gen_val(rng: &mut Rng, depth: usize, n_syn: usize, n_graph: u32, syn_in_set: bool, in_set: bool) -> GV {
    let k = rng.below(if depth == 0 { 6 } else { 9 });
    match k {
        0 => GV::Null,
        1 => GV::Bool(rng.chance(50)),
        2 => GV::Int(if rng.chance(60) { *rng.pick(INT_POOL) } else { rng.below(20) as u32 }),
        3 => GV::Str(rng.pick(STRS).to_string()),
        4 => if n_syn > 0 && (syn_in_set || !in_set) { GV::Syn(rng.below(n_syn)) } else { GV::Str(rng.pick(STRS).to_string()) },
        5 => if n_graph > 0 { GV::Graph(rng.below(n_graph as usize) as u32) } else { GV::Int(3) },
        6 | 7 => { let n = rng.below(4); GV::List((0..n).map(|_| gen_val(rng, depth - 1, n_syn, n_graph, syn_in_set, in_set)).collect()) }
        _ => {
            let n = rng.below(5);
            let mut items: Vec<GV> = Vec::new();
            for _ in 0..n {
                let v = gen_val(rng, depth - 1, n_syn, n_graph, syn_in_set, true);
                if !items.contains(&v) { items.push(v); } else if rng.chance(50) { items.push(v); } // duplicates must collapse
            }
            GV::Set(items)
        }
    }
}

fn gen_api(rng: &mut Rng, i: usize, n_syn: usize) -> Input {
    let hub = rng.chance(35);
    let mut n = if i % 10 == 0 { rng.below(2) } else if rng.chance(15) { rng.range(21, 40) } else { rng.range(2, 12) };
    if hub && n > 0 && n < 10 { n = rng.range(10, 16); }
    let syn_in_set = rng.chance(15);
    let mut ops = Vec::new();
    if n == 0 { return Input::Api { nodes: 0, ops }; }
    let nd = |rng: &mut Rng| rng.below(n) as u32;
    let val = |rng: &mut Rng| gen_val(rng, 3, n_syn, n as u32, syn_in_set, false);
    for node in 0..n as u32 {
        for _ in 0..rng.below(4) { ops.push(BOp::NodeAttr(node, rng.pick(NAMES).to_string(), val(rng))); }
    }
    let n_edges = rng.below(2 * n + 1);
    let mut edges: Vec<(u32, u32)> = Vec::new();
    for _ in 0..n_edges {
        let a = nd(rng);
        let b = if rng.chance(10) { a } else { nd(rng) };
        edges.push((a, b));
    }
    if hub { for _ in 0..rng.range(9, 14) { edges.push((0, nd(rng))); } }
    for (a, b) in edges {
        ops.push(BOp::Edge(a, b));
        if rng.chance(55) {
            for _ in 0..rng.range(1, 3) { ops.push(BOp::EdgeAttr(a, b, rng.pick(NAMES).to_string(), val(rng))); }
        }
    }
    // random order of construction (Fisher-Yates); edge attributes create their edge when needed
    for k in (1..ops.len()).rev() { let j = rng.below(k + 1); ops.swap(k, j); }
    Input::Api { nodes: n, ops }
}

fn dsl_string(s: &str) -> String {
    let mut o = String::from("\"");
    for c in s.chars() {
        match c { '"' => o.push_str("\\\""), '\\' => o.push_str("\\\\"), '\n' => o.push_str("\\n"), '\t' => o.push_str("\\t"),
                  '\r' => o.push_str("\\r"), '\0' => o.push_str("\\0"), c => o.push(c) }
    }
    o.push('"');
    o
}
/// a DSL expression; `caps` = capture names, `nodes` = graph-node variables in scope
fn dsl_expr(rng: &mut Rng, depth: usize, caps: &[&str], nodes: &[String], syn_in_set: bool, in_set: bool) -> String {
    let k = rng.below(if depth == 0 { 6 } else { 9 });
    match k {
        0 => "#null".into(),
        1 => if rng.chance(50) { "#true".into() } else { "#false".into() },
        2 => (if rng.chance(60) { *rng.pick(INT_POOL) } else { rng.below(20) as u32 }).to_string(),
        3 => dsl_string(*rng.pick(STRS)),
        4 => if !caps.is_empty() && (syn_in_set || !in_set) { format!("@{}", rng.pick(caps)) } else { dsl_string(*rng.pick(STRS)) },
        5 => if !nodes.is_empty() { rng.pick(nodes).clone() } else { "7".into() },
        6 | 7 => { let n = rng.below(4); format!("[{}]", (0..n).map(|_| dsl_expr(rng, depth - 1, caps, nodes, syn_in_set, in_set)).collect::<Vec<_>>().join(", ")) }
        _ => { let n = rng.below(4); format!("{{{}}}", (0..n).map(|_| dsl_expr(rng, depth - 1, caps, nodes, syn_in_set, true)).collect::<Vec<_>>().join(", ")) }
    }
}
fn dsl_attrs(rng: &mut Rng, caps: &[&str], nodes: &[String], syn_in_set: bool) -> String {
    let mut names: Vec<&str> = Vec::new();
    for _ in 0..rng.range(1, 3) { let n = *rng.pick(DSL_NAMES); if !names.contains(&n) { names.push(n); } }
    names.iter().map(|n| format!("{} = {}", n, dsl_expr(rng, 3, caps, nodes, syn_in_set, false))).collect::<Vec<_>>().join(", ")
}
fn gen_dsl(rng: &mut Rng) -> Input {
    const QUERIES: &[(&str, &[&str])] = &[
        ("(module) @m", &["m"]),
        ("(identifier) @id", &["id"]),
        ("(assignment left: (_) @l right: (_) @r) @as", &["l", "r", "as"]),
        ("(call function: (identifier) @fn arguments: (argument_list) @args)", &["fn", "args"]),
        ("(pass_statement) @p", &["p"]),
    ];
    let syn_in_set = rng.chance(20);
    let mut out = String::new();
    for _ in 0..rng.range(1, 3) {
        let (q, caps) = rng.pick(QUERIES);
        out.push_str(q); out.push_str("\n{\n");
        // every capture must be used, or the checker rejects the file
        out.push_str(&format!("  let caps_ = [{}]\n", caps.iter().map(|c| format!("@{}", c)).collect::<Vec<_>>().join(", ")));
        let k = rng.range(1, 4);
        let mut nodes: Vec<String> = Vec::new();
        for i in 0..k { out.push_str(&format!("  node n{}\n", i)); nodes.push(format!("n{}", i)); }
        for nv in nodes.clone() {
            if rng.chance(75) { out.push_str(&format!("  attr ({}) {}\n", nv, dsl_attrs(rng, caps, &nodes, syn_in_set))); }
        }
        let mut seen: Vec<(usize, usize)> = Vec::new();
        for _ in 0..rng.below(2 * k + 1) {
            let (a, b) = (rng.below(k), rng.below(k));
            out.push_str(&format!("  edge n{} -> n{}\n", a, b));
            if !seen.contains(&(a, b)) && rng.chance(60) { out.push_str(&format!("  attr (n{} -> n{}) {}\n", a, b, dsl_attrs(rng, caps, &nodes, syn_in_set))); }
            seen.push((a, b));
        }
        out.push_str("}\n");
    }
    Input::Dsl { dsl: out, lazy: rng.chance(50) }
}

// ---------------------------------------------------------------- implementation side

fn build<'t>(input: &Input, tree: &'t tree_sitter::Tree, info: &TreeInfo<'t>) -> Result<Graph<'t>, String> {
    match input {
        Input::Api { nodes, ops } => {
            let mut graph = Graph::new();
            for _ in 0..*nodes { graph.add_graph_node(); }
            for op in ops {
                match op {
                    BOp::NodeAttr(n, k, v) => {
                        let val = v.to_value(&mut graph, info);
                        let r = graph.iter_nodes().nth(*n as usize).unwrap();
                        let _ = graph[r].attributes.add(Identifier::from(k.as_str()), val);
                    }
                    BOp::Edge(a, b) => {
                        let (ra, rb) = (graph.iter_nodes().nth(*a as usize).unwrap(), graph.iter_nodes().nth(*b as usize).unwrap());
                        match graph[ra].add_edge(rb) { Ok(_) | Err(_) => () }
                    }
                    BOp::EdgeAttr(a, b, k, v) => {
                        let val = v.to_value(&mut graph, info);
                        let (ra, rb) = (graph.iter_nodes().nth(*a as usize).unwrap(), graph.iter_nodes().nth(*b as usize).unwrap());
                        let e = match graph[ra].add_edge(rb) { Ok(e) | Err(e) => e };
                        let _ = e.attributes.add(Identifier::from(k.as_str()), val);
                    }
                }
            }
            Ok(graph)
        }
        Input::Dsl { dsl, lazy } => {
            let file = File::from_str(tree_sitter_python::LANGUAGE.into(), dsl).map_err(|e| format!("parse: {}", e))?;
            let functions = Functions::stdlib();
            let globals = Variables::new();
            let mut config = ExecutionConfig::new(&functions, &globals).lazy(*lazy);
            file.execute(tree, info.src, &mut config, &NoCancellation).map_err(|e| format!("exec: {}", e))
        }
    }
}

type AttrView = Vec<(String, GV)>;
pub struct View { pub nodes: Vec<(AttrView, Vec<(u32, AttrView)>)> }

fn attr_view<'t>(a: &Attributes, graph: &Graph<'t>, info: &TreeInfo<'t>) -> AttrView {
    let mut v: AttrView = a.iter().map(|(k, v)| (k.to_string(), GV::from_value(v, graph, info))).collect();
    v.sort_by(|x, y| x.0.cmp(&y.0));
    v
}
/// the in-memory API view: iter_nodes, Attributes::iter, iter_edges
fn api_view<'t>(graph: &Graph<'t>, info: &TreeInfo<'t>) -> View {
    let mut nodes = Vec::new();
    for r in graph.iter_nodes() {
        let n = &graph[r];
        let edges = n.iter_edges().map(|(s, e)| (s.index() as u32, attr_view(&e.attributes, graph, info))).collect();
        nodes.push((attr_view(&n.attributes, graph, info), edges));
    }
    View { nodes }
}

fn coq_attrs(a: &AttrView) -> String {
    coq_list(&a.iter().map(|(k, v)| format!("({}, {})", coq_str(k), v.coq())).collect::<Vec<_>>())
}
impl View {
    fn coq(&self) -> String {
        coq_list(&self.nodes.iter().map(|(a, es)| format!("(Build_gnode {} {})", coq_attrs(a),
            coq_list(&es.iter().map(|(s, ea)| format!("({}, {})", s, coq_attrs(ea))).collect::<Vec<_>>()))).collect::<Vec<_>>())
    }
    fn values(&self) -> Vec<&GV> {
        let mut out = Vec::new();
        for (a, es) in &self.nodes { for (_, v) in a { out.push(v); } for (_, ea) in es { for (_, v) in ea { out.push(v); } } }
        out
    }
}

fn walk_gv<'a>(v: &'a GV, f: &mut dyn FnMut(&'a GV, bool), in_set: bool) {
    f(v, in_set);
    match v { GV::List(l) => for x in l { walk_gv(x, f, in_set) }, GV::Set(l) => for x in l { walk_gv(x, f, true) }, _ => () }
}

/// serde_json::Value -> model json term.  Objects {"type":"syntaxNode","id":n}: n (node.index, the
/// truncated address) is replaced by the preorder id of that node.
fn json_coq(v: &serde_json::Value, addr: &HashMap<u64, usize>) -> String {
    match v {
        serde_json::Value::Null => "JNull".into(),
        serde_json::Value::Bool(b) => format!("(JBool {})", coq_bool(*b)),
        serde_json::Value::Number(n) => match n.as_u64() { Some(u) => format!("(JNum {})", u), None => format!("(JStr {})", coq_str(&format!("#badnum {}", n))) },
        serde_json::Value::String(s) => format!("(JStr {})", coq_str(s)),
        serde_json::Value::Array(l) => format!("(JArr {})", coq_list(&l.iter().map(|x| json_coq(x, addr)).collect::<Vec<_>>())),
        serde_json::Value::Object(m) => {
            let is_syn = m.get("type").and_then(|t| t.as_str()) == Some("syntaxNode");
            let items: Vec<String> = m.iter().map(|(k, x)| {
                if is_syn && k == "id" {
                    if let Some(i) = x.as_u64().and_then(|u| addr.get(&u)) { return format!("({}, (JNum {}))", coq_str(k), i); }
                }
                format!("({}, {})", coq_str(k), json_coq(x, addr))
            }).collect();
            format!("(JObj {})", coq_list(&items))
        }
    }
}

/// a long text as a Coq term: one flat list literal of tens of thousands of elements overflows coqc's
/// stack (the term is nested as deep as it is long) and coqc needs ~0.1 ms per element, so the text is written
/// as `concat` of pieces: list literals of at most 1000 characters and `(sp k)` (Model/C14TextObs.v: k spaces)
/// for every run of at least 6 spaces (the indentation is half of a pretty-printed JSON text)
fn coq_str_chunked(s: &str) -> String {
    let chars: Vec<char> = s.chars().collect();
    if chars.len() <= 200 { return coq_str(s); }
    let mut pieces: Vec<String> = Vec::new();
    let mut cur = String::new();
    let mut cur_len = 0usize;
    let mut i = 0usize;
    while i < chars.len() {
        let mut k = 0usize;
        while i + k < chars.len() && chars[i + k] == ' ' { k += 1; }
        if k >= 6 {
            if cur_len > 0 { pieces.push(coq_str(&cur)); cur.clear(); cur_len = 0; }
            pieces.push(format!("(sp {})", k));
            i += k;
            continue;
        }
        let take = k.max(1);
        for c in &chars[i..i + take] { cur.push(*c); }
        cur_len += take;
        i += take;
        if cur_len >= 1000 { pieces.push(coq_str(&cur)); cur.clear(); cur_len = 0; }
    }
    if cur_len > 0 { pieces.push(coq_str(&cur)); }
    format!("(List.concat {})", coq_list(&pieces))
}

pub fn make_case(input: &Input) -> Result<Case, String> {
    crate::common::note_input("C14", &match input {
        Input::Api { nodes, ops } => json!({"kind": "api", "nodes": nodes, "ops": ops.iter().map(|o| o.json()).collect::<Vec<_>>()}),
        Input::Dsl { dsl, lazy } => json!({"kind": "dsl", "dsl": dsl, "lazy": lazy}),
    });
    let tree = parse_python(SRC);
    let info = TreeInfo::new(&tree, SRC);
    let graph = build(input, &tree, &info)?;
    let view = api_view(&graph, &info);

    // truncated address -> preorder id (KeyInjective is checked, not assumed)
    let mut addr: HashMap<u64, usize> = HashMap::new();
    for (i, n) in info.nodes.iter().enumerate() {
        if addr.insert((n.id() as u32) as u64, i).is_some() { return Err("syntax node ids collide modulo 2^32".into()); }
    }

    let obs = std::panic::catch_unwind(std::panic::AssertUnwindSafe(|| {
        let jv = serde_json::to_value(&graph).map_err(|e| e.to_string())?;
        let pretty_txt = serde_json::to_string_pretty(&graph).map_err(|e| e.to_string())?;
        let compact_txt = serde_json::to_string(&graph).map_err(|e| e.to_string())?;
        let re1 = serde_json::from_str::<serde_json::Value>(&pretty_txt).map(|r| r == jv).unwrap_or(false);
        let re2 = serde_json::from_str::<serde_json::Value>(&compact_txt).map(|r| r == jv).unwrap_or(false);
        let text = format!("{}", graph.pretty_print());
        // Graph::display_json into a file that already holds a LONGER document: the file must then hold exactly this graph
        let path = std::path::PathBuf::from(format!("c14-display-json-{}.json", std::process::id()));
        let filler = format!("{{\"old\": \"{}\"}}", "x".repeat(pretty_txt.len() + 64));
        let written = std::fs::write(&path, filler).is_ok() && graph.display_json(Some(&path)).is_ok();
        // the REAL text of display_json (the bytes of the file, which must be UTF-8); it must also be what to_string_pretty returns
        let ftxt = if written { std::fs::read(&path).ok().and_then(|b| String::from_utf8(b).ok()) } else { None };
        let file_ok = ftxt.as_ref().map(|t| *t == pretty_txt && serde_json::from_str::<serde_json::Value>(t).map(|r| r == jv).unwrap_or(false)).unwrap_or(false);
        let _ = std::fs::remove_file(&path);
        let jtext = ftxt.unwrap_or_else(|| format!("#display_json failed; to_string_pretty = {}", pretty_txt));
        Ok::<_, String>((jv, re1 && re2 && file_ok, text, jtext))
    }));
    let (ij_coq, reparse_ok, text, jtext) = match obs {
        Ok(Ok((jv, ok, text, jtext))) => (json_coq(&jv, &addr), ok, text, jtext),
        Ok(Err(e)) => (format!("(JStr {})", coq_str(&format!("#serialize error {}", e))), false, String::new(), String::new()),
        Err(_) => (format!("(JStr {})", coq_str("#panicked")), false, String::new(), String::new()),
    };

    // tables for the model: kinds/positions of the referenced syntax nodes straight from tree-sitter,
    // std's escape_debug verdict for the non-ASCII characters that occur
    let mut syn_ids: BTreeSet<usize> = BTreeSet::new();
    let mut chars: BTreeSet<char> = BTreeSet::new();
    let mut variants: BTreeSet<&'static str> = BTreeSet::new();
    let (mut synset, mut nested, mut special) = (false, false, false);
    for v in view.values() {
        walk_gv(v, &mut |x, in_set| {
            match x {
                GV::Syn(i) => { syn_ids.insert(*i); if in_set { synset = true; } variants.insert("v:syntaxNode"); }
                GV::Str(s) => { variants.insert("v:string"); for c in s.chars() { if !c.is_ascii() { chars.insert(c); } if !(c.is_ascii_alphanumeric() || c == ' ') { special = true; } } }
                GV::Null => { variants.insert("v:null"); } GV::Bool(_) => { variants.insert("v:bool"); } GV::Int(_) => { variants.insert("v:int"); }
                GV::Graph(_) => { variants.insert("v:graphNode"); }
                GV::List(l) => { variants.insert("v:list"); if l.iter().any(|y| matches!(y, GV::List(_) | GV::Set(_))) { nested = true; } }
                GV::Set(l) => { variants.insert("v:set"); if l.iter().any(|y| matches!(y, GV::List(_) | GV::Set(_))) { nested = true; } }
            }
        }, false);
    }
    // escape classes of serde_json's string printer that occur in the JSON text (attribute names and string values)
    let mut esc: BTreeSet<&'static str> = BTreeSet::new();
    {
        let mut class = |s: &str| for c in s.chars() {
            esc.insert(match c {
                '"' => "json_esc:quote", '\\' => "json_esc:backslash", '\n' => "json_esc:n", '\r' => "json_esc:r", '\t' => "json_esc:t",
                '\u{8}' => "json_esc:b", '\u{c}' => "json_esc:f", c if (c as u32) < 0x20 => "json_esc:u00XX",
                '\u{7f}' => "json_raw:DEL", '\u{2028}' | '\u{2029}' => "json_raw:U+2028/9", '/' => "json_raw:slash",
                c if (c as u32) >= 0x10000 => "json_raw:astral", c if !c.is_ascii() => "json_raw:non_ascii", _ => "json_raw:ascii" });
        };
        for (a, es) in &view.nodes { for (k, _) in a { class(k); } for (_, ea) in es { for (k, _) in ea { class(k); } } }
        for v in view.values() { walk_gv(v, &mut |x, _| if let GV::Str(s) = x { class(s); }, false); }
    }
    let pe_syn = coq_list(&syn_ids.iter().map(|i| { let n = info.nodes[*i]; let p = n.start_position();
        format!("({}, ({}, ({}, {})))", i, coq_str(n.kind()), p.row, p.column) }).collect::<Vec<_>>());
    // id of a referenced syntax node in the JSON text (node.index = truncated address) -> preorder id
    let syn_tbl = coq_list(&syn_ids.iter().map(|i| format!("({}, {})", info.nodes[*i].id() as u32, i)).collect::<Vec<_>>());
    let pe_print = coq_list(&chars.iter().map(|c| format!("({}, {})", *c as u32, coq_bool(c.escape_debug().count() == 1))).collect::<Vec<_>>());
    let env = format!("(Build_penv {} {})", pe_syn, pe_print);
    let g = view.coq();

    let n_nodes = view.nodes.len();
    let n_edges: usize = view.nodes.iter().map(|(_, es)| es.len()).sum();
    let edge_with_attrs = view.nodes.iter().any(|(_, es)| es.iter().any(|(_, a)| !a.is_empty()));
    let spill = view.nodes.iter().any(|(_, es)| es.len() > 8);
    let selfloop = view.nodes.iter().enumerate().any(|(i, (_, es))| es.iter().any(|(s, _)| *s as usize == i));
    let keyname = view.nodes.iter().any(|(a, es)| a.iter().chain(es.iter().flat_map(|(_, ea)| ea.iter())).any(|(k, _)| ["type", "id", "attrs", "values", "sink", "edges"].contains(&k.as_str())));
    let mut tags: Vec<String> = vec![
        match input { Input::Api { .. } => "input:api".into(), Input::Dsl { lazy, .. } => format!("input:dsl-{}", if *lazy { "lazy" } else { "strict" }) },
        format!("nodes:{}", match n_nodes { 0 => "0", 1 => "1", 2..=5 => "2-5", 6..=20 => "6-20", _ => "21-40" }),
        format!("edges:{}", match n_edges { 0 => "0", 1..=5 => "1-5", 6..=20 => "6-20", _ => "21+" }),
    ];
    for v in &variants { tags.push(v.to_string()); }
    if spill { tags.push("spill>8".into()); }
    if selfloop { tags.push("selfloop".into()); }
    if special { tags.push("special_strings".into()); }
    if !chars.is_empty() { tags.push("non_ascii".into()); }
    if synset { tags.push("syntax_node_in_set".into()); }
    if nested { tags.push("nested_list_or_set".into()); }
    if keyname { tags.push("attr_named_like_json_key".into()); }
    if edge_with_attrs { tags.push("edge_attrs".into()); }
    for e in &esc { tags.push(e.to_string()); }

    let replay = match input {
        Input::Api { nodes, ops } => json!({"prop": "C14", "kind": "api", "nodes": nodes, "ops": ops.iter().map(|o| o.json()).collect::<Vec<_>>(), "src": SRC,
            "impl_pretty": text.chars().take(2000).collect::<String>(), "impl_json_text": jtext.chars().take(4000).collect::<String>()}),
        Input::Dsl { dsl, lazy } => json!({"prop": "C14", "kind": "dsl", "dsl": dsl, "lazy": lazy, "src": SRC, "impl_pretty": text.chars().take(2000).collect::<String>(), "impl_json_text": jtext.chars().take(4000).collect::<String>()}),
    };
    Ok(Case {
        verdict: format!("c14t_verdict {} {} {} {} {} {} {} {}", env, g, ij_coq, coq_bool(reparse_ok), coq_str(&text), coq_bool(synset), syn_tbl, coq_str_chunked(&jtext)),
        detail: format!("c14t_detail {} {}", env, g),
        key: fnv(&format!("{}|{}", g, text)),
        nontrivial: n_nodes >= 2 && edge_with_attrs && nested,
        tags, replay,
    })
}

pub fn gen(rng: &mut Rng, n: usize) -> Vec<Case> {
    let tree = parse_python(SRC);
    let n_syn = TreeInfo::new(&tree, SRC).nodes.len();
    let mut cases = Vec::new();
    for i in 0..n {
        let mut case = None;
        if i % 6 == 5 {
            for _ in 0..20 {
                let input = gen_dsl(rng);
                match make_case(&input) { Ok(c) => { case = Some(c); break; } Err(e) => eprintln!("C14: generated program rejected ({})", e) }
            }
        }
        let case = match case { Some(c) => c, None => make_case(&gen_api(rng, i, n_syn)).expect("api case") };
        cases.push(case);
    }
    cases
}

pub fn replay(j: &serde_json::Value) -> Case {
    let input = match j["kind"].as_str().unwrap() {
        "api" => Input::Api { nodes: j["nodes"].as_u64().unwrap() as usize, ops: j["ops"].as_array().unwrap().iter().map(BOp::from_json).collect() },
        _ => Input::Dsl { dsl: j["dsl"].as_str().unwrap().to_string(), lazy: j["lazy"].as_bool().unwrap_or(false) },
    };
    make_case(&input).expect("replay case builds")
}
