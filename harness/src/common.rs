//! Shared pieces: generated values, Coq term emission, recorded syntax trees, case records.
use crate::rng::Rng;
use std::collections::{BTreeSet, HashMap};
use tree_sitter::{Node, Parser, Tree};
use tree_sitter_graph::graph::{Graph, Value};

pub fn coq_str(s: &str) -> String {
    let mut out = String::from("[");
    let mut first = true;
    for c in s.chars() {
        if !first { out.push(';'); }
        first = false;
        out.push_str(&(c as u32).to_string());
    }
    out.push(']');
    out
}
pub fn coq_list(items: &[String]) -> String { format!("[{}]", items.join("; ")) }
pub fn coq_opt(x: Option<String>) -> String { match x { Some(s) => format!("(Some {})", s), None => "None".into() } }
pub fn coq_bool(b: bool) -> &'static str { if b { "true" } else { "false" } }

/// A generated value, independent of any graph; syntax nodes by preorder id.
#[derive(Clone, Debug, PartialEq)]
pub enum GV { Null, Bool(bool), Int(u32), Str(String), List(Vec<GV>), Set(Vec<GV>), Syn(usize), Graph(u32) }

impl GV {
    pub fn coq(&self) -> String {
        match self {
            GV::Null => "VNull".into(),
            GV::Bool(b) => format!("(VBool {})", coq_bool(*b)),
            GV::Int(n) => format!("(VInt {})", n),
            GV::Str(s) => format!("(VStr {})", coq_str(s)),
            GV::List(l) => format!("(VList {})", coq_list(&l.iter().map(|v| v.coq()).collect::<Vec<_>>())),
            // canonical: the model sorts with its own order (set_of_list), duplicates collapse
            GV::Set(l) => format!("(VSet (set_of_list {}))", coq_list(&l.iter().map(|v| v.coq()).collect::<Vec<_>>())),
            GV::Syn(i) => format!("(VSyn {})", i),
            GV::Graph(i) => format!("(VGraph {})", i),
        }
    }
    pub fn json(&self) -> serde_json::Value {
        use serde_json::json;
        match self {
            GV::Null => json!(null),
            GV::Bool(b) => json!(b),
            GV::Int(n) => json!(n),
            GV::Str(s) => json!(s),
            GV::List(l) => json!({"list": l.iter().map(|v| v.json()).collect::<Vec<_>>()}),
            GV::Set(l) => json!({"set": l.iter().map(|v| v.json()).collect::<Vec<_>>()}),
            GV::Syn(i) => json!({"syn": i}),
            GV::Graph(i) => json!({"gnode": i}),
        }
    }
    pub fn from_json(j: &serde_json::Value) -> GV {
        match j {
            serde_json::Value::Null => GV::Null,
            serde_json::Value::Bool(b) => GV::Bool(*b),
            serde_json::Value::Number(n) => GV::Int(n.as_u64().unwrap() as u32),
            serde_json::Value::String(s) => GV::Str(s.clone()),
            serde_json::Value::Object(o) => {
                if let Some(l) = o.get("list") { GV::List(l.as_array().unwrap().iter().map(GV::from_json).collect()) }
                else if let Some(l) = o.get("set") { GV::Set(l.as_array().unwrap().iter().map(GV::from_json).collect()) }
                else if let Some(i) = o.get("syn") { GV::Syn(i.as_u64().unwrap() as usize) }
                else { GV::Graph(o["gnode"].as_u64().unwrap() as u32) }
            }
            _ => panic!("bad GV json"),
        }
    }
    /// Convert to a real Value. Graph-node references must exist in `graph` (caller ensures).
    pub fn to_value<'t>(&self, graph: &mut Graph<'t>, tree: &TreeInfo<'t>) -> Value {
        match self {
            GV::Null => Value::Null,
            GV::Bool(b) => Value::Boolean(*b),
            GV::Int(n) => Value::Integer(*n),
            GV::Str(s) => Value::String(s.clone()),
            GV::List(l) => Value::List(l.iter().map(|v| v.to_value(graph, tree)).collect()),
            GV::Set(l) => Value::Set(l.iter().map(|v| v.to_value(graph, tree)).collect::<BTreeSet<_>>()),
            GV::Syn(i) => Value::SyntaxNode(graph.add_syntax_node(tree.nodes[*i])),
            GV::Graph(i) => {
                let r = graph.iter_nodes().nth(*i as usize).expect("graph node exists");
                Value::GraphNode(r)
            }
        }
    }
    pub fn from_value<'t>(v: &Value, graph: &Graph<'t>, tree: &TreeInfo<'t>) -> GV {
        match v {
            Value::Null => GV::Null,
            Value::Boolean(b) => GV::Bool(*b),
            Value::Integer(n) => GV::Int(*n),
            Value::String(s) => GV::Str(s.clone()),
            Value::List(l) => GV::List(l.iter().map(|x| GV::from_value(x, graph, tree)).collect()),
            Value::Set(l) => {
                // canonical element order: the implementation orders syntax-node references by node id (an address);
                // consecutive syntax nodes are re-ordered by preorder index, which is what the model uses
                let mut v: Vec<GV> = l.iter().map(|x| GV::from_value(x, graph, tree)).collect();
                let mut i = 0;
                while i < v.len() {
                    let mut j = i;
                    while j < v.len() && matches!(v[j], GV::Syn(_)) { j += 1; }
                    if j > i + 1 { v[i..j].sort_by_key(|x| if let GV::Syn(n) = x { *n } else { 0 }); }
                    i = j.max(i + 1);
                }
                GV::Set(v)
            }
            Value::SyntaxNode(r) => GV::Syn(*tree.ids.get(&graph[*r].id()).expect("known syntax node")),
            Value::GraphNode(r) => GV::Graph(r.index() as u32),
        }
    }
}

pub const STR_POOL: &[&str] = &["", "a", "b", "ab", "x y", "{}", "{", "}}", "héllo", "日本", "a\"q", "tab\t", "nl\n", "\\", "\u{7f}", "z{}z", ".*", "a|b", "a\u{2028}b", "a\u{2029}b", "\u{2029}"];
pub const INT_POOL: &[u32] = &[0, 1, 2, 7, 42, 255, 65535, 2147483647, 2147483648, 4294967294, 4294967295];

pub struct ValGen { pub n_syn: usize, pub n_graph: u32, pub allow_syn_in_set: bool }
impl ValGen {
    pub fn gen(&self, rng: &mut Rng, depth: usize) -> GV {
        let k = rng.below(if depth == 0 { 6 } else { 8 });
        match k {
            0 => GV::Null,
            1 => GV::Bool(rng.chance(50)),
            2 => GV::Int(if rng.chance(60) { *rng.pick(INT_POOL) } else { rng.below(20) as u32 }),
            3 => GV::Str(rng.pick(STR_POOL).to_string()),
            4 => if self.n_syn > 0 { GV::Syn(rng.below(self.n_syn)) } else { GV::Null },
            5 => if self.n_graph > 0 { GV::Graph(rng.below(self.n_graph as usize) as u32) } else { GV::Int(3) },
            6 => { let n = rng.below(4); GV::List((0..n).map(|_| self.gen(rng, depth - 1)).collect()) }
            _ => {
                let n = rng.below(4);
                let mut items: Vec<GV> = Vec::new();
                for _ in 0..n {
                    let v = self.gen(rng, depth - 1);
                    if !self.allow_syn_in_set && contains_syn(&v) { continue; }
                    if !items.contains(&v) { items.push(v); }
                }
                GV::Set(items)
            }
        }
    }
}
pub fn contains_syn(v: &GV) -> bool {
    match v { GV::Syn(_) => true, GV::List(l) | GV::Set(l) => l.iter().any(contains_syn), _ => false }
}

/// A parsed source with its nodes in preorder (cursor walk = ground truth for structure).
pub struct TreeInfo<'t> {
    pub src: &'t str,
    pub nodes: Vec<Node<'t>>,
    pub parent: Vec<Option<usize>>,
    pub ids: HashMap<usize, usize>,
}
pub fn parse_python(src: &str) -> Tree {
    let mut parser = Parser::new();
    parser.set_language(&tree_sitter_python::LANGUAGE.into()).unwrap();
    parser.parse(src, None).unwrap()
}
impl<'t> TreeInfo<'t> {
    pub fn new(tree: &'t Tree, src: &'t str) -> TreeInfo<'t> {
        let mut nodes = Vec::new();
        let mut parent = Vec::new();
        let mut ids = HashMap::new();
        let mut cursor = tree.walk();
        let mut stack: Vec<usize> = Vec::new();
        'outer: loop {
            let n = cursor.node();
            let idx = nodes.len();
            ids.insert(n.id(), idx);
            nodes.push(n);
            parent.push(stack.last().copied());
            if cursor.goto_first_child() { stack.push(idx); continue; }
            loop {
                if cursor.goto_next_sibling() { break; }
                if !cursor.goto_parent() { break 'outer; }
                stack.pop();
            }
        }
        TreeInfo { src, nodes, parent, ids }
    }
}

/// The recorded tree as a Coq `tree` term (Model/Tree.v).  Nodes in preorder (index = preorder id);
/// kinds as code-point lists; named/error/missing flags; parent and children (cursor walk) as preorder
/// ids; start/end as tree-sitter reports them (row, BYTE column); span = CHARACTER offsets of
/// byte_range() into the source; the source as a code-point list.
pub fn tree_coq(info: &TreeInfo) -> String {
    let n = info.nodes.len();
    let mut children: Vec<Vec<usize>> = vec![Vec::new(); n];
    for (i, p) in info.parent.iter().enumerate() {
        if let Some(p) = p { children[*p].push(i); }
    }
    // byte offset -> character offset (a byte inside a multi-byte character maps to that character)
    let len = info.src.len();
    let mut b2c = vec![0usize; len + 1];
    let mut ci = 0usize;
    for (bi, ch) in info.src.char_indices() {
        for k in 0..ch.len_utf8() { b2c[bi + k] = ci; }
        ci += 1;
    }
    b2c[len] = ci;
    let conv = |b: usize| -> usize { if b > len { ci + (b - len) } else { b2c[b] } };
    let mut items = Vec::with_capacity(n);
    for (i, node) in info.nodes.iter().enumerate() {
        let sp = node.start_position();
        let ep = node.end_position();
        let br = node.byte_range();
        items.push(format!(
            "{{| tn_kind := {}; tn_named := {}; tn_error := {}; tn_missing := {}; tn_parent := {}; tn_children := {}; tn_start := ({}, {}); tn_end := ({}, {}); tn_span := ({}, {}) |}}",
            coq_str(node.kind()), coq_bool(node.is_named()), coq_bool(node.is_error()), coq_bool(node.is_missing()),
            coq_opt(info.parent[i].map(|p| p.to_string())),
            coq_list(&children[i].iter().map(|c| c.to_string()).collect::<Vec<_>>()),
            sp.row, sp.column, ep.row, ep.column, conv(br.start), conv(br.end)));
    }
    format!("{{| t_src := {}; t_nodes := {} |}}", coq_str(info.src), coq_list(&items))
}
pub const EMPTY_TREE_COQ: &str = "{| t_src := []; t_nodes := [] |}";

/// One correspondence case: a Coq expression of type N (0 = AGREE, k+1 = first difference at k,
/// or a property-specific code), the expression printing the model's observation, replay data.
pub struct Case {
    pub verdict: String,
    pub detail: String,
    pub replay: serde_json::Value,
    pub nontrivial: bool,
    pub key: u64,
    pub tags: Vec<String>,
}

pub fn fnv(s: &str) -> u64 {
    let mut h: u64 = 0xcbf29ce484222325;
    for b in s.bytes() { h ^= b as u64; h = h.wrapping_mul(0x100000001b3); }
    h
}

/// The harness records the input it is about to hand to the implementation (env TSGV_PROGRESS names the
/// file): if the process dies — abort on allocation failure, stack overflow, a kill by the driver's timeout —
/// the driver reports that input as the failing one.
pub fn note_input(kind: &str, input: &serde_json::Value) {
    if let Ok(path) = std::env::var("TSGV_PROGRESS") {
        let _ = std::fs::write(&path, serde_json::json!({"kind": kind, "input": input}).to_string());
    }
}
/// Bound the address space of this process: a runaway allocation in the implementation then aborts the
/// harness (reported with the recorded input) instead of exhausting the machine.
pub fn limit_memory() {
    let gb: u64 = std::env::var("TSGV_MEM_GB").ok().and_then(|s| s.parse().ok()).unwrap_or(12);
    unsafe {
        let lim = libc::rlimit { rlim_cur: gb << 30, rlim_max: gb << 30 };
        let _ = libc::setrlimit(libc::RLIMIT_AS, &lim);
    }
}

/// Pairs (i, j) of DIFFERENT syntax nodes (preorder indices) with the same kind and the same start position —
/// the outer and the inner node of a left-nested construct (`a.b.c`, `f()()`, `a[0][1]`, `a + b + c`).
/// Anything that compares syntax-node references by position and kind instead of identity confuses them.
pub fn same_start_pairs(info: &TreeInfo) -> Vec<(usize, usize)> {
    let mut out = Vec::new();
    for i in 0..info.nodes.len() { for j in (i + 1)..info.nodes.len() {
        let (a, b) = (&info.nodes[i], &info.nodes[j]);
        if a.kind() == b.kind() && a.start_position() == b.start_position() && a.is_named() && b.is_named() { out.push((i, j)); }
    } }
    out
}
