//! C20r: the RENDERING of execution errors (`ExecutionError::display_pretty` and the plain `Display`) against
//! Model/ErrRender.v.  Failing runs come from the C20 generator; the real error chain is walked
//! (`InContext(Context, Box<ExecutionError>)`), every `Context` is read from its Debug rendering (the type lives in
//! a private module and cannot be named here; the reading is validated by re-printing it), the chain is handed to
//! the model as a Coq term, and the model's text (vm_compute) is compared with the real one.
use crate::c01::{input_from_json, input_json, ExecInput};
use crate::common::*;
use crate::exec::*;
use crate::gen::*;
use crate::rng::Rng;
use serde_json::json;
use std::panic::{catch_unwind, AssertUnwindSafe};
use std::path::Path;
use tree_sitter_graph::graph::Graph;
use tree_sitter_graph::{ExecutionError, NoCancellation};

#[derive(Clone, Debug, PartialEq)]
pub struct SCtx { pub stmt: String, pub sl: (u64, u64), pub zl: (u64, u64), pub pl: (u64, u64), pub kind: String }
#[derive(Clone, Debug, PartialEq)]
pub enum Ctx { Stmts(Vec<SCtx>), Other(String) }

// ---------------------------------------------------------------- reading the Debug rendering of a Context

struct P<'a> { b: &'a [char], i: usize }
impl<'a> P<'a> {
    fn lit(&mut self, s: &str) -> Option<()> {
        let l: Vec<char> = s.chars().collect();
        if self.i + l.len() <= self.b.len() && self.b[self.i..self.i + l.len()] == l[..] { self.i += l.len(); Some(()) } else { None }
    }
    fn peek_lit(&self, s: &str) -> bool {
        let l: Vec<char> = s.chars().collect();
        self.i + l.len() <= self.b.len() && self.b[self.i..self.i + l.len()] == l[..]
    }
    fn number(&mut self) -> Option<u64> {
        let st = self.i;
        let mut n = 0u64;
        while self.i < self.b.len() && self.b[self.i].is_ascii_digit() { n = n.checked_mul(10)?.checked_add(self.b[self.i].to_digit(10)? as u64)?; self.i += 1; }
        if self.i == st { None } else { Some(n) }
    }
    /// a `"..."` literal as `<str as Debug>` prints it (escape_debug): \0 \t \r \n \\ \" \' \u{hex}
    fn quoted(&mut self) -> Option<String> {
        self.lit("\"")?;
        let mut s = String::new();
        loop {
            let c = *self.b.get(self.i)?;
            self.i += 1;
            match c {
                '"' => return Some(s),
                '\\' => {
                    let e = *self.b.get(self.i)?;
                    self.i += 1;
                    match e {
                        '0' => s.push('\0'), 't' => s.push('\t'), 'r' => s.push('\r'), 'n' => s.push('\n'),
                        '\\' => s.push('\\'), '"' => s.push('"'), '\'' => s.push('\''),
                        'u' => {
                            self.lit("{")?;
                            let mut v = 0u32;
                            let mut k = 0;
                            while let Some(d) = self.b.get(self.i).and_then(|c| c.to_digit(16)) { v = v.checked_mul(16)?.checked_add(d)?; self.i += 1; k += 1; }
                            if k == 0 { return None; }
                            self.lit("}")?;
                            s.push(char::from_u32(v)?);
                        }
                        _ => return None,
                    }
                }
                c => s.push(c),
            }
        }
    }
    fn location(&mut self, field: &str) -> Option<(u64, u64)> {
        self.lit(field)?; self.lit(": Location { row: ")?;
        let r = self.number()?;
        self.lit(", column: ")?;
        let c = self.number()?;
        self.lit(" }")?;
        Some((r, c))
    }
}

fn print_ctx_debug(c: &Ctx) -> String {
    match c {
        Ctx::Other(m) => format!("Other({:?})", m),
        Ctx::Stmts(l) => format!("Statement([{}])", l.iter().map(|s| format!(
            "StatementContext {{ statement: {:?}, statement_location: Location {{ row: {}, column: {} }}, stanza_location: Location {{ row: {}, column: {} }}, source_location: Location {{ row: {}, column: {} }}, node_kind: {:?} }}",
            s.stmt, s.sl.0, s.sl.1, s.zl.0, s.zl.1, s.pl.0, s.pl.1, s.kind)).collect::<Vec<_>>().join(", ")),
    }
}

/// `format!("{:?}", context)` -> Ctx; None when the text is not of the expected form (checked by printing it back).
pub fn parse_ctx_debug(dbg: &str) -> Option<Ctx> {
    let b: Vec<char> = dbg.chars().collect();
    let mut p = P { b: &b, i: 0 };
    let ctx = if p.peek_lit("Other(") {
        p.lit("Other(")?;
        let m = p.quoted()?;
        p.lit(")")?;
        Ctx::Other(m)
    } else {
        p.lit("Statement([")?;
        let mut l = Vec::new();
        while p.peek_lit("StatementContext { ") {
            p.lit("StatementContext { statement: ")?;
            let stmt = p.quoted()?;
            p.lit(", ")?;
            let sl = p.location("statement_location")?;
            p.lit(", ")?;
            let zl = p.location("stanza_location")?;
            p.lit(", ")?;
            let pl = p.location("source_location")?;
            p.lit(", node_kind: ")?;
            let kind = p.quoted()?;
            p.lit(" }")?;
            l.push(SCtx { stmt, sl, zl, pl, kind });
            if p.peek_lit(", ") { p.lit(", ")?; }
        }
        p.lit("])")?;
        Ctx::Stmts(l)
    };
    if p.i != b.len() || print_ctx_debug(&ctx) != dbg { return None; }
    Some(ctx)
}

/// The chain as the Rust code sees it: contexts outermost first, the innermost error's Display.
pub fn walk_chain(err: &ExecutionError) -> Option<(Vec<Ctx>, String)> {
    let mut ctxs = Vec::new();
    let mut e = err;
    loop {
        match e {
            ExecutionError::InContext(c, inner) => {
                let parsed = parse_ctx_debug(&format!("{:?}", c))?;
                // Context::Other prints its message as is: a second reading of the same field
                if let Ctx::Other(m) = &parsed { if &format!("{}", c) != m { return None; } }
                ctxs.push(parsed);
                e = inner;
            }
            other => return Some((ctxs, format!("{}", other))),
        }
    }
}

// ---------------------------------------------------------------- Coq terms

fn sctx_term(s: &SCtx) -> String {
    format!("{{| sx_stmt := {}; sx_stmt_loc := ({}, {}); sx_stanza_loc := ({}, {}); sx_src_loc := ({}, {}); sx_kind := {} |}}",
        coq_str(&s.stmt), s.sl.0, s.sl.1, s.zl.0, s.zl.1, s.pl.0, s.pl.1, coq_str(&s.kind))
}
fn chain_term(ctxs: &[Ctx], cause: &str) -> String {
    let items: Vec<String> = ctxs.iter().map(|c| match c {
        Ctx::Other(m) => format!("ROther {}", coq_str(m)),
        Ctx::Stmts(l) => format!("RStmts {}", coq_list(&l.iter().map(sctx_term).collect::<Vec<_>>())),
    }).collect();
    format!("{{| ch_ctxs := {}; ch_cause := {} |}}", coq_list(&items), coq_str(cause))
}

// ---------------------------------------------------------------- wording (calibration)

#[derive(Clone)]
struct Wording { read: usize, first: String, next: String, stanza: String, mpre: String, mpost: String,
                 pfirst: String, pnext: String, pstanza: String, pmpre: String, pmpost: String, pcaused: String }
impl Wording {
    fn pinned() -> Wording {
        Wording { read: 0, first: "Error executing statement ".into(), next: "     > and executing statement ".into(), stanza: "in stanza".into(),
                  mpre: "matching (".into(), mpost: ") node".into(),
                  pfirst: "Error executing ".into(), pnext: " and executing ".into(), pstanza: " in stanza at ".into(),
                  pmpre: " matching (".into(), pmpost: ") node at ".into(), pcaused: ". Caused by: ".into() }
    }
    fn terms(&self) -> (String, String) {
        (format!("{{| w_first := {}; w_next := {}; w_stanza := {}; w_match_pre := {}; w_match_post := {} |}}",
            coq_str(&self.first), coq_str(&self.next), coq_str(&self.stanza), coq_str(&self.mpre), coq_str(&self.mpost)),
         format!("{{| wp_first := {}; wp_next := {}; wp_stanza := {}; wp_match_pre := {}; wp_match_post := {}; wp_caused := {} |}}",
            coq_str(&self.pfirst), coq_str(&self.pnext), coq_str(&self.pstanza), coq_str(&self.pmpre), coq_str(&self.pmpost), coq_str(&self.pcaused)))
    }
}

fn run_once(dsl: &str, src: &str, lazy: bool) -> Option<ExecutionError> {
    let file = load(dsl).ok()?;
    let tree = parse_python(src);
    let info = TreeInfo::new(&tree, src);
    let mut graph = Graph::new();
    let res = catch_unwind(AssertUnwindSafe(|| {
        let globals = make_globals(&[], &mut graph, &info);
        let functions = tree_sitter_graph::functions::Functions::stdlib();
        let config = tree_sitter_graph::ExecutionConfig::new(&functions, &globals).lazy(lazy);
        file.execute_into(&mut graph, &tree, info.src, &config, &NoCancellation)
    }));
    match res { Ok(Err(e)) => Some(e), _ => None }
}

/// The phrases are not constrained by the property: they are read off the implementation once, on a fixed lazy run
/// that ends in a two-statement (conflict) context, where every other part of the text is known: the head lines are
/// "    0: <w_first><statement>" / "<w_next><statement>", the 5th and 9th line of a context are 7 spaces + phrase.
/// A phrase that cannot be recognised keeps the wording of the pinned commit (a rewording then shows as code 61/62).
fn calibrate() -> Wording {
    let mut w = Wording::pinned();
    let dsl = "(module) @_mod {\n  node nd\n  attr (nd) kk = 1\n  attr (nd) kk = 2\n}\n";
    let src = "pass\n";
    let Some(err) = run_once(dsl, src, true) else { return w };
    let Some((ctxs, cause)) = walk_chain(&err) else { return w };
    let Some(Ctx::Stmts(l)) = ctxs.first() else { return w };
    if l.is_empty() || ctxs.len() != 1 { return w; }
    let ok = |s: &str| !s.contains('\n');
    if let Ok(text) = catch_unwind(AssertUnwindSafe(|| format!("{}", err.display_pretty(Path::new("c.py"), src, Path::new("c.tsg"), dsl)))) {
        let lines: Vec<&str> = text.split('\n').collect();
        if lines.len() == 12 * l.len() + 2 {
            if let Some(x) = lines[0].strip_prefix("    0: ").and_then(|r| r.strip_suffix(l[0].stmt.as_str())) { if ok(x) { w.first = x.to_string(); w.read += 1; } }
            if let Some(x) = lines[4].strip_prefix("       ") { if ok(x) { w.stanza = x.to_string(); w.read += 1; } }
            if let Some(x) = lines[8].strip_prefix("       ") {
                if let Some(k) = x.find(l[0].kind.as_str()) { w.mpre = x[..k].to_string(); w.mpost = x[k + l[0].kind.len()..].to_string(); w.read += 2; }
            }
            if l.len() >= 2 {
                if let Some(x) = lines[12].strip_suffix(l[1].stmt.as_str()) { if ok(x) { w.next = x.to_string(); w.read += 1; } }
            }
        }
    }
    // plain Display: the known pieces in order; the gaps between them are the phrases
    let plain = format!("{}", err);
    let loc = |p: (u64, u64)| format!("({}, {})", p.0 + 1, p.1 + 1);
    let mut pieces: Vec<String> = Vec::new();
    for s in l.iter().take(2) { pieces.push(s.stmt.clone()); pieces.push(loc(s.zl)); pieces.push(s.kind.clone()); pieces.push(loc(s.pl)); }
    pieces.push(cause.clone());
    let mut gaps: Vec<String> = Vec::new();
    let mut pos = 0usize;
    let mut good = true;
    for p in &pieces {
        match plain[pos..].find(p.as_str()) { Some(k) => { gaps.push(plain[pos..pos + k].to_string()); pos += k + p.len(); } None => { good = false; break; } }
    }
    if good && pos == plain.len() && gaps.iter().all(|g| ok(g)) {
        w.pfirst = gaps[0].clone(); w.pstanza = gaps[1].clone(); w.pmpre = gaps[2].clone(); w.pmpost = gaps[3].clone();
        w.read += 4;
        if l.len() >= 2 && gaps.len() == 9 { w.pnext = gaps[4].clone(); w.pcaused = gaps[8].clone(); w.read += 2; } else if gaps.len() == 5 { w.pcaused = gaps[4].clone(); w.read += 1; }
    }
    w
}
/// (pretty wording term, plain wording term, number of the 11 phrases read off the implementation)
fn wording_terms() -> (String, String, usize) {
    static W: std::sync::OnceLock<(String, String, usize)> = std::sync::OnceLock::new();
    W.get_or_init(|| { let w = calibrate(); let (a, b) = w.terms(); (a, b, w.read) }).clone()
}

// ---------------------------------------------------------------- cases

const TSG_PATHS: &[&str] = &["rules.tsg", "my rules/ré gles.tsg", "規則 集/日本 語.tsg", "a:1:1:/b.tsg", "𝒳 dir/r.tsg"];
const SRC_PATHS: &[&str] = &["src.py", "mes sources/módulo é.py", "ソース/主 要.py", "rules.tsg", "x y/𝒴.py"];
/// texts that are NOT the files of the run (display_pretty takes any text): CRLF, a last line without terminator,
/// non-ASCII lines shorter in characters than in bytes, empty lines
const OTHER_TEXTS: &[&str] = &["", "\n", "é\r\nßß\r\n\r\nlast", "日本語 テキスト\n\n  x\n𝒳𝒴\n", "a\n", "\r\n\r\n0123456789012345678901234567890123456789\n"];

/// The text handed to display_pretty in place of the real file: (variant name, text)
fn pick_text(rng: &mut Rng, real: &str) -> (&'static str, String) {
    match rng.below(100) {
        0..=69 => ("real", real.to_string()),
        70..=84 => {
            // the first k lines only: later rows are missing
            let n = real.lines().count();
            let k = rng.below(n + 1);
            ("truncated", real.split_inclusive('\n').take(k).collect::<String>())
        }
        85..=91 => ("crlf", real.replace('\n', "\r\n")),
        _ => ("other", rng.pick(OTHER_TEXTS).to_string()),
    }
}

pub struct Render { pub tsg_path: String, pub src_path: String, pub tsg: String, pub src: String, pub tsg_variant: String, pub src_variant: String }

pub fn c20r_case(inp: &ExecInput, lazy: bool, fault: &str, depth: usize, rd: &Render) -> Option<Case> {
    let file = load(&inp.dsl).ok()?;
    let tree = parse_python(&inp.src);
    let info = TreeInfo::new(&tree, &inp.src);
    let mut graph = Graph::new();
    let res = catch_unwind(AssertUnwindSafe(|| {
        let globals = make_globals(&inp.supplied, &mut graph, &info);
        let functions = tree_sitter_graph::functions::Functions::stdlib();
        let config = tree_sitter_graph::ExecutionConfig::new(&functions, &globals).lazy(lazy);
        file.execute_into(&mut graph, &tree, info.src, &config, &NoCancellation)
    }));
    let err = match res { Ok(Err(e)) => e, _ => return None };      // only failing runs
    let mut replay = input_json(inp);
    replay["lazy"] = json!(lazy);
    replay["fault"] = json!(fault);
    replay["depth"] = json!(depth);
    replay["tsg_path"] = json!(rd.tsg_path);
    replay["src_path"] = json!(rd.src_path);
    replay["render_tsg"] = json!(rd.tsg);
    replay["render_src"] = json!(rd.src);
    replay["tsg_variant"] = json!(rd.tsg_variant);
    replay["src_variant"] = json!(rd.src_variant);
    let key = fnv(&format!("{}|{}|{}|{}|{}|{}|{}", inp.dsl, inp.src, lazy, rd.tsg_path, rd.src_path, rd.tsg, rd.src));
    let dbg = format!("{:?}", err);
    let pretty = catch_unwind(AssertUnwindSafe(|| {
        format!("{}", err.display_pretty(Path::new(&rd.src_path), &rd.src, Path::new(&rd.tsg_path), &rd.tsg))
    }));
    let plain = format!("{}", err);
    let chain = walk_chain(&err);
    let mut tags = vec![format!("mode:{}", if lazy { "lazy" } else { "strict" }), format!("tsg_text:{}", rd.tsg_variant), format!("src_text:{}", rd.src_variant),
                        format!("tsg_path_ascii:{}", rd.tsg_path.is_ascii()), format!("src_path_ascii:{}", rd.src_path.is_ascii())];
    let Some((ctxs, cause)) = chain else {
        replay["impl"] = json!({"error": dbg, "what": "the Debug rendering of a Context was not understood by the harness"});
        tags.push("chain:unreadable".into());
        return Some(Case { verdict: "64".into(), detail: "0".into(), key, nontrivial: false, tags, replay });
    };
    let all: Vec<&SCtx> = ctxs.iter().flat_map(|c| match c { Ctx::Stmts(l) => l.iter().collect::<Vec<_>>(), Ctx::Other(_) => Vec::new() }).collect();
    // property level, judged on the real text alone: every statement context is cited three times and its lines are shown
    let mut shows = true;
    let mut missing_rows = 0;
    if let Ok(text) = &pretty {
        let tl: Vec<&str> = rd.tsg.lines().collect();
        let sl: Vec<&str> = rd.src.lines().collect();
        for c in &all {
            if !text.contains(&format!("{}:{}:{}:", rd.tsg_path, c.sl.0 + 1, c.sl.1 + 1)) { shows = false; }
            if !text.contains(&format!("{}:{}:{}:", rd.tsg_path, c.zl.0 + 1, c.zl.1 + 1)) { shows = false; }
            if !text.contains(&format!("{}:{}:{}:", rd.src_path, c.pl.0 + 1, c.pl.1 + 1)) { shows = false; }
            for (lines, row) in [(&tl, c.sl.0), (&tl, c.zl.0), (&sl, c.pl.0)] {
                match lines.get(row as usize) { Some(l) => if !text.contains(l) { shows = false; }, None => missing_rows += 1 }
            }
        }
    }
    // the chain of the MODEL's error for the same run must be this chain (code 65); None: a scan regex outside the modelled sub-language
    let chain_check: Option<String> = crate::streams::run_in_term(&file, &inp.dsl, &tree, &info, &inp.supplied, lazy).map(|r| {
        let mut texts: Vec<String> = Vec::new();
        for c in &all { let t = format!("(({}, {}), {})", c.sl.0, c.sl.1, coq_str(&c.stmt)); if !texts.contains(&t) { texts.push(t); } }
        let msgs: Vec<String> = ctxs.iter().enumerate().filter_map(|(i, c)| if let Ctx::Other(m) = c { Some(format!("({}, {})", i, coq_str(m))) } else { None }).collect();
        // ... and the statement texts themselves are `display_stmt` of the model statement at that location (code 66)
        let mut strs: Vec<&str> = vec![inp.dsl.as_str()];
        for c in &all { strs.push(c.stmt.as_str()); }
        format!("c20r_chain_disp_verdict {} ({}) ({}) {} {} {} {} ({})", crate::c20d::print_table(&strs), crate::dump::tree_term(&info), r, coq_list(&texts),
                crate::dump::error_code(crate::dump::root_cause(&err)), coq_str(&cause), coq_list(&msgs), chain_term(&ctxs, &cause))
    });
    tags.push(format!("model_chain_compared:{}", chain_check.is_some()));
    let (w, wp, nread) = wording_terms();
    tags.push(format!("phrases_read_off_the_implementation:{}/11", nread));
    let verdict = match &pretty {
        Err(_) => "52".to_string(),
        Ok(_) if !shows => "51".to_string(),
        Ok(text) => {
            let render = format!("c20r_verdict ({}) ({}) {} {} {} {} ({}) {} {}", w, wp, coq_str(&rd.tsg_path), coq_str(&rd.tsg), coq_str(&rd.src_path), coq_str(&rd.src),
                            chain_term(&ctxs, &cause), coq_str(text), coq_str(&plain));
            match &chain_check { Some(cc) => format!("(match {} with 0 => {} | c => c end)", render, cc), None => render }
        }
    };
    let detail = format!("c20r_detail ({}) ({}) {} {} {} {} ({})", w, wp, coq_str(&rd.tsg_path), coq_str(&rd.tsg), coq_str(&rd.src_path), coq_str(&rd.src), chain_term(&ctxs, &cause));
    let n_other = ctxs.iter().filter(|c| matches!(c, Ctx::Other(_))).count();
    let two = ctxs.iter().any(|c| matches!(c, Ctx::Stmts(l) if l.len() >= 2));
    replay["impl"] = json!({"error": dbg, "pretty": pretty.as_ref().ok(), "plain": plain, "entries": ctxs.len() + 1, "shows": shows});
    tags.push(format!("entries:{}", ctxs.len() + 1));
    tags.push(format!("other_contexts:{}", n_other));
    tags.push(format!("two_statements:{}", two));
    tags.push(format!("missing_rows:{}", missing_rows.min(3)));
    tags.push(format!("injected:{}", !fault.is_empty()));
    tags.push(format!("depth:{}", depth));
    Some(Case { verdict, detail, key, nontrivial: two || n_other > 0 || missing_rows > 0 || !rd.tsg_path.is_ascii() || !rd.src_path.is_ascii(), tags, replay })
}

pub fn gen(rng: &mut Rng, n: usize) -> Vec<Case> {
    quiet_panics();
    let opts = GenOpts::full();
    let mut out = Vec::new();
    let mut tries = 0;
    while out.len() < n && tries < n * 40 {
        tries += 1;
        let (mut inp, lazy, fault, depth) = crate::streams::c20_gen_input(rng, &opts);
        // other layouts of the DSL: tabs, several statements per line behind non-ASCII literals (character vs byte columns)
        if rng.chance(30) { inp.dsl = crate::streams::relayout(rng, &inp.dsl); }
        // an error without any context (a declared global that the caller does not supply): a chain of one entry
        if rng.chance(6) { inp.supplied.clear(); }
        let (tv, tsg) = pick_text(rng, &inp.dsl);
        let (sv, src) = pick_text(rng, &inp.src);
        let rd = Render { tsg_path: rng.pick(TSG_PATHS).to_string(), src_path: rng.pick(SRC_PATHS).to_string(), tsg, src,
                          tsg_variant: tv.to_string(), src_variant: sv.to_string() };
        if let Some(c) = c20r_case(&inp, lazy, &fault, depth, &rd) { out.push(c); }
    }
    out
}

pub fn replay(j: &serde_json::Value) -> Case {
    quiet_panics();
    let inp = input_from_json(j);
    let s = |k: &str, d: &str| j[k].as_str().unwrap_or(d).to_string();
    let rd = Render { tsg_path: s("tsg_path", "rules.tsg"), src_path: s("src_path", "src.py"), tsg: s("render_tsg", &inp.dsl), src: s("render_src", &inp.src),
                      tsg_variant: s("tsg_variant", "real"), src_variant: s("src_variant", "real") };
    c20r_case(&inp, j["lazy"].as_bool().unwrap_or(false), j["fault"].as_str().unwrap_or(""), j["depth"].as_u64().unwrap_or(0) as usize, &rd)
        .expect("replay fails as before")
}
