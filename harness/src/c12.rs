//! C12: results are deterministic and a loaded file is reusable without cross-talk.
//!
//! Dynamic part of the property (the Coq part, Props/C12.v, covers hash-iteration order in the model).
//! One case = one DSL text (valid or carrying exactly one fault) x three Python sources.  Sub-checks, each
//! contributing one bit to the verdict computed here (the verdict term is `c12_verdict <mask> <obs>`):
//!   (a)  1  the same text loaded 20x in this process: Debug+Display text of the error, or the canonical
//!           AST dump (dump::AstDump), identical every time;
//!   (b)  2  ONE loaded File, one function table, one Variables: executed 5x strict and 5x lazy on the same
//!           parsed tree, then interleaved over the three trees in a shuffled schedule; every result
//!           (canonical graph incl. node numbering + pretty_print text + key-sorted JSON, or the
//!           Display+Debug text of the error and the partial graph execute_into left behind) equals the ISOLATED run (fresh load, fresh tables, one run);
//!   (c)  4  8 threads sharing `&File` and `&Functions` (std::thread::scope, released together by a
//!           barrier), each parsing its own tree copies and executing 6 times; results equal the isolated run;
//!   (d)  8  the caller's Variables (iter(), name-sorted) and a function table holding stdlib + a counting
//!           probe function give the same answers before and after executions (battery of direct calls);
//!   (e) 16  three separate OS processes (`tsgv transcript C12 ...`, fresh hash seeds) regenerate the same
//!           cases from the same generator state and report, per case, the hash of the load observation
//!           and of all isolated runs; every line equals this process's own;
//!       64  a worker thread died.
//! Coq-evaluated component: for the unused-captures fault the text inside `UnusedCaptures(..)` is compared
//! with Model/HashOrder.v `unused_message` (32).
use crate::common::*;
use crate::dump::*;
use crate::exec::quiet_panics;
use crate::gen::*;
use crate::rng::Rng;
use serde_json::json;
use std::collections::{BTreeSet, HashMap};
use std::panic::{catch_unwind, AssertUnwindSafe};
use std::sync::atomic::{AtomicUsize, Ordering};
use std::sync::{Arc, Barrier};
use tree_sitter::Tree;
use tree_sitter_graph::ast::File;
use tree_sitter_graph::functions::{Function, Functions, Parameters};
use tree_sitter_graph::graph::{Graph, Value};
use tree_sitter_graph::{ExecutionConfig, ExecutionError, Identifier, NoCancellation, Variables};

pub const LOADS: usize = 20;
pub const REPEATS: usize = 5;
pub const THREADS: usize = 8;
pub const PROCS: usize = 3;
pub const PROBE: &str = "c12-probe";

#[derive(Clone, Debug)]
pub struct Input {
    pub kind: String,
    pub dsl: String,
    pub srcs: Vec<String>,
    pub supplied: Vec<(String, GV)>,
    /// unused-captures fault: (capture names of the stanza, names used in its body)
    pub unused: Option<(Vec<String>, Vec<String>)>,
}
impl Input {
    pub fn json(&self) -> serde_json::Value {
        json!({"prop": "C12", "kind": self.kind, "dsl": self.dsl, "srcs": self.srcs,
               "globals": self.supplied.iter().map(|(k, v)| json!([k, v.json()])).collect::<Vec<_>>(),
               "unused": self.unused.as_ref().map(|(a, u)| json!({"all": a, "used": u}))})
    }
    pub fn from_json(j: &serde_json::Value) -> Input {
        let strs = |v: &serde_json::Value| -> Vec<String> { v.as_array().unwrap().iter().map(|s| s.as_str().unwrap().to_string()).collect() };
        Input {
            kind: j["kind"].as_str().unwrap_or("replay").to_string(),
            dsl: j["dsl"].as_str().unwrap().to_string(),
            srcs: strs(&j["srcs"]),
            supplied: j["globals"].as_array().map(|a| a.iter().map(|p| (p[0].as_str().unwrap().to_string(), GV::from_json(&p[1]))).collect()).unwrap_or_default(),
            unused: if j["unused"].is_object() { Some((strs(&j["unused"]["all"]), strs(&j["unused"]["used"]))) } else { None },
        }
    }
}

// ---------------------------------------------------------------- generator (pure: uses only the Rng)

const NAME_POOL: &[&str] = &["name", "body", "def", "params", "lhs", "rhs", "call", "fn", "args", "x", "y", "zz", "item", "stmt", "cls",
    "a1", "b2", "k_9", "alpha", "omega", "mid", "Zed", "q", "w3", "value", "tgt",
    // names that differ only in letter case (a case-insensitive sort key would leave their order to the hash map)
    "Name", "NAME", "Alpha", "zed", "X", "Q"];
const UNDERSCORE_POOL: &[&str] = &["_skip", "_tmp", "_"];
const VALUE_POOL: &[&str] = &["1", "42", "\"s\"", "\"a b\"", "#true", "#false", "#null", "[1, 2]", "[]", "{1, 2, 3}", "(plus 1 2)", "@_m",
    "(node-type @_m)", "[@_m, 7]", "(c12-probe 41)", "{\"x\", \"y\"}", "[[1], {2}]"];

const SAFE_STANZAS: &[&str] = &[
    "(module) @_m {\n  node root_\n  attr (root_) kind = \"module\", rows = (end-row @_m), probe = (plus 1 (c12-probe 2))\n}\n",
    "(identifier) @i_ {\n  node n_\n  attr (n_) text = (source-text @i_), row = (start-row @i_), col = (start-column @i_)\n}\n",
    "(call function: (identifier) @f_) @c_ {\n  node k_\n  attr (k_) callee = (source-text @f_), kids = (named-child-count @c_)\n}\n",
    "(function_definition name: (identifier) @n_) @d_ {\n  node fn_\n  attr (fn_) name = (source-text @n_), probe = (c12-probe (start-row @d_))\n  edge fn_ -> fn_\n  attr (fn_ -> fn_) self = #true, w = (plus 1 (c12-probe 1))\n}\n",
    "(assignment left: (identifier) @l_) @a_ {\n  node v_\n  attr (v_) target = (source-text @l_), at = @a_\n}\n",
];

/// query shapes for the unused-captures fault: text with `{0}`.. placeholders for capture names
const CAPTURE_SHAPES: &[(&str, usize)] = &[
    ("(assignment left: (_) @{0} right: (_) @{1}) @{2}", 3),
    ("(call function: (_) @{0} arguments: (argument_list (_)? @{1}) @{2}) @{3}", 4),
    ("(function_definition name: (identifier) @{0} parameters: (parameters) @{1} body: (block (_) @{2}) @{3}) @{4}", 5),
    ("[(identifier) @{0} (integer) @{1} (string) @{2} (call) @{3} (attribute) @{4} (list) @{5}]", 6),
    ("[(identifier) @{0} (integer) @{1} (string) @{2} (call) @{3} (attribute) @{4} (list) @{5} (assignment) @{6} (return_statement) @{7}]", 8),
];

fn pick_distinct(rng: &mut Rng, pool: &[&str], k: usize) -> Vec<String> {
    let mut idx: Vec<usize> = (0..pool.len()).collect();
    let mut out = Vec::new();
    for _ in 0..k.min(pool.len()) { let i = rng.below(idx.len()); out.push(pool[idx.remove(i)].to_string()); }
    out
}
fn shuffle<T>(rng: &mut Rng, v: &mut Vec<T>) { for i in (1..v.len()).rev() { let j = rng.below(i + 1); v.swap(i, j); } }

fn safe_stanzas(rng: &mut Rng, lo: usize, hi: usize) -> Vec<String> {
    let n = rng.range(lo, hi);
    (0..n).map(|_| rng.pick(SAFE_STANZAS).to_string()).collect()
}

fn unused_stanza(rng: &mut Rng) -> (String, Vec<String>, Vec<String>) {
    let (shape, k) = *rng.pick(CAPTURE_SHAPES);
    let n_us = if rng.chance(35) { 1 } else { 0 };
    let mut names = pick_distinct(rng, NAME_POOL, k - n_us);
    if n_us > 0 { names.push(rng.pick(UNDERSCORE_POOL).to_string()); }
    shuffle(rng, &mut names);
    let mut q = shape.to_string();
    for (i, n) in names.iter().enumerate() { q = q.replace(&format!("{{{}}}", i), n); }
    // how many are used: mostly few (>= 3 names stay unused in most cases), sometimes all
    let n_used = match rng.below(10) { 0 => names.len(), 1 | 2 => 1, 3 => 2, _ => 0 };
    let mut order = names.clone();
    shuffle(rng, &mut order);
    let used: Vec<String> = order.into_iter().take(n_used).collect();
    let mut body = String::from("  node u_\n");
    for u in &used { body.push_str(&format!("  print @{}\n", u)); }
    (format!("{} {{\n{}}}\n", q, body), names, used)
}

const LOAD_FAULTS: &[&str] = &[
    "(module) @_m {\n  let x = 1\n  let x = 2\n}\n",
    "(module) @_m {\n  node n\n  attr (undefined_name) a = 1, b = other_name\n}\n",
    "(module) @_m {\n  node\n}\n",
    "global gg\nglobal gg\n(module) @_m {\n  node n\n}\n",
    "(module) @_m {\n  let x = 1\n  set x = 2\n}\n",
    "(module) @_m {\n  node n\n  attr (n) a = @nocap, b = @alsonot\n}\n",
    "(module) @_m {\n  scan \"abc\" {\n    \"(\" {\n    }\n  }\n}\n",
    "(module) @_m {\n  node n\n  attr (n) a = $1\n}\n",
    "(nosuchkind) @_m {\n  node n\n}\n",
    "attribute sh = x => a = x\nattribute sh = y => b = y\n(module) @_m {\n  node n\n}\n",
];

/// A generated program that the loader accepts, if one of 6 draws is (the typed generator's own
/// reject rate is ~40% with stdlib calls in list positions); otherwise the last draw.  The loader's
/// answer is deterministic unless (a) fails, and then the other processes draw differently and (e) fails too.
fn accepted_program(rng: &mut Rng, opts: &GenOpts) -> Program {
    let mut p = gen_program(rng, opts);
    for _ in 0..5 {
        if load_obs(&p.text()).0.is_some() { break; }
        p = gen_program(rng, opts);
    }
    p
}

pub fn gen_input(rng: &mut Rng) -> Input {
    let mut supplied: Vec<(String, GV)> = Vec::new();
    let mut preamble: Vec<String> = Vec::new();
    let mut stanzas: Vec<String>;
    let mut unused = None;
    let kind;
    // base: a generated program (may itself be rejected or fail: still an observable) or safe stanzas
    let base = |rng: &mut Rng, supplied: &mut Vec<(String, GV)>, preamble: &mut Vec<String>| -> Vec<String> {
        if rng.chance(45) {
            let mut opts = GenOpts::full();
            opts.max_stanzas = 2;
            opts.syn_sets = false;
            let p = accepted_program(rng, &opts);
            supplied.extend(p.supplied.iter().cloned());
            preamble.extend(p.preamble.iter().cloned());
            p.stanzas
        } else { safe_stanzas(rng, 0, 2) }
    };
    let mut first_src: Option<String> = None;
    match rng.below(100) {
        0..=5 => {
            // inherited scoped variables with several nested definers (nearest-ancestor lookups walk maps)
            kind = "valid:scoped-inherit-nested";
            let ordered = rng.chance(50); let inp = crate::streams::c04_input_mode(rng, ordered);
            stanzas = vec![inp.dsl];
            first_src = Some(inp.src);
        }
        6..=27 => {
            kind = "valid-generated";
            // no sets of several syntax nodes: their element order follows node addresses, which differ between
            // parses of the same source (threads, processes) although the set is the same
            let mut opts = GenOpts::full();
            opts.syn_sets = false;
            let p = accepted_program(rng, &opts);
            supplied.extend(p.supplied.iter().cloned());
            preamble = p.preamble.clone();
            stanzas = p.stanzas;
            if rng.chance(50) { let s = safe_stanzas(rng, 1, 2); stanzas.extend(s); }
        }
        28..=49 => {
            kind = "fault:unused-captures";
            stanzas = safe_stanzas(rng, 0, 3);          // known-good neighbours: the fault is the only one
            let (st, all, used) = unused_stanza(rng);
            let pos = rng.below(stanzas.len() + 1);
            stanzas.insert(pos, st);
            unused = Some((all, used));
        }
        50..=61 => {
            kind = "fault:scoped-duplicate";
            stanzas = base(rng, &mut supplied, &mut preamble);
            let k = rng.range(2, 4);
            let names = pick_distinct(rng, NAME_POOL, k);
            let mk = |order: &[String]| -> String {
                let mut b = String::new();
                for (i, n) in order.iter().enumerate() { b.push_str(&format!("  let @sid_.{} = {}\n", n, i)); }
                format!("(identifier) @sid_ {{\n{}}}\n", b)
            };
            let mut second = names.clone();
            shuffle(rng, &mut second);
            stanzas.push(mk(&names));
            stanzas.push(mk(&second));
        }
        62..=67 => {
            kind = "fault:scoped-bad-scope";
            stanzas = base(rng, &mut supplied, &mut preamble);
            let k = rng.range(2, 4);
            let names = pick_distinct(rng, NAME_POOL, k);
            let mut b = String::from("  node g_\n");
            for n in &names { b.push_str(&format!("  let g_.{} = 1\n", n)); }
            stanzas.push(format!("(module) @_m {{\n{}}}\n", b));
        }
        68..=75 => {
            kind = "fault:duplicate-attribute";
            stanzas = base(rng, &mut supplied, &mut preamble);
            let k_ = rng.range(2, 4); let names = pick_distinct(rng, NAME_POOL, k_);
            let first: Vec<String> = names.iter().enumerate().map(|(i, n)| format!("{} = {}", n, i)).collect();
            let mut rev = names.clone();
            shuffle(rng, &mut rev);
            let second: Vec<String> = rev.iter().enumerate().map(|(i, n)| format!("{} = {}", n, i + 10)).collect();
            stanzas.push(format!("(module) @_m {{\n  node n\n  attr (n) {}\n  attr (n) {}\n}}\n", first.join(", "), second.join(", ")));
        }
        76..=87 => {
            kind = "valid:many-attributes";
            stanzas = base(rng, &mut supplied, &mut preamble);
            let k_ = rng.range(4, 9); let mut names = pick_distinct(rng, NAME_POOL, k_);
            // two names that differ only in letter case on one node
            if rng.chance(50) { let (a, b) = *rng.pick(&[("kind", "Kind"), ("name", "Name"), ("x", "X"), ("alpha", "ALPHA")]); names.retain(|n| n.to_lowercase() != a); names.push(a.to_string()); names.push(b.to_string()); }
            let attrs: Vec<String> = names.iter().map(|n| format!("{} = {}", n, rng.pick(VALUE_POOL))).collect();
            let k_ = rng.range(2, 6); let enames = pick_distinct(rng, NAME_POOL, k_);
            let eattrs: Vec<String> = enames.iter().map(|n| format!("{} = {}", n, rng.pick(VALUE_POOL))).collect();
            stanzas.push(format!("(module) @_m {{\n  node n\n  node n2\n  attr (n) {}\n  edge n -> n2\n  attr (n -> n2) {}\n  edge n2 -> n\n}}\n", attrs.join(", "), eattrs.join(", ")));
        }
        88..=93 => {
            kind = "valid:scoped-many-names";
            stanzas = safe_stanzas(rng, 0, 2);
            let k_ = rng.range(3, 6); let names = pick_distinct(rng, NAME_POOL, k_);
            let mut def = String::new();
            let mut reads: Vec<String> = Vec::new();
            let mut edge = String::new();
            for (i, n) in names.iter().enumerate() {
                match i % 3 {
                    0 => { def.push_str(&format!("  let @sid_.{} = (source-text @sid_)\n", n)); reads.push(format!("r{} = @rid_.{}", i, n)); }
                    1 => { def.push_str(&format!("  node @sid_.{}\n", n)); edge.push_str(&format!("  edge x_ -> @rid_.{}\n", n)); }
                    _ => { def.push_str(&format!("  let @sid_.{} = {}\n", n, i)); reads.push(format!("r{} = @rid_.{}", i, n)); }
                }
            }
            stanzas.push(format!("(identifier) @sid_ {{\n{}}}\n", def));
            stanzas.push(format!("(identifier) @rid_ {{\n  node x_\n  attr (x_) {}\n{}}}\n", reads.join(", "), edge));
        }
        _ => {
            kind = "fault:load-other";
            stanzas = safe_stanzas(rng, 0, 2);
            let f = rng.pick(LOAD_FAULTS).to_string();
            if f.starts_with("global") || f.starts_with("attribute") { stanzas.insert(0, f); } else { let pos = rng.below(stanzas.len() + 1); stanzas.insert(pos, f); }
        }
    }
    // every execution should call functions before anything can fail (state hidden in the function
    // table or behind Functions::call shows only if calls happen): the module stanza goes first
    if !kind.starts_with("fault:load") && kind != "fault:unused-captures" && rng.chance(85) { stanzas.insert(0, SAFE_STANZAS[0].to_string()); }
    // a global with a default, read by a stanza: sub-check (b2) runs the one loaded file with and without a value for it
    if rng.chance(60) {
        preamble.push("global c12_dflt = \"c12-default\"".to_string());
        stanzas.push("(module) @_m {\n  node d_\n  attr (d_) dv = c12_dflt\n}\n".to_string());
        if rng.chance(40) { supplied.push(("c12_dflt".to_string(), GV::Str("c12-given".into()))); }
    }
    supplied.push(("c12_extra".to_string(), GV::List(vec![GV::Int(7), GV::Str("seven".into())])));
    let mut text = preamble;
    text.extend(stanzas);
    let mut srcs: Vec<String> = Vec::new();
    for i in 0..3 {
        let mut s = if i == 0 && first_src.is_some() { first_src.take().unwrap() } else { gen_source(rng) };
        if i == 2 && rng.chance(30) { let k_ = 1 + rng.below(2); s = inject_faults(rng, &s, k_); }
        srcs.push(s);
    }
    Input { kind: kind.to_string(), dsl: text.join("\n"), srcs, supplied, unused }
}

// ---------------------------------------------------------------- observations

fn plain_value(v: &GV) -> Value {
    match v {
        GV::Null => Value::Null,
        GV::Bool(b) => Value::Boolean(*b),
        GV::Int(n) => Value::Integer(*n),
        GV::Str(s) => Value::String(s.clone()),
        GV::List(l) => Value::List(l.iter().map(plain_value).collect()),
        GV::Set(l) => Value::Set(l.iter().map(plain_value).collect::<BTreeSet<_>>()),
        GV::Syn(_) | GV::Graph(_) => Value::Null,
    }
}
fn make_variables(supplied: &[(String, GV)]) -> Variables<'static> {
    let mut g = Variables::new();
    for (k, v) in supplied { let _ = g.add(Identifier::from(k.as_str()), plain_value(v)); }
    g
}
fn variables_snapshot(g: &Variables) -> Vec<(String, String)> {
    let mut v: Vec<(String, String)> = g.iter().map(|(k, v)| (k.to_string(), format!("{:?}", v))).collect();
    v.sort();
    v
}

struct Probe(Arc<AtomicUsize>);
impl Function for Probe {
    fn call(&self, _graph: &mut Graph, _source: &str, parameters: &mut dyn Parameters) -> Result<Value, ExecutionError> {
        let v = parameters.param()?.as_integer()?;
        parameters.finish()?;
        self.0.fetch_add(1, Ordering::SeqCst);
        Ok(Value::Integer(v.wrapping_add(1)))
    }
}
fn make_functions() -> (Functions, Arc<AtomicUsize>) {
    let counter = Arc::new(AtomicUsize::new(0));
    let mut f = Functions::stdlib();
    f.add(Identifier::from(PROBE), Probe(counter.clone()));
    (f, counter)
}

/// Load observation: canonical AST dump or the error's Debug and Display text.
pub fn load_obs(dsl: &str) -> (Option<File>, String) {
    match catch_unwind(AssertUnwindSafe(|| File::from_str(tree_sitter_python::LANGUAGE.into(), dsl))) {
        Ok(Ok(f)) => {
            let mut d = AstDump::new();
            let t = d.file(&f);
            let s = format!("OK {} | regexes {:?}", t, d.regexes);
            (Some(f), s)
        }
        Ok(Err(e)) => (None, format!("ERR {:?} | {}", e, e)),
        Err(_) => (None, "PANIC".to_string()),
    }
}
fn variant_of(debug_text: &str) -> String {
    debug_text.chars().take_while(|c| c.is_ascii_alphanumeric() || *c == '_').collect()
}
fn load_class(obs: &str) -> String {
    if obs.starts_with("OK ") { "ok".into() }
    else if obs == "PANIC" { "panic".into() }
    else {
        // "ERR Check(UnusedCaptures(..." -> Check.UnusedCaptures
        let t = &obs[4..];
        let outer = variant_of(t);
        let inner = t.get(outer.len() + 1..).map(variant_of).unwrap_or_default();
        if outer == "Check" && !inner.is_empty() { format!("err:Check.{}", inner) } else { format!("err:{}", outer) }
    }
}

fn canon_json(v: &serde_json::Value, addr: &HashMap<u64, usize>, out: &mut String) {
    match v {
        serde_json::Value::Array(l) => {
            out.push('[');
            for (i, x) in l.iter().enumerate() { if i > 0 { out.push(','); } canon_json(x, addr, out); }
            out.push(']');
        }
        serde_json::Value::Object(m) => {
            let is_syn = m.get("type").and_then(|t| t.as_str()) == Some("syntaxNode");
            let mut keys: Vec<&String> = m.keys().collect();
            keys.sort();
            out.push('{');
            for (i, k) in keys.iter().enumerate() {
                if i > 0 { out.push(','); }
                out.push_str(&serde_json::Value::String((*k).clone()).to_string());
                out.push(':');
                let x = &m[*k];
                if is_syn && *k == "id" {
                    match x.as_u64().and_then(|u| addr.get(&u)) { Some(i) => out.push_str(&format!("\"syn#{}\"", i)), None => out.push_str("\"syn#?\"") }
                } else { canon_json(x, addr, out); }
            }
            out.push('}');
        }
        other => out.push_str(&other.to_string()),
    }
}

#[derive(Clone, Debug, PartialEq)]
pub struct RunObs { pub class: String, pub text: String }

/// One execution of `file` on an already parsed tree.  Everything observable is put into one string.
fn run_on<'t>(file: &File, functions: &Functions, globals: &Variables, tree: &'t Tree, src: &'t str, lazy: bool) -> RunObs {
    let info = TreeInfo::new(tree, src);
    let r = catch_unwind(AssertUnwindSafe(|| {
        let mut graph = Graph::new();
        let config = ExecutionConfig::new(functions, globals).lazy(lazy);
        match file.execute_into(&mut graph, tree, src, &config, &NoCancellation) {
            Ok(()) => {
                let obs = graph_obs(&graph, &info);
                let mut addr: HashMap<u64, usize> = HashMap::new();
                for (i, n) in info.nodes.iter().enumerate() { addr.insert((n.id() as u32) as u64, i); }
                let pretty = format!("{}", graph.pretty_print());
                let mut js = String::new();
                match serde_json::to_value(&graph) { Ok(v) => canon_json(&v, &addr, &mut js), Err(e) => js = format!("#serialize error {}", e) }
                RunObs { class: "ok".into(), text: format!("GRAPH {:?}\nPRETTY\n{}JSON {}", obs, pretty, js) }
            }
            Err(e) => {
                // execute_into has written into the caller's graph up to the failure: observable as well
                let root = format!("{:?}", root_cause(&e));
                let partial = graph_obs(&graph, &info);
                RunObs { class: format!("err:{}", variant_of(&root)), text: format!("ERR {}\nDEBUG {:?}\nPARTIAL GRAPH {:?}", e, e, partial) }
            }
        }
    }));
    let mut obs = r.unwrap_or(RunObs { class: "panic".into(), text: "PANIC".into() });
    // the public match visitor on the same file and tree: matches in the order visited, capture names in the order the
    // Match lists them (capture_names / named_captures), nodes by preorder index -- NOT sorted: the order is a result too
    let visit = catch_unwind(AssertUnwindSafe(|| {
        let mut out = String::new();
        let res = file.try_visit_matches::<(), _>(tree, src, lazy, |m| {
            let full = info.ids.get(&m.full_capture().id()).copied().unwrap_or(usize::MAX);
            let names: Vec<String> = m.capture_names().map(|n| n.to_string()).collect();
            let caps: Vec<String> = m.named_captures().map(|(name, q, nodes)| {
                format!("{}:{:?}:{:?}", name, q, nodes.map(|n| info.ids.get(&n.id()).copied().unwrap_or(usize::MAX)).collect::<Vec<_>>())
            }).collect();
            out.push_str(&format!("{:?}|{}|{}|{}\n", m.query_location(), full, names.join(","), caps.join(",")));
            Ok(())
        });
        if res.is_err() { out.push_str("VISIT-ERR\n"); }
        out
    })).unwrap_or_else(|_| "VISIT-PANIC\n".to_string());
    obs.text.push_str("\nVISIT\n");
    obs.text.push_str(&visit);
    obs
}

/// The isolated reference: fresh load of the text, fresh function table and variables, fresh parse, ONE run.
fn isolated(inp: &Input, tree_idx: usize, lazy: bool) -> RunObs {
    let (file, _) = load_obs(&inp.dsl);
    let file = match file { Some(f) => f, None => return RunObs { class: "noload".into(), text: "NOLOAD".into() } };
    let (functions, _) = make_functions();
    let globals = make_variables(&inp.supplied);
    let src = inp.srcs[tree_idx].as_str();
    let tree = parse_python(src);
    run_on(&file, &functions, &globals, &tree, src, lazy)
}

pub struct Transcript { pub load: String, pub runs: Vec<RunObs> }   // runs: index = 2 * tree + lazy
impl Input {
    fn clone_with_supplied(&self, supplied: Vec<(String, GV)>) -> Input {
        Input { kind: self.kind.clone(), dsl: self.dsl.clone(), srcs: self.srcs.clone(), supplied, unused: self.unused.clone() }
    }
}
impl Transcript {
    pub fn line(&self) -> String {
        let mut all = String::new();
        for r in &self.runs { all.push_str(&r.text); all.push('\u{1}'); }
        let classes: Vec<&str> = self.runs.iter().map(|r| r.class.as_str()).collect();
        format!("{:016x} {:016x} {} {}", fnv(&self.load), fnv(&all), load_class(&self.load), classes.join(","))
    }
}
pub fn transcript(inp: &Input) -> Transcript {
    let (file, load) = load_obs(&inp.dsl);
    let mut runs = Vec::new();
    if file.is_some() {
        for t in 0..inp.srcs.len() { for lazy in [false, true] { runs.push(isolated(inp, t, lazy)); } }
    }
    Transcript { load, runs }
}

/// Direct calls through `Functions::call`: the same table must keep answering the same.
fn battery(functions: &Functions) -> Vec<String> {
    const SRC: &str = "x = f(1, y)\nz = 2\n";
    let tree = parse_python(SRC);
    let info = TreeInfo::new(&tree, SRC);
    let i = |n: u32| Value::Integer(n);
    let s = |t: &str| Value::String(t.to_string());
    let mut out = Vec::new();
    let plain: Vec<(&str, Vec<Value>)> = vec![
        ("eq", vec![i(1), i(1)]), ("eq", vec![s("a"), Value::Null]), ("is-null", vec![Value::Null]), ("not", vec![Value::Boolean(true)]),
        ("and", vec![Value::Boolean(true), Value::Boolean(false)]), ("or", vec![Value::Boolean(false), Value::Boolean(true)]),
        ("plus", vec![i(1), i(2), i(39)]), ("plus", vec![s("x")]), ("format", vec![s("{}-{}"), i(1), s("a")]), ("replace", vec![s("banana"), s("a"), s("o")]),
        ("concat", vec![Value::List(vec![i(1)]), Value::List(vec![i(2)])]), ("is-empty", vec![Value::List(vec![])]),
        ("join", vec![Value::List(vec![s("a"), s("b")]), s(",")]), ("length", vec![Value::List(vec![i(1), i(2)])]), ("node", vec![]),
        (PROBE, vec![i(41)]), (PROBE, vec![]), ("no-such-function", vec![i(1)]),
    ];
    for (name, params) in plain {
        let mut graph = Graph::new();
        let r = catch_unwind(AssertUnwindSafe(|| functions.call(&Identifier::from(name), &mut graph, SRC, &mut params.into_iter())));
        out.push(match r { Ok(r) => format!("{} -> {:?}", name, r.map_err(|e| format!("{:?}", e))), Err(_) => format!("{} -> PANIC", name) });
    }
    for name in ["source-text", "node-type", "start-row", "start-column", "end-row", "end-column", "named-child-count", "named-child-index"] {
        for idx in [1usize, 2, info.nodes.len() - 1] {
            let mut graph = Graph::new();
            let v = Value::SyntaxNode(graph.add_syntax_node(info.nodes[idx]));
            let r = catch_unwind(AssertUnwindSafe(|| functions.call(&Identifier::from(name), &mut graph, SRC, &mut vec![v].into_iter())));
            out.push(match r { Ok(r) => format!("{}#{} -> {:?}", name, idx, r.map_err(|e| format!("{:?}", e))), Err(_) => format!("{}#{} -> PANIC", name, idx) });
        }
    }
    out
}

// ---------------------------------------------------------------- one case

/// the two texts around their first difference
fn first_diff(a: &str, b: &str) -> String {
    let (ca, cb): (Vec<char>, Vec<char>) = (a.chars().collect(), b.chars().collect());
    let p = ca.iter().zip(cb.iter()).take_while(|(x, y)| x == y).count();
    let from = p.saturating_sub(120);
    let cut = |c: &Vec<char>| -> String { c.iter().skip(from).take(320).collect() };
    format!("at char {}: {:?} vs {:?}", p, cut(&ca), cut(&cb))
}

fn unused_text(load: &str) -> Option<String> {
    let key = "UnusedCaptures(\"";
    let p = load.find(key)? + key.len();
    let rest = &load[p..];
    Some(rest[..rest.find('"')?].to_string())
}

pub struct Built { mask: u32, tags: Vec<String>, notes: Vec<String>, own: String, obs_term: String, nontrivial: bool, key: u64, replay: serde_json::Value, tr: Transcript }

pub fn make_case(inp: &Input, child_lines: &[Option<String>]) -> Case { finish(build(inp), child_lines) }

/// sub-checks (a)-(d) and the Coq component
pub fn build(inp: &Input) -> Built {
    let mut mask: u32 = 0;
    let mut tags: Vec<String> = vec![format!("kind:{}", inp.kind)];
    let mut notes: Vec<String> = Vec::new();

    // isolated observations of THIS process (also its transcript line)
    let tr = transcript(inp);
    tags.push(format!("load:{}", load_class(&tr.load)));

    // (a) repeated loads
    tags.push("sub:a".into());
    let mut distinct_loads: Vec<String> = vec![tr.load.clone()];
    for _ in 0..LOADS {
        let (_, o) = load_obs(&inp.dsl);
        if !distinct_loads.contains(&o) { distinct_loads.push(o); }
    }
    if distinct_loads.len() > 1 {
        mask |= 1;
        notes.push(format!("(a) {} distinct load observations in {} loads, e.g. {}", distinct_loads.len(), LOADS + 1, first_diff(&distinct_loads[0], &distinct_loads[1])));
    }

    let (file, _) = load_obs(&inp.dsl);
    let mut interleaved_trees = 0usize;
    if let Some(file) = &file {
        let nt = inp.srcs.len();
        let reference = |t: usize, lazy: bool| -> &RunObs { &tr.runs[2 * t + lazy as usize] };
        for (t, r) in tr.runs.iter().enumerate() { tags.push(format!("{}:{}", if t % 2 == 1 { "lazy" } else { "strict" }, r.class)); }

        // (b) one File, one table, one Variables, trees parsed once
        tags.push("sub:b".into());
        let (functions, counter) = make_functions();
        let globals = make_variables(&inp.supplied);
        let globals_before = variables_snapshot(&globals);
        let trees: Vec<Tree> = inp.srcs.iter().map(|s| parse_python(s)).collect();
        let mut schedule: Vec<(usize, bool)> = Vec::new();
        for _ in 0..REPEATS { schedule.push((0, false)); }
        for _ in 0..REPEATS { schedule.push((0, true)); }
        let mut mixed: Vec<(usize, bool)> = Vec::new();
        for round in 0..2 { for t in 0..nt { for lazy in [false, true] { let _ = round; mixed.push((t, lazy)); } } }
        let mut local = Rng::new(fnv(&inp.dsl));
        shuffle(&mut local, &mut mixed);
        schedule.extend(mixed);
        let mut seen_trees: BTreeSet<usize> = BTreeSet::new();
        let mut b_fail = 0;
        for (k, (t, lazy)) in schedule.iter().enumerate() {
            if k >= 2 * REPEATS { seen_trees.insert(*t); }
            let o = run_on(file, &functions, &globals, &trees[*t], inp.srcs[*t].as_str(), *lazy);
            if &o != reference(*t, *lazy) {
                b_fail += 1;
                if b_fail == 1 {
                    notes.push(format!("(b) run #{} (tree {}, {}) differs from the isolated run {}", k, t, if *lazy { "lazy" } else { "strict" },
                        first_diff(&o.text, &reference(*t, *lazy).text)));
                }
            }
        }
        if b_fail > 0 { mask |= 2; }

        // (b2) the same loaded File executed with DIFFERENT caller globals in turn (a defaulted global left out,
        // then supplied, then left out again; a required global missing in between): every run equals the isolated
        // run (fresh load) under the same globals -- nothing derived from one execution's globals may stay in the File
        let defaulted: Vec<String> = file.globals.iter().filter(|g| g.default.is_some()).map(|g| g.name.to_string()).collect();
        let required: Vec<String> = file.globals.iter().filter(|g| g.default.is_none()).map(|g| g.name.to_string()).collect();
        if !defaulted.is_empty() || !required.is_empty() {
            tags.push("sub:b2".into());
            let without: Vec<(String, GV)> = inp.supplied.iter().filter(|(k, _)| !defaulted.contains(k)).cloned().collect();
            let mut with: Vec<(String, GV)> = without.clone();
            for d in &defaulted { with.push((d.clone(), GV::Str("c12-override".into()))); }
            let mut variants: Vec<(&str, Vec<(String, GV)>)> = Vec::new();
            if !defaulted.is_empty() { variants.push(("defaults-omitted", without.clone())); variants.push(("defaults-supplied", with.clone())); }
            if let Some(r) = required.first() {
                variants.push(("required-missing", inp.supplied.iter().filter(|(k, _)| k != r).cloned().collect()));
            }
            variants.push(("as-given", inp.supplied.clone()));
            if !defaulted.is_empty() { variants.push(("defaults-omitted", without)); variants.push(("defaults-supplied", with)); }
            // a File of its own, so that the order of (b) does not decide what this one sees first
            let (file2, _) = load_obs(&inp.dsl);
            if let Some(file2) = &file2 {
                let mut b2_fail = 0;
                for lazy in [false, true] {
                    for (k, (label, vars)) in variants.iter().enumerate() {
                        let g = make_variables(vars);
                        let o = run_on(file2, &functions, &g, &trees[0], inp.srcs[0].as_str(), lazy);
                        let mut alone = inp.clone_with_supplied(vars.clone());
                        alone.unused = None;
                        let want = isolated(&alone, 0, lazy);
                        if o != want {
                            b2_fail += 1;
                            if b2_fail == 1 {
                                notes.push(format!("(b2) run #{} ({}, {}) of one loaded file under changing globals differs from the isolated run {}", k, label,
                                    if lazy { "lazy" } else { "strict" }, first_diff(&o.text, &want.text)));
                            }
                        }
                    }
                }
                if b2_fail > 0 { mask |= 2; }
                tags.push(format!("b2_variants:{}", variants.len()));
            }
        }
        interleaved_trees = seen_trees.iter().map(|t| inp.srcs[*t].as_str()).collect::<BTreeSet<_>>().len();
        tags.push(format!("interleaved_distinct_trees:{}", interleaved_trees));

        // (c) threads sharing &File and &Functions
        tags.push("sub:c".into());
        tags.push(format!("threads:{}", THREADS));
        let barrier = Barrier::new(THREADS);
        let results: Vec<Result<Vec<(usize, bool, RunObs)>, ()>> = std::thread::scope(|scope| {
            let handles: Vec<_> = (0..THREADS).map(|th| {
                let (file, functions, barrier, inp) = (file, &functions, &barrier, inp);
                scope.spawn(move || {
                    let globals = make_variables(&inp.supplied);
                    let mut out = Vec::new();
                    barrier.wait();
                    for k in 0..6 {
                        let t = (th + k) % nt;
                        let lazy = (th + k / 3) % 2 == 1;
                        let src = inp.srcs[t].as_str();
                        let tree = parse_python(src);                       // own copy of the tree
                        let o = run_on(file, functions, &globals, &tree, src, lazy);   // canonicalised inside the thread
                        out.push((t, lazy, o));
                    }
                    out
                })
            }).collect();
            handles.into_iter().map(|h| h.join().map_err(|_| ())).collect()
        });
        let mut c_fail = 0;
        for (th, r) in results.iter().enumerate() {
            match r {
                Err(()) => { mask |= 64; notes.push(format!("(c) thread {} died", th)); }
                Ok(v) => for (t, lazy, o) in v {
                    if o != reference(*t, *lazy) {
                        c_fail += 1;
                        if c_fail == 1 { notes.push(format!("(c) thread {} (tree {}, {}) differs from the isolated run {}", th, t, if *lazy { "lazy" } else { "strict" }, first_diff(&o.text, &reference(*t, *lazy).text))); }
                    }
                }
            }
        }
        if c_fail > 0 { mask |= 4; }

        // (d) caller's variables and function table
        tags.push("sub:d".into());
        let globals_after = variables_snapshot(&globals);
        if globals_before != globals_after { mask |= 8; notes.push(format!("(d) Variables changed: {:?} -> {:?}", globals_before, globals_after)); }
        let (fresh, _) = make_functions();
        let want = battery(&fresh);
        let used_table = battery(&functions);          // after ~70 executions, some of them concurrent
        if want != used_table {
            mask |= 8;
            let d = want.iter().zip(used_table.iter()).find(|(a, b)| a != b);
            notes.push(format!("(d) the function table answers differently after use: {:?}", d));
        }
        // a second table: battery, two executions, battery
        let before = battery(&fresh);
        let g2 = make_variables(&inp.supplied);
        let g2_before = variables_snapshot(&g2);
        let o1 = run_on(file, &fresh, &g2, &trees[0], inp.srcs[0].as_str(), false);
        let o2 = run_on(file, &fresh, &g2, &trees[0], inp.srcs[0].as_str(), true);
        if &o1 != reference(0, false) || &o2 != reference(0, true) { mask |= 2; notes.push("(b) execution between two batteries differs from the isolated run".into()); }
        if battery(&fresh) != before || before != want { mask |= 8; notes.push("(d) battery before/after differs".into()); }
        if variables_snapshot(&g2) != g2_before { mask |= 8; notes.push("(d) second Variables changed".into()); }
        tags.push(format!("probe_calls:{}", match counter.load(Ordering::SeqCst) { 0 => "0", 1..=50 => "1-50", _ => "51+" }));
    }

    let own = tr.line();

    // Coq-evaluated component
    let mut names_in_message = 0usize;
    let obs_term = match &inp.unused {
        Some((all, used)) => {
            let impl_text = unused_text(&tr.load);
            if let Some(t) = &impl_text { names_in_message = t.split(' ').count(); tags.push(format!("unused_names:{}", names_in_message.min(6))); }
            format!("(C12Unused {} {} {})", coq_list(&all.iter().map(|s| coq_str(s)).collect::<Vec<_>>()),
                coq_list(&used.iter().map(|s| coq_str(s)).collect::<Vec<_>>()), coq_opt(impl_text.map(|t| coq_str(&t))))
        }
        None => "C12None".to_string(),
    };
    // error outcomes whose text names >= 2 identifiers of the generated fault
    let err_lists_names = names_in_message >= 2
        || (inp.kind.starts_with("fault:scoped") || inp.kind == "fault:duplicate-attribute") && tr.runs.iter().any(|r| r.class.starts_with("err"));
    let nontrivial = err_lists_names || interleaved_trees >= 2;
    Built { mask, tags, notes, own, obs_term, nontrivial, key: fnv(&format!("{}|{:?}", inp.dsl, inp.srcs)), replay: inp.json(), tr }
}

/// sub-check (e) and the case record
pub fn finish(mut b: Built, child_lines: &[Option<String>]) -> Case {
    if !child_lines.is_empty() {
        b.tags.push("sub:e".into());
        b.tags.push(format!("procs:{}", child_lines.len()));
        for (p, l) in child_lines.iter().enumerate() {
            if l.as_deref() != Some(b.own.as_str()) {
                b.mask |= 16;
                b.notes.push(format!("(e) process {} reports {:?}, this process {:?}", p, l, b.own));
            }
        }
    }
    if b.mask != 0 { for n in &b.notes { eprintln!("C12 {}", n); } }
    let mut replay = b.replay;
    replay["impl"] = json!({"transcript": b.own, "load": b.tr.load.chars().take(1500).collect::<String>(),
        "runs": b.tr.runs.iter().map(|r| r.text.chars().take(600).collect::<String>()).collect::<Vec<_>>(), "notes": b.notes, "mask": b.mask});
    Case {
        verdict: format!("c12_verdict {} {}", b.mask, b.obs_term),
        detail: format!("c12_detail {}", b.obs_term),
        key: b.key, nontrivial: b.nontrivial, tags: b.tags, replay,
    }
}

// ---------------------------------------------------------------- processes

fn spawn_children(args: &[String]) -> Vec<Option<std::process::Child>> {
    let exe = match std::env::current_exe() { Ok(e) => e, Err(_) => return (0..PROCS).map(|_| None).collect() };
    (0..PROCS).map(|_| {
        std::process::Command::new(&exe).arg("transcript").arg("C12").args(args)
            .stdin(std::process::Stdio::null()).stdout(std::process::Stdio::piped()).stderr(std::process::Stdio::null()).spawn().ok()
    }).collect()
}
/// per case: the line each child printed (None = the child failed or printed fewer lines)
fn collect_children(children: Vec<Option<std::process::Child>>, n: usize) -> Vec<Vec<Option<String>>> {
    let mut per_child: Vec<Vec<String>> = Vec::new();
    for c in children {
        let lines = match c.map(|c| c.wait_with_output()) {
            Some(Ok(o)) if o.status.success() => String::from_utf8_lossy(&o.stdout).lines().map(|l| l.to_string()).collect(),
            _ => Vec::new(),
        };
        per_child.push(lines);
    }
    (0..n).map(|i| per_child.iter().map(|l| l.get(i).cloned()).collect()).collect()
}

pub fn gen(rng: &mut Rng, n: usize) -> Vec<Case> {
    quiet_panics();
    let children = spawn_children(&["--state".to_string(), rng.0.to_string(), "--n".to_string(), n.to_string()]);
    let inputs: Vec<Input> = (0..n).map(|_| gen_input(rng)).collect();
    // this process does (a)-(d) while the children regenerate and run the same cases
    let built: Vec<Built> = inputs.iter().map(build).collect();
    let lines = collect_children(children, n);
    built.into_iter().zip(lines.iter()).map(|(b, l)| finish(b, l)).collect()
}

pub fn replay(j: &serde_json::Value) -> Case {
    quiet_panics();
    let inp = Input::from_json(j);
    let path = std::env::temp_dir().join(format!("tsgv-c12-{}-{:016x}.json", std::process::id(), fnv(&inp.dsl)));
    std::fs::write(&path, serde_json::to_string(&json!({"case": inp.json()})).unwrap()).unwrap();
    let children = spawn_children(&["--file".to_string(), path.to_string_lossy().to_string()]);
    let lines = collect_children(children, 1);
    let _ = std::fs::remove_file(&path);
    make_case(&inp, &lines[0])
}

/// `tsgv transcript C12 (--seed S | --state X) --n N` or `--file F`: one line per case.
pub fn transcript_main(args: &[String]) {
    quiet_panics();
    let get = |name: &str| -> Option<String> { args.iter().position(|a| a == name).and_then(|i| args.get(i + 1)).cloned() };
    let inputs: Vec<Input> = if let Some(f) = get("--file") {
        let j: serde_json::Value = serde_json::from_str(&std::fs::read_to_string(&f).unwrap()).unwrap();
        vec![Input::from_json(&j["case"])]
    } else {
        let n: usize = get("--n").and_then(|s| s.parse().ok()).unwrap_or(10);
        let mut rng = match get("--state") {
            Some(s) => Rng(s.parse().unwrap()),
            None => { let seed: u64 = get("--seed").and_then(|s| s.parse().ok()).unwrap_or(1); Rng::new(seed.wrapping_mul(1000003).wrapping_add(fnv("C12"))) }
        };
        (0..n).map(|_| gen_input(&mut rng)).collect()
    };
    let stdout = std::io::stdout();
    let mut out = stdout.lock();
    use std::io::Write;
    for inp in &inputs { writeln!(out, "{}", transcript(inp).line()).unwrap(); }
}
