//! C13: the 21 standard-library functions vs Model/Stdlib.v — argument tuples of length 0-4 over every
//! Value variant and every syntax node of generated Python trees; observation = Ok value (+ node count
//! afterwards) / Err variant / panicked.  The same generator serves the release stream "C13" and the
//! debug-profile stream "C13D" (integer overflow behaves differently in the two profiles).
use crate::common::*;
use crate::rng::Rng;
use serde_json::json;
use std::panic::{catch_unwind, AssertUnwindSafe};
use tree_sitter_graph::functions::Functions;
use tree_sitter_graph::graph::{Graph, Value};
use tree_sitter_graph::{ExecutionError, Identifier};

pub const FUNCS: &[&str] = &[
    "eq", "is-null", "named-child-index", "source-text", "start-row", "start-column", "end-row", "end-column",
    "node-type", "named-child-count", "node", "not", "and", "or", "plus", "format", "replace", "concat",
    "is-empty", "join", "length",
];
const UNKNOWN_FUNCS: &[&str] = &["nope", "Eq", "", "is_null", "plus ", "named-child"];
const SYNTAX_FUNCS: &[&str] = &["named-child-index", "source-text", "start-row", "start-column", "end-row", "end-column", "node-type", "named-child-count"];

/// Numbering of `error_code` in Model/Errors.v (= declaration order of the enum, from 1).
pub fn error_code(e: &ExecutionError) -> u32 {
    use ExecutionError::*;
    match e {
        Cancelled(..) => 1, CannotAssignImmutableVariable(..) => 2, CannotAssignScopedVariable(..) => 3,
        CannotDefineMutableScopedVariable(..) => 4, DuplicateAttribute(..) => 5, DuplicateEdge(..) => 6,
        DuplicateVariable(..) => 7, ExpectedGraphNode(..) => 8, ExpectedList(..) => 9, ExpectedBoolean(..) => 10,
        ExpectedInteger(..) => 11, ExpectedString(..) => 12, ExpectedSyntaxNode(..) => 13, InvalidParameters(..) => 14,
        InvalidVariableScope(..) => 15, MissingGlobalVariable(..) => 16, RecursivelyDefinedScopedVariable(..) => 17,
        RecursivelyDefinedVariable(..) => 18, UndefinedCapture(..) => 19, UndefinedFunction(..) => 20,
        UndefinedRegexCapture(..) => 21, UndefinedScopedVariable(..) => 22, EmptyRegexCapture(..) => 23,
        UndefinedEdge(..) => 24, UndefinedVariable(..) => 25, VariableScopesAlreadyForced(..) => 26,
        FunctionFailed(..) => 27, InContext(..) => 28,
    }
}

#[derive(Clone, Debug)]
pub enum Obs { Ok(GV, usize), Err(u32), Panic }
impl Obs {
    pub fn coq(&self) -> String {
        match self {
            Obs::Ok(v, n) => format!("(ObsOk {} {})", v.coq(), n),
            Obs::Err(c) => format!("(ObsErr {})", c),
            Obs::Panic => "ObsPanic".into(),
        }
    }
    pub fn tag(&self) -> String {
        match self { Obs::Ok(..) => "out:ok".into(), Obs::Err(c) => format!("out:err{}", c), Obs::Panic => "out:panic".into() }
    }
}

/// Everything that determines a case.
#[derive(Clone, Debug)]
pub struct Spec { pub func: String, pub nodes: u32, pub src: String, pub args: Vec<GV>, pub mode: String }

// ------------------------------------------------------------------ sources

const LINES: &[&str] = &[
    "x = 1",
    "def f(a, b):\n    return a + b",
    "class C:\n    pass",
    "print('héllo', x)",
    "y = [1, 2, 3]",
    "s = '日本語'",
    "if x:\n    y = 2\nelse:\n    y = 3",
    "for i in range(3):\n    pass",
    "z = {'a': 1}",
    "import os",
    "naïve = 1",
    "é = 'ü'; t = é + 1",
    "x = (1 +",
    "def :",
    "a = b = c",
    "g = lambda q: q",
    "f(1)(2)",
    "w = f(1, y)[0].attr",
    "# комментарий",
    "u = \"{}\" % ()",
    "return",
    "x = = 2",
    "",
];

pub fn gen_source(rng: &mut Rng) -> String {
    let k = rng.range(1, 3);
    let mut parts: Vec<&str> = Vec::new();
    for _ in 0..k { parts.push(*rng.pick(LINES)); }
    let mut s = parts.join("\n");
    if rng.chance(70) { s.push('\n'); }
    s
}

// ------------------------------------------------------------------ argument generators

const FMT_LIT: &[&str] = &["", "a", "x y", "héllo", "日本", "%s", "\\", "\"q\"", ":", "-", "{{", "}}", "{{}}", "}}{{", "[", "$1"];
const FMT_BAD: &[&str] = &["{", "}", "{x", "}x", "{ }", "{é", "}{", "{}}", "{{}"];
const TEXTS: &[&str] = &["", "aaa", "abcabc", "a.b", "foo bar foo", "héllo wörld", "日本語", "x1y22z333", "line1\nline2", "{}{{", "AaAa", "a+b*c", "(x)[y]"];
const PATS: &[&str] = &["a", "a+", "a*", "[a-c]", ".", "^", "$", "\\d+", "(a|b)", "é", "\\w", "x*", "\\s", "b?", "(?i)A", "[^a]", "\\.",
    "a{2}", "\\bfoo\\b", "日", "(?P<n>a)", "", "\\+|\\*", "\\(x\\)", "[\\[\\]]", "ö|ü", "\\p{L}+", "l+", "(", "[a", "*", "a{2", "\\", "(?P<n", "a)", "[z-a]", "\\q"];
const REPS: &[&str] = &["", "X", "é", "{}", "--", "日", " ", "\\1", "<>", "a", "}}"];

fn gen_of(rng: &mut Rng, vg: &ValGen, variant: usize) -> GV {
    match variant {
        0 => GV::Null,
        1 => GV::Bool(rng.chance(50)),
        2 => GV::Int(if rng.chance(60) { *rng.pick(INT_POOL) } else { rng.below(20) as u32 }),
        3 => GV::Str(rng.pick(STR_POOL).to_string()),
        4 => { let n = rng.below(4); GV::List((0..n).map(|_| vg.gen(rng, 1)).collect()) }
        5 => {
            let n = rng.below(4);
            let mut items: Vec<GV> = Vec::new();
            for _ in 0..n {
                let v = vg.gen(rng, 1);
                if contains_syn(&v) { continue; }
                if !items.contains(&v) { items.push(v); }
            }
            // at most one syntax node directly in a set: the order of several would be by node address
            if vg.n_syn > 0 && rng.chance(25) { items.push(GV::Syn(rng.below(vg.n_syn))); }
            GV::Set(items)
        }
        6 => if vg.n_syn > 0 { GV::Syn(rng.below(vg.n_syn)) } else { GV::Null },
        _ => if vg.n_graph > 0 { GV::Graph(rng.below(vg.n_graph as usize) as u32) } else { GV::Int(3) },
    }
}
fn gen_list(rng: &mut Rng, vg: &ValGen) -> GV {
    if rng.chance(25) { GV::List(vec![]) } else { let n = rng.range(1, 4); GV::List((0..n).map(|_| vg.gen(rng, 2)).collect()) }
}
fn gen_ints(rng: &mut Rng) -> Vec<GV> {
    let m = u32::MAX;
    let v: Vec<u32> = match rng.below(12) {
        0 => vec![],
        1 => vec![*rng.pick(INT_POOL)],
        2 => { let k = rng.below(5) as u32; vec![m - k, k] }                 // exactly u32::MAX
        3 => { let k = rng.below(5) as u32; vec![m - k, k + 1] }             // exactly 2^32
        4 => vec![2147483648, 2147483647],
        5 => vec![2147483648, 2147483648],
        6 => vec![m, 0, 0, 0],
        7 => vec![1, m],
        8 => vec![m, m, m, m],
        9 => { let k = rng.below(3) as u32; vec![1431655765, 1431655765, 1431655765 + k] } // 3 * 0x55555555 = MAX
        _ => { let n = rng.below(5); (0..n).map(|_| if rng.chance(30) { *rng.pick(INT_POOL) } else { rng.below(1000) as u32 }).collect() }
    };
    v.into_iter().map(GV::Int).collect()
}
/// A format string and its number of `{}` placeholders (None when it contains a malformed brace).
fn gen_format(rng: &mut Rng, bad: bool) -> (String, Option<usize>) {
    let n = rng.below(6);
    let mut s = String::new();
    let mut holes = 0;
    let bad_at = if bad { Some(rng.below(n + 1)) } else { None };
    for i in 0..=n {
        if Some(i) == bad_at { s.push_str(*rng.pick(FMT_BAD)); }
        if i == n { break; }
        if rng.chance(45) { s.push_str("{}"); holes += 1; } else { s.push_str(*rng.pick(FMT_LIT)); }
    }
    (s, if bad { None } else { Some(holes) })
}

/// Well-typed argument tuple for `func`.
fn gen_well(rng: &mut Rng, func: &str, vg: &ValGen, next_node: &mut usize) -> Vec<GV> {
    match func {
        "eq" => {
            let k = rng.below(8);
            let a = gen_of(rng, vg, k);
            match rng.below(100) {
                0..=14 => vec![GV::Null, a],                                   // null vs value
                15..=29 => vec![a, GV::Null],                                  // value vs null
                30..=34 => vec![GV::Null, GV::Null],
                35..=59 => vec![a.clone(), a],                                 // equal
                60..=89 => { let b = gen_of(rng, vg, k); vec![a, b] }          // same type
                _ => { let k2 = (k + 1 + rng.below(7)) % 8; let b = gen_of(rng, vg, k2); vec![a, b] } // different types
            }
        }
        "is-null" => vec![if rng.chance(40) { GV::Null } else { vg.gen(rng, 2) }],
        f if SYNTAX_FUNCS.contains(&f) => {
            if vg.n_syn == 0 { return vec![GV::Null]; }
            let i = *next_node % vg.n_syn;
            *next_node += 1;
            vec![GV::Syn(i)]
        }
        "node" => vec![],
        "not" => vec![GV::Bool(rng.chance(50))],
        "and" | "or" => { let n = rng.below(5); (0..n).map(|_| GV::Bool(rng.chance(if func == "and" { 75 } else { 25 }))).collect() }
        "plus" => gen_ints(rng),
        "format" => {
            let (s, holes) = gen_format(rng, false);
            let mut args = vec![GV::Str(s)];
            for _ in 0..holes.unwrap() { let k = rng.below(8); args.push(if rng.chance(50) { gen_of(rng, vg, k) } else { vg.gen(rng, 2) }); }
            args
        }
        "replace" => vec![GV::Str(rng.pick(TEXTS).to_string()), GV::Str(rng.pick(PATS).to_string()), GV::Str(rng.pick(REPS).to_string())],
        "concat" => { let n = rng.below(5); (0..n).map(|_| gen_list(rng, vg)).collect() }
        "is-empty" | "length" => vec![gen_list(rng, vg)],
        "join" => {
            // lists of strings with empty elements in every position (separators around empty pieces)
            let mut a = if rng.chance(50) { let n = rng.range(2, 5); vec![GV::List((0..n).map(|_| GV::Str(rng.pick(&["", "", "a", "b", "é"][..]).to_string())).collect())] } else { vec![gen_list(rng, vg)] };
            if rng.chance(60) { a.push(GV::Str(rng.pick(&[", ", "", "-", "日", "{}", "\n"][..]).to_string())); }
            a
        }
        _ => { let n = rng.below(5); (0..n).map(|_| vg.gen(rng, 2)).collect() }
    }
}

/// Malformed tuple: wrong arity, wrong types, bad format strings, or anything at all.
fn gen_malformed(rng: &mut Rng, func: &str, vg: &ValGen, next_node: &mut usize) -> (Vec<GV>, &'static str) {
    let mut args = gen_well(rng, func, vg, next_node);
    if func == "format" && rng.chance(50) {
        let (s, _) = gen_format(rng, true);
        let k = rng.below(4);
        let mut a = vec![GV::Str(s)];
        for _ in 0..k { a.push(vg.gen(rng, 1)); }
        return (a, "badfmt");
    }
    match rng.below(100) {
        0..=34 => { let n = rng.below(5); ((0..n).map(|_| vg.gen(rng, 2)).collect(), "random") }
        35..=49 => { if args.is_empty() { args.push(vg.gen(rng, 1)); } else { args.pop(); } (args, "drop") }
        50..=69 => { if args.len() < 4 { let v = vg.gen(rng, 2); args.push(v); } else { args.remove(0); } (args, "extra") }
        70..=89 => {
            if args.is_empty() { args.push(vg.gen(rng, 2)); }
            else { let i = rng.below(args.len()); args[i] = vg.gen(rng, 2); }
            (args, "retype")
        }
        _ => {
            if func == "format" {
                let (s, _) = gen_format(rng, true);
                let k = rng.below(4);
                let mut a = vec![GV::Str(s)];
                for _ in 0..k { a.push(vg.gen(rng, 1)); }
                (a, "badfmt")
            } else if func == "format" || args.is_empty() { (vec![vg.gen(rng, 2)], "random") }
            else { let j = rng.below(args.len()); args.swap(0, j); args.push(GV::Null); args.truncate(4); (args, "shuffle") }
        }
    }
}

// ------------------------------------------------------------------ implementation runner

pub fn run_impl<'t>(spec: &Spec, info: &TreeInfo<'t>) -> Obs {
    let mut graph = Graph::new();
    for _ in 0..spec.nodes { graph.add_graph_node(); }
    let vals: Vec<Value> = spec.args.iter().map(|a| a.to_value(&mut graph, info)).collect();
    let fns = Functions::stdlib();
    let name = Identifier::from(spec.func.as_str());
    let src = info.src;
    let r = catch_unwind(AssertUnwindSafe(|| {
        let mut params = vals.into_iter();
        fns.call(&name, &mut graph, src, &mut params)
    }));
    match r {
        Ok(Ok(v)) => Obs::Ok(GV::from_value(&v, &graph, info), graph.node_count()),
        Ok(Err(e)) => Obs::Err(error_code(&e)),
        Err(_) => Obs::Panic,
    }
}

/// The regex crate's own answers for the (text, pattern, replacement) triples the model may ask about.
fn oracle_entries(spec: &Spec) -> Vec<(String, String, String, Option<String>)> {
    let mut out = Vec::new();
    if spec.func != "replace" { return out; }
    if let (Some(GV::Str(text)), Some(GV::Str(pat))) = (spec.args.get(0), spec.args.get(1)) {
        let mut reps = vec![String::new()];
        if let Some(GV::Str(r)) = spec.args.get(2) { if !r.is_empty() { reps.push(r.clone()); } }
        let re = regex::Regex::new(pat);
        for r in reps {
            let ans = match &re { Ok(re) => Some(re.replace_all(text, r.as_str()).to_string()), Err(_) => None };
            out.push((text.clone(), pat.clone(), r, ans));
        }
    }
    out
}

fn has_syn(args: &[GV]) -> bool { args.iter().any(contains_syn) }

pub fn make_case(spec: &Spec) -> Case {
    let tree = parse_python(&spec.src);
    let info = TreeInfo::new(&tree, &spec.src);
    let obs = run_impl(spec, &info);
    let oracle = oracle_entries(spec);
    let oracle_coq = coq_list(&oracle.iter().map(|(t, p, r, a)| format!("({}, {}, {}, {})", coq_str(t), coq_str(p), coq_str(r), coq_opt(a.as_ref().map(|s| coq_str(s))))).collect::<Vec<_>>());
    let needs_tree = has_syn(&spec.args);
    let tree_term = if needs_tree { tree_coq(&info) } else { EMPTY_TREE_COQ.to_string() };
    let args_coq = coq_list(&spec.args.iter().map(|a| a.coq()).collect::<Vec<_>>());
    let name_coq = coq_str(&spec.func);
    let verdict = format!("c13_verdict {} {} {} {}%nat {} {}", oracle_coq, tree_term, name_coq, spec.nodes, args_coq, obs.coq());
    let detail = format!("stdlib_call (oracle_of {}) {} {} (repeat new_gnode {}%nat) {}", oracle_coq, tree_term, name_coq, spec.nodes, args_coq);
    let mut tags = vec![format!("fn:{}", if FUNCS.contains(&spec.func.as_str()) { spec.func.as_str() } else { "<unknown>" }), format!("mode:{}", spec.mode), obs.tag(), format!("arity{}", spec.args.len())];
    if needs_tree { tags.push("with-tree".into()); }
    if info.nodes.iter().any(|n| n.is_error() || n.is_missing()) && needs_tree { tags.push("tree-with-error".into()); }
    if !spec.src.is_ascii() && needs_tree { tags.push("tree-non-ascii".into()); }
    let nontrivial = !spec.args.is_empty() && matches!(obs, Obs::Ok(..) | Obs::Err(27));
    let replay = json!({"prop": "C13", "fn": spec.func, "nodes": spec.nodes, "src": spec.src, "mode": spec.mode,
        "args": spec.args.iter().map(|a| a.json()).collect::<Vec<_>>(), "impl": obs.coq(),
        "profile": if cfg!(debug_assertions) { "debug" } else { "release" }});
    Case { key: fnv(&verdict), verdict, detail, replay, nontrivial, tags }
}

// ------------------------------------------------------------------ deterministic core

pub const CORE_SRC: &str = "x = f(1, y)\npass\n";

/// A fixed table of cases that is part of every run (before the random ones): the whole 8x8 variant
/// table of `eq`, the brace grammar of `format`, the u32 boundary of `plus`, arity edges of every
/// function, and every syntax function on the root, a named child and an unnamed child.
pub fn core_specs() -> Vec<Spec> {
    let tree = parse_python(CORE_SRC);
    let info = TreeInfo::new(&tree, CORE_SRC);
    let unnamed = info.nodes.iter().position(|n| !n.is_named()).unwrap_or(0);
    let last = info.nodes.len() - 1;
    let s = |x: &str| GV::Str(x.to_string());
    let i = |x: u32| GV::Int(x);
    let l = |x: Vec<GV>| GV::List(x);
    let m = u32::MAX;
    let rep = |k: usize| -> GV { match k {
        0 => GV::Null, 1 => GV::Bool(true), 2 => GV::Int(7), 3 => GV::Str("a".into()), 4 => GV::List(vec![GV::Int(1)]),
        5 => GV::Set(vec![GV::Int(1)]), 6 => GV::Syn(1), _ => GV::Graph(0) } };
    let mut out: Vec<(&str, Vec<GV>)> = Vec::new();
    for a in 0..8 { for b in 0..8 { out.push(("eq", vec![rep(a), rep(b)])); } }
    for (a, b) in [(GV::Bool(true), GV::Bool(false)), (i(7), i(8)), (s("a"), s("b")), (l(vec![i(1)]), l(vec![i(1), i(2)])),
                   (GV::Set(vec![i(1)]), GV::Set(vec![i(2)])), (GV::Syn(1), GV::Syn(2)), (GV::Graph(0), GV::Graph(1)),
                   (l(vec![GV::Null]), l(vec![GV::Null])), (GV::Set(vec![i(2), i(1)]), GV::Set(vec![i(1), i(2)]))] {
        out.push(("eq", vec![a, b]));
    }
    out.push(("eq", vec![])); out.push(("eq", vec![i(1)])); out.push(("eq", vec![i(1), i(1), i(1)]));
    for f in ["", "{}", "{{", "}}", "{", "}", "{{}}", "{}}", "{{}", "a{", "a}", "{x}", "}{", "}}{{", "{{{}}}", "{ }"] {
        out.push(("format", vec![s(f)]));
        out.push(("format", vec![s(f), i(5)]));
    }
    out.push(("format", vec![s("{}{}"), i(1)]));
    out.push(("format", vec![s("{}"), i(1), i(2)]));
    out.push(("format", vec![s("é{}日{}"), s("ü"), GV::Null]));
    out.push(("format", vec![i(1)]));
    out.push(("format", vec![]));
    for k in 0..8 { out.push(("format", vec![s("<{}>"), rep(k)])); }
    out.push(("format", vec![s("{}"), l(vec![GV::Null, GV::Bool(false), i(0), s("q"), l(vec![]), GV::Set(vec![]), GV::Syn(last), GV::Graph(1)])]));
    out.push(("format", vec![s("{}"), GV::Set(vec![GV::Null, GV::Bool(true), i(m), s(""), l(vec![i(1)]), GV::Syn(unnamed), GV::Graph(0)])]));
    for a in [vec![], vec![m], vec![m, 0], vec![m, 1], vec![m - 1, 1], vec![1, m - 1], vec![1 << 31, 1 << 31], vec![1 << 31, (1 << 31) - 1], vec![1, 2, 3, 4], vec![m, m]] {
        out.push(("plus", a.into_iter().map(GV::Int).collect()));
    }
    out.push(("plus", vec![i(m), i(1), s("x")]));
    out.push(("plus", vec![s("x"), i(m), i(1)]));
    out.push(("not", vec![GV::Bool(true)])); out.push(("not", vec![])); out.push(("not", vec![GV::Bool(false), GV::Bool(true)]));
    out.push(("not", vec![i(1), GV::Bool(true)]));
    out.push(("and", vec![])); out.push(("or", vec![]));
    out.push(("and", vec![GV::Bool(true), GV::Bool(false)])); out.push(("or", vec![GV::Bool(false), GV::Bool(true)]));
    out.push(("and", vec![GV::Bool(false), i(1)])); out.push(("or", vec![GV::Bool(true), GV::Null]));
    out.push(("is-empty", vec![l(vec![])])); out.push(("is-empty", vec![l(vec![i(1)])])); out.push(("is-empty", vec![l(vec![]), GV::Null]));
    out.push(("is-empty", vec![GV::Set(vec![])])); out.push(("is-empty", vec![]));
    out.push(("length", vec![l(vec![])])); out.push(("length", vec![l(vec![i(1), i(2), i(3)])])); out.push(("length", vec![l(vec![]), GV::Null]));
    out.push(("length", vec![s("abc")])); out.push(("length", vec![]));
    out.push(("join", vec![l(vec![i(1), s("a"), GV::Null])])); out.push(("join", vec![l(vec![i(1), i(2)]), s(", ")]));
    out.push(("join", vec![l(vec![]), s("x")])); out.push(("join", vec![l(vec![i(1)]), i(5)]));
    out.push(("join", vec![l(vec![i(1)]), s("a"), s("b")])); out.push(("join", vec![])); out.push(("join", vec![s("a")]));
    out.push(("concat", vec![])); out.push(("concat", vec![l(vec![i(1)]), l(vec![i(2), i(3)])])); out.push(("concat", vec![l(vec![i(1)]), GV::Null]));
    out.push(("node", vec![])); out.push(("node", vec![GV::Null]));
    out.push(("is-null", vec![GV::Null])); out.push(("is-null", vec![i(0)])); out.push(("is-null", vec![])); out.push(("is-null", vec![GV::Null, GV::Null]));
    for a in [vec!["aaa", "a", "b"], vec!["aaa", "(", "b"], vec!["aaa", "a"], vec!["aaa", "("], vec!["aaa", "a*", "-"], vec!["héllo", "l+", "L"],
              vec!["aaa", "a", "b", "c"], vec!["aaa", "(", "b", "c"], vec!["aaa"], vec![]] {
        out.push(("replace", a.into_iter().map(|x| GV::Str(x.to_string())).collect()));
    }
    out.push(("replace", vec![s("a"), s("("), i(1)])); out.push(("replace", vec![s("a"), s("a"), i(1)])); out.push(("replace", vec![s("a"), i(1), s("(")]));
    for f in SYNTAX_FUNCS {
        for n in [0, 1, unnamed, last] { out.push((f, vec![GV::Syn(n)])); }
        out.push((f, vec![])); out.push((f, vec![GV::Syn(1), GV::Syn(1)])); out.push((f, vec![i(1), GV::Syn(1)])); out.push((f, vec![i(1)]));
    }
    out.push(("nope", vec![])); out.push(("", vec![i(1)]));
    let mut specs: Vec<Spec> = out.into_iter().map(|(f, args)| Spec { func: f.to_string(), nodes: 2, src: CORE_SRC.to_string(), args, mode: "core".to_string() }).collect();
    // `eq` on two DIFFERENT syntax nodes of the same kind that start at the same position (left-nested constructs)
    for nsrc in ["q = a.b.c\n", "r = f()()\n", "s = a[0][1]\n", "t = a + b + c\n"] {
        let t2 = parse_python(nsrc);
        let i2 = TreeInfo::new(&t2, nsrc);
        for (x, y) in same_start_pairs(&i2) {
            for args in [vec![GV::Syn(x), GV::Syn(y)], vec![GV::Syn(y), GV::Syn(x)], vec![GV::List(vec![GV::Syn(x)]), GV::List(vec![GV::Syn(y)])], vec![GV::Syn(x), GV::Syn(x)]] {
                specs.push(Spec { func: "eq".to_string(), nodes: 2, src: nsrc.to_string(), args, mode: "core".to_string() });
            }
        }
    }
    // trees with zero-width MISSING nodes and ERROR nodes: every node of a few small sources through the positional functions
    for esrc in ["s = f'{!r:>3}'\n", "t = f'{!r}' + f'{:>3}'\n", "def f(:\n    pass\n", "x = (1,\n", "if x:\n  ("] {
        let t3 = parse_python(esrc);
        let i3 = TreeInfo::new(&t3, esrc);
        for n in 0..i3.nodes.len() {
            for f in ["named-child-index", "named-child-count", "source-text"] {
                specs.push(Spec { func: f.to_string(), nodes: 0, src: esrc.to_string(), args: vec![GV::Syn(n)], mode: "core".to_string() });
            }
            if n % 3 == 0 { for f in ["node-type", "start-row", "start-column", "end-row", "end-column"] {
                specs.push(Spec { func: f.to_string(), nodes: 0, src: esrc.to_string(), args: vec![GV::Syn(n)], mode: "core".to_string() });
            } }
        }
    }
    specs
}

fn quiet_panics() { std::panic::set_hook(Box::new(|_| {})); }

pub fn gen(rng: &mut Rng, n: usize) -> Vec<Case> {
    quiet_panics();
    // a few generated trees per run; syntax functions visit their nodes round-robin
    let n_trees = 3 + n / 150;
    let mut sources: Vec<(String, usize, usize)> = Vec::new();      // source, node count, next node
    sources.push(("x = f(1, y)\npass\n".to_string(), 0, 0));
    while sources.len() < n_trees.min(40) { sources.push((gen_source(rng), 0, 0)); }
    for s in sources.iter_mut() {
        let tree = parse_python(&s.0);
        s.1 = TreeInfo::new(&tree, &s.0).nodes.len();
    }
    let mut cases: Vec<Case> = core_specs().iter().map(make_case).collect();
    for i in 0..n {
        // every function equally often; a few unknown names
        let func = if i % 53 == 52 { rng.pick(UNKNOWN_FUNCS).to_string() } else { FUNCS[(i + i / FUNCS.len()) % FUNCS.len()].to_string() };
        let si = if SYNTAX_FUNCS.contains(&func.as_str()) { (i / FUNCS.len()) % sources.len() } else { rng.below(sources.len()) };
        let nodes = rng.below(4) as u32;
        let (src, n_syn) = (sources[si].0.clone(), sources[si].1);
        let vg = ValGen { n_syn, n_graph: nodes, allow_syn_in_set: false };
        let mut next = sources[si].2;
        let (args, mode) = if rng.chance(70) { (gen_well(rng, &func, &vg, &mut next), "well-typed".to_string()) }
            else { let (a, m) = gen_malformed(rng, &func, &vg, &mut next); (a, format!("malformed-{}", m)) };
        sources[si].2 = next;
        cases.push(make_case(&Spec { func, nodes, src, args, mode }));
    }
    cases
}

pub fn replay(j: &serde_json::Value) -> Case {
    quiet_panics();
    let spec = Spec {
        func: j["fn"].as_str().unwrap().to_string(),
        nodes: j["nodes"].as_u64().unwrap() as u32,
        src: j["src"].as_str().unwrap().to_string(),
        args: j["args"].as_array().unwrap().iter().map(GV::from_json).collect(),
        mode: j["mode"].as_str().unwrap_or("replay").to_string(),
    };
    make_case(&spec)
}
