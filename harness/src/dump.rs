//! Dumpers: the real parser's AST (public fields), recorded syntax trees and raw query matches as
//! Coq terms of Model/Ast.v, Model/Tree.v and Model/Exec.v.
use crate::common::*;
use streaming_iterator::StreamingIterator;
use tree_sitter::{CaptureQuantifier, Query, QueryCursor, Tree};
use tree_sitter_graph::ast;
use tree_sitter_graph::Location;

pub fn loc(l: &Location) -> String { format!("({}, {})", l.row, l.column) }
pub fn quant(q: CaptureQuantifier) -> &'static str {
    match q {
        CaptureQuantifier::Zero => "QZero",
        CaptureQuantifier::One => "QOne",
        CaptureQuantifier::ZeroOrOne => "QOpt",
        CaptureQuantifier::ZeroOrMore => "QStar",
        CaptureQuantifier::OneOrMore => "QPlus",
    }
}
fn idx(i: usize) -> String { if i == usize::MAX { "4294967295".into() } else { i.to_string() } }

/// Collects the regexes of scan arms (pattern strings) in order of appearance.
pub struct AstDump { pub regexes: Vec<String> }

impl AstDump {
    pub fn new() -> AstDump { AstDump { regexes: Vec::new() } }

    pub fn expr(&mut self, e: &ast::Expression) -> String {
        use ast::Expression as E;
        match e {
            E::FalseLiteral => "EFalse".into(),
            E::NullLiteral => "ENull".into(),
            E::TrueLiteral => "ETrue".into(),
            E::IntegerConstant(c) => format!("(EInt {})", c.value),
            E::StringConstant(c) => format!("(EStr {})", coq_str(&c.value)),
            E::ListLiteral(l) => format!("(EList {})", coq_list(&l.elements.iter().map(|x| self.expr(x)).collect::<Vec<_>>())),
            E::SetLiteral(l) => format!("(ESet {})", coq_list(&l.elements.iter().map(|x| self.expr(x)).collect::<Vec<_>>())),
            E::ListComprehension(c) => format!("(EListComp {} {} {} {} {})", self.expr(&c.element), coq_str(c.variable.name.as_str()), loc(&c.variable.location), self.expr(&c.value), loc(&c.location)),
            E::SetComprehension(c) => format!("(ESetComp {} {} {} {} {})", self.expr(&c.element), coq_str(c.variable.name.as_str()), loc(&c.variable.location), self.expr(&c.value), loc(&c.location)),
            E::Capture(c) => format!("(ECapture {} {} {} {} {})", coq_str(c.name.as_str()), quant(c.quantifier), idx(c.file_capture_index), idx(c.stanza_capture_index), loc(&c.location)),
            E::Variable(ast::Variable::Unscoped(v)) => format!("(EUnscoped {} {})", coq_str(v.name.as_str()), loc(&v.location)),
            E::Variable(ast::Variable::Scoped(v)) => format!("(EScoped {} {} {})", self.expr(&v.scope), coq_str(v.name.as_str()), loc(&v.location)),
            E::Call(c) => format!("(ECall {} {})", coq_str(c.function.as_str()), coq_list(&c.parameters.iter().map(|x| self.expr(x)).collect::<Vec<_>>())),
            E::RegexCapture(c) => format!("(ERegexCap {})", c.match_index),
        }
    }
    pub fn variable(&mut self, v: &ast::Variable) -> String {
        match v {
            ast::Variable::Unscoped(v) => format!("(VarU {} {})", coq_str(v.name.as_str()), loc(&v.location)),
            ast::Variable::Scoped(v) => format!("(VarS {} {} {})", self.expr(&v.scope), coq_str(v.name.as_str()), loc(&v.location)),
        }
    }
    pub fn attrs(&mut self, a: &[ast::Attribute]) -> String {
        coq_list(&a.iter().map(|a| format!("(Attr {} {})", coq_str(a.name.as_str()), self.expr(&a.value))).collect::<Vec<_>>())
    }
    pub fn stmts(&mut self, s: &[ast::Statement]) -> String {
        coq_list(&s.iter().map(|s| self.stmt(s)).collect::<Vec<_>>())
    }
    pub fn cond(&mut self, c: &ast::Condition) -> String {
        match c {
            ast::Condition::Some { value, location } => format!("(CSome {} {})", self.expr(value), loc(location)),
            ast::Condition::None { value, location } => format!("(CNone {} {})", self.expr(value), loc(location)),
            ast::Condition::Bool { value, location } => format!("(CBool {} {})", self.expr(value), loc(location)),
        }
    }
    pub fn stmt(&mut self, s: &ast::Statement) -> String {
        use ast::Statement as S;
        match s {
            S::DeclareImmutable(d) => format!("(SLet {} {} {})", self.variable(&d.variable), self.expr(&d.value), loc(&d.location)),
            S::DeclareMutable(d) => format!("(SVar {} {} {})", self.variable(&d.variable), self.expr(&d.value), loc(&d.location)),
            S::Assign(d) => format!("(SSet {} {} {})", self.variable(&d.variable), self.expr(&d.value), loc(&d.location)),
            S::CreateGraphNode(d) => format!("(SNode {} {} {})", self.variable(&d.node), coq_str(&format!("{}", d.node)), loc(&d.location)),
            S::AddGraphNodeAttribute(d) => format!("(SAttrNode {} {} {})", self.expr(&d.node), self.attrs(&d.attributes), loc(&d.location)),
            S::CreateEdge(d) => format!("(SEdge {} {} {})", self.expr(&d.source), self.expr(&d.sink), loc(&d.location)),
            S::AddEdgeAttribute(d) => format!("(SAttrEdge {} {} {} {})", self.expr(&d.source), self.expr(&d.sink), self.attrs(&d.attributes), loc(&d.location)),
            S::Scan(d) => {
                let value = self.expr(&d.value);
                let arms: Vec<String> = d.arms.iter().map(|a| {
                    let k = self.regexes.len();
                    self.regexes.push(a.regex.as_str().to_string());
                    format!("({}, {}, {})", k, self.stmts(&a.statements), loc(&a.location))
                }).collect();
                format!("(SScan {} {} {})", value, coq_list(&arms), loc(&d.location))
            }
            S::Print(d) => format!("(SPrint {} {})", coq_list(&d.values.iter().map(|x| self.expr(x)).collect::<Vec<_>>()), loc(&d.location)),
            S::If(d) => {
                let arms: Vec<String> = d.arms.iter().map(|a| {
                    format!("({}, {}, {})", coq_list(&a.conditions.iter().map(|c| self.cond(c)).collect::<Vec<_>>()), self.stmts(&a.statements), loc(&a.location))
                }).collect();
                format!("(SIf {} {})", coq_list(&arms), loc(&d.location))
            }
            S::ForIn(d) => format!("(SFor {} {} {} {} {})", coq_str(d.variable.name.as_str()), loc(&d.variable.location), self.expr(&d.value), self.stmts(&d.statements), loc(&d.location)),
        }
    }
    pub fn file(&mut self, f: &ast::File) -> String {
        let globals: Vec<String> = f.globals.iter().map(|g| format!(
            "{{| gl_name := {}; gl_quant := {}; gl_default := {}; gl_loc := {} |}}",
            coq_str(g.name.as_str()), quant(g.quantifier), coq_opt(g.default.as_ref().map(|d| coq_str(d))), loc(&g.location))).collect();
        let mut inh: Vec<String> = f.inherited_variables.iter().map(|i| i.as_str().to_string()).collect();
        inh.sort();
        let mut shs: Vec<&ast::AttributeShorthand> = f.shorthands.iter().collect();
        shs.sort_by(|a, b| a.name.as_str().cmp(b.name.as_str()));
        let shorthands: Vec<String> = shs.iter().map(|s| format!(
            "{{| sh_name := {}; sh_var := {}; sh_vloc := {}; sh_attrs := {}; sh_loc := {} |}}",
            coq_str(s.name.as_str()), coq_str(s.variable.name.as_str()), loc(&s.variable.location), self.attrs(&s.attributes), loc(&s.location))).collect();
        let stanzas: Vec<String> = f.stanzas.iter().map(|s| format!(
            "{{| st_stmts := {}; st_full_stanza_idx := {}; st_full_file_idx := {}; st_start := {} |}}",
            self.stmts(&s.statements), idx(s.full_match_stanza_capture_index), idx(s.full_match_file_capture_index), loc(&s.range.start))).collect();
        format!("{{| f_globals := {}; f_inherited := {}; f_shorthands := {}; f_stanzas := {} |}}",
            coq_list(&globals), coq_list(&inh.iter().map(|i| coq_str(i)).collect::<Vec<_>>()), coq_list(&shorthands), coq_list(&stanzas))
    }
}

/// The recorded tree as a Coq `tree` term (Model/Tree.v).
pub fn tree_term(info: &TreeInfo) -> String {
    // byte offset -> char offset
    let mut char_of_byte = vec![0usize; info.src.len() + 1];
    let mut ci = 0;
    for (bi, ch) in info.src.char_indices() {
        for k in 0..ch.len_utf8() { char_of_byte[bi + k] = ci; }
        ci += 1;
    }
    char_of_byte[info.src.len()] = ci;
    let mut children: Vec<Vec<usize>> = vec![Vec::new(); info.nodes.len()];
    for (i, p) in info.parent.iter().enumerate() { if let Some(p) = p { children[*p].push(i); } }
    let nodes: Vec<String> = info.nodes.iter().enumerate().map(|(i, n)| {
        let sb = n.start_byte().min(info.src.len());
        let eb = n.end_byte().min(info.src.len());
        format!("{{| tn_kind := {}; tn_named := {}; tn_error := {}; tn_missing := {}; tn_parent := {}; tn_children := {}; tn_start := ({}, {}); tn_end := ({}, {}); tn_span := ({}, {}) |}}",
            coq_str(n.kind()), coq_bool(n.is_named()), coq_bool(n.is_error()), coq_bool(n.is_missing()),
            coq_opt(info.parent[i].map(|p| p.to_string())),
            coq_list(&children[i].iter().map(|c| c.to_string()).collect::<Vec<_>>()),
            n.start_position().row, n.start_position().column, n.end_position().row, n.end_position().column,
            char_of_byte[sb], char_of_byte[eb])
    }).collect();
    format!("{{| t_src := {}; t_nodes := {} |}}", coq_str(info.src), coq_list(&nodes))
}

/// Raw matches of one query on the tree, straight from tree-sitter (not through the repo's
/// visitors, which are code under test): (pattern index, [(capture index, [preorder ids])]).
pub fn raw_matches(query: &Query, tree: &Tree, info: &TreeInfo) -> Vec<(usize, Vec<(u32, Vec<usize>)>)> {
    let mut cursor = QueryCursor::new();
    let mut out = Vec::new();
    let mut it = cursor.matches(query, tree.root_node(), info.src.as_bytes());
    while let Some(m) = it.next() {
        let mut caps: Vec<(u32, Vec<usize>)> = Vec::new();
        for c in m.captures {
            let id = *info.ids.get(&c.node.id()).expect("captured node is in the tree");
            if let Some(e) = caps.iter_mut().find(|e| e.0 == c.index) { e.1.push(id); } else { caps.push((c.index, vec![id])); }
        }
        out.push((m.pattern_index, caps));
    }
    out
}
pub fn qmatch_term(caps: &[(u32, Vec<usize>)]) -> String {
    coq_list(&caps.iter().map(|(i, ns)| format!("({}, {})", i, coq_list(&ns.iter().map(|n| n.to_string()).collect::<Vec<_>>()))).collect::<Vec<_>>())
}

/// Canonical observation of a graph: per node (attributes sorted by name, edges with sorted attrs).
pub fn graph_obs<'t>(g: &tree_sitter_graph::graph::Graph<'t>, info: &TreeInfo<'t>) -> Vec<(Vec<(String, GV)>, Vec<(u32, Vec<(String, GV)>)>)> {
    let sorted = |a: &tree_sitter_graph::graph::Attributes| {
        let mut v: Vec<(String, GV)> = a.iter().map(|(k, v)| (k.to_string(), GV::from_value(v, g, info))).collect();
        v.sort_by(|a, b| a.0.cmp(&b.0));
        v
    };
    g.iter_nodes().map(|n| {
        let node = &g[n];
        (sorted(&node.attributes), node.iter_edges().map(|(s, e)| (s.index() as u32, sorted(&e.attributes))).collect())
    }).collect()
}
pub fn attrs_term(a: &[(String, GV)]) -> String {
    coq_list(&a.iter().map(|(k, v)| format!("({}, {})", coq_str(k), v.coq())).collect::<Vec<_>>())
}
pub fn graph_obs_term(obs: &[(Vec<(String, GV)>, Vec<(u32, Vec<(String, GV)>)>)]) -> String {
    coq_list(&obs.iter().map(|(a, es)| format!("({}, {})", attrs_term(a),
        coq_list(&es.iter().map(|(s, ea)| format!("({}, {})", s, attrs_term(ea))).collect::<Vec<_>>()))).collect::<Vec<_>>())
}

/// Variant name of an ExecutionError's root cause and the chain of contexts, from the public enum.
pub fn error_code(e: &tree_sitter_graph::ExecutionError) -> u32 {
    use tree_sitter_graph::ExecutionError as X;
    match e {
        X::Cancelled(_) => 1, X::CannotAssignImmutableVariable(_) => 2, X::CannotAssignScopedVariable(_) => 3,
        X::CannotDefineMutableScopedVariable(_) => 4, X::DuplicateAttribute(_) => 5, X::DuplicateEdge(_) => 6,
        X::DuplicateVariable(_) => 7, X::ExpectedGraphNode(_) => 8, X::ExpectedList(_) => 9, X::ExpectedBoolean(_) => 10,
        X::ExpectedInteger(_) => 11, X::ExpectedString(_) => 12, X::ExpectedSyntaxNode(_) => 13, X::InvalidParameters(_) => 14,
        X::InvalidVariableScope(_) => 15, X::MissingGlobalVariable(_) => 16, X::RecursivelyDefinedScopedVariable(_) => 17,
        X::RecursivelyDefinedVariable(_) => 18, X::UndefinedCapture(_) => 19, X::UndefinedFunction(_) => 20,
        X::UndefinedRegexCapture(_) => 21, X::UndefinedScopedVariable(_) => 22, X::EmptyRegexCapture(_) => 23,
        X::UndefinedEdge(_) => 24, X::UndefinedVariable(_) => 25, X::VariableScopesAlreadyForced(_) => 26,
        X::FunctionFailed(_, _) => 27, X::InContext(_, _) => 28,
    }
}
pub fn root_cause(e: &tree_sitter_graph::ExecutionError) -> &tree_sitter_graph::ExecutionError {
    match e { tree_sitter_graph::ExecutionError::InContext(_, inner) => root_cause(inner), _ => e }
}
