//! C10: `scan` — leftmost match, earlier arm first, always advances.
//! Two streams: "C10rx" (model matcher `rx_captures` vs `regex::Regex::captures`: validates the
//! modelled dependency) and "C10" (DSL programs with scans, real library in both modes, vs the
//! model's `scan_loop` instantiated with `rx_captures`).
//! Exports `RegexAst`, `parse_regex`, `RegexAst::coq()`, `RegexAst::pattern()` for other streams.
use crate::common::*;
use crate::rng::Rng;
use regex::Regex;
use serde_json::json;
use tree_sitter_graph::ast::File;
use tree_sitter_graph::functions::Functions;
use tree_sitter_graph::graph::Value;
use tree_sitter_graph::{ExecutionConfig, ExecutionError, Identifier, NoCancellation, Variables};

// ------------------------------------------------------------------------------------------------
// regex sub-language: AST (mirrors Model/Regex.v), rendering, parsing

#[derive(Clone, Debug, PartialEq)]
pub enum RegexAst {
    Eps,
    Chr(char),
    Any,
    Cls(bool, Vec<(char, char)>),
    Seq(Box<RegexAst>, Box<RegexAst>),
    Alt(Box<RegexAst>, Box<RegexAst>),
    Grp(u32, Box<RegexAst>),
    Opt(Box<RegexAst>),
    Star(Box<RegexAst>),
    Plus(Box<RegexAst>),
    Bol,
    Eol,
    Wb,
}
use RegexAst::*;

fn is_meta(c: char) -> bool { "\\.+*?()|[]{}^$#&-~".contains(c) }

impl RegexAst {
    /// The Coq term of type `regex` (Model/Regex.v).
    pub fn coq(&self) -> String {
        match self {
            Eps => "REps".into(),
            Chr(c) => format!("(RChr {})", *c as u32),
            Any => "RAny".into(),
            Cls(neg, items) => format!("(RCls {} {})", coq_bool(*neg),
                coq_list(&items.iter().map(|(a, b)| format!("({}, {})", *a as u32, *b as u32)).collect::<Vec<_>>())),
            Seq(a, b) => format!("(RSeq {} {})", a.coq(), b.coq()),
            Alt(a, b) => format!("(RAlt {} {})", a.coq(), b.coq()),
            Grp(n, r) => format!("(RGrp {} {})", n, r.coq()),
            Opt(r) => format!("(ROpt {})", r.coq()),
            Star(r) => format!("(RStar {})", r.coq()),
            Plus(r) => format!("(RPlus {})", r.coq()),
            Bol => "RBol".into(),
            Eol => "REol".into(),
            Wb => "RWb".into(),
        }
    }
    /// `minimum_len() == 0` (mirrors rx_can_empty).
    pub fn can_empty(&self) -> bool {
        match self {
            Eps | Opt(_) | Star(_) | Bol | Eol | Wb => true,
            Chr(_) | Any | Cls(_, _) => false,
            Seq(a, b) => a.can_empty() && b.can_empty(),
            Alt(a, b) => a.can_empty() || b.can_empty(),
            Grp(_, r) | Plus(r) => r.can_empty(),
        }
    }
    /// Mirrors rx_in_sublang: `*`/`+` only over bodies that cannot match "".
    pub fn in_sublang(&self) -> bool {
        match self {
            Seq(a, b) | Alt(a, b) => a.in_sublang() && b.in_sublang(),
            Grp(_, r) | Opt(r) => r.in_sublang(),
            Star(r) | Plus(r) => !r.can_empty() && r.in_sublang(),
            _ => true,
        }
    }
    pub fn ngroups(&self) -> u32 {
        match self {
            Seq(a, b) | Alt(a, b) => a.ngroups().max(b.ngroups()),
            Grp(n, r) => (*n).max(r.ngroups()),
            Opt(r) | Star(r) | Plus(r) => r.ngroups(),
            _ => 0,
        }
    }
    pub fn size(&self) -> usize {
        match self {
            Seq(a, b) | Alt(a, b) => 1 + a.size() + b.size(),
            Grp(_, r) | Opt(r) | Star(r) | Plus(r) => 1 + r.size(),
            _ => 1,
        }
    }
    fn star_depth(&self) -> usize {
        match self {
            Seq(a, b) | Alt(a, b) => a.star_depth().max(b.star_depth()),
            Grp(_, r) | Opt(r) => r.star_depth(),
            Star(r) | Plus(r) => 1 + r.star_depth(),
            _ => 0,
        }
    }
    fn has(&self, f: &dyn Fn(&RegexAst) -> bool) -> bool {
        if f(self) { return true; }
        match self {
            Seq(a, b) | Alt(a, b) => a.has(f) || b.has(f),
            Grp(_, r) | Opt(r) | Star(r) | Plus(r) => r.has(f),
            _ => false,
        }
    }
    /// The pattern string for the `regex` crate (group numbers are NOT rendered: they must be the
    /// pre-order numbering 1.. for the pattern to denote this AST; `parse_regex` produces that).
    pub fn pattern(&self) -> String {
        let mut s = String::new();
        self.render(0, &mut s);
        s
    }
    // level: 0 = alternation allowed, 1 = inside a concatenation, 2 = operand of a repetition
    fn render(&self, level: u8, out: &mut String) {
        let wrap = |out: &mut String, need: bool, f: &dyn Fn(&mut String)| {
            if need { out.push_str("(?:"); f(out); out.push(')'); } else { f(out); }
        };
        match self {
            Eps => out.push_str("(?:)"),
            Chr(c) => {
                match *c {
                    '\n' => out.push_str("\\n"),
                    '\t' => out.push_str("\\t"),
                    '\r' => out.push_str("\\r"),
                    c if is_meta(c) => { out.push('\\'); out.push(c); }
                    c => out.push(c),
                }
            }
            Any => out.push('.'),
            Cls(neg, items) => {
                out.push('[');
                if *neg { out.push('^'); }
                let esc = |out: &mut String, c: char| match c {
                    '\n' => out.push_str("\\n"),
                    '\t' => out.push_str("\\t"),
                    '\r' => out.push_str("\\r"),
                    c if "\\[]^-&~".contains(c) => { out.push('\\'); out.push(c); }
                    c => out.push(c),
                };
                for (a, b) in items {
                    esc(out, *a);
                    if a != b { out.push('-'); esc(out, *b); }
                }
                out.push(']');
            }
            Seq(a, b) => wrap(out, level >= 2, &|o| { a.render(1, o); b.render(1, o); }),
            Alt(a, b) => wrap(out, level >= 1, &|o| { a.render(0, o); o.push('|'); b.render(0, o); }),
            Grp(_, r) => { out.push('('); r.render(0, out); out.push(')'); }
            Opt(r) | Star(r) | Plus(r) => {
                let op = match self { Opt(_) => '?', Star(_) => '*', _ => '+' };
                // a repetition of a repetition must be bracketed (`a+?` would be the lazy `+`),
                // and so are assertions
                let inner_needs = matches!(**r, Opt(_) | Star(_) | Plus(_) | Bol | Eol | Wb);
                wrap(out, level >= 2, &|o| {
                    if inner_needs { o.push_str("(?:"); r.render(0, o); o.push(')'); } else { r.render(2, o); }
                    o.push(op);
                });
            }
            Bol => out.push('^'),
            Eol => out.push('$'),
            Wb => out.push_str("\\b"),
        }
    }
}

struct RxParser { cs: Vec<char>, i: usize, groups: u32 }
impl RxParser {
    fn peek(&self) -> Option<char> { self.cs.get(self.i).copied() }
    fn eat(&mut self, c: char) -> bool { if self.peek() == Some(c) { self.i += 1; true } else { false } }
    fn alt(&mut self) -> Option<RegexAst> {
        let mut items = vec![self.seq()?];
        while self.eat('|') { items.push(self.seq()?); }
        // right-nested: a|b|c = Alt(a, Alt(b, c))
        let mut r = items.pop().unwrap();
        while let Some(x) = items.pop() { r = Alt(Box::new(x), Box::new(r)); }
        Some(r)
    }
    fn seq(&mut self) -> Option<RegexAst> {
        let mut items = Vec::new();
        while let Some(c) = self.peek() {
            if c == '|' || c == ')' { break; }
            items.push(self.rep()?);
        }
        if items.is_empty() { return Some(Eps); }
        let mut r = items.pop().unwrap();
        while let Some(x) = items.pop() { r = Seq(Box::new(x), Box::new(r)); }
        Some(r)
    }
    fn rep(&mut self) -> Option<RegexAst> {
        let mut r = self.atom()?;
        let mut quantified = false;
        loop {
            let op = match self.peek() { Some(c @ ('?' | '*' | '+')) => c, Some('{') => return None, _ => break };
            // a second operator directly after a first one is a lazy quantifier (`+?`) or a
            // repetition of a repetition: neither is in the sub-language in this spelling
            if quantified { return None; }
            self.i += 1;
            quantified = true;
            r = match op { '?' => Opt(Box::new(r)), '*' => Star(Box::new(r)), _ => Plus(Box::new(r)) };
        }
        Some(r)
    }
    fn escape(&mut self, in_class: bool) -> Option<char> {
        // after a backslash
        let c = self.peek()?;
        self.i += 1;
        match c {
            'n' => Some('\n'),
            't' => Some('\t'),
            'r' => Some('\r'),
            'b' if in_class => None,
            c if c.is_ascii() && !c.is_ascii_alphanumeric() && c != '<' && c != '>' && !c.is_ascii_control() && c != ' ' => Some(c),
            _ => None,
        }
    }
    fn atom(&mut self) -> Option<RegexAst> {
        let c = self.peek()?;
        self.i += 1;
        match c {
            '(' => {
                if self.eat('?') {
                    if self.eat(':') {
                        let r = self.alt()?;
                        if !self.eat(')') { return None; }
                        // `(?:)` is the empty regex; otherwise grouping leaves no AST node
                        return Some(r);
                    }
                    // named groups `(?P<name>` / `(?<name>` count as capture groups
                    self.eat('P');
                    if !self.eat('<') { return None; }
                    let mut any = false;
                    loop {
                        match self.peek()? {
                            '>' => { self.i += 1; break; }
                            c if c.is_ascii_alphanumeric() || c == '_' => { self.i += 1; any = true; }
                            _ => return None,
                        }
                    }
                    if !any { return None; }
                }
                self.groups += 1;
                let n = self.groups;
                let r = self.alt()?;
                if !self.eat(')') { return None; }
                Some(Grp(n, Box::new(r)))
            }
            '[' => {
                let neg = self.eat('^');
                let mut items: Vec<(char, char)> = Vec::new();
                let item = |p: &mut RxParser| -> Option<char> {
                    let c = p.peek()?;
                    p.i += 1;
                    match c {
                        '\\' => p.escape(true),
                        '[' | ']' | '&' | '~' | '^' => None,     // nested classes, set operations, odd spellings
                        c => Some(c),
                    }
                };
                loop {
                    match self.peek()? {
                        ']' => { self.i += 1; break; }
                        '-' => {
                            // a literal `-` only as the first or last item
                            self.i += 1;
                            if items.is_empty() || self.peek() == Some(']') { items.push(('-', '-')); } else { return None; }
                        }
                        _ => {
                            let lo = item(self)?;
                            if self.peek() == Some('-') && self.cs.get(self.i + 1).copied() != Some(']') {
                                self.i += 1;
                                if self.peek() == Some('-') { return None; }
                                let hi = item(self)?;
                                if hi < lo { return None; }
                                items.push((lo, hi));
                            } else {
                                items.push((lo, lo));
                            }
                        }
                    }
                }
                if items.is_empty() { return None; }
                Some(Cls(neg, items))
            }
            '.' => Some(Any),
            '^' => Some(Bol),
            '$' => Some(Eol),
            '\\' => {
                if self.eat('b') { return Some(Wb); }
                self.escape(false).map(Chr)
            }
            ')' | '|' | '?' | '*' | '+' | '{' | '}' | ']' => None,
            c => Some(Chr(c)),
        }
    }
}

/// Translate a pattern string of the `regex` crate into the model's AST; `None` when the pattern
/// uses anything outside the validated sub-language (lazy/counted repetition, flags, Perl/Unicode
/// classes, `\A \z \B`, class set operations, hex/unicode escapes, `*`/`+` over a body that can
/// match the empty string).
pub fn parse_regex(pattern: &str) -> Option<RegexAst> {
    let mut p = RxParser { cs: pattern.chars().collect(), i: 0, groups: 0 };
    let r = p.alt()?;
    if p.i != p.cs.len() { return None; }
    if !r.in_sublang() { return None; }
    Some(r)
}

/// Characters for which the model's `is_word` table is exact (`\b` is claimed only on these).
pub fn char_in_model_table(c: char) -> bool {
    let u = c as u32;
    u <= 0x2C1 || (0x4E00..=0x9FFF).contains(&u)
}

// ------------------------------------------------------------------------------------------------
// generators

const LITS: &[char] = &['a', 'a', 'a', 'b', 'b', 'c', 'é', '日', '/', '.', ' ', '-', '\n', '1', '_'];
const SUBJ: &[char] = &['a', 'a', 'a', 'b', 'b', 'b', 'c', 'é', '日', '/', '.', ' ', '-', '\n', '1', '_'];
/// probes of the `\w` table of the model (word / non-word neighbours of the block borders)
const SUBJ_EXT: &[char] = &['ª', 'µ', 'º', '×', '÷', 'À', 'ÿ', 'ß', '·', '²', '¼', 'ǅ', 'ˁ', '˂', '一', '鿿', '\u{80}', '\u{a0}', 'a', ' '];

fn gen_class(rng: &mut Rng) -> RegexAst {
    let neg = rng.chance(40);
    let n = rng.range(1, 3);
    let mut items = Vec::new();
    for _ in 0..n {
        match rng.below(6) {
            0 => items.push(('a', 'c')),
            1 => items.push(('a', 'b')),
            2 => items.push(('0', '9')),
            3 => items.push(('à', 'ÿ')),
            4 => items.push(('一', '鿿')),
            _ => { let c = *rng.pick(LITS); items.push((c, c)); }
        }
    }
    Cls(neg, items)
}

fn gen_rx(rng: &mut Rng, depth: usize, groups: &mut u32, stars: usize) -> RegexAst {
    let k = if depth == 0 { rng.below(40) } else { rng.below(100) };
    match k {
        0..=19 => Chr(*rng.pick(LITS)),
        20..=24 => Any,
        25..=33 => gen_class(rng),
        34..=35 => Bol,
        36..=37 => Eol,
        38..=39 => Wb,
        40..=55 => { let a = gen_rx(rng, depth - 1, groups, stars); let b = gen_rx(rng, depth - 1, groups, stars); Seq(Box::new(a), Box::new(b)) }
        56..=64 => { let a = gen_rx(rng, depth - 1, groups, stars); let b = gen_rx(rng, depth - 1, groups, stars); Alt(Box::new(a), Box::new(b)) }
        65..=78 => { *groups += 1; let n = *groups; let r = gen_rx(rng, depth - 1, groups, stars); Grp(n, Box::new(r)) }
        79..=85 => Opt(Box::new(gen_rx(rng, depth - 1, groups, stars))),
        86..=98 => {
            if stars >= 2 { return Chr(*rng.pick(LITS)); }
            let g0 = *groups;
            let mut body = gen_rx(rng, depth - 1, groups, stars + 1);
            if body.can_empty() {
                // outside the sub-language: make the body consume something
                *groups = g0;
                body = if rng.chance(50) { gen_class(rng) } else { Chr(*rng.pick(LITS)) };
            }
            if rng.chance(50) { Star(Box::new(body)) } else { Plus(Box::new(body)) }
        }
        _ => Eps,
    }
}

/// hand-written shapes that matter for scan (paths, optional groups, ties, anchors, boundaries)
const POOL: &[&str] = &[
    "([^/]+)/", "([^/]+)\\.py$", "(a)?b", "a|ab", "(a|ab)(c|bcd)?", "(é+)", "日(b)?", "[a-c]+$", "^a", "\\b", "\\ba", "a\\b",
    "(a+)(b+)?", "(?:(a)|b)+", "(a)|(b)", "[^a]", ".", "a+", "b", "ab", "(b)(é)?", "\\n", "[ab]+/", "([a-c])([^a-c])?", "(?:a|(b))+c?",
    "^\\b", "(.)\\b", "a$", "(a*)b", "(?:a|é|日)+", "(_|1)+", "[^/.]+", "(\\.|/)+", "-", " +", "(a)(b)?(c)?", "a*", "(b)?", "$", "^", "a?b?", "(?:)",
    "(a|b)*c", "((a)|(b))+",
];

/// pass the static check (no match on "") but match empty inside a longer string
const EMPTY_POOL: &[&str] = &["\\b", "^\\b", "\\b|a", "a?\\b", "(b)?\\b", "(?:\\b|/)", "\\b(é)?"];

fn shift_groups(r: &RegexAst, d: u32) -> RegexAst {
    let b = |x: &RegexAst| Box::new(shift_groups(x, d));
    match r {
        Seq(x, y) => Seq(b(x), b(y)),
        Alt(x, y) => Alt(b(x), b(y)),
        Grp(n, x) => Grp(n + d, b(x)),
        Opt(x) => Opt(b(x)),
        Star(x) => Star(b(x)),
        Plus(x) => Plus(b(x)),
        other => other.clone(),
    }
}

fn gen_arm_rx(rng: &mut Rng) -> RegexAst {
    if rng.chance(55) {
        parse_regex(*rng.pick(POOL)).expect("pool pattern in sub-language")
    } else {
        let mut groups = 0;
        let d = rng.range(1, 3);
        gen_rx(rng, d, &mut groups, 0)
    }
}

fn gen_subject(rng: &mut Rng, max: usize, ext: bool) -> String {
    if !ext && rng.chance(35) {
        // path-like: short words separated by punctuation
        const WORDS: &[&str] = &["a", "ab", "b", "ba", "abc", "é", "aé", "日", "日b", "c", "1", "a_1", "py"];
        const SEPS: &[&str] = &["/", "/", ".", " ", "-", "\n", "", "//"];
        let n = rng.range(1, 4);
        let mut s = String::new();
        for i in 0..n { if i > 0 || rng.chance(20) { s.push_str(*rng.pick(SEPS)); } s.push_str(*rng.pick(WORDS)); }
        if rng.chance(30) { s.push_str(*rng.pick(SEPS)); }
        return s;
    }
    let n = match rng.below(12) { 0 => 0, 1 => 1, _ => rng.range(2, max) };
    (0..n).map(|_| if ext && rng.chance(50) { *rng.pick(SUBJ_EXT) } else { *rng.pick(SUBJ) }).collect()
}

// ------------------------------------------------------------------------------------------------
// stream C10rx

fn byte_to_cp(s: &str, b: usize) -> usize { s[..b].chars().count() }

pub fn impl_captures(re: &Regex, s: &str) -> Option<Vec<Option<(usize, usize)>>> {
    re.captures(s).map(|c| c.iter().map(|m| m.map(|m| (byte_to_cp(s, m.start()), byte_to_cp(s, m.end())))).collect())
}
fn coq_caps(c: &Option<Vec<Option<(usize, usize)>>>) -> String {
    coq_opt(c.as_ref().map(|l| coq_list(&l.iter().map(|m| coq_opt(m.map(|(a, b)| format!("({}, {})", a, b)))).collect::<Vec<_>>())))
}

pub fn make_rx_case(ast: &RegexAst, subject: &str, via_parser: bool) -> Case {
    let pattern = ast.pattern();
    let re = Regex::new(&pattern).unwrap_or_else(|e| panic!("generated pattern {:?} rejected by the regex crate: {}", pattern, e));
    let obs = impl_captures(&re, subject);
    // half of the cases feed the model with `parse_regex(pattern)` so that the exported parser is
    // validated against the crate as well
    let model_ast = if via_parser { parse_regex(&pattern) } else { Some(ast.clone()) };
    let mut tags = vec![(if obs.is_some() { "rx:match" } else { "rx:nomatch" }).to_string()];
    if ast.has(&|r| matches!(r, Wb)) { tags.push("rx:\\b".into()); }
    if ast.has(&|r| matches!(r, Star(_) | Plus(_))) { tags.push("rx:star/plus".into()); }
    if ast.has(&|r| matches!(r, Alt(_, _))) { tags.push("rx:alt".into()); }
    if !subject.is_ascii() || !pattern.is_ascii() { tags.push("rx:non-ascii".into()); }
    let unmatched = obs.as_ref().map_or(false, |l| l.iter().any(|m| m.is_none()));
    if unmatched { tags.push("rx:unmatched-group".into()); }
    if obs.as_ref().map_or(false, |l| l[0].map_or(false, |(a, b)| a == b)) { tags.push("rx:empty-match".into()); }
    if via_parser { tags.push("rx:via-parse_regex".into()); }
    tags.push(format!("rx:groups{}", ast.ngroups().min(4)));
    let nontrivial = obs.as_ref().map_or(false, |l| l.len() >= 2 && l[0].map_or(false, |(a, b)| b > a));
    let replay = json!({"prop": "C10rx", "ast": ast_json(ast), "pattern": pattern, "subject": subject, "via_parser": via_parser,
        "impl": format!("{:?}", obs)});
    let (verdict, detail) = match &model_ast {
        Some(m) => (format!("c10rx_verdict {} {} {}", m.coq(), coq_str(subject), coq_caps(&obs)),
                    format!("rx_captures {} {}", m.coq(), coq_str(subject))),
        None => ("9".to_string(), "9".to_string()),      // parse_regex refused a pattern of the sub-language
    };
    Case { key: fnv(&format!("{}\u{0}{}", pattern, subject)), verdict, detail, replay, nontrivial, tags }
}

pub fn gen_rx_stream(rng: &mut Rng, n: usize) -> Vec<Case> {
    let mut cases = Vec::new();
    for i in 0..n {
        let ast = if rng.chance(25) { parse_regex(*rng.pick(POOL)).unwrap() } else {
            let mut groups = 0;
            let d = rng.range(2, 5);
            let r = gen_rx(rng, d, &mut groups, 0);
            // more capture groups: sometimes wrap the whole regex or bracket it with grouped literals
            match rng.below(10) {
                0..=1 => Grp(1, Box::new(shift_groups(&r, 1))),
                2 => Seq(Box::new(Opt(Box::new(Grp(1, Box::new(Chr(*rng.pick(LITS))))))), Box::new(shift_groups(&r, 1))),
                _ => r,
            }
        };
        let ext = rng.chance(15);
        let subject = gen_subject(rng, 10, ext);
        cases.push(make_rx_case(&ast, &subject, i % 2 == 1));
    }
    cases
}

fn ast_json(a: &RegexAst) -> serde_json::Value {
    match a {
        Eps => json!(["eps"]),
        Chr(c) => json!(["chr", c.to_string()]),
        Any => json!(["any"]),
        Cls(neg, items) => json!(["cls", neg, items.iter().map(|(a, b)| json!([a.to_string(), b.to_string()])).collect::<Vec<_>>()]),
        Seq(a, b) => json!(["seq", ast_json(a), ast_json(b)]),
        Alt(a, b) => json!(["alt", ast_json(a), ast_json(b)]),
        Grp(n, r) => json!(["grp", n, ast_json(r)]),
        Opt(r) => json!(["opt", ast_json(r)]),
        Star(r) => json!(["star", ast_json(r)]),
        Plus(r) => json!(["plus", ast_json(r)]),
        Bol => json!(["bol"]),
        Eol => json!(["eol"]),
        Wb => json!(["wb"]),
    }
}
fn ast_from_json(j: &serde_json::Value) -> RegexAst {
    let a = j.as_array().unwrap();
    let ch = |v: &serde_json::Value| v.as_str().unwrap().chars().next().unwrap();
    let sub = |i: usize| Box::new(ast_from_json(&a[i]));
    match a[0].as_str().unwrap() {
        "eps" => Eps,
        "chr" => Chr(ch(&a[1])),
        "any" => Any,
        "cls" => Cls(a[1].as_bool().unwrap(), a[2].as_array().unwrap().iter().map(|p| (ch(&p[0]), ch(&p[1]))).collect()),
        "seq" => Seq(sub(1), sub(2)),
        "alt" => Alt(sub(1), sub(2)),
        "grp" => Grp(a[1].as_u64().unwrap() as u32, sub(2)),
        "opt" => Opt(sub(1)),
        "star" => Star(sub(1)),
        "plus" => Plus(sub(1)),
        "bol" => Bol,
        "eol" => Eol,
        "wb" => Wb,
        x => panic!("bad regex json {}", x),
    }
}

pub fn replay_rx(j: &serde_json::Value) -> Case {
    make_rx_case(&ast_from_json(&j["ast"]), j["subject"].as_str().unwrap(), j["via_parser"].as_bool().unwrap_or(false))
}

// ------------------------------------------------------------------------------------------------
// stream C10: DSL programs

#[derive(Clone, Debug)]
pub enum Subj { Lit(String), Cap(u32) }
#[derive(Clone, Debug)]
pub enum Stmt {
    Node { tag: u32, ks: Vec<u32> },
    Scan { subj: Subj, arms: Vec<(RegexAst, Vec<Stmt>)> },
}

pub fn dsl_escape(s: &str) -> String {
    let mut out = String::new();
    for c in s.chars() {
        match c {
            '\\' => out.push_str("\\\\"),
            '"' => out.push_str("\\\""),
            '\n' => out.push_str("\\n"),
            '\t' => out.push_str("\\t"),
            '\r' => out.push_str("\\r"),
            '\0' => out.push_str("\\0"),
            c => out.push(c),
        }
    }
    out
}

fn render_stmts(l: &[Stmt], indent: usize, var: &mut usize, out: &mut String) {
    let pad = " ".repeat(indent);
    for s in l {
        match s {
            Stmt::Node { tag, ks } => {
                *var += 1;
                out.push_str(&format!("{}node n{}\n{}attr (n{}) arm = {}", pad, var, pad, var, tag));
                for k in ks { out.push_str(&format!(", c{} = ${}", k, k)); }
                out.push('\n');
            }
            Stmt::Scan { subj, arms } => {
                let sj = match subj { Subj::Lit(s) => format!("\"{}\"", dsl_escape(s)), Subj::Cap(k) => format!("${}", k) };
                out.push_str(&format!("{}scan {} {{\n", pad, sj));
                for (re, body) in arms {
                    out.push_str(&format!("{}  \"{}\" {{\n", pad, dsl_escape(&re.pattern())));
                    render_stmts(body, indent + 4, var, out);
                    out.push_str(&format!("{}  }}\n", pad));
                }
                out.push_str(&format!("{}}}\n", pad));
            }
        }
    }
}
pub fn render_dsl(prog: &[Stmt]) -> String {
    let mut out = String::from("(module)\n{\n");
    let mut var = 0;
    render_stmts(prog, 2, &mut var, &mut out);
    out.push_str("}\n");
    out
}

fn coq_stmts(l: &[Stmt]) -> String {
    coq_list(&l.iter().map(|s| match s {
        Stmt::Node { tag, ks } => format!("(SNode {} {})", tag, coq_list(&ks.iter().map(|k| k.to_string()).collect::<Vec<_>>())),
        Stmt::Scan { subj, arms } => format!("(SScan {} {})",
            match subj { Subj::Lit(s) => format!("(SubjLit {})", coq_str(s)), Subj::Cap(k) => format!("(SubjCap {})", k) },
            coq_list(&arms.iter().map(|(re, body)| format!("({}, {})", re.coq(), coq_stmts(body))).collect::<Vec<_>>())),
    }).collect::<Vec<_>>())
}
fn stmts_json(l: &[Stmt]) -> serde_json::Value {
    json!(l.iter().map(|s| match s {
        Stmt::Node { tag, ks } => json!({"node": tag, "ks": ks}),
        Stmt::Scan { subj, arms } => json!({
            "scan": match subj { Subj::Lit(s) => json!({"lit": s}), Subj::Cap(k) => json!({"cap": k}) },
            "arms": arms.iter().map(|(re, body)| json!({"re": ast_json(re), "pattern": re.pattern(), "body": stmts_json(body)})).collect::<Vec<_>>()}),
    }).collect::<Vec<_>>())
}
fn stmts_from_json(j: &serde_json::Value) -> Vec<Stmt> {
    j.as_array().unwrap().iter().map(|s| {
        if let Some(tag) = s.get("node") {
            Stmt::Node { tag: tag.as_u64().unwrap() as u32, ks: s["ks"].as_array().unwrap().iter().map(|k| k.as_u64().unwrap() as u32).collect() }
        } else {
            let subj = if let Some(l) = s["scan"].get("lit") { Subj::Lit(l.as_str().unwrap().to_string()) } else { Subj::Cap(s["scan"]["cap"].as_u64().unwrap() as u32) };
            Stmt::Scan { subj, arms: s["arms"].as_array().unwrap().iter().map(|a| (ast_from_json(&a["re"]), stmts_from_json(&a["body"]))).collect() }
        }
    }).collect()
}

/// Canonical observation of one run of the real library.
#[derive(Clone, Debug, PartialEq)]
pub enum Obs { Nodes(Vec<(u32, Vec<String>)>), Err(String), Nullable, Panicked, Other(String) }

pub fn error_code(variant: &str) -> u32 {
    const NAMES: &[&str] = &["Cancelled", "CannotAssignImmutableVariable", "CannotAssignScopedVariable", "CannotDefineMutableScopedVariable",
        "DuplicateAttribute", "DuplicateEdge", "DuplicateVariable", "ExpectedGraphNode", "ExpectedList", "ExpectedBoolean", "ExpectedInteger",
        "ExpectedString", "ExpectedSyntaxNode", "InvalidParameters", "InvalidVariableScope", "MissingGlobalVariable",
        "RecursivelyDefinedScopedVariable", "RecursivelyDefinedVariable", "UndefinedCapture", "UndefinedFunction", "UndefinedRegexCapture",
        "UndefinedScopedVariable", "EmptyRegexCapture", "UndefinedEdge", "UndefinedVariable", "VariableScopesAlreadyForced", "FunctionFailed"];
    NAMES.iter().position(|n| *n == variant).map(|i| i as u32 + 1).unwrap_or(99)
}
impl Obs {
    pub fn coq(&self) -> String {
        match self {
            Obs::Nodes(l) => format!("(ONodes {})", coq_list(&l.iter().map(|(t, cs)|
                format!("({}, {})", t, coq_list(&cs.iter().map(|c| coq_str(c)).collect::<Vec<_>>()))).collect::<Vec<_>>())),
            Obs::Err(v) => format!("(OErr {})", error_code(v)),
            Obs::Nullable => "ONullable".into(),
            Obs::Panicked => "OPanicked".into(),
            Obs::Other(_) => "OOther".into(),
        }
    }
}

fn root_variant(e: &ExecutionError) -> String {
    match e {
        ExecutionError::InContext(_, inner) => root_variant(inner),
        e => {
            let d = format!("{:?}", e);
            d.split(|c: char| !(c.is_alphanumeric() || c == '_')).next().unwrap_or("").to_string()
        }
    }
}

pub const SRC: &str = "pass\n";

pub fn run_impl(dsl: &str, lazy: bool) -> Obs {
    let dsl = dsl.to_string();
    let r = std::panic::catch_unwind(move || {
        let tree = parse_python(SRC);
        let file = match File::from_str(tree_sitter_python::LANGUAGE.into(), &dsl) {
            Ok(f) => f,
            Err(e) => {
                let d = format!("{:?}", e);
                return if d.contains("NullableRegex") { Obs::Nullable } else { Obs::Other(d) };
            }
        };
        let functions = Functions::stdlib();
        let globals = Variables::new();
        let config = ExecutionConfig::new(&functions, &globals).lazy(lazy);
        match file.execute(&tree, SRC, &config, &crate::exec::WatchdogFlag::new()) {
            Ok(graph) => {
                let mut nodes = Vec::new();
                for n in graph.iter_nodes() {
                    let attrs = &graph[n].attributes;
                    let tag = match attrs.get(&Identifier::from("arm")) { Some(Value::Integer(i)) => *i, _ => u32::MAX };
                    let mut cs = Vec::new();
                    for k in 0..32 {
                        match attrs.get(&Identifier::from(format!("c{}", k).as_str())) {
                            Some(Value::String(s)) => cs.push(s.clone()),
                            Some(other) => cs.push(format!("<<non-string {:?}>>", other)),
                            None => {}
                        }
                    }
                    nodes.push((tag, cs));
                }
                Obs::Nodes(nodes)
            }
            Err(e) => Obs::Err(root_variant(&e)),
        }
    });
    r.unwrap_or(Obs::Panicked)
}

/// Reference simulation with the regex crate, used ONLY for tags / the non-triviality rule.
struct Stats { events: usize, tie: bool, empty_err: bool, unmatched: bool }
fn simulate(subject: &str, arms: &[(RegexAst, Vec<Stmt>)]) -> Stats {
    let res: Vec<Regex> = arms.iter().map(|(r, _)| Regex::new(&r.pattern()).unwrap()).collect();
    let mut st = Stats { events: 0, tie: false, empty_err: false, unmatched: false };
    let mut i = 0;
    while i < subject.len() {
        let mut ms = Vec::new();
        for (k, re) in res.iter().enumerate() {
            if let Some(c) = re.captures(&subject[i..]) {
                let m = c.get(0).unwrap();
                if m.range().is_empty() { st.empty_err = true; return st; }
                ms.push((m.start(), k, m.end(), c.iter().any(|g| g.is_none())));
            }
        }
        if ms.is_empty() { break; }
        ms.sort();
        if ms.len() >= 2 && ms[0].0 == ms[1].0 { st.tie = true; }
        if ms[0].3 { st.unmatched = true; }
        st.events += 1;
        i += ms[0].2;
    }
    st
}

fn gen_ks(rng: &mut Rng, ngroups: u32) -> Vec<u32> {
    let mut ks: Vec<u32> = (0..=ngroups).filter(|_| rng.chance(90)).collect();
    if rng.chance(4) { ks.push(ngroups + 1 + rng.below(3) as u32); }     // `$k` beyond the group count
    ks
}

fn gen_body(rng: &mut Rng, re: &RegexAst, tag: &mut u32, nest: usize) -> Vec<Stmt> {
    let ng = re.ngroups();
    *tag += 1;
    let mut body = vec![Stmt::Node { tag: *tag, ks: gen_ks(rng, ng) }];
    if nest > 0 && rng.chance(if nest == 2 { 45 } else { 20 }) {
        // an arm scanning one of its captures (sometimes one that does not exist)
        let k = if rng.chance(92) { rng.below(ng as usize + 1) as u32 } else { ng + 1 };
        let inner = gen_scan(rng, Subj::Cap(k), tag, nest - 1, 2);
        if rng.chance(50) { body.push(inner); } else { body.insert(0, inner); }
        if rng.chance(30) { *tag += 1; body.push(Stmt::Node { tag: *tag, ks: gen_ks(rng, ng) }); }
    }
    body
}

fn has_empty_match(re: &RegexAst, subject: &str) -> bool {
    Regex::new(&re.pattern()).unwrap().find_iter(subject).any(|m| m.range().is_empty())
}

fn gen_scan(rng: &mut Rng, subj: Subj, tag: &mut u32, nest: usize, max_arms: usize) -> Stmt {
    let n = rng.range(1, max_arms);
    let mut arms = Vec::new();
    // most scans should run: keep a share of statically nullable arms (load-time rejection) and of
    // arms that match empty somewhere in the subject (run-time guard), but not a majority
    let allow_nullable = rng.chance(8);
    let allow_empty = rng.chance(24);
    // arms of a nested scan see a short captured text: prefer shapes that are likely to hit it
    const GENERIC: &[&str] = &[".", "[^/]", "a", "b", "[a-c]+", "(.)(.)?", "é|日", "[^a]", "(a)|(b)", "[^/.]+", "(a+)(b+)?", "(.)\\b"];
    let nested = matches!(subj, Subj::Cap(_));
    for _ in 0..n {
        let mut re = if nested && rng.chance(65) { parse_regex(*rng.pick(GENERIC)).unwrap() } else { gen_arm_rx(rng) };
        for _ in 0..8 {
            let nullable = Regex::new(&re.pattern()).unwrap().is_match("");
            let empty = match &subj { Subj::Lit(s) => has_empty_match(&re, s), Subj::Cap(_) => re.has(&|r| matches!(r, Wb | Eol | Bol)) && re.can_empty() };
            if (nullable && !allow_nullable) || (empty && !nullable && !allow_empty) { re = gen_arm_rx(rng); } else { break; }
        }
        arms.push(re);
    }
    if rng.chance(5) {
        let k = rng.below(arms.len());
        arms[k] = parse_regex(*rng.pick(EMPTY_POOL)).expect("empty pool pattern in sub-language");
    }
    let arms = arms.into_iter().map(|re| { let body = gen_body(rng, &re, tag, nest); (re, body) }).collect();
    Stmt::Scan { subj, arms }
}

pub fn make_case(prog: &[Stmt]) -> Case {
    let dsl = render_dsl(prog);
    let strict = run_impl(&dsl, false);
    let lazy = run_impl(&dsl, true);
    let prog_coq = coq_stmts(prog);
    let mut tags = Vec::new();
    let mut nontrivial = false;
    fn walk(l: &[Stmt], f: &mut dyn FnMut(&Stmt, usize), depth: usize) {
        for s in l { f(s, depth); if let Stmt::Scan { arms, .. } = s { for (_, b) in arms { walk(b, f, depth + 1); } } }
    }
    let mut nested = false;
    let mut nested_tags: Vec<u32> = Vec::new();
    let mut non_ascii = false;
    let mut beyond = false;
    walk(prog, &mut |s, depth| {
        if let Stmt::Node { tag, .. } = s { if depth >= 2 { nested_tags.push(*tag); } }
        if let Stmt::Scan { subj, arms } = s {
            if depth > 0 { nested = true; }
            if let Subj::Lit(t) = subj { if !t.is_ascii() { non_ascii = true; } }
            for (re, body) in arms {
                if !re.pattern().is_ascii() { non_ascii = true; }
                for b in body { if let Stmt::Node { ks, .. } = b { if ks.iter().any(|k| *k > re.ngroups()) { beyond = true; } } }
            }
        }
    }, 0);
    for s in prog {
        if let Stmt::Scan { subj: Subj::Lit(t), arms } = s {
            tags.push(format!("arms{}", arms.len()));
            let st = simulate(t, arms);
            if st.tie { tags.push("tie".into()); }
            if st.empty_err { tags.push("sim:empty-match".into()); }
            if st.unmatched { tags.push("unmatched-group".into()); }
            tags.push(format!("events{}", if st.events >= 4 { "4+".to_string() } else { st.events.to_string() }));
            if arms.len() >= 2 && st.events >= 2 { nontrivial = true; }
        }
    }
    if nested { tags.push("nested".into()); }
    if let Obs::Nodes(l) = &strict { if l.iter().any(|(t, _)| nested_tags.contains(t)) { tags.push("nested-arm-ran".into()); } }
    if non_ascii { tags.push("non-ascii".into()); }
    if beyond { tags.push("$k-beyond-groups".into()); }
    let outcome = |o: &Obs| match o {
        Obs::Nodes(_) => "ok".to_string(), Obs::Err(v) => format!("err:{}", v), Obs::Nullable => "load:NullableRegex".into(),
        Obs::Panicked => "panicked".into(), Obs::Other(_) => "load:other".into() };
    tags.push(format!("strict:{}", outcome(&strict)));
    tags.push(format!("lazy:{}", outcome(&lazy)));
    if strict != lazy { tags.push("modes-differ".into()); }
    let replay = json!({"prop": "C10", "prog": stmts_json(prog), "dsl": dsl, "source": SRC,
        "impl_strict": format!("{:?}", strict), "impl_lazy": format!("{:?}", lazy)});
    Case {
        verdict: format!("c10_verdict {} {} {}", prog_coq, strict.coq(), lazy.coq()),
        detail: format!("(c10_run false {p}, c10_run true {p})", p = prog_coq),
        key: fnv(&dsl),
        nontrivial, tags, replay,
    }
}

pub fn gen(rng: &mut Rng, n: usize) -> Vec<Case> {
    let mut cases = Vec::new();
    for _ in 0..n {
        let mut tag = 0;
        let subject = gen_subject(rng, 10, false);
        let nest = if rng.chance(45) { 2 } else { 0 };
        let mut prog = vec![gen_scan(rng, Subj::Lit(subject), &mut tag, nest, 4)];
        // focused: an arm that depends on where the remaining text STARTS (`\\b`, `^`) misses at first and matches only
        // after another arm has consumed the text in front of it
        if rng.chance(12) {
            let (x, y) = *rng.pick(&[("a", "b"), ("b", "a"), ("ab", "c"), ("é", "a"), ("a", "é")]);
            let ctx = *rng.pick(&["\\b", "^", "^\\b"]);
            let first = parse_regex(&format!("{}{}", ctx, y)).expect("context arm in sub-language");
            let second = parse_regex(x).expect("literal arm");
            let mut arms = vec![first, second];
            if rng.chance(40) { arms.push(parse_regex(*rng.pick(&["c", "[^a-z]", "(.)"])).unwrap()); }
            if rng.chance(50) { arms.swap(0, 1); }
            let subject = format!("{}{}{}", x, y, if rng.chance(50) { format!("{}{}", x, y) } else { String::new() });
            let arms = arms.into_iter().map(|re| { tag += 1; let ks = vec![0]; (re, vec![Stmt::Node { tag, ks }]) }).collect();
            prog = vec![Stmt::Scan { subj: Subj::Lit(subject), arms }];
        }
        if rng.chance(3) {
            // `$k` outside any scan arm: current_regex_captures is empty
            tag += 1;
            prog.push(Stmt::Node { tag, ks: vec![0] });
        }
        cases.push(make_case(&prog));
    }
    cases
}

/// A whole `(module) { scan .. }` stanza with arms recording `$k` (used by the execution-family generators).
pub fn gen_scan_stanza(rng: &mut Rng) -> Option<String> {
    for _ in 0..6 {
        let mut tag = 0;
        let subject = gen_subject(rng, 10, false);
        let nest = if rng.chance(30) { 2 } else { 0 };
        let prog = vec![gen_scan(rng, Subj::Lit(subject), &mut tag, nest, 3)];
        let dsl = render_dsl(&prog);
        // only statically accepted stanzas (no nullable regex), so that the file still loads
        if tree_sitter_graph::ast::File::from_str(tree_sitter_python::LANGUAGE.into(), &dsl).is_ok() { return Some(dsl); }
    }
    None
}

pub fn replay(j: &serde_json::Value) -> Case {
    make_case(&stmts_from_json(&j["prog"]))
}
