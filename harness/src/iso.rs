//! Graph isomorphism on canonical observations (graph-node references inside values are renamed too):
//! colour refinement, then a bounded search over orderings inside colour classes.
use crate::common::GV;

pub type ObsGraph = Vec<(Vec<(String, GV)>, Vec<(u32, Vec<(String, GV)>)>)>;

fn val_sig(v: &GV, col: &[u64]) -> String {
    match v {
        GV::Graph(n) => format!("G{}", col.get(*n as usize).copied().unwrap_or(u64::MAX)),
        GV::List(l) => format!("[{}]", l.iter().map(|x| val_sig(x, col)).collect::<Vec<_>>().join(",")),
        GV::Set(s) => { let mut xs: Vec<String> = s.iter().map(|x| val_sig(x, col)).collect(); xs.sort(); format!("{{{}}}", xs.join(",")) }
        other => format!("{:?}", other),
    }
}
fn hash(s: &str) -> u64 { crate::common::fnv(s) }

pub fn colours(g: &ObsGraph) -> Vec<u64> {
    let n = g.len();
    let mut col = vec![0u64; n];
    for _ in 0..(n.min(8) + 2) {
        let mut incoming: Vec<Vec<String>> = vec![vec![]; n];
        let mut sigs = vec![String::new(); n];
        for (i, (attrs, edges)) in g.iter().enumerate() {
            let mut a: Vec<String> = attrs.iter().map(|(k, v)| format!("{}={}", k, val_sig(v, &col))).collect();
            a.sort();
            let mut es: Vec<String> = edges.iter().map(|(s, ea)| {
                let mut e: Vec<String> = ea.iter().map(|(k, v)| format!("{}={}", k, val_sig(v, &col))).collect();
                e.sort();
                if (*s as usize) < n { incoming[*s as usize].push(format!("<-{}[{}]", col[i], e.join(";"))); }
                format!("->{}[{}]", col.get(*s as usize).copied().unwrap_or(u64::MAX), e.join(";"))
            }).collect();
            es.sort();
            sigs[i] = format!("{}|{}|{}", col[i], a.join(";"), es.join(";"));
        }
        let mut newc = vec![0u64; n];
        for i in 0..n { incoming[i].sort(); newc[i] = hash(&format!("{}|{}", sigs[i], incoming[i].join(";"))); }
        col = newc;
    }
    col
}

/// serialisation of g with node i renamed to rank[i]
fn canon(g: &ObsGraph, rank: &[usize]) -> String {
    let rk: Vec<u64> = rank.iter().map(|r| *r as u64).collect();
    let mut nodes: Vec<(usize, String)> = g.iter().enumerate().map(|(i, (attrs, edges))| {
        let mut a: Vec<String> = attrs.iter().map(|(k, v)| format!("{}={}", k, val_sig(v, &rk))).collect();
        a.sort();
        let mut es: Vec<String> = edges.iter().map(|(s, ea)| {
            let mut e: Vec<String> = ea.iter().map(|(k, v)| format!("{}={}", k, val_sig(v, &rk))).collect();
            e.sort();
            format!("->{}[{}]", rk.get(*s as usize).copied().unwrap_or(u64::MAX), e.join(";"))
        }).collect();
        es.sort();
        (rank[i], format!("{}|{}", a.join(";"), es.join(";")))
    }).collect();
    nodes.sort();
    nodes.into_iter().map(|(r, s)| format!("{}:{}", r, s)).collect::<Vec<_>>().join("\n")
}

#[derive(Debug, PartialEq, Clone, Copy)]
pub enum Iso { Yes, No, Inconclusive }

pub fn isomorphic(a: &ObsGraph, b: &ObsGraph) -> Iso {
    if a.len() != b.len() { return Iso::No; }
    let n = a.len();
    let (ca, cb) = (colours(a), colours(b));
    let mut sa = ca.clone(); sa.sort();
    let mut sb = cb.clone(); sb.sort();
    if sa != sb { return Iso::No; }
    // rank of a: sort by (colour, index)
    let mut order_a: Vec<usize> = (0..n).collect();
    order_a.sort_by_key(|i| (ca[*i], *i));
    let mut rank_a = vec![0usize; n];
    for (r, i) in order_a.iter().enumerate() { rank_a[*i] = r; }
    let target = canon(a, &rank_a);
    // b: classes in the same colour order; search orderings inside classes
    let mut order_b: Vec<usize> = (0..n).collect();
    order_b.sort_by_key(|i| (cb[*i], *i));
    let mut classes: Vec<Vec<usize>> = Vec::new();
    for i in order_b { if let Some(last) = classes.last_mut() { if cb[last[0]] == cb[i] { last.push(i); continue; } } classes.push(vec![i]); }
    let mut budget = 3000usize;
    fn search(k: usize, classes: &mut Vec<Vec<usize>>, b: &ObsGraph, target: &str, budget: &mut usize) -> Option<bool> {
        if k == classes.len() {
            if *budget == 0 { return None; }
            *budget -= 1;
            let mut rank = vec![0usize; b.len()];
            let mut r = 0;
            for c in classes.iter() { for i in c { rank[*i] = r; r += 1; } }
            return Some(canon(b, &rank) == target);
        }
        let m = classes[k].len();
        if m == 1 { return search(k + 1, classes, b, target, budget); }
        // Heap-free permutation enumeration by swapping
        fn perms(k: usize, pos: usize, classes: &mut Vec<Vec<usize>>, b: &ObsGraph, target: &str, budget: &mut usize) -> Option<bool> {
            let m = classes[k].len();
            if pos == m { return search(k + 1, classes, b, target, budget); }
            let mut inconclusive = false;
            for j in pos..m {
                classes[k].swap(pos, j);
                let r = perms(k, pos + 1, classes, b, target, budget);
                classes[k].swap(pos, j);
                match r { Some(true) => return Some(true), None => { inconclusive = true; break; } Some(false) => {} }
            }
            if inconclusive { None } else { Some(false) }
        }
        perms(k, 0, classes, b, target, budget)
    }
    match search(0, &mut classes, b, &target, &mut budget) {
        Some(true) => Iso::Yes,
        Some(false) => Iso::No,
        None => Iso::Inconclusive,
    }
}
