//! Typed, environment-tracking generator of DSL programs and Python sources.
use crate::rng::Rng;
use std::collections::BTreeMap;

#[derive(Clone, Copy, PartialEq, Debug)]
pub enum K { Node, Syn, Str, Int, Bool, ListSyn, ListInt, OptSyn, SetVal }

#[derive(Clone)]
pub struct Var { pub name: String, pub kind: K, pub mutable: bool, pub local: bool }

pub struct Tmpl { pub query: &'static str, pub caps: &'static [(&'static str, K, &'static str)] } // (capture, kind, syntax kind for the scoped table or "")

pub const TMPLS: &[Tmpl] = &[
    Tmpl { query: "(identifier) @id", caps: &[("id", K::Syn, "identifier")] },
    Tmpl { query: "(function_definition name: (identifier) @name body: (block (_)* @body)) @def", caps: &[("name", K::Syn, "identifier"), ("body", K::ListSyn, ""), ("def", K::Syn, "fdef")] },
    Tmpl { query: "(call function: (identifier) @fn arguments: (argument_list (_)? @arg0)) @call", caps: &[("fn", K::Syn, "identifier"), ("arg0", K::OptSyn, ""), ("call", K::Syn, "call")] },
    Tmpl { query: "(module (_)* @stmts) @m", caps: &[("stmts", K::ListSyn, ""), ("m", K::Syn, "module")] },
    Tmpl { query: "(assignment left: (identifier) @l right: (_)? @r) @asg", caps: &[("l", K::Syn, "identifier"), ("r", K::OptSyn, ""), ("asg", K::Syn, "asg")] },
    Tmpl { query: "(function_definition) @def", caps: &[("def", K::Syn, "fdef")] },
    Tmpl { query: "(call) @call", caps: &[("call", K::Syn, "call")] },
    Tmpl { query: "(class_definition name: (identifier) @name) @cls", caps: &[("name", K::Syn, "identifier"), ("cls", K::Syn, "cls")] },
    Tmpl { query: "[(integer) (string)] @lit", caps: &[("lit", K::Syn, "lit")] },
    Tmpl { query: "(block (_) @first . (_)? @second) @blk", caps: &[("first", K::Syn, ""), ("second", K::OptSyn, ""), ("blk", K::Syn, "blk")] },
    Tmpl { query: "((identifier) @id (#eq? @id \"x\"))", caps: &[("id", K::Syn, "identifier")] },
    Tmpl { query: "(return_statement (_)+ @vals) @ret", caps: &[("vals", K::ListSyn, ""), ("ret", K::Syn, "ret")] },
    // nested nodes of the same kind that start at the same position (a.b.c); queries that do not start with `(`
    Tmpl { query: "(attribute object: (attribute) @inner) @outer", caps: &[("inner", K::Syn, "attr"), ("outer", K::Syn, "attr")] },
    Tmpl { query: "(call function: (call) @icall) @ocall", caps: &[("icall", K::Syn, "call"), ("ocall", K::Syn, "call")] },
    // a GROUP as pattern root: the stanza's full match has several nodes when the optional / sibling node is there
    Tmpl { query: "((expression_statement)? @_lead . (function_definition name: (identifier) @gname))", caps: &[("gname", K::Syn, "identifier")] },
    Tmpl { query: "((_) @g1 . (pass_statement) @g2)", caps: &[("g1", K::Syn, ""), ("g2", K::Syn, "")] },
    Tmpl { query: "\"pass\" @kw", caps: &[("kw", K::Syn, "")] },
    Tmpl { query: "_ @any", caps: &[("any", K::Syn, "")] },
];

pub const SCAN_REGEXES: &[&str] = &["([a-z]+)", "([0-9])", "(_|-)", "s([0-9]?)", "(a|e|i|o|u)+", "\\\\(", "([a-z])([a-z])", "[^a-z]", "f(o)?o", "x$", "^d", "^[0-9]", "^[a-z]", "\\\\b[a-z]", "[0-9]$", "^(_|-)", " ", "(a)?(b)", "(?:([a-z]):)?([a-z])=([a-z]);", "(x)|(y)"];
pub const SCAN_SUBJECTS: &[&str] = &["a1", "a1b2", "x-1 y", "9lives", "ab_cd-ef", "f(x)", "s1 s2", "héllo_1", "fo foo", "b ab", "k=v;x:k=v;", "y x"];

#[derive(Clone)]
pub struct GenOpts {
    pub use_scoped: bool,
    pub allow_scan: bool,
    pub stdlib: bool,        // calls beyond (node)
    pub globals: bool,
    pub shorthands: bool,
    pub inherit: bool,
    pub max_depth: usize,
    pub max_stanzas: usize,
    pub render_nodes: bool,  // may pass graph nodes to format/join/print-like rendering
    pub node_globals: usize, // declare `global pn<i>` bound to pre-existing graph nodes (histories)
    pub scoped_mut: bool,    // allow `var`/`set` on scoped variables (strict only)
    pub syn_sets: bool,      // sets holding several syntax nodes (their element ORDER follows node addresses: not comparable across parses)
}
impl GenOpts {
    pub fn full() -> GenOpts { GenOpts { use_scoped: true, allow_scan: true, stdlib: true, globals: true, shorthands: true, inherit: true, max_depth: 3, max_stanzas: 5, render_nodes: false, node_globals: 0, scoped_mut: false, syn_sets: true } }
}

pub struct Gen<'a> {
    pub rng: &'a mut Rng,
    pub opts: GenOpts,
    pub vars: Vec<Vec<Var>>,
    pub caps: Vec<(String, K, String)>,
    pub scoped_defs: &'a mut BTreeMap<String, Vec<(String, K)>>, // syntax kind -> names defined by earlier stanzas
    pub new_scoped: Vec<(String, String, K)>,
    pub globals: Vec<(String, K)>,
    pub shorthand_names: Vec<String>,
    pub stanza: usize,
    pub counter: usize,
    pub in_scan: usize,
    pub edges: Vec<(String, String)>,   // edge statements emitted so far in this stanza (variable names)
}

impl<'a> Gen<'a> {
    fn fresh(&mut self, p: &str) -> String { self.counter += 1; format!("{}{}_{}", p, self.stanza, self.counter) }
    fn all_vars(&self) -> Vec<Var> { self.vars.iter().flatten().cloned().collect() }
    fn vars_of(&self, k: K, need_local: bool) -> Vec<Var> {
        let mut v: Vec<Var> = self.all_vars().into_iter().filter(|v| v.kind == k && (!need_local || v.local)).collect();
        for g in &self.globals { if g.1 == k { v.push(Var { name: g.0.clone(), kind: k, mutable: false, local: true }); } }
        v
    }
    fn caps_of(&self, k: K) -> Vec<String> { self.caps.iter().filter(|c| c.1 == k).map(|c| c.0.clone()).collect() }

    fn syn(&mut self, local: bool) -> Option<String> {
        let mut opts: Vec<String> = self.caps_of(K::Syn).into_iter().map(|c| format!("@{}", c)).collect();
        opts.extend(self.vars_of(K::Syn, local).into_iter().map(|v| v.name));
        if opts.is_empty() { None } else { Some(self.rng.pick(&opts).clone()) }
    }
    fn scoped_read(&mut self, k: K) -> Option<String> {
        if !self.opts.use_scoped { return None; }
        let mut opts = vec![];
        for c in self.caps.clone() {
            if c.1 == K::Syn && !c.2.is_empty() {
                if let Some(defs) = self.scoped_defs.get(&c.2) { for d in defs { if d.1 == k { opts.push(format!("@{}.{}", c.0, d.0)); } } }
            }
        }
        if opts.is_empty() { None } else { Some(self.rng.pick(&opts).clone()) }
    }
    pub fn expr(&mut self, k: K, depth: usize, local: bool) -> String {
        let vs = self.vars_of(k, local);
        if !vs.is_empty() && self.rng.chance(35) { return self.rng.pick(&vs).name.clone(); }
        if !local && self.rng.chance(30) { if let Some(e) = self.scoped_read(k) { return e; } }
        let d = depth + 1;
        let lib = self.opts.stdlib;
        match k {
            K::Node => {
                if !local { if let Some(e) = self.scoped_read(K::Node) { if self.rng.chance(60) { return e; } } }
                if !vs.is_empty() && self.rng.chance(80) { return self.rng.pick(&vs).name.clone(); }
                "(node)".to_string()
            }
            K::Syn => self.syn(local).unwrap_or_else(|| "@__none".into()),
            K::Str => match self.rng.below(if depth > 2 || !lib { 2 } else { 7 }) {
                // now and then a LONG literal in which character and byte offsets disagree from early on (anything that cuts
                // statement text at a fixed byte length lands inside a character for one of the two paddings)
                0 => if self.rng.chance(10) { format!("\"{}{}\"", "a".repeat(self.rng.below(2)), "é".repeat(36 + self.rng.below(4))) } else { format!("\"s{}\"", self.rng.below(4)) },
                1 => if self.in_scan > 0 { format!("${}", if self.rng.chance(25) { 2 + self.rng.below(2) } else { self.rng.below(2) }) } else { "\"lit\"".into() },
                2 => match self.syn(local) { Some(s) => format!("(source-text {})", s), None => "\"x\"".into() },
                3 => match self.syn(local) { Some(s) => format!("(node-type {})", s), None => "\"y\"".into() },
                4 => format!("(format \"{{}}-{{}}\" {} {})", self.expr(K::Int, d, local), self.expr(K::Str, d, local)),
                5 => format!("(replace {} \"[aeiou]\" \"_\")", self.expr(K::Str, d, local)),
                _ => format!("(join {} \",\")", self.expr(K::ListInt, d, local)),
            },
            K::Int => match self.rng.below(if depth > 2 || !lib { 1 } else { 6 }) {
                0 => format!("{}", self.rng.below(5)),
                1 => format!("(plus {} {})", self.expr(K::Int, d, local), self.expr(K::Int, d, local)),
                2 => format!("(length {})", self.expr(K::ListSyn, d, local)),
                3 => format!("(length {})", self.expr(K::ListInt, d, local)),
                4 => match self.syn(local) { Some(s) => format!("(named-child-count {})", s), None => "3".into() },
                _ => match self.syn(local) { Some(s) => format!("(start-row {})", s), None => "7".into() },
            },
            K::Bool => match self.rng.below(if depth > 2 || !lib { 2 } else { 7 }) {
                0 => "#true".into(), 1 => "#false".into(),
                2 => format!("(eq {} {})", self.expr(K::Int, d, local), self.expr(K::Int, d, local)),
                3 => format!("(not {})", self.expr(K::Bool, d, local)),
                4 => format!("(is-null {})", self.expr(K::OptSyn, d, local)),
                5 => format!("(and {} {})", self.expr(K::Bool, d, local), self.expr(K::Bool, d, local)),
                _ => format!("(is-empty {})", self.expr(K::ListSyn, d, local)),
            },
            K::ListSyn => {
                let cs = self.caps_of(K::ListSyn);
                if !cs.is_empty() && self.rng.chance(70) { format!("@{}", self.rng.pick(&cs)) }
                else { match self.syn(local) { Some(s) => format!("[{}]", s), None => "[]".into() } }
            }
            K::ListInt => match self.rng.below(if depth > 2 { 1 } else { 4 }) {
                0 => { let n = self.rng.below(4); format!("[{}]", (0..n).map(|_| self.expr(K::Int, d + 1, local)).collect::<Vec<_>>().join(", ")) }
                1 => { let v = self.fresh("c"); let l = self.expr(K::ListInt, d, true); self.vars.push(vec![Var { name: v.clone(), kind: K::Int, mutable: false, local: true }]); let e = self.expr(K::Int, d, local); self.vars.pop(); format!("[ {} for {} in {} ]", e, v, l) }
                2 => if lib { format!("(concat {} {})", self.expr(K::ListInt, d, local), self.expr(K::ListInt, d, local)) } else { "[1, 2]".into() },
                _ => { let v = self.fresh("c"); let l = self.expr(K::ListSyn, d, true); self.vars.push(vec![Var { name: v.clone(), kind: K::Syn, mutable: false, local: true }]); let e = self.expr(K::Int, d, local); self.vars.pop(); format!("[ {} for {} in {} ]", e, v, l) }
            },
            // set literals and set comprehensions: duplicates collapse, elements are ordered by value (mixed types rarely)
            K::SetVal => match self.rng.below(if depth > 2 { 2 } else if self.opts.syn_sets { 6 } else { 4 }) {
                4 => { let v = self.fresh("c"); let l = self.expr(K::ListSyn, d, true); format!("{{ {} for {} in {} }}", v, v, l) }
                5 => { let cs = self.caps_of(K::Syn); if cs.len() >= 2 { format!("{{ x_ for x_ in [{}] }}", cs.iter().map(|c| format!("@{}", c)).collect::<Vec<_>>().join(", ")) } else { "{}".to_string() } }
                0 => { let n = self.rng.below(4); format!("{{{}}}", (0..n).map(|_| self.expr(K::Int, d + 1, local)).collect::<Vec<_>>().join(", ")) }
                1 => if self.rng.chance(30) { "{1, \"a\", #true, #null, 1}".to_string() } else { format!("{{{}, {}}}", self.expr(K::Str, d + 1, local), self.expr(K::Str, d + 1, local)) },
                2 => { let v = self.fresh("c"); let l = self.expr(K::ListInt, d, true); self.vars.push(vec![Var { name: v.clone(), kind: K::Int, mutable: false, local: true }]); let ek = if self.rng.chance(50) { K::Int } else { K::Bool }; let e = self.expr(ek, d, local); self.vars.pop(); format!("{{ {} for {} in {} }}", e, v, l) }
                _ => { let v = self.fresh("c"); let l = self.expr(K::ListSyn, d, true); self.vars.push(vec![Var { name: v.clone(), kind: K::Syn, mutable: false, local: true }]); let e = self.expr(K::Str, d, local); self.vars.pop(); format!("{{ {} for {} in {} }}", e, v, l) }
            },
            K::OptSyn => { let cs = self.caps_of(K::OptSyn); if cs.is_empty() { "#null".into() } else { format!("@{}", self.rng.pick(&cs)) } }
        }
    }
    fn any_kind(&mut self) -> K { *self.rng.pick(&[K::Node, K::Syn, K::Str, K::Int, K::Bool, K::ListInt, K::ListSyn, K::Str, K::Int, K::SetVal]) }
    fn attr_value_kind(&mut self) -> K {
        if self.opts.render_nodes { self.any_kind() } else { self.any_kind() }
    }

    pub fn block(&mut self, depth: usize, n: usize, out: &mut String, ind: usize) {
        self.vars.push(vec![]);
        for _ in 0..n { self.stmt(depth, out, ind); }
        self.vars.pop();
    }
    pub fn stmt(&mut self, depth: usize, out: &mut String, ind: usize) {
        let pad = "  ".repeat(ind);
        let choice = self.rng.below(if depth >= self.opts.max_depth { 10 } else { 14 });
        match choice {
            0 | 1 => { let x = self.fresh("n"); out.push_str(&format!("{}node {}\n", pad, x)); self.vars.last_mut().unwrap().push(Var { name: x, kind: K::Node, mutable: false, local: true }); }
            2 => {
                if !self.opts.use_scoped { return self.stmt(depth, out, ind); }
                let cs: Vec<(String, K, String)> = self.caps.iter().filter(|c| c.1 == K::Syn && !c.2.is_empty()).cloned().collect();
                if cs.is_empty() || depth > 0 { return; }
                let c = self.rng.pick(&cs).clone(); let name = self.fresh("sv");
                if self.rng.chance(50) { out.push_str(&format!("{}node @{}.{}\n", pad, c.0, name)); self.new_scoped.push((c.2.clone(), name, K::Node)); }
                else { let k = *self.rng.pick(&[K::Int, K::Str, K::Node]); let e = self.expr(k, 0, false); out.push_str(&format!("{}let @{}.{} = {}\n", pad, c.0, name, e)); self.new_scoped.push((c.2.clone(), name, k)); }
            }
            3 => { let k = self.any_kind(); let local = self.rng.chance(60); let e = self.expr(k, 0, local); let x = self.fresh("l"); out.push_str(&format!("{}let {} = {}\n", pad, x, e)); self.vars.last_mut().unwrap().push(Var { name: x, kind: k, mutable: false, local }); }
            4 => { let k = *self.rng.pick(&[K::Int, K::Str, K::Node, K::Bool]); let e = self.expr(k, 0, false); let x = self.fresh("v"); out.push_str(&format!("{}var {} = {}\n", pad, x, e)); self.vars.last_mut().unwrap().push(Var { name: x, kind: k, mutable: true, local: false }); }
            5 => { let ms: Vec<Var> = self.all_vars().into_iter().filter(|v| v.mutable).collect(); if ms.is_empty() { return; } let v = self.rng.pick(&ms).clone(); let e = self.expr(v.kind, 0, false); out.push_str(&format!("{}set {} = {}\n", pad, v.name, e)); }
            6 | 7 => {
                let n = self.expr(K::Node, 0, false); let cnt = 1 + self.rng.below(2); let mut attrs = vec![];
                for _ in 0..cnt {
                    if self.opts.shorthands && !self.shorthand_names.is_empty() && self.rng.chance(25) {
                        let sh = self.rng.pick(&self.shorthand_names.clone()).clone();
                        let e = self.expr(K::Int, 0, false); attrs.push(format!("{} = {}", sh, e));
                    } else if self.rng.chance(10) {
                        let a = self.fresh("a"); attrs.push(a);       // `attr (n) a` == a = #true
                    } else {
                        let k = self.attr_value_kind(); let a = if self.rng.chance(15) { "dup".to_string() } else { self.fresh("a") };
                        let e = self.expr(k, 0, false); attrs.push(format!("{} = {}", a, e));
                    }
                }
                out.push_str(&format!("{}attr ({}) {}\n", pad, n, attrs.join(", ")));
            }
            8 | 9 => {
                let ns = self.vars_of(K::Node, false); if ns.is_empty() { return; }
                // an attribute on an edge created by an EARLIER statement (other edges of the same source may have been added since)
                let visible: Vec<(String, String)> = self.edges.iter().filter(|e| ns.iter().any(|v| v.name == e.0) && ns.iter().any(|v| v.name == e.1)).cloned().collect();
                if !visible.is_empty() && self.rng.chance(35) {
                    let (a, b) = self.rng.pick(&visible).clone(); let an = if self.rng.chance(20) { "edup".to_string() } else { self.fresh("e") }; let e = self.expr(K::Int, 0, false);
                    out.push_str(&format!("{}attr ({} -> {}) {} = {}\n", pad, a, b, an, e));
                    return;
                }
                let a = self.rng.pick(&ns).name.clone(); let b = self.rng.pick(&ns).name.clone();
                self.edges.push((a.clone(), b.clone()));
                out.push_str(&format!("{}edge {} -> {}\n", pad, a, b));
                if self.rng.chance(50) { let an = self.fresh("e"); let e = self.expr(K::Int, 0, false); out.push_str(&format!("{}attr ({} -> {}) {} = {}\n", pad, a, b, an, e)); }
            }
            10 => {
                let c1 = if self.rng.chance(50) { self.expr(K::Bool, 0, true) } else { let cs = self.caps_of(K::OptSyn); if cs.is_empty() { self.expr(K::Bool, 0, true) } else { format!("{} @{}", self.rng.pick(&["some", "none"]), self.rng.pick(&cs)) } };
                let c1 = if self.rng.chance(20) { format!("{}, {}", c1, self.expr(K::Bool, 0, true)) } else { c1 };
                out.push_str(&format!("{}if {} {{\n", pad, c1)); let n = 1 + self.rng.below(3); self.block(depth + 1, n, out, ind + 1);
                if self.rng.chance(40) { let c2 = self.expr(K::Bool, 0, true); out.push_str(&format!("{}}} elif {} {{\n", pad, c2)); let n = 1 + self.rng.below(2); self.block(depth + 1, n, out, ind + 1); }
                if self.rng.chance(50) { out.push_str(&format!("{}}} else {{\n", pad)); let n = 1 + self.rng.below(2); self.block(depth + 1, n, out, ind + 1); }
                out.push_str(&format!("{}}}\n", pad));
            }
            11 => {
                let (k, ek) = if self.rng.chance(50) { (K::ListSyn, K::Syn) } else { (K::ListInt, K::Int) };
                let l = self.expr(k, 0, true); let v = self.fresh("f");
                out.push_str(&format!("{}for {} in {} {{\n", pad, v, l));
                self.vars.push(vec![Var { name: v, kind: ek, mutable: false, local: true }]);
                let n = 1 + self.rng.below(3); self.block(depth + 1, n, out, ind + 1);
                self.vars.pop();
                out.push_str(&format!("{}}}\n", pad));
            }
            12 => {
                if !self.opts.allow_scan { return self.stmt(depth, out, ind); }
                let s = if self.rng.chance(45) { format!("\"{}\"", self.rng.pick(SCAN_SUBJECTS)) } else { self.expr(K::Str, 1, true) };
                out.push_str(&format!("{}scan {} {{\n", pad, s));
                let arms = 1 + self.rng.below(3);
                for _ in 0..arms {
                    let rx = *self.rng.pick(SCAN_REGEXES);
                    out.push_str(&format!("{}  \"{}\" {{\n", pad, rx)); self.in_scan += 1;
                    let n = 1 + self.rng.below(2); self.block(depth + 1, n, out, ind + 2); self.in_scan -= 1;
                    out.push_str(&format!("{}  }}\n", pad));
                }
                out.push_str(&format!("{}}}\n", pad));
            }
            _ => { let k = if self.opts.render_nodes { self.any_kind() } else { *self.rng.pick(&[K::Str, K::Int, K::Bool, K::Syn, K::ListInt]) }; let e = self.expr(k, 0, false); out.push_str(&format!("{}print \"p\", {}\n", pad, e)); }
        }
    }
}

pub struct Program {
    pub preamble: Vec<String>,             // globals, inherit, shorthands
    pub stanzas: Vec<String>,
    pub supplied: Vec<(String, crate::common::GV)>,
}
impl Program {
    pub fn text(&self) -> String { let mut v = self.preamble.clone(); v.extend(self.stanzas.iter().cloned()); v.join("\n") }
    pub fn text_perm(&self, perm: &[usize]) -> String { let mut v = self.preamble.clone(); v.extend(perm.iter().map(|i| self.stanzas[*i].clone())); v.join("\n") }
}

pub fn gen_program(rng: &mut Rng, opts: &GenOpts) -> Program {
    use crate::common::GV;
    let n = 1 + rng.below(opts.max_stanzas);
    let mut scoped: BTreeMap<String, Vec<(String, K)>> = BTreeMap::new();
    let mut preamble = vec![];
    let mut globals: Vec<(String, K)> = vec![];
    let mut supplied = vec![];
    if opts.globals && rng.chance(40) {
        let cnt = 1 + rng.below(2);
        for i in 0..cnt {
            match rng.below(3) {
                0 => { let name = format!("gs{}", i); preamble.push(format!("global {}", name)); supplied.push((name.clone(), GV::Str(format!("G{}", i)))); globals.push((name, K::Str)); }
                1 => { let name = format!("gd{}", i); preamble.push(format!("global {} = \"dflt{}\"", name, i)); if rng.chance(50) { supplied.push((name.clone(), GV::Str("given".into()))); } globals.push((name, K::Str)); }
                _ => { let name = format!("gl{}", i); preamble.push(format!("global {}*", name)); supplied.push((name.clone(), GV::List(vec![GV::Int(1), GV::Int(2 + i as u32)]))); globals.push((name, K::ListInt)); }
            }
        }
    }
    for i in 0..opts.node_globals {
        let name = format!("pn{}", i);
        preamble.push(format!("global {}", name));
        supplied.push((name.clone(), GV::Graph(i as u32)));
        globals.push((name, K::Node));
    }
    let mut shorthand_names = vec![];
    let mut sh_free = false;
    if opts.shorthands && rng.chance(35) {
        let name = "sh1".to_string();
        // body 3 uses a FREE variable: shorthand bodies see no locals of the place of use, so the run must
        // fail with an undefined variable even where a local `shv` is in scope (the loader does not look
        // into shorthand bodies: known finding K4a of C06)
        let body = match rng.below(4) {
            0 => "sh1_a = x".to_string(),
            1 => "sh1_a = x, sh1_b = (plus x 1)".to_string(),
            2 => "sh1_a = [ (plus y x) for y in [1, 2] ]".to_string(),
            _ => { sh_free = true; "sh1_a = x, sh1_f = shv".to_string() }
        };
        preamble.push(format!("attribute {} = x => {}", name, body));
        shorthand_names.push(name);
    }
    let mut stanzas = vec![];
    let mut inherit_names: Vec<String> = vec![];
    for si in 0..n {
        let t = &TMPLS[rng.below(TMPLS.len())];
        let caps: Vec<(String, K, String)> = t.caps.iter().map(|c| (c.0.to_string(), c.1, c.2.to_string())).collect();
        let mut body = String::new();
        let new_scoped;
        {
            let mut g = Gen { rng, opts: opts.clone(), vars: vec![], caps: caps.clone(), scoped_defs: &mut scoped, new_scoped: vec![], globals: globals.clone(), shorthand_names: shorthand_names.clone(), stanza: si, counter: 0, in_scan: 0, edges: vec![] };
            let cnt = 2 + g.rng.below(6);
            if sh_free && g.rng.chance(60) { body.push_str("  let shv = 5\n"); }
            g.block(0, cnt, &mut body, 1);
            // two captures of the same kind (nested nodes that may start at the same position): sets built from both
            let syn: Vec<&(String, K, String)> = caps.iter().filter(|c| c.1 == K::Syn && !c.2.is_empty()).collect();
            if opts.syn_sets && syn.len() >= 2 && syn[0].2 == syn[1].2 && g.rng.chance(70) {
                let x = g.fresh("n");
                body.push_str(&format!("  node {}\n  attr ({}) both = {{ x_ for x_ in [@{}, @{}] }}, lit = {{@{}, @{}}}, cnt = (length [ x_ for x_ in [@{}, @{}] ])\n", x, x, syn[0].0, syn[1].0, syn[0].0, syn[1].0, syn[0].0, syn[1].0));
            }
            for c in &caps { body.push_str(&format!("  print @{}\n", c.0)); }
            new_scoped = g.new_scoped;
        }
        for (sk, name, k) in new_scoped { if opts.inherit && rng.chance(15) { inherit_names.push(name.clone()); } scoped.entry(sk).or_default().push((name, k)); }
        stanzas.push(format!("{} {{\n{}}}\n", t.query, body));
    }
    // a stanza with an EMPTY body (a placeholder: nothing to execute, but its pattern is part of the merged query and its
    // matches are visited and polled like all others), before / between / after the others
    if rng.chance(18) {
        let st = *rng.pick(&["(identifier) {}\n", "(module) {\n}\n", "(pass_statement) @_p {\n  ; nothing yet\n}\n", "(function_definition name: (identifier) @_n) {}\n", "[(integer) (string)] { }\n"]);
        let pos = rng.below(stanzas.len() + 1);
        stanzas.insert(pos, st.to_string());
    }
    if opts.allow_scan && rng.chance(25) { if let Some(st) = crate::c10::gen_scan_stanza(rng) { let pos = rng.below(stanzas.len() + 1); stanzas.insert(pos, st); } }
    for nme in inherit_names { preamble.push(format!("inherit .{}", nme)); }
    Program { preamble, stanzas, supplied }
}

// ---------------------------------------------------------------- Python sources

const IDENTS: &[&str] = &["x", "y", "foo", "bar_1", "s_2", "héllo", "data", "f", "g"];
fn py_expr(rng: &mut Rng, depth: usize) -> String {
    match rng.below(if depth > 2 { 3 } else { 7 }) {
        0 => rng.pick(IDENTS).to_string(),
        1 => format!("{}", rng.below(100)),
        2 => format!("\"{}\"", rng.pick(&["s", "a b", "日本", "x_y", ""])),
        3 => format!("{}({})", rng.pick(&["f", "g", "foo"]), (0..rng.below(3)).map(|_| py_expr(rng, depth + 1)).collect::<Vec<_>>().join(", ")),
        4 => match rng.below(4) { 0 => format!("{}.{}.{}", rng.pick(IDENTS), rng.pick(&["a", "b"]), rng.pick(&["c", "a"])), 1 => format!("{}()()", rng.pick(&["f", "g"])), 2 => format!("{}[0][1]", rng.pick(IDENTS)), _ => format!("{}.{}", rng.pick(IDENTS), rng.pick(&["a", "b"])) },
        5 => format!("{} + {}", py_expr(rng, depth + 1), py_expr(rng, depth + 1)),
        _ => format!("[{}]", (0..rng.below(3)).map(|_| py_expr(rng, depth + 1)).collect::<Vec<_>>().join(", ")),
    }
}
fn py_block(rng: &mut Rng, ind: usize, depth: usize, out: &mut String, n: usize) {
    let pad = "    ".repeat(ind);
    for _ in 0..n {
        // comments are EXTRA nodes of the grammar (named children wherever they stand); blank lines move rows
        if rng.chance(12) { out.push_str(&format!("{}# {}\n", pad, rng.pick(&["note", "héllo wörld", "TODO: x = 1", ""]))); }
        if ind == 0 && rng.chance(6) { out.push('\n'); }
        match rng.below(if depth >= 2 { 5 } else { 13 }) {
            9 => { out.push_str(&format!("{}while {}:\n", pad, py_expr(rng, 1))); let k = 1 + rng.below(2); py_block(rng, ind + 1, depth + 1, out, k); }
            10 => { out.push_str(&format!("{}with {} as {}:\n", pad, py_expr(rng, 1), rng.pick(IDENTS))); let k = 1 + rng.below(2); py_block(rng, ind + 1, depth + 1, out, k); }
            11 => { out.push_str(&format!("{}try:\n", pad)); py_block(rng, ind + 1, depth + 1, out, 1); out.push_str(&format!("{}except {}:\n", pad, rng.pick(&["E", "KeyError"]))); py_block(rng, ind + 1, depth + 1, out, 1); }
            12 => out.push_str(&format!("{}{} = lambda {}: {}  # trailing\n", pad, rng.pick(IDENTS), rng.pick(&["a", "a, b"]), py_expr(rng, 1))),
            0 | 1 => out.push_str(&format!("{}{} = {}\n", pad, rng.pick(IDENTS), py_expr(rng, 0))),
            2 => out.push_str(&format!("{}{}\n", pad, py_expr(rng, 0))),
            3 => out.push_str(&format!("{}pass\n", pad)),
            4 => out.push_str(&format!("{}return {}\n", pad, py_expr(rng, 0))),
            5 => { out.push_str(&format!("{}def {}({}):\n", pad, rng.pick(&["f", "g", "m"]), (0..rng.below(3)).map(|i| format!("p{}", i)).collect::<Vec<_>>().join(", "))); let k = 1 + rng.below(3); py_block(rng, ind + 1, depth + 1, out, k); }
            6 => { out.push_str(&format!("{}class {}:\n", pad, rng.pick(&["K", "C2"]))); let k = 1 + rng.below(2); py_block(rng, ind + 1, depth + 1, out, k); }
            7 => { out.push_str(&format!("{}if {}:\n", pad, py_expr(rng, 1))); let k = 1 + rng.below(2); py_block(rng, ind + 1, depth + 1, out, k); }
            _ => { out.push_str(&format!("{}for {} in {}:\n", pad, rng.pick(IDENTS), py_expr(rng, 1))); let k = 1 + rng.below(2); py_block(rng, ind + 1, depth + 1, out, k); }
        }
    }
}
pub const CORPUS: &[&str] = &[
    "import os.path\nfrom a import b\n\ndef f(x, y=1):\n    z = g(x)\n    return h(z, y)\n\nclass K:\n    def m(self):\n        pass\n    v = f(2)\n\ns_1 = f(1)\nt = s_1\nprint(t)\n",
    "pass\n",
    "x = 1\n",
    "def f(a):\n    return a\nx = f(f(2))\n",
];
pub fn gen_source(rng: &mut Rng) -> String {
    if rng.chance(25) { return rng.pick(CORPUS).to_string(); }
    let mut out = String::new();
    let n = 1 + rng.below(6);
    py_block(rng, 0, 0, &mut out, n);
    out
}
/// Inject up to `k` syntax faults into a source text.
pub fn inject_faults(rng: &mut Rng, src: &str, k: usize) -> String {
    let mut chars: Vec<char> = src.chars().collect();
    for _ in 0..k {
        if chars.is_empty() { chars.push(')'); continue; }
        let pos = rng.below(chars.len() + 1);
        match rng.below(5) {
            0 => { if pos < chars.len() { chars.remove(pos); } }
            1 => chars.insert(pos, *rng.pick(&['(', ')', '[', ']', ':', '@', '$', '?'])),
            2 => { if pos < chars.len() { let c = chars[pos]; chars.insert(pos, c); } }
            3 => chars.insert(0, *rng.pick(&[')', '?', '=', '('])),
            _ => chars.push(*rng.pick(&['(', '=', '.', '"'])),
        }
    }
    chars.into_iter().collect()
}

/// Self-contained statements that fail at run time (C20): returns (text lines, expected root-cause code).
pub const RUNTIME_FAULTS: &[(&str, u32)] = &[
    ("let zz9 = (plus \"a\" 1)", 11),
    ("let zz9 = (nosuchfn 1)", 20),
    ("node zz8\nattr (zz8) q = 1\nattr (zz8) q = 2", 5),
    ("node zz8\nedge zz8 -> \"s\"", 8),
    ("node zz8\nattr (zz8 -> zz8) w = 1", 24),
    ("let zz9 = (not 3)", 10),
    ("let zz9 = (format \"{}\")", 14),
    ("let zz9 = (eq 1 \"x\")", 27),
    ("for zz7 in (concat [1] 2) {\n}", 9),
    ("if (not 3) {\n  node zz6\n}", 10),
    ("if (eq 1 \"x\") {\n  node zz6\n}", 27),
    ("scan (format \"{}\") {\n  \"x\" {\n    node zz6\n  }\n}", 14),
    ("for zz7 in [1, 2] {\n  if (is-null (nosuchfn)) {\n  }\n}", 20),
    // every condition of an arm is evaluated, also behind a false one
    ("if #false, (not 3) {\n  node zz6\n}", 10),
    ("if (is-null 1), (eq 1 \"x\") {\n  node zz6\n} else {\n  node zz5\n}", 27),
    ("if #false {\n  node zz6\n} elif #false, (nosuchfn 1) {\n  node zz5\n}", 20),
    // the faulty VALUE of a variable that another statement forces (lazy: the error belongs to the defining statement)
    ("let zz9 = (plus \"a\" 1)\nnode zz8\nattr (zz8) v = zz9", 11),
    ("let zz9 = (not 3)\nlet zz4 = [zz9]\nprint zz4", 10),
    ("var zz9 = (nosuchfn 1)\nnode zz8\nif #true {\n  attr (zz8) v = zz9\n}", 20),
    ("print zz_undefined_at_runtime_is_static", 0),
];
/// Insert one runtime fault at a random statement position (any depth) of a random stanza.
pub fn inject_runtime_fault(rng: &mut Rng, p: &mut Program) -> (String, u32, usize) {
    let (text, code) = loop { let f = rng.pick(RUNTIME_FAULTS); if f.1 != 0 { break *f; } };
    // a stanza that has a block to put the fault into (placeholder stanzas `(..) {}` have none)
    let has_block = |st: &String| st.lines().enumerate().any(|(i, l)| l.trim_end().ends_with('{') && !l.trim_start().starts_with("scan ") && i + 1 < st.lines().count());
    let with_block: Vec<usize> = (0..p.stanzas.len()).filter(|i| has_block(&p.stanzas[*i])).collect();
    if with_block.is_empty() { return (String::new(), 0, 0); }
    let si = *rng.pick(&with_block);
    let lines: Vec<String> = p.stanzas[si].lines().map(|l| l.to_string()).collect();
    // positions: after any line that ends with '{' (block start) — depth = indentation of that line
    let cands: Vec<usize> = lines.iter().enumerate().filter(|(i, l)| l.trim_end().ends_with('{') && !(l.trim_start().starts_with("scan ")) && *i + 1 < lines.len()).map(|(i, _)| i).collect();
    // prefer nested positions
    let deep: Vec<usize> = cands.iter().copied().filter(|i| lines[*i].starts_with("  ")).collect();
    let at = if !deep.is_empty() && rng.chance(60) { *rng.pick(&deep) } else { *rng.pick(&cands) };
    let indent = lines[at].len() - lines[at].trim_start().len() + 2;
    let depth = indent / 2 - 1;
    let mut out = lines[..=at].to_vec();
    for l in text.split('\n') { out.push(format!("{}{}", " ".repeat(indent), l)); }
    out.extend(lines[at + 1..].iter().cloned());
    p.stanzas[si] = out.join("\n") + "\n";
    (text.to_string(), code, depth)
}
