//! C19: the built command-line tool (`--features cli`) vs the library run in-process vs Model/Cli.v.
//!
//! Every case writes a DSL file and a Python source into a scratch directory under `.work/`, runs the
//! binary with one option set, captures exit status / stdout / stderr / the `--output` file, runs the
//! library in-process on the same inputs (both modes, globals as `Value::String`) and emits a Coq term
//! that applies `cli` to the library's results and compares with what the process did.
//!
//! Binary: `--cli-bin PATH` or `TSGV_CLI_BIN` (default `<framework>/.work/cli-target/debug/tree-sitter-graph`);
//! loader environment: `--cli-env DIR` or `TSGV_CLI_ENV` (default `<framework>/.work/cli-env`, layout
//! `config/tree-sitter/config.json`, `grammars/tree-sitter-python`, `cache/`).
//!
//! Generated programs never contain a `print` statement (it writes to stderr), so "stderr non-empty"
//! means "a diagnostic was printed".  An `--output` path inside a missing directory is the generated instance of
//! `lr_create_ok = false`: the tool must fail there (exit 1, diagnostic, no output).
use crate::common::*;
use crate::rng::Rng;
use serde_json::json;
use std::collections::HashMap;
use std::path::{Path, PathBuf};
use std::process::Command;
use tree_sitter_graph::ast::File;
use tree_sitter_graph::functions::Functions;
use tree_sitter_graph::graph::Value;
use tree_sitter_graph::parse_error::ParseError;
use tree_sitter_graph::{ExecutionConfig, Identifier, NoCancellation, Variables};

// ------------------------------------------------------------------ inputs

/// 0 = no --output, 1 = fresh path, 2 = path of an existing file, 3 = path inside a missing directory
pub const OUT_NONE: u64 = 0;
pub const OUT_FRESH: u64 = 1;
pub const OUT_EXISTING: u64 = 2;
pub const OUT_UNWRITABLE: u64 = 3;
const OLD_CONTENT: &str = "previous content of the output file\n";

#[derive(Clone, Debug)]
pub struct CaseIn {
    pub dsl: String,
    pub src: String,
    pub lazy: bool,
    pub json: bool,
    pub output: u64,
    pub quiet: bool,
    pub allow: bool,
    pub globals: Vec<String>,
    pub tags: Vec<String>,
}

impl CaseIn {
    fn to_json(&self) -> serde_json::Value {
        json!({"prop": "C19", "dsl": self.dsl, "source": self.src, "lazy": self.lazy, "json": self.json, "output": self.output,
               "quiet": self.quiet, "allow_parse_errors": self.allow, "globals": self.globals, "tags": self.tags})
    }
    fn from_json(j: &serde_json::Value) -> CaseIn {
        let strs = |v: &serde_json::Value| v.as_array().map(|a| a.iter().map(|s| s.as_str().unwrap().to_string()).collect()).unwrap_or_default();
        CaseIn {
            dsl: j["dsl"].as_str().unwrap().to_string(),
            src: j["source"].as_str().unwrap().to_string(),
            lazy: j["lazy"].as_bool().unwrap(),
            json: j["json"].as_bool().unwrap(),
            output: j["output"].as_u64().unwrap(),
            quiet: j["quiet"].as_bool().unwrap(),
            allow: j["allow_parse_errors"].as_bool().unwrap(),
            globals: strs(&j["globals"]),
            tags: strs(&j["tags"]),
        }
    }
    fn args(&self) -> Vec<String> {
        let mut a: Vec<String> = Vec::new();
        if self.lazy { a.push("--lazy".into()); }
        if self.json { a.push("--json".into()); }
        match self.output {
            OUT_NONE => {}
            OUT_UNWRITABLE => { a.push("--output".into()); a.push("missing-dir/out.json".into()); }
            _ => { a.push("--output".into()); a.push("out.json".into()); }
        }
        if self.quiet { a.push("--quiet".into()); }
        if self.allow { a.push("--allow-parse-errors".into()); }
        for g in &self.globals { a.push("--global".into()); a.push(g.clone()); }
        a.push("a.tsg".into());
        a.push("a.py".into());
        a
    }
}

// ------------------------------------------------------------------ environment

pub struct CliEnv { pub bin: PathBuf, pub env: PathBuf, pub scratch: PathBuf }

fn arg_or_env(flag: &str, var: &str) -> Option<String> {
    let args: Vec<String> = std::env::args().collect();
    args.iter().position(|a| a == flag).and_then(|i| args.get(i + 1)).cloned().or_else(|| std::env::var(var).ok()).filter(|s| !s.is_empty())
}

impl CliEnv {
    pub fn locate() -> CliEnv {
        let work = Path::new(env!("CARGO_MANIFEST_DIR")).parent().unwrap().join(".work");
        let bin = arg_or_env("--cli-bin", "TSGV_CLI_BIN").map(PathBuf::from).unwrap_or(work.join("cli-target/debug/tree-sitter-graph"));
        let env = arg_or_env("--cli-env", "TSGV_CLI_ENV").map(PathBuf::from).unwrap_or(work.join("cli-env"));
        let scratch = arg_or_env("--cli-scratch", "TSGV_CLI_SCRATCH").map(PathBuf::from)
            .unwrap_or(env.parent().unwrap_or(Path::new(".")).join("c19-scratch")).join(format!("p{}", std::process::id()));
        if !bin.is_file() { eprintln!("C19: CLI binary not found at {} (set TSGV_CLI_BIN or pass --cli-bin)", bin.display()); std::process::exit(3); }
        if !env.join("config/tree-sitter/config.json").is_file() { eprintln!("C19: loader environment not found at {} (set TSGV_CLI_ENV)", env.display()); std::process::exit(3); }
        std::fs::create_dir_all(&scratch).unwrap();
        CliEnv { bin, env, scratch }
    }
    pub fn cleanup(&self) { let _ = std::fs::remove_dir_all(&self.scratch); }
}

pub struct ProcObs { pub exit: i32, pub stdout: Vec<u8>, pub stderr: Vec<u8>, pub file: Option<Vec<u8>> }

pub fn run_binary(env: &CliEnv, c: &CaseIn, idx: usize) -> ProcObs {
    let dir = env.scratch.join(format!("c{}", idx));
    let _ = std::fs::remove_dir_all(&dir);
    std::fs::create_dir_all(&dir).unwrap();
    std::fs::write(dir.join("a.tsg"), &c.dsl).unwrap();
    std::fs::write(dir.join("a.py"), &c.src).unwrap();
    let out_path = match c.output { OUT_NONE => None, OUT_UNWRITABLE => Some(dir.join("missing-dir/out.json")), _ => Some(dir.join("out.json")) };
    if c.output == OUT_EXISTING { std::fs::write(dir.join("out.json"), OLD_CONTENT).unwrap(); }
    let mut cmd = Command::new(&env.bin);
    cmd.current_dir(&dir).env_clear()
        .env("PATH", std::env::var("PATH").unwrap_or("/usr/bin:/bin".into()))
        .env("HOME", std::env::var("HOME").unwrap_or("/root".into()))
        .env("XDG_CONFIG_HOME", env.env.join("config"))
        .env("XDG_CACHE_HOME", env.env.join("cache"))
        .env("TREE_SITTER_DIR", env.env.join("config/tree-sitter"))
        .env("RUST_BACKTRACE", "0")
        .args(c.args());
    let out = cmd.output().expect("cannot start the CLI binary");
    let file = out_path.and_then(|p| std::fs::read(p).ok());
    let _ = std::fs::remove_dir_all(&dir);
    ProcObs { exit: out.status.code().unwrap_or(255), stdout: out.stdout, stderr: out.stderr, file }
}

// ------------------------------------------------------------------ the library, in-process

#[derive(Clone, Debug)]
pub enum ExecRes { Ok { pretty: String, json: String }, Err, Panicked }
pub struct LibRes { pub load_ok: bool, pub load_panicked: bool, pub parse_errors: usize, pub strict: ExecRes, pub lazy: ExecRes }

/// main.rs:80-90 with the same std/library calls: split_once('='), Variables::add of Value::String.
pub fn rust_globals(raw: &[String]) -> Option<Vec<(String, String)>> {
    let mut vars = Variables::new();
    let mut out = Vec::new();
    for kv in raw {
        let (k, v) = kv.split_once('=')?;
        vars.add(Identifier::from(k), Value::String(v.to_string())).ok()?;
        out.push((k.to_string(), v.to_string()));
    }
    Some(out)
}

pub fn run_library(c: &CaseIn, globals: &Option<Vec<(String, String)>>) -> LibRes {
    let language: tree_sitter::Language = tree_sitter_python::LANGUAGE.into();
    let tree = parse_python(&c.src);
    // whether the source has syntax errors is tree-sitter's verdict (independent of the library's own error walk)
    let parse_errors = ParseError::all(&tree).len().max(if tree.root_node().has_error() { 1 } else { 0 });
    let loaded = std::panic::catch_unwind(|| File::from_str(language.clone(), &c.dsl));
    let file = match loaded {
        Err(_) => return LibRes { load_ok: false, load_panicked: true, parse_errors, strict: ExecRes::Err, lazy: ExecRes::Err },
        Ok(Err(_)) => return LibRes { load_ok: false, load_panicked: false, parse_errors, strict: ExecRes::Err, lazy: ExecRes::Err },
        Ok(Ok(f)) => f,
    };
    let exec = |lazy: bool| -> ExecRes {
        let gl = match globals { Some(g) => g, None => return ExecRes::Err };
        let r = std::panic::catch_unwind(std::panic::AssertUnwindSafe(|| {
            let mut vars = Variables::new();
            for (k, v) in gl { vars.add(Identifier::from(k.as_str()), Value::String(v.clone())).unwrap(); }
            let functions = Functions::stdlib();
            let config = ExecutionConfig::new(&functions, &vars).lazy(lazy);
            match file.execute(&tree, &c.src, &config, &NoCancellation) {
                Ok(graph) => ExecRes::Ok { pretty: format!("{}", graph.pretty_print()), json: serde_json::to_string_pretty(&graph).unwrap() },
                Err(_) => ExecRes::Err,
            }
        }));
        r.unwrap_or(ExecRes::Panicked)
    };
    let strict = exec(false);
    let lazy = exec(true);
    LibRes { load_ok: true, load_panicked: false, parse_errors, strict, lazy }
}

// ------------------------------------------------------------------ text identity

/// JSON object members are serialised in HashMap iteration order (Attributes), which differs between two
/// processes: texts that parse as JSON are compared as JSON trees with sorted keys PLUS the multiset of
/// their lines (trailing commas removed), which pins the pretty layout and the absence of a final newline.
fn sorted_json(v: &serde_json::Value, out: &mut String) {
    match v {
        serde_json::Value::Object(m) => {
            let mut keys: Vec<&String> = m.keys().collect();
            keys.sort();
            out.push('{');
            for (i, k) in keys.iter().enumerate() {
                if i > 0 { out.push(','); }
                out.push_str(&serde_json::to_string(k).unwrap());
                out.push(':');
                sorted_json(&m[*k], out);
            }
            out.push('}');
        }
        serde_json::Value::Array(a) => {
            out.push('[');
            for (i, x) in a.iter().enumerate() { if i > 0 { out.push(','); } sorted_json(x, out); }
            out.push(']');
        }
        other => out.push_str(&serde_json::to_string(other).unwrap()),
    }
}
pub fn canonical(bytes: &[u8]) -> String {
    let text = match std::str::from_utf8(bytes) { Ok(t) => t, Err(_) => return format!("B:{:?}", bytes) };
    match serde_json::from_str::<serde_json::Value>(text) {
        Ok(v) => {
            let mut s = String::from("J:");
            sorted_json(&v, &mut s);
            let mut lines: Vec<&str> = text.split('\n').map(|l| l.strip_suffix(',').unwrap_or(l)).collect();
            lines.sort();
            s.push_str("\nL:");
            s.push_str(&lines.join("\n"));
            s
        }
        Err(_) => format!("T:{}", text),
    }
}
pub struct Interner { ids: HashMap<String, u64> }
impl Interner {
    pub fn new() -> Interner { Interner { ids: HashMap::new() } }
    pub fn id(&mut self, bytes: &[u8]) -> u64 {
        if bytes.is_empty() { return 0; }
        let n = self.ids.len() as u64 + 1;
        *self.ids.entry(canonical(bytes)).or_insert(n)
    }
}

// ------------------------------------------------------------------ Coq terms

fn coq_exec(r: &ExecRes, id: u64) -> String { match r { ExecRes::Ok { .. } => format!("(ExecOk {})", id), _ => "ExecErr".into() } }

pub fn make_case(env: &CliEnv, c: &CaseIn, idx: usize) -> Case {
    let rg = rust_globals(&c.globals);
    let lib = run_library(c, &rg);
    let obs = run_binary(env, c, idx);

    let mut texts = Interner::new();
    let unknown: u64 = 999_999; // rendering of a graph the library did not produce
    let (mut p0, mut j0, mut p1, mut j1) = (unknown, unknown, unknown, unknown);
    if let ExecRes::Ok { pretty, json } = &lib.strict { p0 = texts.id(pretty.as_bytes()); j0 = texts.id(json.as_bytes()); }
    if let ExecRes::Ok { pretty, json } = &lib.lazy { p1 = texts.id(pretty.as_bytes()); j1 = texts.id(json.as_bytes()); }
    let pre = if c.output == OUT_EXISTING { Some(texts.id(OLD_CONTENT.as_bytes())) } else { None };
    let x_stdout = texts.id(&obs.stdout);
    let x_file = obs.file.as_ref().map(|b| texts.id(b));

    let opts = format!("{{| o_lazy := {}; o_json := {}; o_output := {}; o_quiet := {}; o_allow := {}; o_globals := {} |}}",
        coq_bool(c.lazy), coq_bool(c.json), coq_opt(if c.output == OUT_NONE { None } else { Some(c.output.to_string()) }),
        coq_bool(c.quiet), coq_bool(c.allow), coq_list(&c.globals.iter().map(|g| coq_str(g)).collect::<Vec<_>>()));
    let pairs = |g: &Vec<(String, String)>| coq_list(&g.iter().map(|(k, v)| format!("({}, {})", coq_str(k), coq_str(v))).collect::<Vec<_>>());
    let table_globals = rg.as_ref().map(|g| pairs(g)).unwrap_or("[]".into());
    let libt = format!("{{| lr_load := {}; lr_parse_errors := {}; lr_exec := exec_table {} {} {}; lr_create_ok := fun p => negb (p =? {}) |}}",
        if lib.load_ok { "LoadOk" } else { "LoadRejected" }, lib.parse_errors, table_globals, coq_exec(&lib.strict, 0), coq_exec(&lib.lazy, 1), OUT_UNWRITABLE);
    let fx = format!("{{| fx_pretty := fun g => if g =? 0 then {} else if g =? 1 then {} else {}; fx_json := fun g => if g =? 0 then {} else if g =? 1 then {} else {}; fx_pre_file := {} |}}",
        p0, p1, unknown, j0, j1, unknown, coq_opt(pre.map(|t| t.to_string())));
    let rgt = coq_opt(rg.as_ref().map(|g| pairs(g)));
    let exit = if obs.exit < 0 || obs.exit > 255 { 255 } else { obs.exit };
    let obst = format!("{{| x_exit := {}; x_stdout := {}; x_file := {}; x_stderr_nonempty := {} |}}",
        exit, x_stdout, coq_opt(x_file.map(|t| t.to_string())), coq_bool(!obs.stderr.is_empty()));

    let selected = if c.lazy { &lib.lazy } else { &lib.strict };
    let mut tags = c.tags.clone();
    tags.push(format!("exit{}", obs.exit));
    tags.push(format!("opts:{}{}{}{}{}", if c.lazy { "z" } else { "-" }, if c.json { "j" } else { "-" },
        match c.output { OUT_NONE => "-", OUT_FRESH => "o", OUT_EXISTING => "O", _ => "X" }, if c.quiet { "q" } else { "-" }, if c.allow { "a" } else { "-" }));
    tags.push(format!("globals{}", c.globals.len()));
    if !lib.load_ok { tags.push("lib:rejected".into()); }
    if lib.load_panicked { tags.push("lib:load-panicked".into()); }
    if lib.parse_errors > 0 { tags.push(if lib.parse_errors > 5 { "lib:parse_errors>5".into() } else { "lib:parse_errors1-5".into() }); }
    if lib.load_ok && rg.is_some() {
        match selected { ExecRes::Ok { pretty, .. } => tags.push(if pretty.is_empty() { "lib:exec-ok-empty-graph".into() } else { "lib:exec-ok".into() }),
                         ExecRes::Err => tags.push("lib:exec-err".into()), ExecRes::Panicked => tags.push("lib:exec-panicked".into()) }
        if matches!(lib.strict, ExecRes::Ok { .. }) != matches!(lib.lazy, ExecRes::Ok { .. }) { tags.push("lib:strict/lazy-differ".into()); }
    }
    if rg.is_none() { tags.push("globals:rejected-by-main".into()); }
    let short = |b: &[u8]| { let s = String::from_utf8_lossy(b); if s.len() > 600 { format!("{}…", s.chars().take(600).collect::<String>()) } else { s.to_string() } };
    let mut replay = c.to_json();
    replay["argv"] = json!(c.args());
    replay["observed"] = json!({"exit": obs.exit, "stdout": short(&obs.stdout), "stderr": short(&obs.stderr), "output_file": obs.file.as_ref().map(|b| short(b))});
    replay["library"] = json!({"load_ok": lib.load_ok, "parse_errors": lib.parse_errors,
        "strict": match &lib.strict { ExecRes::Ok { pretty, .. } => json!({"ok": short(pretty.as_bytes())}), ExecRes::Err => json!("err"), ExecRes::Panicked => json!("panicked") },
        "lazy": match &lib.lazy { ExecRes::Ok { pretty, .. } => json!({"ok": short(pretty.as_bytes())}), ExecRes::Err => json!("err"), ExecRes::Panicked => json!("panicked") }});
    let key = fnv(&format!("{}\u{0}{}\u{0}{:?}", c.dsl, c.src, c.args()));
    Case {
        verdict: format!("cli_verdict {} {} {} {} {}", opts, libt, fx, rgt, obst),
        detail: format!("cli {} {}", opts, libt),
        replay,
        // the binary got past clap and there is a program to run
        nontrivial: obs.exit != 2 && c.dsl.contains('{'),
        key,
        tags,
    }
}

// ------------------------------------------------------------------ generators

const STR_LITS: &[&str] = &["\"root\"", "\"x\\\"q\\\\\"", "\"日本\"", "\"\"", "\"a b\"", "\"module\""];
const GLOBAL_NAMES: &[(&str, &str)] = &[("pkg", "ver"), ("g_a", "g_b"), ("root_path", "mode")];
const VALUES: &[&str] = &["1", "", "p", "a=b", "==", "x y", "é日本", "{\"k\": 1}", "v-1", "\\n", " ", " lead", "trail ", "\t", " = "];
const EXTRA_NAMES: &[&str] = &["extra", "", "x", "unused_1", "é"];

pub const SOURCES_OK: &[&str] = &[
    "pass\n",
    "x = f(1, y)\ndef g(a):\n    return a\n",
    "",
    "x = \"héllo\"\nprint(x)\n",
    "def h(a, b):\n    return k(a)\n\nh(1, 2)\n",
    "import os\nclass C:\n    def m(self):\n        pass\n",
];
pub const SOURCES_BAD: &[&str] = &[
    "def f(:\n  x = = 1\n",
    "x = (1,\n",
    "f(1 2)\ny = g(3)\n",
    "class :\n    pass\ny = 3\n",
    "x = 1 2\ny = 3 4\nz = 5 6\nu = 7 8\nv = 9 0\nw = 1 2\nt = 3 4\n",
    // the ROOT of the tree is itself the ERROR node
    "if x:\n  (",
    "while x:\n  y = (\n",
    // the only syntax errors are MISSING anonymous tokens (no ERROR node)
    "def f(:\n    pass\n",
    "def f(a,:\n    pass\n",
];

struct Prog { header: String, stanzas: Vec<String>, required: Vec<String>, optional: Vec<String>, kind: String }
impl Prog { fn text(&self) -> String { format!("{}{}", self.header, self.stanzas.join("")) } }

fn valid_stanzas(rng: &mut Rng, shape: usize, prog: &mut Prog) {
    let lit = rng.pick(STR_LITS).to_string();
    let num = rng.below(100);
    match shape {
        0 => { // a root node per module, one node per top-level statement, edges with attributes
            prog.stanzas.push(format!("(module) @m {{ node @m.root\n  attr (@m.root) kind = {} }}\n", lit));
            prog.stanzas.push("(module (_) @s) @m { node n\n  attr (n) text = (source-text @s)\n  edge @m.root -> n\n  let first = (eq (named-child-index @s) 0)\n  attr (@m.root -> n) idx = (named-child-index @s), first = first }\n".into());
        }
        1 => prog.stanzas.push(format!("(identifier) @id {{ node n\n  attr (n) name = (source-text @id)\n  attr (n) weight = {} }}\n", num)),
        2 => prog.stanzas.push("(function_definition name: (identifier) @name parameters: (parameters (identifier)* @ps)) @_f { node n\n  attr (n) fn = (source-text @name)\n  for p in @ps { node q\n    attr (q) param = (source-text p)\n    edge n -> q } }\n".into()),
        3 => prog.stanzas.push("(call function: (identifier) @f arguments: (argument_list) @args) @_c { node n\n  attr (n) callee = (source-text @f)\n  attr (n) nargs = (named-child-count @args) }\n".into()),
        4 => prog.stanzas.push(format!("(module) @_m {{ node a\n  node b\n  edge a -> b\n  attr (a -> b) w = {}\n  attr (a) l = [1, {}, #true]\n  attr (b) s = {{#null, {}}} }}\n", num, lit, rng.pick(STR_LITS))),
        5 => { // reads globals: one required, one with a default
            let (ga, gb) = *rng.pick(GLOBAL_NAMES);
            if prog.required.is_empty() {
                prog.header.push_str(&format!("global {}\nglobal {} = {}\n", ga, gb, lit));
                prog.required.push(ga.to_string());
                prog.optional.push(gb.to_string());
            }
            let (ga, gb) = (prog.required[0].clone(), prog.optional[0].clone());
            prog.stanzas.push(format!("(module) @_m {{ node n\n  attr (n) {} = {}\n  attr (n) {} = {} }}\n", ga, ga, gb, gb));
        }
        _ => prog.stanzas.push("(class_definition name: (identifier) @name) @_c { node n\n  attr (n) class = (source-text @name) }\n".into()),
    }
}

fn gen_prog(rng: &mut Rng) -> Prog {
    let mut prog = Prog { header: String::new(), stanzas: Vec::new(), required: Vec::new(), optional: Vec::new(), kind: String::new() };
    let cat = rng.below(100);
    if cat < 4 {
        prog.kind = "prog:empty-file".into();
        if rng.chance(50) { prog.header.push_str("; nothing here\n"); }
        return prog;
    }
    let n_shapes = rng.range(1, 3);
    let mut used = Vec::new();
    for _ in 0..n_shapes {
        let s = if rng.chance(30) { 5 } else { rng.below(7) };
        if used.contains(&s) { continue; }
        used.push(s);
        valid_stanzas(rng, s, &mut prog);
    }
    let pos = rng.below(prog.stanzas.len() + 1);
    if cat < 56 {
        prog.kind = "prog:valid".into();
    } else if cat < 72 {
        // rejected by the loader: parse error, check error, query error, duplicate global
        let k = rng.below(7);
        let bad = match k {
            0 => "(module) @_m { node }\n",
            1 => "(module) @m { node n }\n",
            2 => "(module) @_m { node n\n  attr (n) x = y }\n",
            3 => "(no_such_kind) @_m { node n }\n",
            4 => "(module) @_m { node n\n",
            5 => "(module) @_m { node n\n  attr (n) x = \"unterminated }\n",
            _ => "",
        };
        if k == 6 { prog.header.push_str("global dup_g\nglobal dup_g\n"); } else { prog.stanzas.insert(pos, bad.to_string()); }
        prog.kind = format!("prog:rejected{}", k);
    } else if cat < 90 {
        // fails at run time in both modes
        let k = rng.below(4);
        let bad = match k {
            0 => "(module) @_m { node n\n  attr (n) a = 1\n  attr (n) a = 2 }\n",
            1 => "(module) @_m { node n\n  attr (n) v = (plus \"a\" 1) }\n",
            2 => "(module) @_m { node n\n  attr (n) v = (no-such-function 1) }\n",
            _ => "(module) @m { node n\n  attr (n) v = @m.never_defined }\n",
        };
        prog.stanzas.insert(pos, bad.to_string());
        prog.kind = format!("prog:exec-fails{}", k);
    } else {
        // a scoped variable used by an earlier stanza than the one defining it: strict fails, lazy succeeds
        prog.stanzas.insert(0, "(module (_) @s) @m { node n\n  attr (n) late = (source-text @s)\n  edge n -> @m.late_root }\n".into());
        prog.stanzas.push("(module) @m { node @m.late_root }\n".into());
        prog.kind = "prog:strict-fails-lazy-ok".into();
    }
    prog
}

fn gen_globals(rng: &mut Rng, prog: &Prog, tags: &mut Vec<String>) -> Vec<String> {
    let mut g: Vec<String> = Vec::new();
    let mode = rng.below(100);
    for r in &prog.required { g.push(format!("{}={}", r, rng.pick(VALUES))); }
    if !prog.optional.is_empty() && rng.chance(40) { g.push(format!("{}={}", prog.optional[0], rng.pick(VALUES))); }
    while g.len() < 3 && rng.chance(30) {
        let name = rng.pick(EXTRA_NAMES);
        if g.iter().any(|x| x.split_once('=').map(|p| p.0) == Some(*name)) { break; }
        g.push(format!("{}={}", name, rng.pick(VALUES)));
    }
    // a name with surrounding blanks is a DIFFERENT name (the value and the name are taken verbatim)
    if !g.is_empty() && rng.chance(8) { let k = rng.below(g.len()); g[k] = if rng.chance(50) { format!(" {}", g[k]) } else { g[k].replacen('=', " =", 1) }; tags.push("globals:padded-name".into()); }
    if mode < 72 {
        tags.push("globals:well-formed".into());
    } else if mode < 82 {
        if !prog.required.is_empty() { g.remove(0); tags.push("globals:required-missing".into()); } else { tags.push("globals:well-formed".into()); }
    } else if mode < 91 {
        let bad = *rng.pick(&["novalue", "日本", "a b", "x", ""]);
        let pos = rng.below(g.len() + 1);
        if g.len() >= 3 { g[pos.min(2)] = bad.to_string(); } else { g.insert(pos, bad.to_string()); }
        tags.push("globals:malformed".into());
    } else {
        if g.is_empty() { g.push(format!("x={}", rng.pick(VALUES))); }
        let k = rng.below(g.len());
        let name = g[k].split_once('=').unwrap().0.to_string();
        let dup = if rng.chance(50) { g[k].clone() } else { format!("{}={}", name, rng.pick(VALUES)) };
        if g.len() >= 3 { let at = (k + 1) % 3; g[at] = dup; } else { g.push(dup); }
        tags.push("globals:duplicate".into());
    }
    // shuffle the order (the loop of main.rs stops at the first offending argument)
    for i in (1..g.len()).rev() { let j = rng.below(i + 1); g.swap(i, j); }
    g
}

pub fn gen(rng: &mut Rng, n: usize) -> Vec<Case> {
    let env = CliEnv::locate();
    let mut cases = Vec::new();
    for i in 0..n {
        let prog = gen_prog(rng);
        let mut tags = vec![prog.kind.clone()];
        let bad_src = rng.chance(25);
        let src = if bad_src { if rng.chance(40) { SOURCES_BAD[SOURCES_BAD.len() - 1 - rng.below(4)].to_string() } else { rng.pick(SOURCES_BAD).to_string() } } else { rng.pick(SOURCES_OK).to_string() };
        tags.push(if bad_src { "source:syntax-errors".into() } else { "source:ok".into() });
        // the five switches are enumerated systematically (i mod 32); --output without --json is a clap
        // usage error whatever the rest, so two thirds of those slots get --json as well
        let bits = i % 32;
        let (lazy, mut json, has_out, quiet, allow) = (bits & 1 != 0, bits & 2 != 0, bits & 4 != 0, bits & 8 != 0, bits & 16 != 0);
        if has_out && !json && (i / 32) % 3 != 0 { json = true; }
        let output = if !has_out { OUT_NONE } else { let k = rng.below(100); if k < 55 { OUT_FRESH } else if k < 80 { OUT_EXISTING } else { OUT_UNWRITABLE } };
        let globals = gen_globals(rng, &prog, &mut tags);
        let c = CaseIn { dsl: prog.text(), src, lazy, json, output, quiet, allow, globals, tags };
        cases.push(make_case(&env, &c, i));
    }
    env.cleanup();
    cases
}

pub fn replay(j: &serde_json::Value) -> Case {
    let env = CliEnv::locate();
    let c = CaseIn::from_json(j);
    let case = make_case(&env, &c, 0);
    env.cleanup();
    case
}
