//! C05r: pretty rendering of LOAD errors (`ParseError::display_pretty`, `CheckError::display_pretty`) against
//! Model/LoadErrRender.v.  Malformed texts come from the C05p generator (c07.rs), rule-breaking texts from the C06
//! generator (c06.rs), plus hand-written texts for the layouts the excerpt is sensitive to (CRLF, non-ASCII before the
//! error column, error at end of file, error on a last line without newline).  The message line (Display of the error)
//! is an opaque input of the model; variant and location are read off the real error.
use crate::common::*;
use crate::exec::quiet_panics;
use crate::rng::Rng;
use serde_json::json;
use std::panic::{catch_unwind, AssertUnwindSafe};
use std::path::Path;
use tree_sitter_graph::ast::File;
use tree_sitter_graph::ParseError;

const PATHS: &[&str] = &["rules.tsg", "my rules/ré gles.tsg", "規則 集/日本 語.tsg", "a:1:1:/b.tsg", "𝒳 dir/r.tsg"];
const OTHER_TEXTS: &[&str] = &["", "\n", "é\r\nßß\r\n\r\nlast", "日本語 テキスト\n\n  x\n𝒳𝒴\n", "a\n"];

/// hand-written: (kind, text)
const FIXED: &[(&str, &str)] = &[
    ("nonascii-before-column", "(module) @m { print \"日本語\", @ }\n"),
    ("nonascii-before-column", "(module) @_m {\n  print \"ééé\", zz\n}\n"),
    ("nonascii-before-column", "(module) @_m {\n  let é = 1 let é = 2\n}\n"),
    ("eof-last-line-no-newline", "(module) @_m {\n  node x\n  attr (x) k = "),
    ("eof-last-line-no-newline", "(module) @_m {\n  node x"),
    ("eof-after-newline", "(module) @_m {\n  node x\n"),
    ("eof-after-newline", "(module) @_m {\n"),
    ("last-line-no-newline", "(module) @_m {\n  node x\n  print y }"),
    ("last-line-no-newline", "global g\n(module) @_m {\n  let g = 1 }"),
    ("crlf", "(module) @_m {\r\n  let x = \"é\" y\r\n}\r\n"),
    ("crlf", "(module) @_m {\r\n  print \"ééé\", zz\r\n}\r\n"),
    ("crlf", "(module) @m {\r\n  node x\r\n}"),
    ("query-error", "(nonexistent) @x {\n}\n"),
    ("query-error", "; é\n(module) @_m {}\n\n  (identifier @x {\n}\n"),
    ("query-error", "(module) @_m {}\r\n(é) @x {}\r\n"),
    ("unused-capture", "(module) @m {\n}\n"),
    ("tab", "(module) @_m {\n\tprint \"é\",\tzz\n}\n"),
    ("long-row", "\n\n\n\n\n\n\n\n\n(module) @_m {\n  print zz\n}\n"),
];

fn pick_render_text(rng: &mut Rng, real: &str) -> (&'static str, String) {
    match rng.below(100) {
        0..=79 => ("real", real.to_string()),
        80..=89 => { let n = real.lines().count(); let k = rng.below(n + 1); ("truncated", real.split_inclusive('\n').take(k).collect::<String>()) }
        90..=94 => ("crlf", real.replace("\r\n", "\n").replace('\n', "\r\n")),
        _ => ("other", rng.pick(OTHER_TEXTS).to_string()),
    }
}

pub fn c05r_case(text: &str, path: &str, render: &str, mut tags: Vec<String>, note: &str) -> Option<Case> {
    let res = catch_unwind(AssertUnwindSafe(|| File::from_str(tree_sitter_python::LANGUAGE.into(), text)));
    let err = match res { Ok(Err(e)) => e, _ => return None };          // only texts the loader rejects (a loader panic is C05p's business)
    let msg = format!("{}", err);
    let dbg = format!("{:?}", err);
    let (is_check, variant, loc) = match &err {
        ParseError::Check(c) => { let (v, l, _) = crate::c06::parse_check_error(&format!("{:?}", c)); (true, v, l) }
        e => { let (v, _, l, _) = crate::c07::err_obs(e); (false, v, l) }
    };
    let pretty = catch_unwind(AssertUnwindSafe(|| format!("{}", err.display_pretty(Path::new(path), render))));
    // CheckError::display_pretty called directly on the inner error
    let pretty_check: Option<Result<String, ()>> = match &err {
        ParseError::Check(c) => Some(catch_unwind(AssertUnwindSafe(|| format!("{}", c.display_pretty(Path::new(path), render)))).map_err(|_| ())),
        _ => None,
    };
    let cites = |t: &str| t.contains(&format!("{}:{}:{}:", path, loc.0 + 1, loc.1 + 1));
    let row_exists = render.lines().nth(loc.0).is_some();
    let term = format!("({} {} ({}, {}))", if is_check { "LCheck" } else { "LParse" }, variant, loc.0, loc.1);
    let verdict = match (&pretty, &pretty_check) {
        (Err(_), _) | (_, Some(Err(_))) => "72".to_string(),
        (Ok(t), _) if !cites(t) || loc.0 == usize::MAX => "71".to_string(),
        (Ok(t), pc) => format!("c05r_verdict {} {} {} {} {} {}", coq_str(path), coq_str(render), coq_str(&msg), term, coq_str(t),
                               coq_opt(pc.as_ref().map(|r| coq_str(r.as_ref().unwrap())))),
    };
    let name = if is_check { format!("Check:{}", crate::c06::VARIANTS.get((variant as usize).wrapping_sub(1)).unwrap_or(&"?")) }
               else { crate::c07::err_obs(&err).1.to_string() };
    tags.push(format!("variant:{}", name));
    tags.push(format!("row_exists:{}", row_exists));
    tags.push(format!("path_ascii:{}", path.is_ascii()));
    tags.push(format!("final_newline:{}", render.ends_with('\n')));
    tags.push(format!("crlf:{}", render.contains("\r\n")));
    let line = render.lines().nth(loc.0).unwrap_or("");
    let nonascii_before = line.chars().take(loc.1).any(|c| !c.is_ascii());
    tags.push(format!("nonascii_before_column:{}", nonascii_before));
    tags.push(format!("column_past_line:{}", row_exists && loc.1 >= line.len()));
    let replay = json!({"text": text, "path": path, "render": render, "note": note,
        "impl": {"error": dbg, "message": msg, "pretty": pretty.as_ref().ok(), "location": [loc.0, loc.1]}});
    Some(Case { verdict, detail: format!("c05r_detail {} {} {} {}", coq_str(path), coq_str(render), coq_str(&msg), term),
        key: fnv(&format!("{}|{}|{}", text, path, render)), nontrivial: !row_exists || nonascii_before || render.contains("\r\n") || !render.ends_with('\n') || !path.is_ascii(),
        tags, replay })
}

pub fn gen(rng: &mut Rng, n: usize) -> Vec<Case> {
    quiet_panics();
    let mut out: Vec<Case> = Vec::new();
    // hand-written layouts: all of them in every run, rendered with the text itself
    for (kind, text) in FIXED {
        if out.len() >= n { break; }
        let path = *rng.pick(PATHS);
        if let Some(c) = c05r_case(text, path, text, vec![format!("src:fixed:{}", kind)], "hand-written layout") { out.push(c); }
        else { eprintln!("C05r: fixed text of kind {} is accepted by the loader", kind); }
    }
    let want = n.saturating_sub(out.len());
    // rule-breaking texts (checker errors) and malformed texts (parse errors), about 2 : 3
    let checks = crate::c06::faulty_texts(rng, want * 2 / 5);
    let malformed = crate::c07::malformed_texts(rng, want * 2);
    let mut pool: Vec<(String, Vec<String>, &'static str)> = checks.into_iter().map(|(t, rule)| (t, vec![format!("src:c06:{}", rule)], "rule-breaking text")).collect();
    pool.extend(malformed);
    let n_checks = pool.iter().filter(|p| p.2 == "rule-breaking text").count();
    let mut i_check = 0usize;
    let mut i_mal = n_checks;
    let mut tries = 0;
    while out.len() < n && tries < n * 10 && (i_check < n_checks || i_mal < pool.len()) {
        tries += 1;
        let take_check = i_check < n_checks && (i_mal >= pool.len() || tries % 5 < 2);
        let (mut text, mut tags, note) = if take_check { i_check += 1; pool[i_check - 1].clone() } else { i_mal += 1; pool[i_mal - 1].clone() };
        // layouts of the END of the text: no final newline; CRLF line ends
        if rng.chance(20) && text.ends_with('\n') { text.pop(); if text.ends_with('\r') { text.pop(); } tags.push("layout:no-final-newline".into()); }
        if rng.chance(12) && !text.contains('\r') { text = text.replace('\n', "\r\n"); tags.push("layout:crlf-all".into()); }
        let (variant, render) = pick_render_text(rng, &text);
        tags.push(format!("render_text:{}", variant));
        let path = *rng.pick(PATHS);
        if let Some(c) = c05r_case(&text, path, &render, tags, note) { out.push(c); }
    }
    out
}

pub fn replay(j: &serde_json::Value) -> Case {
    quiet_panics();
    let text = j["text"].as_str().unwrap().to_string();
    let render = j["render"].as_str().map(|s| s.to_string()).unwrap_or_else(|| text.clone());
    c05r_case(&text, j["path"].as_str().unwrap_or("rules.tsg"), &render, vec!["replay".into()], "replay").expect("the loader rejects the text as before")
}
