//! C16 — globals: required unless defaulted, list-typed when declared with `*`/`+`, read-only; the
//! caller's variable sets are unchanged.  Runs the real `File::from_str` + `File::execute` (strict and
//! lazy) on generated declaration sets x supply patterns (directly or through nested `Variables`) and
//! compares the error variant / the attribute values copied from the globals with Model/Globals.v.
use crate::common::*;
use crate::rng::Rng;
use serde_json::json;
use std::collections::BTreeSet;
use std::panic::{catch_unwind, AssertUnwindSafe};
use tree_sitter_graph::ast::File;
use tree_sitter_graph::functions::Functions;
use tree_sitter_graph::graph::Value;
use tree_sitter_graph::{ExecutionConfig, ExecutionError, Identifier, NoCancellation, Variables};

const QUANT_TXT: [&str; 4] = ["", "?", "*", "+"];
const QUANT_COQ: [&str; 4] = ["QOne", "QOpt", "QStar", "QPlus"];
const QUANT_TAG: [&str; 4] = ["none", "?", "*", "+"];
const KIND_TAG: [&str; 8] = ["absent", "string", "integer", "bool", "null", "list", "set", "composite"];
const NAMES: [&str; 4] = ["a", "b", "c", "d"];
const LONG_NAMES: [&str; 6] = ["file_path", "pkg-name", "xs", "_r", "root9", "é"];
const DEFAULTS: [&str; 6] = ["dflt", "", "x y", "a\"q\\", "nl\ntab\t", "日本"];
const BLOCK_TAG: [&str; 3] = ["if", "for", "scan"];
const FORM_COQ: [&str; 8] = ["SFGlobalAgain", "SFLet", "SFVar", "SFNode", "SFFor", "SFListComp", "SFSetComp", "SFSet"];
const SHADOW_TAG: [&str; 4] = ["let", "var", "node", "for"];

#[derive(Clone, Debug)]
pub struct Decl { name: String, quant: usize, default: Option<String> }

type Frame = Vec<(String, GV)>;

#[derive(Clone, Debug)]
pub enum Spec {
    /// declarations, the caller's chain (head = the set passed to ExecutionConfig), mode, nested blocks
    /// (kind, index of the declared global read inside), optional local definition of an undeclared name,
    /// number of stanzas (the second one, on `(pass_statement)`, copies every global to its own node)
    Dyn { decls: Vec<Decl>, frames: Vec<Frame>, lazy: bool, blocks: Vec<(usize, usize)>, shadow: Option<(usize, String)>, stanzas: usize, origin: String },
    /// load-time rule: form applied to `name`
    Static { decls: Vec<Decl>, form: usize, name: String },
}

// ---------------------------------------------------------------- DSL text
fn esc(s: &str) -> String {
    let mut o = String::new();
    for c in s.chars() {
        match c { '"' => o.push_str("\\\""), '\\' => o.push_str("\\\\"), '\n' => o.push_str("\\n"), '\t' => o.push_str("\\t"), c => o.push(c) }
    }
    o
}
fn decl_lines(decls: &[Decl]) -> String {
    let mut s = String::new();
    for d in decls {
        s.push_str(&format!("global {}{}", d.name, QUANT_TXT[d.quant]));
        if let Some(t) = &d.default { s.push_str(&format!(" = \"{}\"", esc(t))); }
        s.push('\n');
    }
    s
}
/// the program and its reads (attribute name, global name) in ascending attribute order
fn dyn_dsl(decls: &[Decl], blocks: &[(usize, usize)], shadow: &Option<(usize, String)>, stanzas: usize) -> (String, Vec<(String, String)>) {
    let mut s = decl_lines(decls);
    let mut reads = Vec::new();
    s.push_str("(module) {\n  node n\n");
    if let Some((form, x)) = shadow {
        s.push_str(&match form { 0 => format!("  let {} = 1\n", x), 1 => format!("  var {} = 1\n", x),
                                 2 => format!("  node {}\n", x), _ => format!("  for {} in [#true] {{ }}\n", x) });
    }
    for d in decls {
        let attr = format!("r{:02}", reads.len());
        s.push_str(&format!("  attr (n) {} = {}\n", attr, d.name));
        reads.push((attr, d.name.clone()));
    }
    let mut close = Vec::new();
    for (lvl, (kind, di)) in blocks.iter().enumerate() {
        let ind = "  ".repeat(lvl + 1);
        match kind {
            0 => { s.push_str(&format!("{}if #true {{\n", ind)); close.push(format!("{}}}\n", ind)); }
            1 => { s.push_str(&format!("{}for it{} in [#true] {{\n", ind, lvl)); close.push(format!("{}}}\n", ind)); }
            _ => { s.push_str(&format!("{}scan \"x\" {{ \"x\" {{\n", ind)); close.push(format!("{}}} }}\n", ind)); }
        }
        let attr = format!("r{:02}", reads.len());
        let name = &decls[*di % decls.len()].name;
        s.push_str(&format!("{}  attr (n) {} = {}\n", ind, attr, name));
        reads.push((attr, name.clone()));
    }
    while let Some(c) = close.pop() { s.push_str(&c); }
    s.push_str("}\n");
    if stanzas >= 2 {
        s.push_str("(pass_statement) {\n  node m\n");
        for d in decls.iter().rev() {
            let attr = format!("r{:02}", reads.len());
            s.push_str(&format!("  attr (m) {} = {}\n", attr, d.name));
            reads.push((attr, d.name.clone()));
        }
        s.push_str("}\n");
    }
    (s, reads)
}
fn static_dsl(decls: &[Decl], form: usize, x: &str) -> String {
    let mut s = decl_lines(decls);
    if form == 0 { s.push_str(&format!("global {}\n", x)); }
    s.push_str("(module) {\n  node n\n  var z0 = 0\n");
    s.push_str(&match form {
        0 => String::new(),
        1 => format!("  let {} = 1\n", x),
        2 => format!("  var {} = 1\n", x),
        3 => format!("  node {}\n", x),
        4 => format!("  for {} in [#true] {{ }}\n", x),
        5 => format!("  attr (n) q = [ #true for {} in [#true] ]\n", x),
        6 => format!("  attr (n) q = {{ #true for {} in [#true] }}\n", x),
        _ => format!("  set {} = 1\n", x),
    });
    s.push_str("}\n");
    s
}

// ---------------------------------------------------------------- running the implementation
fn to_value(v: &GV) -> Value {
    match v {
        GV::Null => Value::Null, GV::Bool(b) => Value::Boolean(*b), GV::Int(n) => Value::Integer(*n),
        GV::Str(s) => Value::String(s.clone()),
        GV::List(l) => Value::List(l.iter().map(to_value).collect()),
        GV::Set(l) => Value::Set(l.iter().map(to_value).collect::<BTreeSet<_>>()),
        GV::Syn(_) | GV::Graph(_) => panic!("C16 supplies node-free values only"),
    }
}
fn from_value(v: &Value) -> GV {
    match v {
        Value::Null => GV::Null, Value::Boolean(b) => GV::Bool(*b), Value::Integer(n) => GV::Int(*n),
        Value::String(s) => GV::Str(s.clone()),
        Value::List(l) => GV::List(l.iter().map(from_value).collect()),
        Value::Set(l) => GV::Set(l.iter().map(from_value).collect()),
        Value::SyntaxNode(_) => GV::Syn(usize::MAX), Value::GraphNode(r) => GV::Graph(r.index() as u32),
    }
}
fn fill(v: &mut Variables, frame: &Frame) {
    for (k, gv) in frame { v.add(Identifier::from(k.as_str()), to_value(gv)).expect("names unique within a frame"); }
}
fn snapshot(chain: &[&Variables]) -> Vec<Vec<(String, GV)>> {
    chain.iter().map(|v| {
        let mut l: Vec<(String, GV)> = v.iter().map(|(k, x)| (k.as_str().to_string(), from_value(x))).collect();
        l.sort_by(|a, b| a.0.cmp(&b.0));
        l
    }).collect()
}
/// builds `frames` (head = innermost) as a chain of nested Variables and calls f(innermost first)
fn with_chain<R>(frames: &[Frame], f: impl FnOnce(&[&Variables]) -> R) -> R {
    let n = frames.len();
    assert!(n >= 1 && n <= 4);
    let mut v0 = Variables::new();
    fill(&mut v0, &frames[n - 1]);
    if n == 1 { return f(&[&v0]); }
    let mut v1 = Variables::nested(&v0);
    fill(&mut v1, &frames[n - 2]);
    if n == 2 { return f(&[&v1, &v0]); }
    let mut v2 = Variables::nested(&v1);
    fill(&mut v2, &frames[n - 3]);
    if n == 3 { return f(&[&v2, &v1, &v0]); }
    let mut v3 = Variables::nested(&v2);
    fill(&mut v3, &frames[0]);
    f(&[&v3, &v2, &v1, &v0])
}

pub const ERROR_NAMES: [&str; 28] = ["Cancelled", "CannotAssignImmutableVariable", "CannotAssignScopedVariable",
    "CannotDefineMutableScopedVariable", "DuplicateAttribute", "DuplicateEdge", "DuplicateVariable", "ExpectedGraphNode",
    "ExpectedList", "ExpectedBoolean", "ExpectedInteger", "ExpectedString", "ExpectedSyntaxNode", "InvalidParameters",
    "InvalidVariableScope", "MissingGlobalVariable", "RecursivelyDefinedScopedVariable", "RecursivelyDefinedVariable",
    "UndefinedCapture", "UndefinedFunction", "UndefinedRegexCapture", "UndefinedScopedVariable", "EmptyRegexCapture",
    "UndefinedEdge", "UndefinedVariable", "VariableScopesAlreadyForced", "FunctionFailed", "InContext"];
/// numbering of `error_code` in Model/Errors.v, on the root cause; the variant name comes from Debug
pub fn exec_error_code(e: &ExecutionError) -> u32 {
    let mut e = e;
    while let ExecutionError::InContext(_, inner) = e { e = inner; }
    let dbg = format!("{:?}", e);
    let name: String = dbg.chars().take_while(|c| c.is_alphanumeric()).collect();
    ERROR_NAMES.iter().position(|n| *n == name).map(|i| i as u32 + 1).unwrap_or(0)
}

#[derive(Debug)]
enum Obs { Err(u32), Ok(Vec<(String, GV)>), Panic, LoadFailed(String) }
impl Obs {
    fn coq(&self) -> String {
        match self {
            Obs::Err(c) => format!("(GObsErr {})", c),
            Obs::Ok(l) => format!("(GObsOk {})", coq_list(&l.iter().map(|(k, v)| format!("({}, {})", coq_str(k), v.coq())).collect::<Vec<_>>())),
            Obs::Panic => "GObsPanic".into(),
            Obs::LoadFailed(_) => "(GObsErr 1000)".into(),
        }
    }
    fn tag(&self) -> String {
        match self {
            Obs::Err(c) => format!("out:{}", ERROR_NAMES.get((*c as usize).wrapping_sub(1)).unwrap_or(&"?")),
            Obs::Ok(_) => "out:ok".into(), Obs::Panic => "out:panic".into(), Obs::LoadFailed(_) => "out:load-failed".into(),
        }
    }
}

/// (observation, caller's sets changed or not built as specified)
fn run_dyn(dsl: &str, frames: &[Frame], lazy: bool) -> (Obs, bool) {
    let file = match File::from_str(tree_sitter_python::LANGUAGE.into(), dsl) {
        Ok(f) => f,
        Err(e) => return (Obs::LoadFailed(format!("{:?}", e)), false),
    };
    let tree = parse_python("pass");
    let functions = Functions::stdlib();
    // what the caller's sets must contain, canonicalised like the snapshots (BTreeSet order inside sets)
    let mut want: Vec<Vec<(String, GV)>> = frames.iter().map(|f| f.iter().map(|(k, v)| (k.clone(), from_value(&to_value(v)))).collect()).collect();
    for f in want.iter_mut() { f.sort_by(|a, b| a.0.cmp(&b.0)); }
    with_chain(frames, |chain| {
        let before = snapshot(chain);
        let r = catch_unwind(AssertUnwindSafe(|| {
            let config = ExecutionConfig::new(&functions, chain[0]).lazy(lazy);
            match file.execute(&tree, "pass", &config, &NoCancellation) {
                Ok(graph) => {
                    // attribute names are distinct across the program: merge the attributes of all nodes
                    let mut attrs: Vec<(String, GV)> = graph.iter_nodes().flat_map(|n|
                        graph[n].attributes.iter().map(|(k, v)| (k.as_str().to_string(), from_value(v))).collect::<Vec<_>>()).collect();
                    if graph.node_count() == 0 { attrs.push(("<no node>".to_string(), GV::Null)); }
                    attrs.sort_by(|a, b| a.0.cmp(&b.0));
                    Obs::Ok(attrs)
                }
                Err(e) => Obs::Err(exec_error_code(&e)),
            }
        }));
        let after = snapshot(chain);
        let changed = before != after || before != want;
        (r.unwrap_or(Obs::Panic), changed)
    })
}

fn check_error_code(dbg: &str) -> u32 {
    let inner = match dbg.strip_prefix("Check(") { Some(r) => r, None => return 0 };
    let name: String = inner.chars().take_while(|c| c.is_alphanumeric()).collect();
    match name.as_str() { "DuplicateGlobalVariable" => 1, "CannotHideGlobalVariable" => 2, "CannotSetGlobalVariable" => 3, _ => 0 }
}

// ---------------------------------------------------------------- Coq terms
fn decl_coq(i: usize, d: &Decl) -> String {
    format!("{{| gl_name := {}; gl_quant := {}; gl_default := {}; gl_loc := ({}, 7) |}}",
        coq_str(&d.name), QUANT_COQ[d.quant], coq_opt(d.default.as_ref().map(|s| coq_str(s))), i)
}
fn decls_coq(decls: &[Decl]) -> String { coq_list(&decls.iter().enumerate().map(|(i, d)| decl_coq(i, d)).collect::<Vec<_>>()) }
fn frames_coq(frames: &[Frame]) -> String {
    coq_list(&frames.iter().map(|f| coq_list(&f.iter().map(|(k, v)| format!("({}, {})", coq_str(k), v.coq())).collect::<Vec<_>>())).collect::<Vec<_>>())
}
fn decl_json(d: &Decl) -> serde_json::Value { json!({"name": d.name, "quant": d.quant, "default": d.default}) }
fn decl_from_json(j: &serde_json::Value) -> Decl {
    Decl { name: j["name"].as_str().unwrap().to_string(), quant: j["quant"].as_u64().unwrap() as usize,
           default: j["default"].as_str().map(|s| s.to_string()) }
}

fn kind_of(v: Option<&GV>) -> usize {
    match v { None => 0, Some(GV::Str(_)) => 1, Some(GV::Int(_)) => 2, Some(GV::Bool(_)) => 3, Some(GV::Null) => 4,
              Some(GV::List(l)) => if l.iter().any(|x| matches!(x, GV::List(_) | GV::Set(_))) || l.is_empty() { 7 } else { 5 },
              Some(GV::Set(_)) => 6, _ => 7 }
}
fn chain_get<'a>(frames: &'a [Frame], k: &str) -> Option<&'a GV> {
    frames.iter().find_map(|f| f.iter().find(|(n, _)| n == k).map(|(_, v)| v))
}

pub fn make_case(spec: &Spec) -> Case {
    match spec {
        Spec::Dyn { decls, frames, lazy, blocks, shadow, stanzas, origin } => {
            let (dsl, reads) = dyn_dsl(decls, blocks, shadow, *stanzas);
            let (obs, changed) = run_dyn(&dsl, frames, *lazy);
            let reads_coq = coq_list(&reads.iter().map(|(a, g)| format!("({}, {})", coq_str(a), coq_str(g))).collect::<Vec<_>>());
            let shadow_coq = coq_opt(shadow.as_ref().map(|(_, x)| coq_str(x)));
            let args = format!("{} {} {} {}", decls_coq(decls), frames_coq(frames), shadow_coq, reads_coq);
            let verdict = format!("c16_verdict {} {} {}", args, coq_bool(changed), obs.coq());
            let supplied = decls.iter().filter(|d| chain_get(frames, &d.name).is_some()).count();
            let defaults = decls.iter().filter(|d| d.default.is_some()).count();
            let mut tags = vec![if origin == "random" || origin == "replay" { origin.clone() } else { "product-exhaustive".to_string() }, format!("phase:{}", origin), format!("globals={}", decls.len()), format!("mode:{}", if *lazy { "lazy" } else { "strict" }),
                                format!("depth={}", blocks.len()), format!("chain={}", frames.len()), format!("stanzas={}", stanzas), obs.tag()];
            for d in decls {
                tags.push(format!("quant:{}", QUANT_TAG[d.quant]));
                tags.push(format!("default:{}", if d.default.is_some() { "yes" } else { "no" }));
                tags.push(format!("supply:{}", KIND_TAG[kind_of(chain_get(frames, &d.name))]));
                let holders = frames.iter().filter(|f| f.iter().any(|(n, _)| *n == d.name)).count();
                if holders > 1 { tags.push("supply:shadowed-in-chain".into()); }
                if holders > 0 && !frames[0].iter().any(|(n, _)| *n == d.name) { tags.push("supply:via-outer-set".into()); }
            }
            for (k, _) in blocks { tags.push(format!("block:{}", BLOCK_TAG[*k])); }
            if let Some((f, x)) = shadow {
                tags.push(format!("local-def:{}:{}", SHADOW_TAG[*f], if chain_get(frames, x).is_some() { "of-supplied-undeclared" } else { "control" }));
            }
            if frames.iter().flatten().any(|(n, _)| !decls.iter().any(|d| d.name == *n)) { tags.push("supply:undeclared-extra".into()); }
            if changed { tags.push("CALLER-CHANGED".into()); }
            let replay = json!({"prop": "C16", "kind": "dyn", "decls": decls.iter().map(decl_json).collect::<Vec<_>>(),
                "frames": frames.iter().map(|f| f.iter().map(|(k, v)| json!([k, v.json()])).collect::<Vec<_>>()).collect::<Vec<_>>(),
                "lazy": lazy, "blocks": blocks.iter().map(|(k, d)| json!([k, d])).collect::<Vec<_>>(),
                "shadow": shadow.as_ref().map(|(f, x)| json!([f, x])), "stanzas": stanzas, "origin": origin,
                "dsl": dsl, "impl": format!("{:?}", obs), "caller_changed": changed});
            Case { key: fnv(&format!("{}|{}|{:?}|{}", args, lazy, blocks, stanzas)), verdict, detail: format!("c16_detail {}", args),
                   nontrivial: decls.len() >= 2 && defaults >= 1 && supplied >= 1, tags, replay }
        }
        Spec::Static { decls, form, name } => {
            let dsl = static_dsl(decls, *form, name);
            let (rejected, variant, dbg) = match File::from_str(tree_sitter_python::LANGUAGE.into(), &dsl) {
                Ok(_) => (false, 0, String::new()),
                Err(e) => { let d = format!("{:?}", e); (true, check_error_code(&d), d) }
            };
            let args = format!("{} {} {}", decls_coq(decls), FORM_COQ[*form], coq_str(name));
            let declared = decls.iter().any(|d| d.name == *name);
            let tags = vec!["product-exhaustive".to_string(), "phase:static".into(), format!("globals={}", decls.len()),
                            format!("static:{}:{}", FORM_COQ[*form], if declared { "global" } else { "control" }),
                            format!("out:{}", if rejected { "rejected" } else { "accepted" })];
            let replay = json!({"prop": "C16", "kind": "static", "decls": decls.iter().map(decl_json).collect::<Vec<_>>(),
                "form": form, "name": name, "dsl": dsl, "impl": dbg});
            Case { key: fnv(&format!("static|{}", args)), verdict: format!("c16_static_verdict {} {} {}", args, coq_bool(rejected), variant),
                   detail: format!("static_global_rule {}", args), nontrivial: false, tags, replay }
        }
    }
}

// ---------------------------------------------------------------- generators
/// canonical supplied value of each kind (exhaustive phases); `salt` varies the payload
fn canon_value(kind: usize, salt: usize) -> Option<GV> {
    match kind {
        0 => None,
        1 => Some(GV::Str(["sup", "", "dflt"][salt % 3].to_string())),
        2 => Some(GV::Int([7, 0, 4294967295][salt % 3])),
        3 => Some(GV::Bool(salt % 2 == 0)),
        4 => Some(GV::Null),
        5 => Some(GV::List(vec![GV::Str("l".into()), GV::Int(salt as u32)])),
        6 => Some(GV::Set(vec![GV::Int(1), GV::Str("s".into())])),
        _ => Some(if salt % 2 == 0 { GV::List(vec![]) } else { GV::List(vec![GV::List(vec![GV::Null]), GV::Set(vec![GV::Int(2)])]) }),
    }
}
/// a different-kind value that an inner set can use to hide `v`
fn other_value(v: &GV) -> GV { match v { GV::List(_) => GV::Str("inner".into()), _ => GV::List(vec![GV::Str("inner".into())]) } }

/// place the supplied values into a chain of `shape`: 0 direct; 1 two sets, values in the inner; 2 two sets,
/// values in the outer; 3 three sets, values in the outermost, an unrelated name in the middle; 4 two sets, the
/// intended value in the INNER set hides a different-kind value in the outer one; 5 values alternate inner/outer
fn place(values: &[(String, GV)], shape: usize) -> Vec<Frame> {
    match shape % 6 {
        0 => vec![values.to_vec()],
        1 => vec![values.to_vec(), vec![("u".into(), GV::Int(1))]],
        2 => vec![vec![], values.to_vec()],
        3 => vec![vec![], vec![("w".into(), GV::Str("mid".into()))], values.to_vec()],
        4 => vec![values.to_vec(), values.iter().map(|(k, v)| (k.clone(), other_value(v))).collect()],
        _ => { let mut a = Vec::new(); let mut b = Vec::new();
               for (i, kv) in values.iter().enumerate() { if i % 2 == 0 { a.push(kv.clone()) } else { b.push(kv.clone()) } }
               vec![a, b] }
    }
}

fn blocks_for(i: usize, depth: usize, ndecl: usize) -> Vec<(usize, usize)> {
    (0..depth).map(|l| ((i + l) % 3, (i / 3 + l) % ndecl)).collect()
}

/// Phase A: ONE declared global, exhaustive: quantifier(4) x default(2) x supply kind(8) x mode(2) = 128
fn phase_a() -> Vec<Spec> {
    let mut out = Vec::new();
    let mut i = 0;
    for quant in 0..4 { for has_default in [false, true] { for kind in 0..8 { for lazy in [false, true] {
        let combo = i / 2; // same values/shape/blocks for the strict and the lazy twin
        let decls = vec![Decl { name: "a".into(), quant, default: if has_default { Some(DEFAULTS[combo % 2].to_string()) } else { None } }];
        let values: Vec<(String, GV)> = canon_value(kind, combo).map(|v| ("a".to_string(), v)).into_iter().collect();
        out.push(Spec::Dyn { decls, frames: place(&values, combo), lazy, blocks: blocks_for(combo, combo % 4, 1), shadow: None, stanzas: 1 + combo % 2,
                             origin: "A".into() });
        i += 1;
    }}}}
    out
}
/// Static phase: every hiding/assigning/redeclaring form x {a declared global, a control name}
fn phase_static() -> Vec<Spec> {
    let mut out = Vec::new();
    for form in 0..8 { for target in 0..3 {
        let decls = vec![Decl { name: "a".into(), quant: form % 4, default: if form % 2 == 0 { Some("dflt".into()) } else { None } },
                         Decl { name: "b".into(), quant: (form + 1) % 4, default: None }];
        let name = match target { 0 => "a", 1 => "b", _ => if form == 7 { "z0" } else { "z" } };
        out.push(Spec::Static { decls, form, name: name.into() });
    }}
    out
}
/// Shadow phase: a local definition (let/var/node/for) of a name that is supplied but NOT declared by the
/// file (run-time DuplicateVariable guard), and the control with the name not supplied; both modes
fn phase_shadow() -> Vec<Spec> {
    let mut out = Vec::new();
    for form in 0..4 { for supplied_in in 0..3 { for lazy in [false, true] {
        let decls = vec![Decl { name: "a".into(), quant: 1, default: Some("dflt".into()) }, Decl { name: "b".into(), quant: 0, default: None }];
        let mut frames = vec![vec![("b".to_string(), GV::Int(5))], vec![]];
        match supplied_in { 0 => {}, 1 => frames[0].push(("u".into(), GV::Str("outer-u".into()))), _ => frames[1].push(("u".into(), GV::Null)) }
        out.push(Spec::Dyn { decls, frames, lazy, blocks: blocks_for(form, form % 3, 2), shadow: Some((form, "u".into())), stanzas: 1 + supplied_in % 2,
                             origin: "shadow".into() });
    }}}
    out
}
/// Phase B: TWO declared globals, exhaustive over behaviour classes per global — quantifier class {plain, list}
/// x default x supply class {absent, list, non-list} — squared, x mode = 288; class members rotate so that every
/// quantifier and every supply kind occurs
fn phase_b() -> Vec<Spec> {
    let mut out = Vec::new();
    let mut i = 0usize;
    let classes: Vec<(usize, bool, usize)> = (0..2).flat_map(|q| [false, true].into_iter().flat_map(move |d| (0..3).map(move |s| (q, d, s)))).collect();
    for c0 in &classes { for c1 in &classes {
        let mk = |name: &str, c: &(usize, bool, usize), salt: usize| -> (Decl, Option<GV>) {
            let quant = if c.0 == 0 { [0, 1][salt % 2] } else { [2, 3][salt % 2] };
            let kind = match c.2 { 0 => 0, 1 => [5, 7][salt % 2], _ => [1, 2, 3, 4, 6][salt % 5] };
            (Decl { name: name.into(), quant, default: if c.1 { Some(DEFAULTS[salt % DEFAULTS.len()].to_string()) } else { None } }, canon_value(kind, salt))
        };
        let (d0, v0) = mk("a", c0, i);
        let (d1, v1) = mk("b", c1, i / 2 + 1);
        let mut values = Vec::new();
        if let Some(v) = v0 { values.push(("a".to_string(), v)); }
        if let Some(v) = v1 { values.push(("b".to_string(), v)); }
        for lazy in [false, true] {
            out.push(Spec::Dyn { decls: vec![d0.clone(), d1.clone()], frames: place(&values, i), lazy, blocks: blocks_for(i, 1 + i % 3, 2), shadow: None, stanzas: 1 + (i / 3) % 2,
                                 origin: "B".into() });
        }
        i += 1;
    }}
    out
}
/// Phase C (thorough): TWO declared globals, full product quantifier(4) x default(2) x supply {absent,string,list,integer}
/// per global, squared, x mode = 2048
fn phase_c() -> Vec<Spec> {
    let mut out = Vec::new();
    let mut i = 0usize;
    let per: Vec<(usize, bool, usize)> = (0..4).flat_map(|q| [false, true].into_iter().flat_map(move |d| [0usize, 1, 5, 2].into_iter().map(move |s| (q, d, s)))).collect();
    for c0 in &per { for c1 in &per {
        let d0 = Decl { name: "a".into(), quant: c0.0, default: if c0.1 { Some("dflt".into()) } else { None } };
        let d1 = Decl { name: "b".into(), quant: c1.0, default: if c1.1 { Some("".into()) } else { None } };
        let mut values = Vec::new();
        if let Some(v) = canon_value(c0.2, i) { values.push(("a".to_string(), v)); }
        if let Some(v) = canon_value(c1.2, i + 1) { values.push(("b".to_string(), v)); }
        for lazy in [false, true] {
            out.push(Spec::Dyn { decls: vec![d0.clone(), d1.clone()], frames: place(&values, i), lazy, blocks: blocks_for(i, i % 4, 2), shadow: None, stanzas: 1 + (i / 5) % 2,
                                 origin: "C".into() });
        }
        i += 1;
    }}
    out
}

/// Random: 1-4 declared globals (mostly 3-4), full alphabets, random chain of 1-4 sets with hiding and
/// undeclared extras, block depth 0-3; emitted for both modes
fn random_pair(rng: &mut Rng) -> Vec<Spec> {
    let n = if rng.chance(70) { rng.range(3, 4) } else { rng.range(1, 2) };
    let mut pool: Vec<&str> = NAMES.to_vec();
    if rng.chance(30) { pool.extend_from_slice(&LONG_NAMES); }
    let mut decls: Vec<Decl> = Vec::new();
    while decls.len() < n {
        let name = *rng.pick(&pool);
        if decls.iter().any(|d| d.name == name) { continue; }
        decls.push(Decl { name: name.to_string(), quant: rng.below(4), default: if rng.chance(50) { Some(if rng.chance(50) { rng.pick(&DEFAULTS).to_string() } else { rng.pick(STR_POOL).to_string() }) } else { None } });
    }
    let vg = ValGen { n_syn: 0, n_graph: 0, allow_syn_in_set: false };
    let nframes = rng.range(1, 4);
    let mut frames: Vec<Frame> = vec![Vec::new(); nframes];
    let put = |frames: &mut Vec<Frame>, rng: &mut Rng, name: &str, v: GV| {
        let fi = rng.below(nframes);
        if !frames[fi].iter().any(|(k, _)| k == name) { frames[fi].push((name.to_string(), v)); }
    };
    // 60% of the draws are biased towards accepted configurations (lists for `*`/`+`, defaults for absent ones)
    let valid_bias = rng.chance(60);
    for d in decls.iter_mut() {
        let kind = if !valid_bias { if rng.chance(30) { 0 } else { rng.range(1, 7) } }
                   else if d.quant >= 2 { match rng.below(20) { 0..=14 => 5, 15..=17 => 0, _ => rng.range(1, 7) } }
                   else if rng.chance(25) { 0 } else { rng.range(1, 7) };
        if valid_bias && kind == 0 && d.default.is_none() && rng.chance(90) { d.default = Some(rng.pick(&DEFAULTS).to_string()); }
        let v = match kind {
            0 => None,
            7 => Some(vg.gen(rng, 2)),
            5 => Some(GV::List((0..rng.below(3)).map(|_| vg.gen(rng, 1)).collect())),
            6 => { let mut items: Vec<GV> = Vec::new(); for _ in 0..rng.below(3) { let x = vg.gen(rng, 1); if !items.contains(&x) { items.push(x); } } Some(GV::Set(items)) }
            1 => Some(GV::Str(rng.pick(STR_POOL).to_string())),
            2 => Some(GV::Int(*rng.pick(INT_POOL))),
            k => canon_value(k, rng.below(6)),
        };
        if let Some(v) = v {
            put(&mut frames, rng, &d.name, v.clone());
            if rng.chance(25) { put(&mut frames, rng, &d.name, other_value(&v)); }
        }
    }
    for extra in ["u", "w"] { if rng.chance(35) { let v = vg.gen(rng, 1); put(&mut frames, rng, extra, v); } }
    let depth = rng.below(4);
    let blocks: Vec<(usize, usize)> = (0..depth).map(|_| (rng.below(3), rng.below(n))).collect();
    let shadow = if rng.chance(12) { Some((rng.below(4), rng.pick(&["u", "w", "v"]).to_string())) } else { None };
    let stanzas = 1 + rng.below(2);
    [false, true].into_iter().map(|lazy| Spec::Dyn { decls: decls.clone(), frames: frames.clone(), lazy, blocks: blocks.clone(), shadow: shadow.clone(), stanzas, origin: "random".into() }).collect()
}

pub fn gen(rng: &mut Rng, n: usize) -> Vec<Case> {
    let mut specs: Vec<Spec> = Vec::new();
    specs.extend(phase_a());
    specs.extend(phase_static());
    specs.extend(phase_shadow());
    specs.extend(phase_b());
    if n >= 2600 { specs.extend(phase_c()); }
    while specs.len() < n { specs.extend(random_pair(rng)); }
    specs.truncate(n);
    specs.iter().map(make_case).collect()
}

pub fn replay(j: &serde_json::Value) -> Case {
    let decls: Vec<Decl> = j["decls"].as_array().unwrap().iter().map(decl_from_json).collect();
    if j["kind"] == "static" {
        return make_case(&Spec::Static { decls, form: j["form"].as_u64().unwrap() as usize, name: j["name"].as_str().unwrap().to_string() });
    }
    let frames: Vec<Frame> = j["frames"].as_array().unwrap().iter().map(|f|
        f.as_array().unwrap().iter().map(|kv| (kv[0].as_str().unwrap().to_string(), GV::from_json(&kv[1]))).collect()).collect();
    let blocks = j["blocks"].as_array().unwrap().iter().map(|b| (b[0].as_u64().unwrap() as usize, b[1].as_u64().unwrap() as usize)).collect();
    let shadow = if j["shadow"].is_null() { None } else { Some((j["shadow"][0].as_u64().unwrap() as usize, j["shadow"][1].as_str().unwrap().to_string())) };
    make_case(&Spec::Dyn { decls, frames, lazy: j["lazy"].as_bool().unwrap(), blocks, shadow, stanzas: j["stanzas"].as_u64().unwrap_or(1) as usize, origin: j["origin"].as_str().unwrap_or("replay").to_string() })
}
