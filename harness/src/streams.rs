//! Execution-family streams: C09 (histories), C11 (cancellation), C15 (debug attributes),
//! C20 (error contexts).  Shared run_in emission.
use crate::c01::{input_from_json, input_json, replace_table, ExecInput};
use crate::common::*;
use crate::dump::*;
use crate::exec::*;
use crate::gen::*;
use crate::rng::Rng;
use serde_json::json;
use tree_sitter::Tree;
use tree_sitter_graph::ast::File;
use tree_sitter_graph::graph::Graph;
use tree_sitter_graph::{ExecutionError, Identifier, NoCancellation};

/// Coq `run_in` record for one (file, mode); None when a scan regex is outside the modelled sub-language.
pub fn run_in_term(file: &File, dsl: &str, tree: &Tree, info: &TreeInfo, supplied: &[(String, GV)], lazy: bool) -> Option<String> {
    let mut d = AstDump::new();
    let file_t = d.file(file);
    let mut rx_terms = Vec::new();
    for pat in &d.regexes { rx_terms.push(crate::c10::parse_regex(pat)?.coq()); }
    let (sm, _) = stanza_matches_term(file, tree, info);
    let lm = file_matches_term(file, tree, info);
    Some(format!("{{| ri_lazy := {}; ri_file := {}; ri_rxs := {}; ri_tbl := {}; ri_supplied := {}; ri_smatches := {}; ri_lmatches := {} |}}",
        coq_bool(lazy), file_t, coq_list(&rx_terms), replace_table(dsl), globals_term(supplied), sm, lm))
}

fn label_code(s: &str) -> u32 {
    match s {
        "executing statement" => 1, "executing attribute" => 2, "processing scan matches" => 3,
        "processing matches" => 4, "evaluating statement" => 5, "evaluating value" => 6, _ => 99,
    }
}

// ---------------------------------------------------------------- C11
pub fn c11_case(inp: &ExecInput, lazy: bool, rng_pick: u64) -> Option<Case> {
    let file = load(&inp.dsl).ok()?;
    let tree = parse_python(&inp.src);
    let info = TreeInfo::new(&tree, &inp.src);
    let flag = CountingFlag::new(None);
    let mut graph = Graph::new();
    let obs = execute(&file, &tree, &info, &mut graph, &inp.supplied, lazy, false, &flag);
    let trace: Vec<u32> = flag.trace.borrow().iter().map(|s| label_code(s)).collect();
    let n = trace.len() as u64;
    // direct stream: every k from 1 to n (exhaustive); the flag fails from its k-th poll on
    let mut direct_bad: Option<(u64, String)> = None;
    if let Obs::Ok(_) = obs {
        for k in 1..=n {
            let f = CountingFlag::new(Some(k));
            let mut g = Graph::new();
            let r = std::panic::catch_unwind(std::panic::AssertUnwindSafe(|| {
                let globals = make_globals(&inp.supplied, &mut g, &info);
                let functions = tree_sitter_graph::functions::Functions::stdlib();
                let config = tree_sitter_graph::ExecutionConfig::new(&functions, &globals).lazy(lazy);
                file.execute_into(&mut g, &tree, info.src, &config, &f)
            }));
            let ok = match &r { Ok(Err(ExecutionError::Cancelled(_))) => f.count.get() == k, _ => false };
            if !ok {
                let what = match &r { Ok(Ok(())) => "Ok".to_string(), Ok(Err(e)) => format!("{:?}", e), Err(_) => "PANIC".into() };
                direct_bad = Some((k, format!("polls after={} result={}", f.count.get(), what)));
                break;
            }
        }
    }
    // "polled at least once per match in lazy mode", judged on the implementation alone: a successful lazy run has at least
    // as many per-match polls as the merged file query has matches on the tree
    let mut per_match_bad: Option<String> = None;
    if lazy { if let Obs::Ok(_) = obs {
        let matches = raw_matches(file.query.as_ref().unwrap(), &tree, &info).len();
        let polls = flag.trace.borrow().iter().filter(|s| **s == "processing matches").count();
        if polls < matches { per_match_bad = Some(format!("{} matches of the merged query but only {} per-match polls", matches, polls)); }
    } }
    // samples checked in the model as well: first, last, and two pseudo-random indices
    let mut samples: Vec<(u64, u32)> = Vec::new();
    if let Obs::Ok(_) = obs {
        if n > 0 {
            let mut ks = vec![1, n, 1 + rng_pick % n, 1 + (rng_pick / 7) % n];
            ks.sort(); ks.dedup();
            for k in ks { samples.push((k, trace[(k - 1) as usize])); }
        }
    }
    let r = run_in_term(&file, &inp.dsl, &tree, &info, &inp.supplied, lazy)?;
    let model = format!("c11_verdict ({}) ({}) {} {} {}", tree_term(&info), r,
        coq_list(&trace.iter().map(|x| x.to_string()).collect::<Vec<_>>()), obs.coq(),
        coq_list(&samples.iter().map(|(k, l)| format!("({}, {})", k, l)).collect::<Vec<_>>()));
    let verdict = match (&direct_bad, &per_match_bad) { (Some(_), _) => "30".to_string(), (None, Some(_)) => "31".to_string(), (None, None) => model };
    let mut replay = input_json(inp);
    replay["lazy"] = json!(lazy);
    replay["impl"] = json!({"polls": n, "outcome": obs.class(), "direct_violation": direct_bad.as_ref().map(|(k, w)| format!("flag failing from poll {}: {}", k, w)), "per_match_violation": per_match_bad});
    let mut tags = vec![format!("mode:{}", if lazy { "lazy" } else { "strict" }), format!("outcome:{}", obs.class()), format!("polls:{}", (n / 20) * 20)];
    for l in [1u32, 2, 3, 4, 5, 6] { if trace.contains(&l) { tags.push(format!("label:{}", l)); } }
    Some(Case { verdict, detail: format!("c11_detail ({}) ({})", tree_term(&info), r), key: fnv(&format!("{}|{}|{}", inp.dsl, inp.src, lazy)),
        nontrivial: n >= 10 && trace.contains(&3) || n >= 20, tags, replay })
}
pub fn c11_gen(rng: &mut Rng, n: usize) -> Vec<Case> {
    quiet_panics();
    let opts = GenOpts::full();
    let mut out = Vec::new();
    let mut tries = 0;
    while out.len() < n && tries < n * 20 {
        tries += 1;
        let mut inp = crate::c01::gen_input(rng, &opts);
        if inp.src.len() > 160 { inp.src = CORPUS[2 + rng.below(2)].to_string(); }   // keep the k-loop small
        let lazy = rng.chance(50);
        let pick = rng.next();
        if let Some(c) = c11_case(&inp, lazy, pick) { out.push(c); }
    }
    out
}
pub fn c11_replay(j: &serde_json::Value) -> Case {
    quiet_panics();
    c11_case(&input_from_json(j), j["lazy"].as_bool().unwrap_or(false), 12345).expect("replay loads")
}

// ---------------------------------------------------------------- C15
fn strip_debug(obs: &Obs) -> Obs {
    match obs {
        Obs::Ok(g) => Obs::Ok(g.iter().map(|(a, es)| {
            let f = |v: &Vec<(String, GV)>| v.iter().filter(|(k, _)| k != DLOC && k != DVAR && k != DMATCH).cloned().collect::<Vec<_>>();
            (f(a), es.iter().map(|(s, ea)| (*s, f(ea))).collect())
        }).collect()),
        o => o.clone(),
    }
}
pub fn c15_case(inp: &ExecInput, lazy: bool) -> Option<Case> {
    let file = load(&inp.dsl).ok()?;
    let tree = parse_python(&inp.src);
    let info = TreeInfo::new(&tree, &inp.src);
    let plain = execute_fresh(&file, &tree, &info, &inp.supplied, lazy, false);
    let dbg = execute_fresh(&file, &tree, &info, &inp.supplied, lazy, true);
    // property predicate on the implementation: erase the three attributes and compare
    let neutral = match (&plain, &strip_debug(&dbg)) {
        (Obs::Ok(a), Obs::Ok(b)) => a == b,
        (Obs::Err(_, _), Obs::Err(_, _)) => true,
        (Obs::Panic, _) | (_, Obs::Panic) => false,
        _ => false,
    };
    // every node created by a `node` statement carries the three attributes; every edge carries a location
    let mut attrs_ok = true;
    if let Obs::Ok(g) = &dbg {
        for (a, es) in g {
            let has_var = a.iter().any(|(k, _)| k == DVAR);
            let has_loc = a.iter().any(|(k, _)| k == DLOC);
            let has_m = a.iter().any(|(k, _)| k == DMATCH);
            if has_var != has_loc || has_var != has_m { attrs_ok = false; }
            for (_, ea) in es { if !ea.iter().any(|(k, _)| k == DLOC) { attrs_ok = false; } }
        }
    }
    // the cited locations are judged against the DSL TEXT (1-based line, 1-based CHARACTER column): at a node's location
    // stands its variable's text, at an edge's location stands an `edge` keyword
    let mut loc_ok = true;
    if let Obs::Ok(g) = &dbg {
        let lines: Vec<&str> = inp.dsl.lines().collect();
        let at = |loc: &str, want: &str| -> bool {
            let p: Vec<&str> = loc.split_whitespace().collect();          // "line R column C"
            if p.len() != 4 { return false; }
            match (p[1].parse::<usize>(), p[3].parse::<usize>()) {
                (Ok(r), Ok(c)) if r >= 1 && c >= 1 => lines.get(r - 1).map(|l| l.chars().skip(c - 1).collect::<String>().starts_with(want)).unwrap_or(false),
                _ => false,
            }
        };
        for (a, es) in g {
            let var = a.iter().find(|(k, _)| k == DVAR).and_then(|(_, v)| if let GV::Str(s) = v { Some(s.clone()) } else { None });
            let loc = a.iter().find(|(k, _)| k == DLOC).and_then(|(_, v)| if let GV::Str(s) = v { Some(s.clone()) } else { None });
            // a scoped variable `<scope>.name` is located at its NAME (what the parser records for it)
            if let (Some(v), Some(l)) = (var, loc) { let want = v.rsplit('.').next().unwrap_or(&v).to_string(); if !at(&l, &want) { loc_ok = false; } }
            for (_, ea) in es { if let Some((_, GV::Str(l))) = ea.iter().find(|(k, _)| k == DLOC) { if !at(l, "edge") { loc_ok = false; } } }
        }
    }
    let r = run_in_term(&file, &inp.dsl, &tree, &info, &inp.supplied, lazy)?;
    let model = format!("c15_verdict ({}) ({}) {}", tree_term(&info), r, dbg.coq());
    let verdict = if !neutral { "40".to_string() } else if !attrs_ok { "41".to_string() } else if !loc_ok { "42".to_string() } else { model };
    let mut replay = input_json(inp);
    replay["lazy"] = json!(lazy);
    replay["impl"] = json!({"plain": plain.class(), "debug": dbg.class(), "neutral": neutral, "attrs_ok": attrs_ok,
        "debug_err": match &dbg { Obs::Err(_, t) => t.clone(), _ => String::new() }});
    let multi_edge = inp.dsl.matches("edge ").count() >= 2;
    let tags = vec![format!("mode:{}", if lazy { "lazy" } else { "strict" }), format!("outcome:{}", dbg.class()), format!("multi_edge:{}", multi_edge)];
    Some(Case { verdict, detail: format!("c15_detail ({}) ({})", tree_term(&info), r), key: fnv(&format!("{}|{}|{}", inp.dsl, inp.src, lazy)),
        nontrivial: multi_edge && matches!(dbg, Obs::Ok(_)), tags, replay })
}
pub fn c15_gen(rng: &mut Rng, n: usize) -> Vec<Case> {
    quiet_panics();
    let opts = GenOpts::full();
    let mut out = Vec::new();
    let mut tries = 0;
    while out.len() < n && tries < n * 20 {
        tries += 1;
        let mut inp = crate::c01::gen_input(rng, &opts);
        // other layouts: several statements per line behind non-ASCII literals, tabs (character vs byte columns)
        if rng.chance(35) { inp.dsl = relayout(rng, &inp.dsl); }
        let lazy = rng.chance(50);
        if let Some(c) = c15_case(&inp, lazy) { out.push(c); }
    }
    out
}
pub fn c15_replay(j: &serde_json::Value) -> Case {
    quiet_panics();
    c15_case(&input_from_json(j), j["lazy"].as_bool().unwrap_or(false)).expect("replay loads")
}

// ---------------------------------------------------------------- C20
/// Parse the outermost `InContext(Statement([..]), ..)` of the Debug rendering of an ExecutionError.
/// Returns for each StatementContext: (stmt row, col, stanza row, col, source row, col, node kind).
pub fn outer_contexts(dbg: &str) -> Vec<(u64, u64, u64, u64, u64, u64, String)> {
    let mut out = Vec::new();
    let prefix = "InContext(Statement([";
    if !dbg.starts_with(prefix) { return out; }
    let b: Vec<char> = dbg.chars().collect();
    let mut i = prefix.chars().count();
    // reads `"...escaped..."` starting at the opening quote; returns (content, index after the closing quote)
    fn read_quoted(b: &[char], mut i: usize) -> (String, usize) {
        let mut s = String::new();
        i += 1;
        while i < b.len() && b[i] != '"' {
            if b[i] == '\\' && i + 1 < b.len() { s.push(b[i]); s.push(b[i + 1]); i += 2; } else { s.push(b[i]); i += 1; }
        }
        (s, i + 1)
    }
    fn expect(b: &[char], i: usize, lit: &str) -> Option<usize> {
        let l: Vec<char> = lit.chars().collect();
        if i + l.len() <= b.len() && b[i..i + l.len()] == l[..] { Some(i + l.len()) } else { None }
    }
    fn number(b: &[char], mut i: usize) -> (u64, usize) {
        let mut n = 0u64;
        while i < b.len() && b[i].is_ascii_digit() { n = n * 10 + b[i].to_digit(10).unwrap() as u64; i += 1; }
        (n, i)
    }
    fn location(b: &[char], i: usize, field: &str) -> Option<(u64, u64, usize)> {
        let i = expect(b, i, &format!("{}: Location {{ row: ", field))?;
        let (r, i) = number(b, i);
        let i = expect(b, i, ", column: ")?;
        let (c, i) = number(b, i);
        let i = expect(b, i, " }")?;
        Some((r, c, i))
    }
    loop {
        let Some(j) = expect(&b, i, "StatementContext { statement: ") else { break };
        let (_, j) = read_quoted(&b, j);
        let Some(j) = expect(&b, j, ", ") else { break };
        let Some((sr, sc, j)) = location(&b, j, "statement_location") else { break };
        let Some(j) = expect(&b, j, ", ") else { break };
        let Some((zr, zc, j)) = location(&b, j, "stanza_location") else { break };
        let Some(j) = expect(&b, j, ", ") else { break };
        let Some((pr, pc, j)) = location(&b, j, "source_location") else { break };
        let Some(j) = expect(&b, j, ", node_kind: ") else { break };
        let (kind, j) = read_quoted(&b, j);
        let Some(j) = expect(&b, j, " }") else { break };
        out.push((sr, sc, zr, zc, pr, pc, kind));
        i = j;
        if let Some(j2) = expect(&b, i, ", ") { i = j2; } else { break; }
    }
    out
}

pub fn c20_case(inp: &ExecInput, lazy: bool, fault: &str, depth: usize) -> Option<Case> {
    let file = load(&inp.dsl).ok()?;
    let tree = parse_python(&inp.src);
    let info = TreeInfo::new(&tree, &inp.src);
    let mut graph = Graph::new();
    let res = std::panic::catch_unwind(std::panic::AssertUnwindSafe(|| {
        let globals = make_globals(&inp.supplied, &mut graph, &info);
        let functions = tree_sitter_graph::functions::Functions::stdlib();
        let config = tree_sitter_graph::ExecutionConfig::new(&functions, &globals).lazy(lazy);
        file.execute_into(&mut graph, &tree, info.src, &config, &NoCancellation)
    }));
    let err = match res { Ok(Err(e)) => e, _ => return None };      // only failing runs are C20 cases
    let code = error_code(root_cause(&err));
    let dbg = format!("{:?}", err);
    let ctxs = outer_contexts(&dbg);
    // pretty rendering must show the cited DSL and source lines
    let pretty = std::panic::catch_unwind(std::panic::AssertUnwindSafe(|| {
        format!("{}", err.display_pretty(std::path::Path::new("src.py"), info.src, std::path::Path::new("rules.tsg"), &inp.dsl))
    }));
    let mut pretty_ok = true;
    match &pretty {
        Err(_) => pretty_ok = false,
        Ok(text) => {
            for c in &ctxs {
                if !text.contains(&format!("rules.tsg:{}:{}:", c.0 + 1, c.1 + 1)) { pretty_ok = false; }
                if !text.contains(&format!("rules.tsg:{}:{}:", c.2 + 1, c.3 + 1)) { pretty_ok = false; }
                if !text.contains(&format!("src.py:{}:{}:", c.4 + 1, c.5 + 1)) { pretty_ok = false; }
                if let Some(line) = inp.dsl.lines().nth(c.0 as usize) { if !text.contains(line) { pretty_ok = false; } }
            }
        }
    }
    let is_cancel = matches!(err, ExecutionError::Cancelled(_));
    let shape_ok = is_cancel || !ctxs.is_empty();
    let r = run_in_term(&file, &inp.dsl, &tree, &info, &inp.supplied, lazy)?;
    let ctx_terms: Vec<String> = ctxs.iter().map(|c| format!("(({}, {}), ({}, {}), ({}, {}), {})", c.0, c.1, c.2, c.3, c.4, c.5, coq_str(&c.6))).collect();
    let model = format!("c20_verdict ({}) ({}) {} {}", tree_term(&info), r, code, coq_list(&ctx_terms));
    let verdict = if !shape_ok { "50".to_string() } else if !pretty_ok { "51".to_string() } else { model };
    let mut replay = input_json(inp);
    replay["lazy"] = json!(lazy);
    replay["fault"] = json!(fault);
    replay["impl"] = json!({"error": dbg, "contexts": ctxs.len(), "pretty_ok": pretty_ok});
    let tags = vec![format!("mode:{}", if lazy { "lazy" } else { "strict" }), format!("err:{}", code), format!("depth:{}", depth), format!("contexts:{}", ctxs.len()),
                    format!("injected:{}", !fault.is_empty())];
    Some(Case { verdict, detail: format!("c20_detail ({}) ({})", tree_term(&info), r), key: fnv(&format!("{}|{}|{}", inp.dsl, inp.src, lazy)),
        nontrivial: depth >= 1 || ctxs.len() >= 2, tags, replay })
}
/// One generated failing-run candidate of the C20 family: (input, lazy, fault description, depth of the injected fault).
pub fn c20_gen_input(rng: &mut Rng, opts: &GenOpts) -> (ExecInput, bool, String, usize) {
    let mut p = gen_program(rng, opts);
    let (mut fault, depth) = if rng.chance(70) { let (f, _, d) = inject_runtime_fault(rng, &mut p); (f, d) } else { (String::new(), 0) };
    if fault.is_empty() && rng.chance(70) {
        // conflicts between statements of DIFFERENT stanzas/matches (two-sided contexts in lazy mode)
        let x = *rng.pick(&[
            "(identifier) @id {\n  let @id.zzv = 1\n}\n\n(function_definition name: (identifier) @name body: (block) @_body) {\n  let @name.zzv = 2\n}\n",
            "(identifier) @id {\n  node @id.zzn\n  attr (@id.zzn) k = 1\n}\n\n(call function: (identifier) @fn) {\n  attr (@fn.zzn) k = 2\n}\n",
            "(module) @m {\n  node @m.zzn\n}\n\n(identifier) @id {\n  node y\n  edge @id.zzn -> y\n}\n",
            "(assignment left: (identifier) @l) @a {\n  let @l.zzv = @a\n}\n\n(identifier) @id {\n  let @id.zzv = 3\n}\n",
            "(module) @_mz {\n  node za\n  node zb\n  node zc\n  edge za -> zb\n  edge za -> zc\n  attr (za -> zb) w = 1\n  attr (za -> zc) w = 2\n  attr (za -> zb) w = 3\n}\n",
            "(module) @_mz {\n  node za\n  node zb\n  node zc\n  edge za -> zc\n  edge za -> zb\n  attr (za -> zc) w = 1\n  attr (za -> zb) w = 1\n  attr (za -> zb) v = 1\n  attr (za -> zc) w = 4\n}\n",
        ]);
        let pos = rng.below(p.stanzas.len() + 1);
        p.stanzas.insert(pos, x.to_string());
        fault = "cross-stanza conflict".to_string();
    }
    if fault.is_empty() && rng.chance(35) {
        // the fault sits in the SCOPE of a scoped-variable definition (a graph node instead of a syntax node): in lazy mode
        // it is found when the variables of that name are forced -- by a reader in another stanza, by a reader through a
        // local variable inside a nested block, or by nobody (final sweep) -- and must cite the DEFINITION
        let x = *rng.pick(&[
            "(module) @_mz {\n  node zn\n  let zn.zdef = 1\n}\n\n(identifier) @id {\n  node k\n  attr (k) val = @id.zdef\n}\n",
            "(identifier) @id {\n  node k\n  attr (k) val = @id.zdef\n}\n\n(module) @_mz {\n  node zn\n  let zn.zdef = 1\n}\n",
            "(module (_)* @xs) @_mz {\n  node zn\n  let zn.zdef = 1\n  for x in @xs {\n    let v = x.zdef\n    print v\n  }\n}\n",
            "(module) @_mz {\n  node zn\n  let zn.zdef = 1\n}\n",
            "(module) @_mz {\n  node zn\n  if some @_mz {\n    let zn.zdef = 1\n  }\n}\n\n(module) @mod {\n  node r\n  edge r -> @mod.zdef\n}\n",
            "(module) @_mz {\n  let zs = \"text\"\n  node zs.zdef\n}\n",
        ]);
        let pos = rng.below(p.stanzas.len() + 1);
        p.stanzas.insert(pos, x.to_string());
        fault = "fault in the scope of a scoped-variable definition".to_string();
    }
    if fault.is_empty() {
        // a stanza that matches nodes of DIFFERENT kinds, several of them starting at the same position (module / first
        // statement / its expression ...), and fails only for some kinds: the error belongs to a LATER match of the stanza
        let kinds = *rng.pick(&["expression_statement", "identifier|integer", "call|attribute|assignment", "block|pass_statement|return_statement"]);
        let q = *rng.pick(&["_ @zany", "(_) @zany", "[(module) (expression_statement) (identifier) (call) (assignment) (function_definition) (block) (pass_statement) (return_statement)] @zany"]);
        let x = format!("{} {{\n  scan (node-type @zany) {{\n    \"^({})$\" {{\n      let zz9 = (plus \"a\" 1)\n    }}\n  }}\n}}\n", q, kinds);
        let pos = rng.below(p.stanzas.len() + 1);
        p.stanzas.insert(pos, x);
        fault = "kind-dependent fault in a multi-kind stanza".to_string();
    }
    let src = gen_source(rng);
    let inp = ExecInput { dsl: p.text(), src, supplied: p.supplied.clone() };
    let lazy = rng.chance(50);
    (inp, lazy, fault, depth)
}
pub fn c20_gen(rng: &mut Rng, n: usize) -> Vec<Case> {
    quiet_panics();
    let opts = GenOpts::full();
    let mut out = Vec::new();
    let mut tries = 0;
    while out.len() < n && tries < n * 40 {
        tries += 1;
        let (inp, lazy, fault, depth) = c20_gen_input(rng, &opts);
        if let Some(c) = c20_case(&inp, lazy, &fault, depth) { out.push(c); }
    }
    out
}
pub fn c20_replay(j: &serde_json::Value) -> Case {
    quiet_panics();
    c20_case(&input_from_json(j), j["lazy"].as_bool().unwrap_or(false), j["fault"].as_str().unwrap_or(""), 0).expect("replay fails as before")
}

// ---------------------------------------------------------------- C09
/// graph extension on canonical observations: every old node index, attribute value, edge and edge attribute is kept
pub fn obs_extends(old: &[(Vec<(String, GV)>, Vec<(u32, Vec<(String, GV)>)>)], new: &[(Vec<(String, GV)>, Vec<(u32, Vec<(String, GV)>)>)]) -> bool {
    if new.len() < old.len() { return false; }
    for (i, (a, es)) in old.iter().enumerate() {
        let (na, nes) = &new[i];
        for kv in a { if !na.contains(kv) { return false; } }
        for (s, ea) in es {
            match nes.iter().find(|(ns, _)| ns == s) {
                None => return false,
                Some((_, nea)) => for kv in ea { if !nea.contains(kv) { return false; } },
            }
        }
    }
    true
}
pub fn obs_wf(g: &[(Vec<(String, GV)>, Vec<(u32, Vec<(String, GV)>)>)]) -> bool {
    g.iter().all(|(_, es)| es.windows(2).all(|w| w[0].0 < w[1].0))
}
/// initial graph built through the API: (nodes, node attrs, edges with attrs)
pub struct Init { pub nodes: usize, pub nattrs: Vec<(u32, String, GV)>, pub edges: Vec<(u32, u32, Vec<(String, GV)>)> }
impl Init {
    fn json(&self) -> serde_json::Value {
        json!({"nodes": self.nodes, "nattrs": self.nattrs.iter().map(|(n, k, v)| json!([n, k, v.json()])).collect::<Vec<_>>(),
               "edges": self.edges.iter().map(|(a, b, at)| json!([a, b, at.iter().map(|(k, v)| json!([k, v.json()])).collect::<Vec<_>>()])).collect::<Vec<_>>()})
    }
    fn from_json(j: &serde_json::Value) -> Init {
        Init { nodes: j["nodes"].as_u64().unwrap() as usize,
               nattrs: j["nattrs"].as_array().unwrap().iter().map(|x| (x[0].as_u64().unwrap() as u32, x[1].as_str().unwrap().to_string(), GV::from_json(&x[2]))).collect(),
               edges: j["edges"].as_array().unwrap().iter().map(|x| (x[0].as_u64().unwrap() as u32, x[1].as_u64().unwrap() as u32,
                   x[2].as_array().unwrap().iter().map(|p| (p[0].as_str().unwrap().to_string(), GV::from_json(&p[1]))).collect())).collect() }
    }
    fn build<'t>(&self, info: &TreeInfo<'t>) -> Graph<'t> {
        let mut g = Graph::new();
        let refs: Vec<_> = (0..self.nodes).map(|_| g.add_graph_node()).collect();
        for (n, k, v) in &self.nattrs { let val = v.to_value(&mut g, info); let _ = g[refs[*n as usize]].attributes.add(Identifier::from(k.as_str()), val); }
        for (a, b, at) in &self.edges {
            let _ = g[refs[*a as usize]].add_edge(refs[*b as usize]);
            for (k, v) in at {
                let val = v.to_value(&mut g, info);
                if let Some(e) = g[refs[*a as usize]].get_edge_mut(refs[*b as usize]) { let _ = e.attributes.add(Identifier::from(k.as_str()), val); }
            }
        }
        g
    }
}
pub struct Hist { pub init: Init, pub src: String, pub runs: Vec<(bool, String, Vec<(String, GV)>)> }
pub fn c09_case(h: &Hist) -> Option<Case> {
    let tree = parse_python(&h.src);
    let info = TreeInfo::new(&tree, &h.src);
    let mut graph = h.init.build(&info);
    let g0 = graph_obs(&graph, &info);
    let mut run_terms = Vec::new();
    let mut prev = g0.clone();
    let mut final_obs = Obs::Ok(g0.clone());
    let mut pred_bad: Option<String> = None;
    for (lazy, dsl, supplied) in &h.runs {
        let file = load(dsl).ok()?;
        run_terms.push(run_in_term(&file, dsl, &tree, &info, supplied, *lazy)?);
        if let Obs::Ok(_) = final_obs {
            let obs = execute(&file, &tree, &info, &mut graph, supplied, *lazy, false, &NoCancellation);
            if let Obs::Ok(g) = &obs {
                if !obs_extends(&prev, g) { pred_bad = Some("an existing node, edge or attribute value was lost or renumbered".into()); }
                if !obs_wf(g) { pred_bad = Some("edge iteration is not strictly ascending by sink (duplicate edge)".into()); }
                prev = g.clone();
            }
            final_obs = obs;
        }
    }
    let model = format!("c09_verdict ({}) {} {} {}", tree_term(&info), graph_term(&g0), coq_list(&run_terms), final_obs.coq());
    let verdict = match &pred_bad { Some(_) => "60".to_string(), None => model };
    let replay = json!({"init": h.init.json(), "src": h.src,
        "runs": h.runs.iter().map(|(l, d, s)| json!({"lazy": l, "dsl": d, "globals": s.iter().map(|(k, v)| json!([k, v.json()])).collect::<Vec<_>>()})).collect::<Vec<_>>(),
        "impl": {"outcome": final_obs.class(), "predicate_violation": pred_bad}});
    let tags = vec![format!("runs:{}", h.runs.len()), format!("init_nodes:{}", h.init.nodes), format!("outcome:{}", final_obs.class()),
                    format!("modes:{}", h.runs.iter().map(|r| if r.0 { 'L' } else { 'S' }).collect::<String>())];
    Some(Case { verdict, detail: format!("c09_detail ({}) {} {}", tree_term(&info), graph_term(&g0), coq_list(&run_terms)),
        key: fnv(&replay.to_string()), nontrivial: h.runs.len() >= 2 && h.init.nodes > 0, tags, replay })
}
/// Coq `graph` term from a canonical observation.
pub fn graph_term(g: &[(Vec<(String, GV)>, Vec<(u32, Vec<(String, GV)>)>)]) -> String {
    coq_list(&g.iter().map(|(a, es)| format!("{{| g_attrs := {}; g_edges := {} |}}", attrs_term(a),
        coq_list(&es.iter().map(|(s, ea)| format!("({}, {})", s, attrs_term(ea))).collect::<Vec<_>>()))).collect::<Vec<_>>())
}
/// a stanza that works on few nodes with many edge / edge-attribute statements in random order: edges of
/// one source are added before and after attributes are put on its other edges, attributes are re-assigned
/// with equal and with different values, pre-existing nodes (globals pn*) take part
pub fn churn_stanza(rng: &mut Rng, nglobals: usize) -> String {
    let k = 2 + rng.below(3);
    let mut names: Vec<String> = Vec::new();
    let mut body = String::new();
    // new nodes first or pre-existing ones first: decides which ids are the lower ones
    for i in 0..nglobals { names.push(format!("pn{}", i)); }
    for i in 0..k { body.push_str(&format!("  node cn{}\n", i)); names.push(format!("cn{}", i)); }
    let mut edges: Vec<(usize, usize)> = Vec::new();
    let nops = 5 + rng.below(10);
    let src = rng.below(names.len());          // most operations share one source node
    for _ in 0..nops {
        let a = if rng.chance(75) { src } else { rng.below(names.len()) };
        if rng.chance(14) {
            // attribute first, edge afterwards: fine under lazy evaluation (edges are created before attributes are set),
            // UndefinedEdge under strict evaluation
            // both end points pre-existing nodes (plain values, not thunks) when there are any
            let (a, b) = if nglobals >= 2 && rng.chance(60) { (rng.below(nglobals), rng.below(nglobals)) } else { (a, rng.below(names.len())) };
            if !edges.contains(&(a, b)) {
                body.push_str(&format!("  attr ({} -> {}) late = \"late\"\n  edge {} -> {}\n", names[a], names[b], names[a], names[b]));
                edges.push((a, b));
                continue;
            }
        }
        if edges.is_empty() || rng.chance(45) {
            let b = rng.below(names.len());
            body.push_str(&format!("  edge {} -> {}\n", names[a], names[b]));
            if !edges.contains(&(a, b)) { edges.push((a, b)); }
        } else {
            let own: Vec<(usize, usize)> = edges.iter().filter(|e| e.0 == a).cloned().collect();
            let (x, y) = if own.is_empty() || rng.chance(10) { *rng.pick(&edges) } else { *rng.pick(&own) };
            let name = rng.pick(&["ea", "eb", "ec", "keep"]);
            // `#null` is a VALUE like any other: an attribute holding it is present (re-assigning another value is a conflict)
            let v = if rng.chance(14) { "#null".to_string() } else if rng.chance(85) { format!("\"{}-{}-{}\"", names[x], names[y], name) } else { format!("{}", rng.below(2)) };
            body.push_str(&format!("  attr ({} -> {}) {} = {}\n", names[x], names[y], name, v));
        }
    }
    format!("\n(module) @_mchurn {{\n{}}}\n", body)
}
pub fn c09_gen(rng: &mut Rng, n: usize) -> Vec<Case> {
    quiet_panics();
    let mut out = Vec::new();
    let mut tries = 0;
    while out.len() < n && tries < n * 30 {
        tries += 1;
        let nodes = if rng.chance(25) { 0 } else { 1 + rng.below(4) };
        let mut init = Init { nodes, nattrs: vec![], edges: vec![] };
        for i in 0..nodes { if rng.chance(60) { init.nattrs.push((i as u32, (*rng.pick(&["keep", "dup", "name"])).to_string(), if rng.chance(20) { GV::Null } else { GV::Int(rng.below(3) as u32) })); } }
        for _ in 0..rng.below(nodes * 2 + 1) { if nodes > 0 {
            let (a, b) = (rng.below(nodes) as u32, rng.below(nodes) as u32);
            if !init.edges.iter().any(|e| e.0 == a && e.1 == b) { init.edges.push((a, b, if rng.chance(70) { vec![("keep".to_string(), GV::Int(1))] } else { vec![] })); }
        } }
        let src = (if rng.chance(60) { CORPUS[2 + rng.below(2)].to_string() } else { gen_source(rng) }) + if rng.chance(50) { "v = a.b.c\n" } else { "" };
        let nruns = 1 + rng.below(3);
        let mut runs = Vec::new();
        let mut cur_nodes = nodes;
        for _ in 0..nruns {
            let mut opts = GenOpts::full();
            opts.max_stanzas = 3;
            opts.node_globals = cur_nodes.min(2);
            let p = gen_program(rng, &opts);
            let mut text = p.text();
            if rng.chance(55) { let ng = (0..opts.node_globals).filter(|i| text.contains(&format!("global pn{}", i))).count(); text.push_str(&churn_stanza(rng, ng)); }
            // single assignment with SYNTAX-NODE values: two different nodes of the same kind that start at the same place (outer and
            // inner node of `a.b.c`) are two values — the second assignment is a conflict; the same node twice is accepted
            if rng.chance(15) {
                text.push_str(*rng.pick(&[
                    "\n(attribute object: (attribute) @zin) @zout {\n  node zz\n  attr (zz) who = @zout\n  attr (zz) who = @zin\n}\n",
                    "\n(attribute object: (attribute) @zin) @zout {\n  node zz\n  attr (zz) who = @zout\n  attr (zz) who = @zout\n  edge zz -> zz\n  attr (zz -> zz) via = @zin\n  attr (zz -> zz) via = @zout\n}\n",
                    "\n(attribute object: (attribute) @zin) @zout {\n  node zz\n  attr (zz) who = @zin, same = @zin\n  attr (zz) same = @zin\n}\n"]));
            }
            runs.push((rng.chance(50), text, p.supplied));
            cur_nodes += 1;     // not exact; only used to decide how many node globals may be declared (bounded by existing nodes)
            cur_nodes = cur_nodes.min(nodes.max(1));
        }
        if nodes == 0 { for r in runs.iter_mut() { r.2.retain(|(k, _)| !k.starts_with("pn")); } }
        let h = Hist { init, src, runs };
        if let Some(c) = c09_case(&h) { out.push(c); }
    }
    out
}
pub fn c09_replay(j: &serde_json::Value) -> Case {
    quiet_panics();
    let runs = j["runs"].as_array().unwrap().iter().map(|r| (r["lazy"].as_bool().unwrap(), r["dsl"].as_str().unwrap().to_string(),
        r["globals"].as_array().unwrap().iter().map(|p| (p[0].as_str().unwrap().to_string(), GV::from_json(&p[1]))).collect())).collect();
    c09_case(&Hist { init: Init::from_json(&j["init"]), src: j["src"].as_str().unwrap().to_string(), runs }).expect("replay loads")
}

// ---------------------------------------------------------------- C02 / C08 (direct, relational)
use crate::iso::{isomorphic, Iso};

fn order_independent_error(code: u32) -> bool { matches!(code, 5 | 7 | 8 | 9 | 10 | 11 | 12 | 13 | 14 | 20 | 21 | 27) }

pub fn c02_case(inp: &ExecInput) -> Option<Case> {
    let file = load(&inp.dsl).ok()?;
    if k7_class(&file) { return None; }      // known finding K7: the generators stay outside its class
    let tree = parse_python(&inp.src);
    let info = TreeInfo::new(&tree, &inp.src);
    let s = execute_fresh(&file, &tree, &info, &inp.supplied, false, false);
    let l = execute_fresh(&file, &tree, &info, &inp.supplied, true, false);
    let mut iso_tag = "iso:n/a";
    let code = match (&s, &l) {
        (Obs::Ok(a), Obs::Ok(b)) => match isomorphic(a, b) { Iso::Yes => { iso_tag = "iso:yes"; 0 } Iso::No => 71, Iso::Inconclusive => { iso_tag = "iso:inconclusive"; 0 } },
        (Obs::Ok(_), Obs::Err(_, _)) => 70,
        (Obs::Err(c, _), Obs::Ok(_)) => if order_independent_error(*c) { 72 } else { 0 },
        (Obs::Err(_, _), Obs::Err(_, _)) => 0,
        (Obs::Panic, Obs::Panic) => 0,      // both panic: a C05 matter (known finding classes)
        (Obs::Panic, _) | (_, Obs::Panic) => 73,
    };
    let mut replay = input_json(inp);
    replay["impl"] = json!({"strict": match &s { Obs::Err(c, t) => format!("Err {}: {}", c, t), o => o.class().to_string() },
                            "lazy": match &l { Obs::Err(c, t) => format!("Err {}: {}", c, t), o => o.class().to_string() }});
    let tags = vec![format!("strict:{}", s.class()), format!("lazy:{}", l.class()), iso_tag.to_string(),
                    format!("nodes:{}", match &s { Obs::Ok(g) => (g.len() / 5) * 5, _ => 0 })];
    let nontrivial = matches!((&s, &l), (Obs::Ok(a), Obs::Ok(_)) if a.len() >= 3) && inp.dsl.contains('.');
    Some(Case { verdict: code.to_string(), detail: "0".into(), key: fnv(&format!("{}|{}", inp.dsl, inp.src)), nontrivial, tags, replay })
}
pub fn c02_gen(rng: &mut Rng, n: usize) -> Vec<Case> {
    quiet_panics();
    let opts = GenOpts::full();
    let mut out = Vec::new();
    let mut tries = 0;
    while out.len() < n && tries < n * 20 {
        tries += 1;
        // one case in five: scoped-variable idioms (inheritance through nested definers), definitions before reads
        let inp = if rng.chance(20) { c04_input_mode(rng, true) } else { crate::c01::gen_input(rng, &opts) };
        if let Some(c) = c02_case(&inp) { out.push(c); }
    }
    out
}
pub fn c02_replay(j: &serde_json::Value) -> Case { quiet_panics(); c02_case(&input_from_json(j)).expect("replay loads") }

fn permutations(n: usize, rng: &mut Rng, cap: usize) -> Vec<Vec<usize>> {
    let mut out = Vec::new();
    if n <= 5 {
        fn go(cur: &mut Vec<usize>, used: &mut Vec<bool>, n: usize, out: &mut Vec<Vec<usize>>) {
            if cur.len() == n { out.push(cur.clone()); return; }
            for i in 0..n { if !used[i] { used[i] = true; cur.push(i); go(cur, used, n, out); cur.pop(); used[i] = false; } }
        }
        go(&mut Vec::new(), &mut vec![false; n], n, &mut out);
        if out.len() > cap { // keep identity + a deterministic sample
            let mut keep = vec![out[0].clone()];
            while keep.len() < cap { let p = out[rng.below(out.len())].clone(); if !keep.contains(&p) { keep.push(p); } }
            out = keep;
        }
    } else {
        out.push((0..n).collect());
        while out.len() < cap { let mut p: Vec<usize> = (0..n).collect(); for i in (1..n).rev() { let j = rng.below(i + 1); p.swap(i, j); } if !out.contains(&p) { out.push(p); } }
    }
    out
}
pub struct PermInput { pub preamble: Vec<String>, pub stanzas: Vec<String>, pub src: String, pub supplied: Vec<(String, GV)>, pub perms: Vec<Vec<usize>> }
pub fn c08_case(pi: &PermInput) -> Option<Case> {
    let text = |perm: &Vec<usize>| { let mut v = pi.preamble.clone(); v.extend(perm.iter().map(|i| pi.stanzas[*i].clone())); v.join("\n") };
    let tree = parse_python(&pi.src);
    let info = TreeInfo::new(&tree, &pi.src);
    let ident: Vec<usize> = (0..pi.stanzas.len()).collect();
    let base_file = load(&text(&ident)).ok()?;
    let base = execute_fresh(&base_file, &tree, &info, &pi.supplied, true, false);
    let mut code = 0;
    let mut bad_perm: Option<Vec<usize>> = None;
    let mut inconclusive = 0;
    for perm in &pi.perms {
        let f = match load(&text(perm)) { Ok(f) => f, Err(_) => { code = 82; bad_perm = Some(perm.clone()); break; } };
        let r = execute_fresh(&f, &tree, &info, &pi.supplied, true, false);
        let c = match (&base, &r) {
            (Obs::Ok(a), Obs::Ok(b)) => match isomorphic(a, b) { Iso::Yes => 0, Iso::No => 81, Iso::Inconclusive => { inconclusive += 1; 0 } },
            (Obs::Err(_, _), Obs::Err(_, _)) => 0,
            (Obs::Panic, Obs::Panic) => 0,
            _ => 80,
        };
        if c != 0 { code = c; bad_perm = Some(perm.clone()); break; }
    }
    let replay = json!({"preamble": pi.preamble, "stanzas": pi.stanzas, "src": pi.src,
        "globals": pi.supplied.iter().map(|(k, v)| json!([k, v.json()])).collect::<Vec<_>>(), "perms": pi.perms,
        "impl": {"identity": base.class(), "failing_permutation": bad_perm}});
    let tags = vec![format!("stanzas:{}", pi.stanzas.len()), format!("perms:{}", pi.perms.len()), format!("outcome:{}", base.class()), format!("iso_inconclusive:{}", inconclusive)];
    let uses_scoped = pi.stanzas.iter().any(|s| s.contains("sv"));
    Some(Case { verdict: code.to_string(), detail: "0".into(), key: fnv(&replay["stanzas"].to_string()), nontrivial: pi.stanzas.len() >= 3 && uses_scoped, tags, replay })
}
pub fn c08_gen(rng: &mut Rng, n: usize) -> Vec<Case> {
    quiet_panics();
    let mut opts = GenOpts::full();
    opts.max_stanzas = 5;
    let mut out = Vec::new();
    let mut tries = 0;
    while out.len() < n && tries < n * 20 {
        tries += 1;
        let mut p = gen_program(rng, &opts);
        if rng.chance(30) {
            // a comprehension whose ELEMENT (not its source list) reads a scoped variable defined by another stanza
            let definer = *rng.pick(&["(module (_) @s) {\n  let @s.zd = (start-row @s)\n}\n", "(expression_statement) @s {\n  let @s.zd = (node-type @s)\n}\n(module (_) @s) {\n  print @s\n}\n",
                                      "(module (_)* @stmts) @m {\n  for s in @stmts {\n    node s.zd\n    attr (s.zd) text = (source-text s)\n  }\n  print @m\n}\n",
                                      "(module (_)* @stmts) @m {\n  for s in @stmts {\n    let s.zd = (start-row s)\n  }\n  print @m\n}\n"]);
            let reader = *rng.pick(&["(module (_)* @stmts) @m {\n  node n\n  attr (n) ds = [ (is-null s) for s in @stmts ], m = @m\n}\n",
                                     "(module (_)* @stmts) @m {\n  node n\n  attr (n) ds = [ s.zd for s in @stmts ], m = @m\n}\n",
                                     "(module (_)* @stmts) @m {\n  node n\n  attr (n) ds = { s.zd for s in @stmts }, m = @m\n}\n"]);
            let (a, b) = (rng.below(p.stanzas.len() + 1), 0);
            p.stanzas.insert(a, definer.to_string());
            let b2 = rng.below(p.stanzas.len() + 1 + b);
            p.stanzas.insert(b2, reader.to_string());
            if p.stanzas.len() > 5 { p.stanzas.truncate(5); }
        }
        if rng.chance(15) {
            // three definitions of ONE scoped name, two on the same node and one on a different node, each matching once:
            // forcing must fail with DuplicateVariable wherever the odd one sits between the two (round 14, C08n)
            p.stanzas.truncate(2);
            for d in ["(module . (_) @_c1) @m1 {\n  let @m1.sv3 = 1\n}\n", "(module . (_) @c2) {\n  let @c2.sv3 = 2\n}\n", "(module . (_) @_c3) @m3 {\n  let @m3.sv3 = 3\n}\n"] {
                let a = rng.below(p.stanzas.len() + 1);
                p.stanzas.insert(a, d.to_string());
            }
        }
        if p.stanzas.len() < 2 { continue; }
        let src = if rng.chance(50) { CORPUS[rng.below(CORPUS.len())].to_string() } else { gen_source(rng) };
        let perms = permutations(p.stanzas.len(), rng, 24);
        let pi = PermInput { preamble: p.preamble.clone(), stanzas: p.stanzas.clone(), src, supplied: p.supplied.clone(), perms };
        if let Some(c) = c08_case(&pi) { out.push(c); }
    }
    out
}
pub fn c08_replay(j: &serde_json::Value) -> Case {
    quiet_panics();
    let strs = |k: &str| j[k].as_array().unwrap().iter().map(|s| s.as_str().unwrap().to_string()).collect::<Vec<_>>();
    let pi = PermInput { preamble: strs("preamble"), stanzas: strs("stanzas"), src: j["src"].as_str().unwrap().to_string(),
        supplied: j["globals"].as_array().unwrap().iter().map(|p| (p[0].as_str().unwrap().to_string(), GV::from_json(&p[1]))).collect(),
        perms: j["perms"].as_array().unwrap().iter().map(|p| p.as_array().unwrap().iter().map(|x| x.as_u64().unwrap() as usize).collect()).collect() };
    c08_case(&pi).expect("replay loads")
}

// ---------------------------------------------------------------- C03 (captures) and C04 (scoped variables)
use streaming_iterator::StreamingIterator;

pub const C03_POOL: &[(&str, &[&str])] = &[
    ("(identifier) @x", &["x"]),
    ("(call function: (identifier) @x arguments: (argument_list (_)* @args)) @c", &["x", "args", "c"]),
    ("(assignment left: (_) @x right: (_)? @y) @a", &["x", "y", "a"]),
    ("(function_definition name: (identifier) @name parameters: (parameters (identifier)* @args)) @f", &["name", "args", "f"]),
    ("(module (_)+ @x) @m", &["x", "m"]),
    ("[(integer) (string)] @x", &["x"]),
    ("(block (_) @x . (_)? @y)", &["x", "y"]),
    ("((identifier) @x (#eq? @x \"f\"))", &["x"]),
    ("(attribute object: (_) @_obj attribute: (identifier) @x)", &["x"]),
    ("(return_statement (_)? @y) @r", &["y", "r"]),
    ("(expression_statement (call) @x)", &["x"]),
    ("(class_definition body: (block (_)* @args)) @c", &["args", "c"]),
    ("(call arguments: (argument_list (_)+ @y))", &["y"]),
    ("(binary_operator left: (_) @x right: (_) @y) @c", &["x", "y", "c"]),
    // a quantified sub-pattern with SEVERAL captures: tree-sitter lists them interleaved (k v ps k v ps ...)
    ("(module (expression_statement (assignment left: (_) @k right: (_) @v))* @ps) @m", &["k", "v", "ps", "m"]),
    ("(argument_list ((_) @a . (_) @b)+) @l", &["a", "b", "l"]),
    ("(block ((expression_statement) @e . (_)? @nx)*) @blk", &["e", "nx", "blk"]),
    // patterns that match a node AND its descendants (a statement and its only child cover the same bytes)
    ("(_) @x", &["x"]),
    ("_ @x", &["x"]),
    ("[(block) (return_statement) (pass_statement) (expression_statement) (identifier) (call)] @x", &["x"]),
    ("[(module) (expression_statement) (assignment) (attribute)] @x", &["x"]),
];

fn both_case(stream: &str, inp: &ExecInput, extra_code: u32, mut tags: Vec<String>, nontrivial: bool, extra: serde_json::Value) -> Option<Case> {
    let file = load(&inp.dsl).ok()?;
    let tree = parse_python(&inp.src);
    let info = TreeInfo::new(&tree, &inp.src);
    let s = execute_fresh(&file, &tree, &info, &inp.supplied, false, false);
    let l = execute_fresh(&file, &tree, &info, &inp.supplied, true, false);
    let r = run_in_term(&file, &inp.dsl, &tree, &info, &inp.supplied, false)?;
    let model = format!("both_verdict_idx ({}) ({}) {} {}", tree_term(&info), r, s.coq(), l.coq());
    let verdict = if extra_code != 0 { extra_code.to_string() } else { model };
    let mut replay = input_json(inp);
    replay["stream"] = json!(stream);
    replay["impl"] = json!({"strict": match &s { Obs::Err(c, t) => format!("Err {}: {}", c, t), o => o.class().to_string() },
                            "lazy": match &l { Obs::Err(c, t) => format!("Err {}: {}", c, t), o => o.class().to_string() }, "extra": extra});
    tags.push(format!("strict:{}", s.class())); tags.push(format!("lazy:{}", l.class()));
    if let Obs::Err(c, _) = &s { tags.push(format!("serr:{}", c)); }
    if let Obs::Err(c, _) = &l { tags.push(format!("lerr:{}", c)); }
    Some(Case { verdict, detail: format!("both_detail ({}) ({})", tree_term(&info), r), key: fnv(&format!("{}|{}", inp.dsl, inp.src)), nontrivial, tags, replay })
}

/// Oracle assumptions A1-A3 about tree-sitter queries and the public match visitor, on the implementation.
/// Returns 0 or a code: 90 = an assumption about tree-sitter fails, 91 = the visitor disagrees with the raw matches.
fn c03_direct(file: &File, tree: &Tree, info: &TreeInfo) -> (u32, String) {
    let fq = file.query.as_ref().unwrap();
    // raw matches per stanza by NAME: (pattern, [(name, nodes)])
    let by_name = |q: &tree_sitter::Query, caps: &[(u32, Vec<usize>)]| -> Vec<(String, Vec<usize>)> {
        let mut v: Vec<(String, Vec<usize>)> = caps.iter().map(|(i, ns)| (q.capture_names()[*i as usize].to_string(), ns.clone())).collect();
        v.sort();
        v
    };
    let merged = raw_matches(fq, tree, info);
    for (si, st) in file.stanzas.iter().enumerate() {
        for name in st.query.capture_names() {
            let Some(fi) = fq.capture_index_for_name(name) else { return (90, format!("A1: capture {} of stanza {} has no index in the file query", name, si)); };
            let sidx = st.query.capture_index_for_name(name).unwrap();
            if fq.capture_quantifiers(si)[fi as usize] != st.query.capture_quantifiers(0)[sidx as usize] {
                return (90, format!("A2: quantifier of {} differs between file query pattern {} and stanza query", name, si));
            }
        }
        let mut a: Vec<Vec<(String, Vec<usize>)>> = raw_matches(&st.query, tree, info).iter().map(|(_, c)| by_name(&st.query, c)).collect();
        let mut b: Vec<Vec<(String, Vec<usize>)>> = merged.iter().filter(|(p, _)| *p == si).map(|(_, c)| by_name(fq, c)).collect();
        a.sort(); b.sort();
        if a != b { return (90, format!("A3: merged-query matches of pattern {} are not a permutation of the stanza query's matches", si)); }
    }
    // the checker's resolution of every capture expression against tree-sitter's own tables
    for (si, st) in file.stanzas.iter().enumerate() {
        let mut caps: Vec<(String, tree_sitter::CaptureQuantifier, usize, usize)> = Vec::new();
        collect_captures_stmts(&st.statements, &mut caps);
        for (name, q, fidx, sidx) in caps {
            let want_s = st.query.capture_index_for_name(&name).map(|i| i as usize);
            let want_f = fq.capture_index_for_name(&name).map(|i| i as usize);
            if want_s != Some(sidx) || want_f != Some(fidx) { return (94, format!("capture @{} of stanza {} resolved to indices ({}, {}) instead of ({:?}, {:?})", name, si, fidx, sidx, want_f, want_s)); }
            let want_q = st.query.capture_quantifiers(0)[sidx];
            if q != want_q { return (94, format!("capture @{} of stanza {} resolved to quantifier {:?} instead of {:?}", name, si, q, want_q)); }
        }
        if fq.capture_index_for_name("__tsg__full_match").map(|i| i as usize) != Some(st.full_match_file_capture_index)
            || st.query.capture_index_for_name("__tsg__full_match").map(|i| i as usize) != Some(st.full_match_stanza_capture_index) {
            return (94, format!("full-match capture indices of stanza {} are wrong", si));
        }
    }
    // the public visitor, both modes: multiset of (stanza location, full node, named captures)
    let visit = |lazy: bool| -> Vec<String> {
        let mut out: Vec<String> = Vec::new();
        let _ = file.try_visit_matches::<(), _>(tree, info.src, lazy, |m| {
            let full = info.ids.get(&m.full_capture().id()).copied().unwrap_or(usize::MAX);
            let mut caps: Vec<String> = m.named_captures().map(|(name, q, nodes)| {
                format!("{}:{:?}:{:?}", name, q, nodes.map(|n| info.ids.get(&n.id()).copied().unwrap_or(usize::MAX)).collect::<Vec<_>>())
            }).collect();
            caps.sort();
            out.push(format!("{:?}|{}|{}", m.query_location(), full, caps.join(",")));
            Ok(())
        });
        out.sort();
        out
    };
    let (vs, vl) = (visit(false), visit(true));
    if vs != vl { return (91, "try_visit_matches(lazy=true) reports different matches/captures than lazy=false".into()); }
    // and against the raw stanza matches
    let mut expect: Vec<String> = Vec::new();
    for st in &file.stanzas {
        let q = &st.query;
        let mut cursor = tree_sitter::QueryCursor::new();
        let mut it = cursor.matches(q, tree.root_node(), info.src.as_bytes());
        while let Some(m) = it.next() {
            let full = m.nodes_for_capture_index(st.full_match_stanza_capture_index as u32).next().map(|n| info.ids[&n.id()]).unwrap_or(usize::MAX);
            let mut caps: Vec<String> = q.capture_names().iter().enumerate().filter(|(i, _)| *i != st.full_match_stanza_capture_index).map(|(i, name)| {
                format!("{}:{:?}:{:?}", name, q.capture_quantifiers(0)[i], m.nodes_for_capture_index(i as u32).map(|n| info.ids[&n.id()]).collect::<Vec<_>>())
            }).collect();
            caps.sort();
            expect.push(format!("{:?}|{}|{}", st.range.start, full, caps.join(",")));
        }
    }
    expect.sort();
    if expect != vs { return (91, "try_visit_matches does not report exactly the stanza queries' matches".into()); }
    (0, String::new())
}

pub fn c03_input(rng: &mut Rng) -> ExecInput {
    let n = 2 + rng.below(4);
    let mut stanzas = Vec::new();
    for i in 0..n {
        let (q, caps) = *rng.pick(C03_POOL);
        let mut body = format!("  node n\n  attr (n) stanza = {}\n", i);
        for c in caps.iter() { body.push_str(&format!("  attr (n) c_{} = @{}\n", c, c)); }
        stanzas.push(format!("{} {{\n{}}}\n", q, body));
    }
    let base = gen_source(rng);
    let k = 1 + rng.below(2);
    let src = if rng.chance(30) { inject_faults(rng, &base, k) } else { base };
    ExecInput { dsl: stanzas.join("\n"), src, supplied: vec![] }
}
pub fn c03_case(inp: &ExecInput) -> Option<Case> {
    let file = load(&inp.dsl).ok()?;
    let tree = parse_python(&inp.src);
    let info = TreeInfo::new(&tree, &inp.src);
    let (code, what) = c03_direct(&file, &tree, &info);
    let shared = { let mut names: Vec<&str> = Vec::new(); let mut dup = false; for st in &file.stanzas { for nme in st.query.capture_names() { if *nme != "__tsg__full_match" && names.contains(nme) { dup = true; } } names.extend(st.query.capture_names().iter()); } dup };
    let tags = vec![format!("stanzas:{}", file.stanzas.len()), format!("shared_names:{}", shared), format!("has_error_nodes:{}", tree.root_node().has_error())];
    both_case("C03", inp, code, tags, file.stanzas.len() >= 2 && shared, json!({"direct": what}))
}
/// Large sibling lists: patterns pairing two NON-adjacent siblings keep one match pending per first sibling until the
/// parent is left.  Three such stanzas over three nested sibling lists (module statements, a function body inside, a
/// call's arguments inside that) have more than a thousand matches of the MERGED query in progress at once, while each
/// stanza's own query has a few hundred.  Too large for the model to be evaluated inside Coq (and tree-sitter needs
/// seconds per run): these cases are decided by direct comparison alone -- raw stanza-query matches against the public
/// visitor in lazy mode (code 91) and against the blocks run by strict and lazy execution (code 92).
const C03_BIG_POOL: &[(&str, &[&str])] = &[
    ("(module (expression_statement) @a (pass_statement) @b)", &["a", "b"]),
    ("(block (_) @a (pass_statement) @b)", &["a", "b"]),
    ("(argument_list (identifier) @a (integer) @b)", &["a", "b"]),
];
const C03_BIG_SMALL: &[(&str, &[&str])] = &[
    ("(function_definition name: (identifier) @name parameters: (parameters (identifier)* @args)) @f", &["name", "args", "f"]),
    ("(call function: (identifier) @x arguments: (argument_list (_)* @args)) @c", &["x", "args", "c"]),
    ("[(integer) (string)] @x", &["x"]),
    ("(module (_)+ @x) @m", &["x", "m"]),
    ("((identifier) @a (#eq? @a \"g\"))", &["a"]),
];
pub fn c03_big_input(rng: &mut Rng) -> ExecInput {
    let probe = |i: usize, q: &str, caps: &[&str]| -> String {
        let mut body = format!("  node n\n  attr (n) stanza = {}\n", i);
        for c in caps.iter() { body.push_str(&format!("  attr (n) c_{} = @{}\n", c, c)); }
        format!("{} {{\n{}}}\n", q, body)
    };
    let mut stanzas: Vec<String> = C03_BIG_POOL.iter().enumerate().map(|(i, (q, caps))| probe(i, q, caps)).collect();
    for i in (1..stanzas.len()).rev() { let j = rng.below(i + 1); stanzas.swap(i, j); }
    let (q, caps) = *rng.pick(C03_BIG_SMALL);
    let pos = rng.below(stanzas.len() + 1);
    stanzas.insert(pos, probe(9, q, caps));
    let k = 360 + rng.below(80);
    let mut src = String::new();
    for i in 0..k { src.push_str(&format!("m{}\n", i % 11)); }
    src.push_str("def f(p, q):\n");
    for i in 0..k { src.push_str(&format!("    y{}\n", i % 7)); }
    src.push_str("    g(");
    for i in 0..k { src.push_str(&format!("a{}, ", i % 9)); }
    src.push_str("7)\n    pass\npass\n");
    ExecInput { dsl: stanzas.join("\n"), src, supplied: vec![] }
}
pub fn c03_big_case(inp: &ExecInput) -> Option<Case> {
    let file = load(&inp.dsl).ok()?;
    let tree = parse_python(&inp.src);
    let info = TreeInfo::new(&tree, &inp.src);
    let (mut code, mut what) = (0u32, String::new());
    // raw matches of every stanza's own query (the reference: what tree-sitter reports for that stanza's pattern)
    let mut expect: Vec<String> = Vec::new();
    for st in &file.stanzas {
        let q = &st.query;
        let mut cursor = tree_sitter::QueryCursor::new();
        let mut it = cursor.matches(q, tree.root_node(), info.src.as_bytes());
        while let Some(m) = it.next() {
            let full = m.nodes_for_capture_index(st.full_match_stanza_capture_index as u32).next().map(|n| info.ids[&n.id()]).unwrap_or(usize::MAX);
            let mut caps: Vec<String> = q.capture_names().iter().enumerate().filter(|(i, _)| *i != st.full_match_stanza_capture_index).map(|(i, name)| {
                format!("{}:{:?}:{:?}", name, q.capture_quantifiers(0)[i], m.nodes_for_capture_index(i as u32).map(|n| info.ids[&n.id()]).collect::<Vec<_>>())
            }).collect();
            caps.sort();
            expect.push(format!("{:?}|{}|{}", st.range.start, full, caps.join(",")));
        }
    }
    expect.sort();
    let expected = expect.len();
    let mut seen: Vec<String> = Vec::new();
    let _ = file.try_visit_matches::<(), _>(&tree, info.src, true, |m| {
        let full = info.ids.get(&m.full_capture().id()).copied().unwrap_or(usize::MAX);
        let mut caps: Vec<String> = m.named_captures().map(|(name, q, nodes)| {
            format!("{}:{:?}:{:?}", name, q, nodes.map(|n| info.ids.get(&n.id()).copied().unwrap_or(usize::MAX)).collect::<Vec<_>>())
        }).collect();
        caps.sort();
        seen.push(format!("{:?}|{}|{}", m.query_location(), full, caps.join(",")));
        Ok(())
    });
    seen.sort();
    if seen != expect { code = 91; what = format!("try_visit_matches(lazy=true) reports {} matches, the stanza queries {} (or other captures)", seen.len(), expected); }
    let s = execute_fresh(&file, &tree, &info, &inp.supplied, false, false);
    let l = execute_fresh(&file, &tree, &info, &inp.supplied, true, false);
    // block runs: every probe block creates exactly one graph node
    let runs = |o: &Obs| -> Option<usize> { if let Obs::Ok(g) = o { Some(g.len()) } else { None } };
    if code == 0 {
        if runs(&s) != Some(expected) { code = 92; what = format!("strict mode ran {:?} blocks for {} raw matches", runs(&s), expected); }
        else if runs(&l) != Some(expected) { code = 92; what = format!("lazy mode ran {:?} blocks for {} raw matches", runs(&l), expected); }
        else if let (Obs::Ok(a), Obs::Ok(b)) = (&s, &l) { if let Iso::No = isomorphic(a, b) { code = 92; what = "strict and lazy graphs differ".into(); } }
    }
    let mut replay = input_json(inp);
    replay["stream"] = json!("C03");
    replay["big"] = json!(true);
    replay["impl"] = json!({"direct": what, "raw_matches": expected, "strict_blocks": runs(&s), "lazy_blocks": runs(&l)});
    let tags = vec!["big".to_string(), format!("stanzas:{}", file.stanzas.len()), format!("raw_matches:{}", if expected > 1024 { ">1024" } else { "<=1024" })];
    Some(Case { verdict: code.to_string(), detail: String::new(), key: fnv(&format!("{}|{}", inp.dsl, inp.src)), nontrivial: expected > 1024, tags, replay })
}
pub fn c03_gen(rng: &mut Rng, n: usize) -> Vec<Case> {
    quiet_panics();
    let mut out = Vec::new();
    let mut tries = 0;
    // a few large direct-only cases first
    let big = if n >= 100 { 1 + n / 700 } else { 0 };
    while out.len() < big && tries < big * 5 { tries += 1; let inp = c03_big_input(rng); if let Some(c) = c03_big_case(&inp) { out.push(c); } }
    tries = 0;
    while out.len() < n && tries < n * 20 { tries += 1; let inp = c03_input(rng); if let Some(c) = c03_case(&inp) { out.push(c); } }
    out
}
pub fn c03_replay(j: &serde_json::Value) -> Case {
    quiet_panics();
    if j["big"].as_bool() == Some(true) { return c03_big_case(&input_from_json(j)).expect("replay loads"); }
    c03_case(&input_from_json(j)).expect("replay loads")
}

// C04: programs built from scoped-variable idioms
pub fn c04_input(rng: &mut Rng) -> ExecInput { c04_input_mode(rng, false) }
/// `ordered`: an order-insensitive program (for the strict-vs-lazy stream): every definition precedes every
/// read in file order, no re-reads around later definitions, no duplicate definitions
pub fn c04_input_mode(rng: &mut Rng, ordered: bool) -> ExecInput {
    let mut pre: Vec<String> = Vec::new();
    let mut st: Vec<String> = Vec::new();
    let inherit = rng.chance(80);
    if inherit { pre.push("inherit .scope".into()); }
    // definitions
    if rng.chance(80) { st.push("(module) @m {\n  node @m.scope\n  attr (@m.scope) kind = \"module\"\n}\n".into()); }
    if rng.chance(70) { st.push("(function_definition name: (identifier) @name) @def {\n  node @def.scope\n  attr (@def.scope) kind = \"def\", name = (source-text @name)\n  let @def.k = (start-row @def)\n  let @name.owner = @def\n}\n".into()); }
    if rng.chance(40) { st.push("(class_definition) @cls {\n  node @cls.scope\n  attr (@cls.scope) kind = \"class\"\n}\n".into()); }
    // duplicate definition on the same node (error) — sometimes
    // two inherited names read on ONE node that resolve at DIFFERENT ancestors (`top` only on the module, `depth` on the
    // module and on every function definition)
    let two_names = inherit && rng.chance(50);
    if two_names {
        pre.push("inherit .top".into()); pre.push("inherit .depth".into());
        st.push("(module) @mt {\n  let @mt.top = \"m\"\n  let @mt.depth = 0\n}\n".into());
        st.push("(function_definition) @ft {\n  let @ft.depth = (plus 1 (start-row @ft))\n}\n".into());
    }
    // a definition whose scope expression itself reads a scoped variable (acyclic: `tag` depends on `owner`)
    if rng.chance(35) { st.push("(function_definition name: (identifier) @n2) {\n  let @n2.owner.tag = (source-text @n2)\n}\n".into()); }
    // class K7 (known finding): `owner` defined through a scope that reads `owner`
    if rng.chance(4) { st.push("(function_definition name: (identifier) @n3) {\n  let @n3.owner.owner = 1\n}\n".into()); }
    // a scoped variable whose VALUE reads the same-named variable of another node (a chain through one name: forcing the
    // name for the reader must be able to re-enter the same name for the value)
    let same_name_chain = rng.chance(30);
    if same_name_chain {
        st.push("(module) @mc {\n  let @mc.chn = \"root\"\n}\n".into());
        st.push("(module (function_definition) @fc) @mc2 {\n  let @fc.chn = @mc2.chn\n}\n".into());
        if rng.chance(50) { st.push("(function_definition body: (block (function_definition) @gc)) @fc2 {\n  let @gc.chn = [@fc2.chn, (start-row @gc)]\n}\n".into()); }
    }
    // three definitions of one name: two on the module, one on its first child (duplicates that need not be adjacent in
    // collection order; round 14, C08n)
    if !ordered && rng.chance(12) {
        st.push("(module . (_) @_c1) @m1 {\n  let @m1.dup3 = 1\n}\n".into());
        st.push("(module . (_) @c2) {\n  let @c2.dup3 = 2\n}\n".into());
        st.push("(module . (_) @_c3) @m3 {\n  let @m3.dup3 = 3\n}\n".into());
    }
    if !ordered && rng.chance(15) { st.push("(function_definition) @again {\n  let @again.k = 99\n}\n".into()); }
    let ndefs = st.len();
    // reads through other capture names / list elements / nested scopes
    if inherit && rng.chance(70) { st.push("(identifier) @id {\n  node r\n  attr (r) text = (source-text @id)\n  edge r -> @id.scope\n}\n".into()); }
    if rng.chance(50) { st.push(if inherit { "(function_definition body: (block (_)* @stmts)) @d {\n  node r\n  attr (r) k = @d.k\n  for s in @stmts {\n    node e\n    edge e -> s.scope\n  }\n}\n".into() } else { "(function_definition body: (block (_)* @stmts)) @d {\n  node r\n  attr (r) k = @d.k\n  print @stmts\n}\n".to_string() }); }
    if rng.chance(40) { st.push("(function_definition name: (identifier) @n) {\n  node r\n  attr (r) krow = @n.owner.k\n}\n".into()); }
    if rng.chance(40) { st.push("(function_definition) @dt {\n  node r\n  attr (r) tag = @dt.tag\n}\n".into()); }
    // the reading node itself (or a nearer ancestor) gets its own definition in a LATER stanza with the same query as a reader
    if !ordered && inherit && rng.chance(35) {
        st.push("(pass_statement) @ps {\n  node rr\n  edge rr -> @ps.scope\n  attr (rr) when = \"before-own\"\n}\n".into());
        st.push("(pass_statement) @ps {\n  node @ps.scope\n  attr (@ps.scope) kind = \"own\"\n}\n".into());
    }
    if two_names { st.push(if rng.chance(50) { "[(pass_statement) (return_statement)] @st {\n  node q\n  attr (q) top = @st.top, depth = @st.depth\n}\n" } else { "[(pass_statement) (return_statement)] @st {\n  node q\n  attr (q) depth = @st.depth, top = @st.top\n  attr (q) again = @st.depth\n}\n" }.into()); }
    if same_name_chain { st.push("(function_definition) @fr {\n  node r\n  attr (r) chain = @fr.chn\n}\n".into()); }
    if rng.chance(10) { st.push("(call function: (identifier) @f) {\n  node r\n  attr (r) k = @f.k\n}\n".into()); }   // not inherited: undefined unless defined on this node
    if inherit && rng.chance(30) { st.push("(return_statement) @r {\n  node q\n  edge q -> @r.scope\n  attr (q -> @r.scope) via = \"return\"\n}\n".into()); }
    // the same scoped name on the outer and the inner node of a left-nested construct (same kind, same start position)
    let nested_same_start = rng.chance(30);
    let nested_stanzas: Vec<String> = if nested_same_start { vec![
        "(attribute object: (attribute) @inner) @outer {\n  let @outer.nz = \"outer\"\n  let @inner.nz = \"inner\"\n}\n".into(),
        "(attribute object: (attribute) @in2) @out2 {\n  node r\n  attr (r) o = @out2.nz, i = @in2.nz\n}\n".into()] } else { vec![] };
    if st.is_empty() { st.push("(module) @m {\n  node @m.scope\n}\n".into()); }
    // reads of one node repeated around later definitions (a lookup must see the NEAREST definition at the time of the read)
    if ordered {
        // a value (not only a node) inherited through several nested definers, read from statements
        if inherit { pre.push("inherit .lvl".into()); st.insert(0, "(function_definition name: (identifier) @name) @def {\n  let @def.lvl = (source-text @name)\n}\n".into());
                     st.push("[(pass_statement) (return_statement) (expression_statement)] @s {\n  node q\n  attr (q) enclosing = @s.lvl\n}\n".into()); }
        let nd = ndefs + if inherit { 1 } else { 0 };
        let mut reads: Vec<String> = st.split_off(nd);
        for i in (1..reads.len()).rev() { let j = rng.below(i + 1); reads.swap(i, j); }
        st.extend(reads);
    } else if inherit && rng.chance(60) {
        let rd = |tag: &str| format!("(pass_statement) @p {{\n  node r\n  attr (r) when = \"{}\"\n  edge r -> @p.scope\n}}\n", tag);
        let rd2 = |tag: &str| format!("(return_statement) @p {{\n  node r\n  attr (r) when = \"{}\"\n  edge r -> @p.scope\n}}\n", tag);
        let k = 1 + rng.below(3);
        for i in 0..k { let pos = rng.below(st.len() + 1); st.insert(pos, if rng.chance(50) { rd(&format!("t{}", i)) } else { rd2(&format!("t{}", i)) }); }
    }
    // stanza order matters for strict execution: outer definitions first, then a random interleaving
    if ordered {} else if rng.chance(50) { for i in (1..st.len()).rev() { let j = rng.below(i + 1); st.swap(i, j); } }
    else if rng.chance(50) { st.sort_by_key(|x| if x.starts_with("(module)") { 0 } else if x.starts_with("(class_definition)") { 1 } else { 2 }); }
    // the nested-node idiom runs FIRST in strict execution (nothing else can fail before it)
    if !nested_stanzas.is_empty() { let mut w = nested_stanzas.clone(); w.extend(st); st = w; }
    let mut v = pre; v.extend(st);
    // deeply nested sources with same-range parent/child chains
    let src = if rng.chance(50) { gen_source(rng) } else {
        let mut s = String::new();
        let depth = 1 + rng.below(4);
        for d in 0..depth { s.push_str(&format!("{}def f{}(a):\n", "    ".repeat(d), d)); }
        s.push_str(&format!("{}{}\n", "    ".repeat(depth), if rng.chance(50) { "return g(a)" } else { "pass" }));
        if rng.chance(50) { s.push_str("x = f0(1)\n"); }
        if rng.chance(30) { s.push_str("class K:\n    def m(self):\n        return self\n"); }
        s
    };
    let src = if nested_same_start { format!("{}v = a.b.c\n", src) } else { src };
    ExecInput { dsl: v.join("\n"), src, supplied: vec![] }
}
pub fn c04_case(inp: &ExecInput) -> Option<Case> {
    let tree = parse_python(&inp.src);
    let info = TreeInfo::new(&tree, &inp.src);
    // KeyInjective: syntax-node identity is the node id truncated to u32; Node::parent agrees with the cursor
    let mut seen = std::collections::HashSet::new();
    let mut code = 0;
    let mut what = String::new();
    for (i, n) in info.nodes.iter().enumerate() {
        if !seen.insert(n.id() as u32) { code = 92; what = "two syntax nodes share the truncated id".into(); }
        let p = n.parent().map(|p| info.ids.get(&p.id()).copied().unwrap_or(usize::MAX));
        if p != info.parent[i] { code = 93; what = format!("Node::parent of node {} disagrees with the cursor walk", i); }
    }
    let tags = vec![format!("inherit:{}", inp.dsl.contains("inherit")), format!("dup_def:{}", inp.dsl.contains("@again")), format!("nested_scope:{}", inp.dsl.contains(".owner.k"))];
    both_case("C04", inp, code, tags, inp.dsl.contains("inherit") && inp.src.contains("def"), json!({"direct": what}))
}
pub fn c04_gen(rng: &mut Rng, n: usize) -> Vec<Case> {
    quiet_panics();
    let mut out = Vec::new();
    let mut tries = 0;
    // one DEEP tree per run: an inherited name defined on the module only and read from every identifier of a sum with 260-330
    // terms (left-nested binary operators: the leftmost identifiers sit more than 255 levels below the module)
    if n >= 50 {
        let terms = 260 + rng.below(70);
        let src = format!("total = {}\n", (0..terms).map(|i| format!("a{}", i % 7)).collect::<Vec<_>>().join(" + "));
        let dsl = "inherit .deep\n(module) @m {\n  node @m.deep\n  attr (@m.deep) kind = \"root\"\n}\n\n(identifier) @id {\n  node r\n  edge r -> @id.deep\n}\n".to_string();
        if let Some(c) = c04_case(&ExecInput { dsl, src, supplied: vec![] }) { out.push(c); }
    }
    while out.len() < n && tries < n * 20 { tries += 1; let inp = c04_input(rng); if let Some(c) = c04_case(&inp) { out.push(c); } }
    out
}
pub fn c04_replay(j: &serde_json::Value) -> Case { quiet_panics(); c04_case(&input_from_json(j)).expect("replay loads") }

// ---------------------------------------------------------------- C05 (execution part): no panic, no hang
use std::sync::mpsc;
use std::time::Duration;

/// classes of inputs whose misbehaviour is a listed known finding (generators stay outside them)
pub fn known_class(dsl: &str) -> Option<&'static str> {
    // K1: a capture inside a shorthand body; K2: a shorthand that (transitively) names itself;
    // K3: a stanza whose root pattern is quantified or carries more than two user captures
    for line in dsl.lines() {
        let l = line.trim_start();
        if l.starts_with("attribute ") {
            if let Some(body) = l.split("=>").nth(1) {
                if body.contains('@') { return Some("K1"); }
                let name = l["attribute ".len()..].split('=').next().unwrap_or("").trim();
                if body.split(|c: char| !(c.is_alphanumeric() || c == '_' || c == '-')).any(|w| w == name) && body.contains(&format!("{} =", name)) { return Some("K2"); }
            }
        }
    }
    None
}

fn run_with_watchdog<F: FnOnce() -> Obs + Send + 'static>(f: F, secs: u64) -> Option<Obs> {
    let (tx, rx) = mpsc::channel();
    std::thread::Builder::new().stack_size(64 << 20).spawn(move || { let r = std::panic::catch_unwind(std::panic::AssertUnwindSafe(f)); let _ = tx.send(r.unwrap_or(Obs::Panic)); }).ok()?;
    rx.recv_timeout(Duration::from_secs(secs)).ok()
}

pub fn c05x_case(inp: &ExecInput, lazy: bool) -> Option<Case> {
    let file = match load(&inp.dsl) {
        Ok(f) => f,
        Err(e) if e == "PANIC" => {
            // loading itself panicked: reported as a case of its own (no model evaluation needed)
            let mut replay = input_json(inp);
            replay["impl"] = json!({"load": "PANIC"});
            return Some(Case { verdict: "62".to_string(), detail: "0".into(), key: fnv(&inp.dsl), nontrivial: true, tags: vec!["load:panic".into()], replay });
        }
        Err(_) => return None,
    };
    let tree = parse_python(&inp.src);
    let info = TreeInfo::new(&tree, &inp.src);
    // the run under a watchdog (own thread, 64 MiB stack): a hang is reported, not waited for
    let (dsl2, src2, sup2) = (inp.dsl.clone(), inp.src.clone(), inp.supplied.clone());
    let watched = run_with_watchdog(move || {
        let file = match load(&dsl2) { Ok(f) => f, Err(_) => return Obs::Panic };
        let tree = parse_python(&src2);
        let info = TreeInfo::new(&tree, &src2);
        execute_fresh(&file, &tree, &info, &sup2, lazy, false)
    }, 10);
    let obs = match &watched { Some(o) => o.clone(), None => Obs::Panic };
    // rendering of the error, plain and pretty, must not panic either
    let mut render_ok = true;
    if let Obs::Err(_, _) = &obs {
        let r = std::panic::catch_unwind(std::panic::AssertUnwindSafe(|| {
            let mut g = Graph::new();
            let globals = make_globals(&inp.supplied, &mut g, &info);
            let functions = tree_sitter_graph::functions::Functions::stdlib();
            let config = tree_sitter_graph::ExecutionConfig::new(&functions, &globals).lazy(lazy);
            if let Err(e) = file.execute_into(&mut g, &tree, info.src, &config, &NoCancellation) {
                let a = format!("{}", e);
                let b = format!("{}", e.display_pretty(std::path::Path::new("s.py"), info.src, std::path::Path::new("r.tsg"), &inp.dsl));
                a.len() + b.len()
            } else { 0 }
        }));
        render_ok = r.is_ok();
    }
    let r = run_in_term(&file, &inp.dsl, &tree, &info, &inp.supplied, lazy)?;
    let model = format!("c15_verdict0 ({}) ({}) {}", tree_term(&info), r, obs.coq());
    let verdict = if watched.is_none() { "61".to_string() }            // hang
        else if matches!(obs, Obs::Panic) { "62".to_string() }          // panic (generators stay outside the known classes)
        else if !render_ok { "63".to_string() }                         // rendering the error panicked
        else { model };
    let mut replay = input_json(inp);
    replay["lazy"] = json!(lazy);
    replay["impl"] = json!({"outcome": obs.class(), "hang": watched.is_none(), "render_ok": render_ok});
    let tags = vec![format!("mode:{}", if lazy { "lazy" } else { "strict" }), format!("outcome:{}", obs.class()),
                    format!("error_nodes:{}", tree.root_node().has_error()), format!("non_ascii:{}", !inp.src.is_ascii())];
    Some(Case { verdict, detail: format!("c15_detail0 ({}) ({})", tree_term(&info), r), key: fnv(&format!("{}|{}|{}", inp.dsl, inp.src, lazy)),
        nontrivial: matches!(obs, Obs::Err(_, _)) || tree.root_node().has_error(), tags, replay })
}
/// the same program laid out differently: line breaks between statements become blanks, indentation becomes tabs,
/// ASCII string literals get non-ASCII characters (1-3 bytes each, so that character and byte columns differ)
pub fn relayout(rng: &mut Rng, dsl: &str) -> String {
    let mut out = String::new();
    let lines: Vec<&str> = dsl.lines().collect();
    for (i, l) in lines.iter().enumerate() {
        let mut line = l.to_string();
        if rng.chance(40) { line = line.replace("\"s0\"", "\"ééé\"").replace("\"s1\"", "\"日本\"").replace("\"lit\"", "\"é日é\"").replace("\"x\"", "\"ñ\""); }
        if l.trim_start().starts_with("node @") && l.contains('.') && rng.chance(40) {
            line = line.replacen(".", *rng.pick(&[". ", ".  ", ". ; c\n      "]), 1);
        }
        let stmt_line = l.starts_with("  ") && !l.trim_start().starts_with('}');
        let next_stmt = lines.get(i + 1).map(|n| n.starts_with("  ") && !n.trim_start().starts_with('}') && !n.trim_start().starts_with('"')).unwrap_or(false);
        if stmt_line && rng.chance(15) { line = line.replacen("  ", "\t", 1); }
        // a statement that starts right after non-ASCII text of its own line: its character column, read as a
        // byte offset, falls inside a multi-byte character
        else if stmt_line && !l.trim_start().starts_with('"') && rng.chance(25) {
            let ind = l.len() - l.trim_start().len();
            line = format!("{}print {} {}", &l[..ind], rng.pick(&["\"ééé\"", "\"日本\"", "\"ñ\"", "\"ééééé\""]), line.trim_start());
        }
        out.push_str(&line);
        if stmt_line && next_stmt && !l.trim_end().ends_with('{') && rng.chance(45) { out.push(' '); } else { out.push('\n'); }
    }
    out
}
pub fn c05x_gen(rng: &mut Rng, n: usize) -> Vec<Case> {
    quiet_panics();
    let mut out = Vec::new();
    let mut tries = 0;
    while out.len() < n && tries < n * 30 {
        tries += 1;
        let mut opts = GenOpts::full();
        opts.render_nodes = true;
        let mut p = gen_program(rng, &opts);
        // ill-typed programs: one or two runtime faults
        if rng.chance(60) { let _ = inject_runtime_fault(rng, &mut p); }
        if rng.chance(20) { let _ = inject_runtime_fault(rng, &mut p); }
        let base = gen_source(rng);
        let k = rng.below(4);
        let src = if rng.chance(50) { inject_faults(rng, &base, k) } else { base };
        // definitions that depend on each other in a CYCLE (through scoped variables: the only way to build one): lazy
        // forcing re-enters a thunk that is being forced and must answer with an error, read or not read
        if rng.chance(12) {
            let x = *rng.pick(&[
                "(module) @cm {\n  let @cm.ca = @cm.cb\n  let @cm.cb = @cm.ca\n}\n",
                "(module) @cm {\n  let @cm.ca = @cm.cb\n  let @cm.cb = @cm.ca\n}\n\n(module) @cm2 {\n  node r\n  attr (r) v = @cm2.ca\n}\n",
                "(module) @cm {\n  let @cm.ca = [(length @cm.cb), 1]\n  let @cm.cb = [@cm.ca]\n  print @cm.cb\n}\n",
                "(module) @cm {\n  let @cm.cs = @cm.cs\n}\n",
                "(module) @cm {\n  let @cm.ca = @cm.cb\n}\n\n(module) @cm3 {\n  let @cm3.cb = @cm3.cc\n  let @cm3.cc = (plus 1 @cm3.ca)\n  node r\n  edge r -> @cm3.cc\n}\n",
                "(module (_)* @xs) @cm {\n  let l = @cm.cl\n  let @cm.cl = [ x for x in @xs ]\n  let @cm.cq = l\n  let @cm.cr = (length @cm.cr)\n}\n",
            ]);
            let pos = rng.below(p.stanzas.len() + 1);
            p.stanzas.insert(pos, x.to_string());
        }
        // a scan whose LATER arm matches the empty string inside the text (`\b` passes the checker's nullable test) while an
        // earlier arm matches further on: the run must end with EmptyRegexCapture, not loop on the spot
        if rng.chance(8) {
            let x = *rng.pick(&[
                "(module) @_ms {\n  scan \"abc\" {\n    \"c\" {\n      let last = $0\n    }\n    \"\\\\b\" {\n      let boundary = $0\n    }\n  }\n}\n",
                "(module) @_ms {\n  scan \"x-y z\" {\n    \"z\" {\n    }\n    \"y\" {\n      print $0\n    }\n    \"\\\\b\" {\n    }\n  }\n}\n",
                "(module) @_ms {\n  for w in [\"ab cd\", \"q\"] {\n    scan w {\n      \"d\" {\n      }\n      \"\\\\bc?\" {\n      }\n    }\n  }\n}\n",
            ]);
            let pos = rng.below(p.stanzas.len() + 1);
            p.stanzas.insert(pos, x.to_string());
        }
        let mut dsl = p.text();
        // other layouts of the same program: several statements on one line (statement columns beyond non-ASCII
        // text of the same line), tabs for indentation, non-ASCII string literals
        if rng.chance(40) { dsl = relayout(rng, &dsl); }
        let inp = ExecInput { dsl, src, supplied: p.supplied.clone() };
        if known_class(&inp.dsl).is_some() { continue; }
        if let Some(c) = c05x_case(&inp, rng.chance(50)) { out.push(c); }
    }
    out
}
pub fn c05x_replay(j: &serde_json::Value) -> Case { quiet_panics(); c05x_case(&input_from_json(j), j["lazy"].as_bool().unwrap_or(false)).expect("replay loads") }

/// Reproduce a listed known finding in THIS process (the driver runs it as a child process so that
/// aborts — stack overflow — are contained). Prints one line: REPRODUCED <what> | NOT-REPRODUCED.
pub fn known_main(id: &str) {
    quiet_panics();
    let src = "def f(x):\n    pass\n";
    let run = |dsl: &str, lazy: bool| -> String {
        let file = match load(dsl) { Ok(f) => f, Err(e) => return format!("load-error {}", &e[..e.len().min(60)]) };
        let tree = parse_python(src);
        let info = TreeInfo::new(&tree, src);
        match execute_fresh(&file, &tree, &info, &[], lazy, false) { Obs::Ok(_) => "ok".into(), Obs::Err(c, _) => format!("err {}", c), Obs::Panic => "panic".into() }
    };
    let line = match id {
        "K1" => { let r = run("attribute sh = x => a = @_m\n(module) @_m { node n\n attr (n) sh = 1 }\n", false); if r == "panic" { "REPRODUCED panic (unreachable!) for a capture inside a shorthand body".to_string() } else { format!("NOT-REPRODUCED ({})", r) } }
        "K2" => { let r = run("attribute a = x => a = x\n(module) { node n\n attr (n) a = 1 }\n", false); format!("NOT-REPRODUCED ({})", r) }  // reaching this line means no abort
        "K3" => {
            let rs: Vec<String> = ["(module) @a @b @c { print @a, @b, @c }\n", "(pass_statement)? @a { print @a }\n"].iter().map(|d| run(d, false)).collect();
            if rs.iter().any(|r| r == "panic") { format!("REPRODUCED panic (missing full capture): {:?}", rs) } else { format!("NOT-REPRODUCED ({:?})", rs) }
        }
        "K8" => {
            // tree-sitter keeps at most 3 captures per query step: the 4th capture on a (non-root) node has quantifier One and is never bound
            let d = "(module (function_definition name: (identifier) @_a @_b @_c @d)) { print @d }\n";
            let rs: Vec<String> = [false, true].iter().map(|lazy| run(d, *lazy)).collect();
            if rs.iter().all(|r| r == "panic") { format!("REPRODUCED panic (missing capture) in both modes: {:?}", rs) } else { format!("NOT-REPRODUCED ({:?})", rs) }
        }
        "K4a" => { let r = load("attribute sh = x => a = undefined_variable_zz\n(module) { node n\n attr (n) b = 1 }\n"); if r.is_ok() { "REPRODUCED a shorthand body using an undefined variable is accepted by the loader".to_string() } else { "NOT-REPRODUCED (rejected)".into() } }
        "K4b" => {
            let a = "attribute sh = x => cnt = [ y for y in x.vals ]\n(module) @m { node n\n attr (n) sh = @m }\n(module) @m { let @m.vals = [1] }\n";
            let b = "attribute sh = x => cnt = [ y for y in x.vals ]\n(module) @m { let @m.vals = [1] }\n(module) @m { node n\n attr (n) sh = @m }\n";
            let (ra, rb) = (run(a, true), run(b, true));
            if (ra == "ok") != (rb == "ok") { format!("REPRODUCED lazy result depends on stanza order when a shorthand body iterates a scoped variable ({} vs {})", ra, rb) } else { format!("NOT-REPRODUCED ({} vs {})", ra, rb) }
        }
        "K7" => {
            let dsl = "(module (expression_statement (identifier) @x) (expression_statement (identifier) @y) (expression_statement (identifier) @z)) @_m\n{\n  node n\n  let @x.a = @y\n  let @x.a.b = @z\n  let @x.a.b.a = 5\n  attr (n) r = @x.a.b.a\n}\n";
            let run3 = |lazy: bool| -> String {
                let file = match load(dsl) { Ok(f) => f, Err(e) => return format!("load-error {}", &e[..e.len().min(60)]) };
                let src3 = "p\nq\nr\n";
                let tree = parse_python(src3);
                let info = TreeInfo::new(&tree, src3);
                match execute_fresh(&file, &tree, &info, &[], lazy, false) { Obs::Ok(_) => "ok".into(), Obs::Err(c, _) => format!("err {}", c), Obs::Panic => "panic".into() }
            };
            // the same dependency cycle routed through local variables (found by the v2 simulation proof)
            let dsl_b = "(module (expression_statement (identifier) @x) (expression_statement (identifier) @y) (expression_statement (identifier) @z)) @_m\n{\n  node n\n  let @x.a = @y\n  let t = @x.a\n  let t.b = @z\n  let u = t.b\n  let u.a = 5\n  attr (n) r = u.a\n}\n";
            let class_ok = load(dsl).map(|f| k7_class(&f)).unwrap_or(false) && load(dsl_b).map(|f| k7_class(&f)).unwrap_or(false);
            let (rs, rl) = (run3(false), run3(true));
            if !class_ok { "NOT-REPRODUCED (the class predicate k7_class does not recognise the witnesses)".to_string() } else
            if rs == "ok" && rl == "err 17" { "REPRODUCED strict execution succeeds, lazy execution fails with RecursivelyDefinedScopedVariable (scoped-variable definitions whose scope expressions read each other's names)".to_string() } else { format!("NOT-REPRODUCED (strict {} lazy {})", rs, rl) }
        }
        _ => "UNKNOWN".into(),
    };
    println!("{}", line);
}

use tree_sitter_graph::ast;
/// Known finding K7 (C02): the scoped-variable NAMES of a file depend on each other cyclically through the
/// scope expressions of their definitions (name A depends on B when some `let/var/node <scope>.A` has a
/// scope expression reading `_.B`; a self-loop counts).  Lazy forcing of A then re-enters A.
pub fn k7_class(file: &ast::File) -> bool {
    // scoped-variable names read by an expression, following LOCAL variables to the names their defining
    // expressions read (`let t = @x.a  let t.b = ..`: the scope `t` of the definition of `b` reads `a`)
    fn reads(e: &ast::Expression, locals: &Vec<(String, Vec<String>)>, out: &mut Vec<String>) {
        use ast::Expression as E;
        match e {
            E::ListLiteral(l) => l.elements.iter().for_each(|x| reads(x, locals, out)),
            E::SetLiteral(l) => l.elements.iter().for_each(|x| reads(x, locals, out)),
            E::ListComprehension(c) => { reads(&c.element, locals, out); reads(&c.value, locals, out); }
            E::SetComprehension(c) => { reads(&c.element, locals, out); reads(&c.value, locals, out); }
            E::Variable(ast::Variable::Scoped(v)) => { out.push(v.name.as_str().to_string()); reads(&v.scope, locals, out); }
            E::Variable(ast::Variable::Unscoped(v)) => { for (n, r) in locals.iter().rev() { if n == v.name.as_str() { out.extend(r.iter().cloned()); break; } } }
            E::Call(c) => c.parameters.iter().for_each(|x| reads(x, locals, out)),
            _ => {}
        }
    }
    fn defs(stmts: &[ast::Statement], locals: &mut Vec<(String, Vec<String>)>, deps: &mut Vec<(String, Vec<String>)>) {
        use ast::Statement as S;
        let bind = |v: &ast::Variable, value: Option<&ast::Expression>, locals: &mut Vec<(String, Vec<String>)>, deps: &mut Vec<(String, Vec<String>)>| {
            match v {
                ast::Variable::Scoped(sv) => { let mut r = Vec::new(); reads(&sv.scope, locals, &mut r); deps.push((sv.name.as_str().to_string(), r)); }
                ast::Variable::Unscoped(uv) => { let mut r = Vec::new(); if let Some(e) = value { reads(e, locals, &mut r); } locals.push((uv.name.as_str().to_string(), r)); }
            }
        };
        for s in stmts {
            match s {
                S::DeclareImmutable(d) => bind(&d.variable, Some(&d.value), locals, deps),
                S::DeclareMutable(d) => bind(&d.variable, Some(&d.value), locals, deps),
                S::Assign(d) => bind(&d.variable, Some(&d.value), locals, deps),
                S::CreateGraphNode(d) => bind(&d.node, None, locals, deps),
                S::Scan(d) => d.arms.iter().for_each(|a| { let k = locals.len(); defs(&a.statements, locals, deps); locals.truncate(k); }),
                S::If(d) => d.arms.iter().for_each(|a| { let k = locals.len(); defs(&a.statements, locals, deps); locals.truncate(k); }),
                S::ForIn(d) => { let k = locals.len(); let mut r = Vec::new(); reads(&d.value, locals, &mut r); locals.push((d.variable.name.as_str().to_string(), r)); defs(&d.statements, locals, deps); locals.truncate(k); }
                _ => {}
            }
        }
    }
    let mut deps: Vec<(String, Vec<String>)> = Vec::new();
    for st in &file.stanzas { let mut locals = Vec::new(); defs(&st.statements, &mut locals, &mut deps); }
    // reachability closure over names
    let names: Vec<String> = { let mut v: Vec<String> = deps.iter().map(|d| d.0.clone()).collect(); v.sort(); v.dedup(); v };
    for start in &names {
        let mut seen: Vec<String> = Vec::new();
        let mut todo: Vec<String> = deps.iter().filter(|d| &d.0 == start).flat_map(|d| d.1.clone()).collect();
        while let Some(x) = todo.pop() {
            if &x == start { return true; }
            if seen.contains(&x) { continue; }
            seen.push(x.clone());
            todo.extend(deps.iter().filter(|d| d.0 == x).flat_map(|d| d.1.clone()));
        }
    }
    false
}
type CapInfo = (String, tree_sitter::CaptureQuantifier, usize, usize);
pub fn collect_captures_expr(e: &ast::Expression, out: &mut Vec<CapInfo>) {
    use ast::Expression as E;
    match e {
        E::Capture(c) => out.push((c.name.as_str().to_string(), c.quantifier, c.file_capture_index, c.stanza_capture_index)),
        E::ListLiteral(l) => l.elements.iter().for_each(|x| collect_captures_expr(x, out)),
        E::SetLiteral(l) => l.elements.iter().for_each(|x| collect_captures_expr(x, out)),
        E::ListComprehension(c) => { collect_captures_expr(&c.element, out); collect_captures_expr(&c.value, out); }
        E::SetComprehension(c) => { collect_captures_expr(&c.element, out); collect_captures_expr(&c.value, out); }
        E::Variable(ast::Variable::Scoped(v)) => collect_captures_expr(&v.scope, out),
        E::Call(c) => c.parameters.iter().for_each(|x| collect_captures_expr(x, out)),
        _ => {}
    }
}
fn collect_captures_var(v: &ast::Variable, out: &mut Vec<CapInfo>) { if let ast::Variable::Scoped(s) = v { collect_captures_expr(&s.scope, out); } }
pub fn collect_captures_stmts(stmts: &[ast::Statement], out: &mut Vec<CapInfo>) {
    use ast::Statement as S;
    for s in stmts {
        match s {
            S::DeclareImmutable(d) => { collect_captures_var(&d.variable, out); collect_captures_expr(&d.value, out); }
            S::DeclareMutable(d) => { collect_captures_var(&d.variable, out); collect_captures_expr(&d.value, out); }
            S::Assign(d) => { collect_captures_var(&d.variable, out); collect_captures_expr(&d.value, out); }
            S::CreateGraphNode(d) => collect_captures_var(&d.node, out),
            S::AddGraphNodeAttribute(d) => { collect_captures_expr(&d.node, out); d.attributes.iter().for_each(|a| collect_captures_expr(&a.value, out)); }
            S::CreateEdge(d) => { collect_captures_expr(&d.source, out); collect_captures_expr(&d.sink, out); }
            S::AddEdgeAttribute(d) => { collect_captures_expr(&d.source, out); collect_captures_expr(&d.sink, out); d.attributes.iter().for_each(|a| collect_captures_expr(&a.value, out)); }
            S::Scan(d) => { collect_captures_expr(&d.value, out); d.arms.iter().for_each(|a| collect_captures_stmts(&a.statements, out)); }
            S::Print(d) => d.values.iter().for_each(|x| collect_captures_expr(x, out)),
            S::If(d) => d.arms.iter().for_each(|a| { a.conditions.iter().for_each(|c| match c { ast::Condition::Some { value, .. } | ast::Condition::None { value, .. } | ast::Condition::Bool { value, .. } => collect_captures_expr(value, out) }); collect_captures_stmts(&a.statements, out); }),
            S::ForIn(d) => { collect_captures_expr(&d.value, out); collect_captures_stmts(&d.statements, out); }
        }
    }
}
