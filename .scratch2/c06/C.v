From TSG Require Import Spec.Rules Props.C06.
From TSG Require Import Model.Locality Spec.EagerPos Spec.PureLv Proofs.LocalCheck Proofs.LocalHoare Proofs.LocalRun
  Model.Exec Model.Strict Model.Lazy Model.VarScope Model.Stdlib Proofs.VarScopeRun Proofs.VarScopeShape Proofs.VarScopeCheck.
From Coq Require Import List NArith. Import ListNotations.
Open Scope N_scope.

(* ---- where is EUndefinedCapture mentioned? ---- *)
(* Search EUndefinedCapture. -- only exec_error_ind/rec/rect/sind, error_code; see grep *)

Definition T := ex_tables [ex_id; FULL_MATCH].
Definition l0 : loc := (0, 0).
Definition x : ident := [120].
Definition y : ident := [121].
Definition v : ident := [118].

(* attempt 1: var declared in one branch of an if, set after  -> checker rejects *)
Definition a1 := ex_file [SIf [([CBool ETrue l0], [SVar (VarU v l0) (EInt 1) l0], l0)] l0; SSet (VarU v l0) (EInt 2) (3, 3)] [].
Eval vm_compute in check_file T a1.
(* attempt 2: set of a for-loop variable -> rejected *)
Definition a2 := ex_file [SFor y l0 ex_cap [SSet (VarU y l0) (EInt 2) (3, 3)] l0] [].
Eval vm_compute in check_file T a2.
(* attempt 3: let of the loop variable inside the loop body (same frame) -> rejected *)
Definition a3 := ex_file [SFor y l0 ex_cap [SLet (VarU y l0) (EInt 2) (3, 3)] l0] [].
Eval vm_compute in check_file T a3.
(* attempt 4: global hidden by let / loop variable / comprehension variable *)
Definition gfile (body : list stmt) : file :=
  {| f_globals := [{| gl_name := x; gl_quant := QOne; gl_default := None; gl_loc := l0 |}]; f_inherited := []; f_shorthands := [];
     f_stanzas := [{| st_stmts := body; st_full_stanza_idx := unresolved; st_full_file_idx := unresolved; st_start := (0, 0) |}] |}.
Eval vm_compute in check_file T (gfile [SLet (VarU x l0) (EInt 2) (3, 3)]).
Eval vm_compute in check_file T (gfile [SFor x l0 ex_cap [] (3, 3)]).
Eval vm_compute in check_file T (gfile [SPrint [EListComp (EInt 1) x l0 ex_cap (4, 4)] (3, 3)]).
(* attempt 5: variable defined in a scan arm, read after the scan; read of the comprehension variable after it *)
Definition a5 := ex_file [SScan (EStr [97]) [(0, [SLet (VarU v l0) (EInt 1) l0], l0)] l0; SPrint [EUnscoped v (5, 5)] l0] [].
Eval vm_compute in check_file T a5.

(* attempt 6: `$1` in a scan arm whose regex has no group 1: ACCEPTED; strict run fails with UndefinedRegexCapture,
   which is NOT among the excluded errors (the excluded EUndefinedCapture has no raise site at all) *)
Definition kfile (body : list stmt) : file := {| f_globals := []; f_inherited := []; f_shorthands := []; f_stanzas := [{| st_stmts := body; st_full_stanza_idx := 0; st_full_file_idx := unresolved; st_start := k4_l |}] |}.
Definition a6 := kfile [SScan (EStr [97]) [(0, [SPrint [ERegexCap 1] l0], l0)] l0].
Definition k4_tables6 : query_tables := {| qt_stanza_names := [[FULL_MATCH]]; qt_file_names := [FULL_MATCH]; qt_file_quants := [[QOne]]; qt_nullable := [false] |}.
Definition a6c : file := match check_file k4_tables6 a6 with CkOk f' => f' | _ => a6 end.
Lemma a6_accepted : check_file k4_tables6 a6 = CkOk a6c. Proof. vm_compute. reflexivity. Qed.
(* find: regex 0 matches "a" at 0..1 with only group 0 *)
Definition find6 : unit -> str -> option (list (option (N * N))) := fun _ s => match s with [] => None | _ => Some [Some (0, 1)] end.
Eval vm_compute in
  match run_strict lz_tree a6c config0 [] None [tt] find6 lz_call 30 [[[(0, [0])]]] [] with
  | Err e => Some (error_code (root_cause e)) | Ok _ => Some 0 | _ => None end.
Eval vm_compute in
  match run_lazy lz_tree a6c config0 [] None [tt] find6 lz_call 30 [(0, [(0, [0])])] [] with
  | Err e => Some (error_code (root_cause e)) | Ok _ => Some 0 | _ => None end.

(* attempt 7: `$1` OUTSIDE any scan arm: accepted by the checker? *)
Definition a7 := kfile [SPrint [ERegexCap 1] l0].
Eval vm_compute in check_file k4_tables a7.
Eval vm_compute in
  match check_file k4_tables a7 with CkOk f' =>
  match run_strict lz_tree f' config0 [] None ([] : list unit) find6 lz_call 30 [[[(0, [0])]]] [] with
  | Err e => Some (error_code (root_cause e)) | Ok _ => Some 0 | Panic _ => Some 999 | _ => None end | _ => None end.

(* attempt 8: a capture missing from the match: Panic, not Err -> outside the theorem *)
Eval vm_compute in
  match run_strict lz_tree vx_checked config0 [] None ([] : list unit) vx_find lz_call 30 [[ [(0, [5])] ]] [] with
  | Err e => Some (error_code (root_cause e)) | Ok _ => Some 0 | Panic _ => Some 999 | _ => None end.

(* ---- reflexivity / restatement tests ---- *)
Goal forall f, f_shorthands f = [] -> shorthands_scope_ok f = true.
Proof. intros f H. unfold shorthands_scope_ok, vs_shorthands. rewrite H. reflexivity. Qed.

Goal forall cx env e e' r, globals_local cx -> check_expr cx env e = Ok (e', r) -> er_local r = eager_ok (cx_global cx) (lenv_of env) e'.
Proof. intros. Fail reflexivity. Abort.

Goal forall cx env s s' env' u, check_stmt cx env s = Ok (s', env', u) -> shape env' = vs_env (shape env) s'.
Proof. intros. Fail reflexivity. Abort.

(* invariant_gives_agreement *)
Goal forall env s, locals_ok (l_store s) env (l_locals s) -> Spec.AgreeLv.states_agree env s s.
Proof. intros. Fail (repeat split; reflexivity). Abort.

(* checked_stmt_scope_discipline has no run-time content: it mentions neither exec_stmt nor a state *)
Check checked_stmt_scope_discipline.

(* strict theorem permits an UNSCOPED UndefinedVariable as soon as the file has one scoped read anywhere:
   the conclusion for such a file is `True`-like.  Shown on sy-like file: conclusion for EUndefinedVariable reduces to file_sr = true *)
Goal forall (e : exec_error) f', file_sr f' = true -> file_sd f' = true ->
  root_cause e <> ECannotAssignImmutableVariable -> root_cause e <> EUndefinedCapture ->
  match root_cause e with
  | ECannotAssignImmutableVariable | EUndefinedCapture => False
  | EUndefinedVariable => file_sr f' = true
  | EDuplicateVariable => file_sd f' = true
  | _ => True
  end.
Proof. intros e f' H1 H2 N1 N2. destruct (root_cause e); auto; contradiction. Qed.
