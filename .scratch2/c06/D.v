From TSG Require Import Spec.Rules Props.C06.
From TSG Require Import Model.Locality Model.Exec Model.Strict Model.Lazy Model.VarScope Model.Stdlib Proofs.VarScopeRun.
From Coq Require Import List NArith. Import ListNotations.
Open Scope N_scope.
Require B.

(* lazy theorem on the two-stanza scoped file of B.v, with the REAL stdlib table and any oracle: hypotheses discharged *)
Lemma d_lazy : forall rxo t cfg budget (regexes : list unit) find fuel matches g0 e,
  run_lazy t B.b_checked cfg [] budget regexes find (stdlib_call rxo t) fuel matches g0 = Err e ->
  root_cause e <> EUndefinedVariable /\ root_cause e <> ECannotAssignImmutableVariable /\ root_cause e <> EUndefinedCapture.
Proof.
  intros rxo t cfg budget regexes find fuel matches g0 e Hrun.
  assert (H := checked_no_variable_errors_lazy unit _ _ _ t cfg [] budget regexes find (stdlib_call rxo t) fuel matches g0 e B.b_accepted eq_refl
                 (fun k v (H : globals_get [] k = Some v) => ltac:(discriminate)) (stdlib_functions_clean rxo t) Hrun).
  destruct (root_cause e); try contradiction; repeat split; discriminate.
Qed.

(* strict theorem on the same file: since file_sr = file_sd = true the ONLY live exclusion is CannotAssignImmutableVariable *)
Lemma d_flags : file_sr B.b_checked = true /\ file_sd B.b_checked = true.
Proof. split; vm_compute; reflexivity. Qed.
Lemma d_strict_weak : forall (e : exec_error),
  root_cause e = EUndefinedVariable \/ root_cause e = EDuplicateVariable ->
  match root_cause e with
  | ECannotAssignImmutableVariable | EUndefinedCapture => False
  | EUndefinedVariable => file_sr B.b_checked = true
  | EDuplicateVariable => file_sd B.b_checked = true
  | _ => True
  end.
Proof. intros e [-> | ->]; vm_compute; reflexivity. Qed.

(* shorthands_scope_ok is satisfiable with a non-empty, non-trivial shorthand; k4_file (comprehension in the body) satisfies it too *)
Lemma d_k4_scope_ok : forall fl, check_file k4_tables k4_file = CkOk fl -> shorthands_scope_ok fl = true /\ f_shorthands fl <> [].
Proof. intros fl H. vm_compute in H. inversion H; subst. split; [vm_compute; reflexivity|discriminate]. Qed.
