From TSG Require Import Spec.Rules Props.C06.
From TSG Require Import Model.Locality Spec.EagerPos Spec.PureLv Proofs.LocalCheck Proofs.LocalHoare Proofs.LocalRun
  Model.Exec Model.Strict Model.Lazy Model.VarScope Model.Stdlib Proofs.VarScopeRun.
From Coq Require Import List NArith. Import ListNotations.
Open Scope N_scope.

(* two stanzas:
   (..) @m { let @m.v = [1] }
   (..) @m { node n  attr (n) a = @m.v   print @m.v } *)
Definition b_tables : query_tables :=
  {| qt_stanza_names := [[FULL_MATCH]; [FULL_MATCH]]; qt_file_names := [FULL_MATCH]; qt_file_quants := [[QOne]; [QOne]]; qt_nullable := [] |}.
Definition b_file : file :=
  {| f_globals := []; f_inherited := []; f_shorthands := [];
     f_stanzas := [{| st_stmts := [SLet (VarS k4_cap [118] k4_l) (EList [EInt 1]) k4_l];
                      st_full_stanza_idx := 0; st_full_file_idx := unresolved; st_start := k4_l |};
                   {| st_stmts := [SNode (VarU [110] k4_l) [110] k4_l;
                                   SAttrNode (EUnscoped [110] k4_l) [Attr [97] (EScoped k4_cap [118] k4_l)] k4_l;
                                   SPrint [EScoped k4_cap [118] k4_l] k4_l];
                      st_full_stanza_idx := 0; st_full_file_idx := unresolved; st_start := k4_l |}] |}.
Definition b_checked : file := match check_file b_tables b_file with CkOk f' => f' | _ => b_file end.
Lemma b_accepted : check_file b_tables b_file = CkOk b_checked.
Proof. vm_compute. reflexivity. Qed.

Definition b_ms : list (N * qmatch) := [(1, [(0, [0])]); (0, [(0, [0])])].  (* reader block first, definer second *)

Lemma b_phase_runs : exists u ls p,
  lexec_matches lz_tree b_checked config0 [[]] ([] : list unit) (fun _ _ => None) lz_call 20 b_ms (linit []) (polls0 None) = Ok (u, ls, p)
  /\ l_scoped ls <> [] /\ length (l_attrs ls) = 1%nat /\ length (l_prints ls) = 1%nat.
Proof. do 3 eexists. split; [vm_compute; reflexivity|]. split; [discriminate|split; reflexivity]. Qed.

(* the theorem applies, and the cell list is not empty *)
Lemma b_theorem_applies : forall u ls p,
  lexec_matches lz_tree b_checked config0 [[]] ([] : list unit) (fun _ _ => None) lz_call 20 b_ms (linit []) (polls0 None) = Ok (u, ls, p) ->
  cells_unforced (l_scoped ls) /\ exists ps, alist_get [118] (l_scoped ls) = Some (SVUnforced ps).
Proof.
  intros u ls p H.
  assert (C := checked_exec_phase_forces_nothing unit b_tables b_file b_checked lz_tree config0 [[]] [[]] [] (fun _ _ => None) lz_call 20 b_ms [] (polls0 None) u ls p
            b_accepted eq_refl eq_refl H).
  split; [exact C|]. vm_compute in H. inversion H; subst. eexists. reflexivity.
Qed.

(* whole run_lazy for reference: succeeds *)
Lemma b_run_lazy : exists s p, run_lazy lz_tree b_checked config0 [] None ([] : list unit) (fun _ _ => None) lz_call 30 b_ms [] = Ok (s, p).
Proof. do 2 eexists. vm_compute. reflexivity. Qed.

(* cells_unforced is trivially true of the empty cell list, i.e. of any file without scoped definitions *)
Lemma cells_unforced_nil : cells_unforced [] .
Proof. intros n c H. discriminate. Qed.

(* the theorem says nothing when the execution phase fails; and nothing about OutOfFuel/ Panic *)

(* lexec_file = lexec_matches ;;; evaluate_phase by reflexivity (so the phase is the real one) *)
Check lexec_file_phases.

Print Assumptions checked_exec_phase_forces_nothing.
Print Assumptions checked_no_variable_errors_lazy.
Print Assumptions checked_no_variable_errors_strict.
Print Assumptions checker_local_is_eager_ok.
Print Assumptions local_independent_of_nonlocal_state.
