From TSG Require Import Model.JsonText Model.C14TextObs Proofs.JsonText Props.C14.
From Coq Require Import String Ascii List NArith.
Import ListNotations.
Open Scope N_scope.
Fixpoint s2l (s : string) : list N :=
  match s with EmptyString => [] | String a r => N_of_ascii a :: s2l r end.
Definition P (s : string) := parse_json_text (s2l s).
(* q = double quote inside Coq strings is "" *)
(* ---- VALID JSON the printer never emits ---- *)
Definition v1 := P "{""a"":[1,2,{}],""b"":[[],[]]}".                  (* compact *)
Definition v2 := P "[""A"",""\/"",""é"",""é""]".       (* \uXXXX, \/ *)
Definition v3 := P " [ ] ".
Definition v4 := P "{ }".
Definition v5 := P "[-1]".
Definition v6 := P "[1.5]".
Definition v7 := P "[1e3]".
Definition v8 := P "[""😀""]".                                (* surrogate pair: valid JSON *)
Definition v9 := P "0".
Definition v10 := P "[	1 ,
 2 ]".
Definition v11 := P "[4294967296]".                                      (* > u32 *)
Definition v12 := P "[-0]".
(* ---- INVALID JSON ---- *)
Definition i1 := P "[1,]".
Definition i2 := P "{""a"":1,}".
Definition i3 := parse_json_text ([91;34;1;34;93]).                      (* raw control char *)
Definition i4 := P "[""a]".
Definition i5 := P "{""a"":1,""a"":2}".                                   (* duplicate keys (RFC: SHOULD be unique) *)
Definition i6 := P "[01]".
Definition i7 := P "[1 2]".
Definition i8 := P "{a:1}".
Definition i9 := P "[1]]".
Definition i10 := P "".
Definition i11 := P "[""\x""]".
Definition i12 := P "[""\ud83d""]".                                       (* lone surrogate escape *)
Definition i13 := P "nul".
Definition i14 := P "[tru]".
Definition i15 := parse_json_text ([34;55296;34]).                       (* RAW surrogate code point inside literal *)
Definition i16 := parse_json_text ([34;1114112;34]).                     (* RAW > 0x10FFFF *)
Definition i17 := P "{""a"" 1}".
Definition i18 := P "[1,,2]".
Definition i19 := P "1 2".
Definition i20 := P "{""a"":1 ""b"":2}".
Eval vm_compute in ("valid"%string, [v1;v2;v3;v4;v5;v6;v7;v8;v9;v10;v11;v12]).
Eval vm_compute in ("invalid"%string, [i1;i2;i3;i4;i5;i6;i7;i8;i9;i10;i11;i12;i13;i14;i15;i16;i17;i18;i19;i20]).
(* escape *)
Eval vm_compute in (map escape_char [0;7;8;9;10;11;12;13;14;27;31;32;34;47;92;127;128;159;233;8232;8233;128512]).
Print Assumptions json_text_roundtrip_len.
Print Assumptions json_text_injective.
Print Assumptions graph_json_text_roundtrip.
Print Assumptions graph_json_text_member_order.
