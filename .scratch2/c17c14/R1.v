From TSG Require Import Model.ContainerOps Model.Vars Model.ContainerHist Proofs.BaseFacts Proofs.Containers.
From TSG Require Import Spec.ContainerSpec Spec.GraphSpec Proofs.OrderFacts Proofs.ContainerRefine Proofs.GraphRefine Props.C17.
From Coq Require Import List NArith Sorted.
Import ListNotations.
Open Scope N_scope.

(* ---- (4) shared helpers: the variable part of the whole-language spec IS cstep; attribute part IS attrs_add/attrs_get/sort_alist ---- *)
Lemma sstep_vars_is_cstep : forall t o,
  match o with OVarNested | OVarPop | OVarAdd _ _ | OVarGet _ | OVarRemove _ | OVarClear | OVarIsEmpty | OVarIter => true | _ => false end = true ->
  snd (sstep t o) = snd (cstep {| cs_graph := []; cs_vars := ss_vars t |} o).
Proof. intros t o; destruct o; try discriminate; intros _; unfold sstep, s_onvars; destruct (cstep _ _); reflexivity. Qed.

(* on var-only histories the "refinement" compares cstep with cstep: same state type, same function *)
Lemma sstep_var_state : forall t k v, ss_vars (fst (sstep t (OVarAdd k v))) = cs_vars (fst (cstep {| cs_graph := []; cs_vars := ss_vars t |} (OVarAdd k v))).
Proof. intros. unfold sstep, s_onvars. destruct (cstep _ _). reflexivity. Qed.

Lemma espec_attr_add_is_model : forall m b a k v, em_get b m = Some a ->
  snd (espec m (EAttrAdd b k v)) = RAddAttr (snd (attrs_add a k v)).
Proof. intros. cbn [espec]. rewrite H. destruct (attrs_add a k v). reflexivity. Qed.
Lemma espec_attr_iter_is_model : forall m b a, em_get b m = Some a -> snd (espec m (EAttrIter b)) = RAttrs (sort_alist a).
Proof. intros. cbn [espec]. rewrite H. reflexivity. Qed.
Lemma sstep_nodeattr_is_model : forall t a n k, snode_at t a = Some n -> sstep t (ONodeAttrGet a k) = (t, ROptVal (attrs_get (sn_attrs n) k)).
Proof. intros. cbn [sstep]. rewrite H. reflexivity. Qed.
(* srel on the variable component and node attributes is EQUALITY *)
Lemma srel_vars_eq : forall s t, srel s t -> cs_vars s = ss_vars t. Proof. intros s t [_ H]; exact H. Qed.

(* ---- discriminating power: a WRONG edge vector (push_front, no sort; linear lookup with early exit as in edges_get) is told apart by espec ---- *)
Definition bad_add (sink : N) (es : edges) : bool * edges :=
  match edges_get sink es with Some _ => (false, es) | None => (true, (sink, []) :: es) end.
Definition bad_estep (es : edges) (o : eop) : edges * cres :=
  match o with EAdd b => let '(n, es') := bad_add b es in (es', RBool n) | _ => estep es o end.
Definition h1 := [EAdd 5; EAdd 3; EAdd 9; EAdd 5; EGet 9; EIter; ECount].
Eval vm_compute in (snd (run bad_estep [] h1), snd (run espec [] h1), snd (run estep [] h1)).

(* ---- vars: 8-op history: duplicates, shadowing, write-through, set immutable in parent, clear ---- *)
Definition a := [97]. Definition b := [98].
Definition vh : list (vop N) :=
  [VAdd a 1 true; VAdd a 2 true;      (* dup in same frame -> AlreadyDefined *)
   VAdd b 7 false;
   VNested;
   VAdd a 10 true;                    (* shadow: Rust add looks at own map only -> Ok *)
   VSet a 11;                         (* inner a *)
   VSet b 8;                          (* immutable in parent -> CannotAssignImmutable *)
   VClear;                            (* clears inner only *)
   VGet a;                            (* 1 *)
   VSet a 3;                          (* write-through to parent *)
   VPop; VGet a; VSet [99] 0].
Eval vm_compute in snd (run vstep [[]] vh).
Eval vm_compute in snd (run vspec [fempty] vh).

(* globals history *)
Definition gh := [OVarAdd a (VInt 1); OVarAdd a (VInt 2); OVarNested; OVarAdd a (VInt 3); OVarGet a; OVarIsEmpty; OVarRemove a; OVarGet a; OVarIsEmpty; OVarIter; OVarClear; OVarPop; OVarIter].
Eval vm_compute in crun cinit gh.

(* ---- (c) reflexivity-provable? ---- *)
Goal forall ops, snd (run estep [] ops) = snd (run espec [] ops) /\ erel (fst (run estep [] ops)) (fst (run espec [] ops)).
Proof. Fail (intros; split; reflexivity). Abort.
Goal forall ops, length (fst (run estep [] ops)) = length (fst (run espec [] ops)).
Proof. Fail (intros; reflexivity). Abort.
Goal forall ops, crun cinit ops = snd (run sstep sinit ops).
Proof. Fail (intros; reflexivity). Abort.
Goal forall ops, snd (run gstep cinit ops) = snd (run gspec [gempty] ops).
Proof. Fail (intros; reflexivity). Abort.
Goal forall (V : Type) (m : varmap V) ops, snd (run vstep m ops) = snd (run vspec (abs_varmap m) ops).
Proof. Fail (intros; reflexivity). Abort.
(* per-step: is any arm of the simulation definitional? var arms of sstep vs cstep *)
Goal forall s k, snd (cstep s (OVarGet k)) = snd (sstep {| ss_nodes := []; ss_vars := cs_vars s |} (OVarGet k)).
Proof. intros. reflexivity. Qed.
Goal forall s, snd (cstep s OVarIter) = snd (sstep {| ss_nodes := []; ss_vars := cs_vars s |} OVarIter).
Proof. intros. reflexivity. Qed.
Goal forall s a' n, gnode_at (cs_graph s) a' = Some n ->
  snd (cstep s (ONodeAttrIter a')) = RAttrs (sort_alist (g_attrs n)).
Proof. intros. cbn [cstep]. rewrite H. reflexivity. Qed.

Print Assumptions containers_refine_models.
Print Assumptions vars_refine.
Print Assumptions globals_observers_refine.
Print Assumptions edge_lookup_iff_added.
