From TSG Require Import Model.JsonText Model.C14TextObs Proofs.JsonText Props.C14.
From Coq Require Import String Ascii List NArith.
Import ListNotations.
Open Scope N_scope.
Fixpoint s2l (s : string) : list N :=
  match s with EmptyString => [] | String a r => N_of_ascii a :: s2l r end.
Definition U (h : string) : list N := [92;117] ++ s2l h.   (* backslash u XXXX *)
Definition lit (body : list N) := [91;34] ++ body ++ [34;93].
Eval vm_compute in
  [ parse_json_text (lit (U "0041"));            (* A *)
    parse_json_text (lit (U "00e9"));            (* lower hex *)
    parse_json_text (lit (U "00E9"));            (* upper hex *)
    parse_json_text (lit (U "2028"));
    parse_json_text (lit (U "d83d" ++ U "de00")); (* VALID JSON surrogate pair *)
    parse_json_text (lit (U "d83d"));            (* lone surrogate *)
    parse_json_text (lit (U "00g1"));
    parse_json_text (lit (U "12")) ].
