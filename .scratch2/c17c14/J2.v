From TSG Require Import Model.JsonText Model.C14TextObs Proofs.JsonText Props.C14.
From Coq Require Import String Ascii List NArith.
Import ListNotations.
Open Scope N_scope.
Fixpoint s2l (s : string) : list N :=
  match s with EmptyString => [] | String a r => N_of_ascii a :: s2l r end.
Definition P (s : string) := parse_json_text (s2l s).
Eval vm_compute in [P "[""A"",""é"",""é"","" "",""\b\f\n\r\t\""\\\/""]";
                    P "[""😀""]" (* valid JSON surrogate pair *);
                    P "[""\u00g1""]"; P "[""\u12""]" ; P "[true,false,null]"; P "[ true , false , null ]";
                    P "{""a"" : { ""b"" : [ ] } }"; P "[1E2]"; P "[+1]"; P "[.5]"; P "[00]"; P "[0]"].
(* roundtrip theorem is about the printer only being inverted? show parser is NOT the printer's inverse: two different texts, same tree *)
Goal parse_json_text (s2l "[1,2]") = parse_json_text (print_pretty (JArr [JNum 1; JNum 2])) /\ s2l "[1,2]" <> print_pretty (JArr [JNum 1; JNum 2]).
Proof. split; [vm_compute; reflexivity| vm_compute; discriminate]. Qed.
(* c14_jtext_ok rejects valid compact JSON (checks print_pretty tj = text): by design *)
Eval vm_compute in c14_jtext_ok (JArr [JNum 1; JNum 2]) [] (s2l "[1,2]").
(* print_pretty_scalars hypothesis is not derivable for arbitrary graphs: a graph with a surrogate in a string *)
Eval vm_compute in json_wfb (encode_graph [ {| g_attrs := [([97], VStr [55296])]; g_edges := [] |} ]).
(* roundtrip still holds for it (theorem has no hypothesis) *)
Eval vm_compute in graph_of_json_text (graph_json_text [ {| g_attrs := [([97], VStr [55296])]; g_edges := [] |} ]).
(* ill-formed graphs: duplicate attr names, unsorted edges, dangling sink, VInt > u32 *)
Definition badg : graph := [ {| g_attrs := [([97], VInt 1); ([97], VInt 5000000000)]; g_edges := [(7, []); (3, []); (3, [])] |} ].
Eval vm_compute in (match graph_of_json_text (graph_json_text badg) with Some g => true | None => false end).
Goal graph_of_json_text (graph_json_text badg) = Some badg. Proof. apply graph_json_text_roundtrip. Qed.
