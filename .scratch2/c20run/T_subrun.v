(* AUDIT2: `fails_in_run` (Props/C20run.v) holds of a statement that did NOT fail in the run.
   Program (one stanza, one match):   node x   (1,0)        <- succeeds
                                      node x   (2,0)        <- fails: DuplicateVariable; the run's error cites (2,0)
   `subrun` is an inductive relation on computations UP TO CONVERSION: with config0 the term `exec_stmt (S f) le (SNode v txt l)` does not
   mention l nor le_ctx, so the execution of the second statement IS (convertible to) an execution of the first one, from the state in
   which x is already bound.  Hence fails_in_run .. run .. (the FIRST node x) EDuplicateVariable. *)
From Coq Require Import List NArith.
From TSG Require Import Model.Strict Model.Lazy Proofs.StrictMeta Proofs.ErrorCtx Proofs.Captures Proofs.ErrorCtxValid Proofs.SubRun Proofs.StrictCiteRun.
From TSG Require Import Props.C20 Props.C20run.
Import ListNotations.
Open Scope N_scope.
Definition n1 : stmt := SNode (VarU rx_x (1, 2)) rx_x (1, 0).
Definition n2 : stmt := SNode (VarU rx_x (1, 2)) rx_x (2, 0).
Definition st2 : stanza := {| st_stmts := [n1; n2]; st_full_stanza_idx := 0; st_full_file_idx := 0; st_start := (0, 0) |}.
Definition fl2 : file := {| f_globals := []; f_inherited := []; f_shorthands := []; f_stanzas := [st2] |}.
Definition run2 : M sstate unit := exec_file ex_tree fl2 config0 [[]] (@nil unit) (fun _ _ => None) ex_call 50 [st2] [[rx_m]].
Example run2_error : run2 (sinit []) (polls0 None)
  = Err (EInContext (CtxStmts [{| sc_stmt := (2, 0); sc_stanza := (0, 0); sc_node := 7 |}]) EDuplicateVariable).
Proof. vm_compute. reflexivity. Qed.

Theorem first_statement_fails_in_run :
  fails_in_run ex_tree fl2 config0 [[]] (@nil unit) (fun _ _ => None) ex_call (0, 0) 7 rx_m run2 (sinit []) (polls0 None) n1 EDuplicateVariable.
Proof.
  destruct (strict_file_error_run_lemma ex_tree fl2 config0 [[]] (@nil unit) (fun _ _ => None) ex_call 50 [st2] [[rx_m]] _ _ _ ex_call_base run2_error)
    as [[l Hl]|(B1 & st & m & B2 & s1 & p1 & EB & Hpre & Hx & K)]; [discriminate|].
  change (blocks [st2] [[rx_m]]) with [(st2, rx_m)] in EB.
  destruct B1 as [|b B1]; [|destruct B1; discriminate]. cbn [app] in EB. inversion EB; subst st m B2. clear EB.
  cbn [iterM] in Hpre. inversion Hpre; subst s1 p1. clear Hpre.
  change (nodes_for_capture rx_m (st_full_stanza_idx st2)) with [7] in K. cbv iota in K.
  destruct K as (s' & e0 & e1 & Hin & He & He0 & fuel & le & s0 & p0 & H & Hu & Hc & Hm & Hr).
  assert (Es : s' = n2).
  { inversion He as [[Hl _]]. change (stmts_all (st_stmts st2)) with [n1; n2] in Hin. destruct Hin as [<-|[<-|[]]]; [discriminate Hl|reflexivity]. }
  subst s'. assert (E0 : e0 = EDuplicateVariable) by (inversion He; reflexivity). subst e0.
  assert (E1 : e1 = EDuplicateVariable) by (destruct He0 as [<-|E]; [reflexivity|discriminate E]). subst e1.
  destruct fuel as [|f]; [discriminate H|].
  (* the same computation, read as an execution of the FIRST statement with the first statement's error context *)
  set (le' := {| le_match := le_match le; le_full := le_full le; le_caps := le_caps le; le_ctx := {| sc_stmt := (1, 0); sc_stanza := (0, 0); sc_node := 7 |} |}).
  exists (S f), le', s0, p0.
  split; [exact H|]. split; [exact Hu|]. split; [reflexivity|]. split; [exact Hm|].
  unfold run2. cbn [exec_file]. apply sr_bind_l. cbn [iterM]. apply sr_bind_l. exact Hr.
Qed.
Print Assumptions first_statement_fails_in_run.
