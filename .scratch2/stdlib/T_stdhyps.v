From TSG Require Import Model.Strict Model.Lazy Model.Stdlib Model.Run Proofs.StdlibHyps Proofs.Cancel Proofs.ErrorCtx Proofs.Extends Proofs.ExtendsLazy.
From TSG Require Props.C01 Props.C09 Props.C11 Props.C15.
(* the four hypotheses hold of the function the correspondence streams run (the_call), every tree, every table *)
Goal forall t tbl, call_errors_base (the_call t tbl) /\ call_errors_ok (the_call t tbl) /\ call_extends (the_call t tbl) /\ call_extends_sorted (the_call t tbl).
Proof. intros. unfold the_call. split; [apply stdlib_call_errors_base|]. split; [apply stdlib_call_errors_ok|]. split; [apply stdlib_call_extends|apply stdlib_call_extends_sorted]. Qed.
(* the run the C01 stream evaluates is an instance of the _stdlib corollary *)
Goal forall t fl rxs tbl supplied matches,
  match run_strict t fl config0 supplied None rxs rx_captures (the_call t tbl) default_fuel matches [] with
  | Ok (s, _) => Spec.RefSem.ref_run t fl supplied rxs rx_captures (the_call t tbl) default_fuel matches [] = Ok (s_graph s)
  | Err e => Spec.RefSem.ref_run t fl supplied rxs rx_captures (the_call t tbl) default_fuel matches [] = Err (root_cause e)
  | Panic x => Spec.RefSem.ref_run t fl supplied rxs rx_captures (the_call t tbl) default_fuel matches [] = Panic x
  | OutOfFuel => Spec.RefSem.ref_run t fl supplied rxs rx_captures (the_call t tbl) default_fuel matches [] = OutOfFuel end.
Proof. intros. exact (Props.C01.strict_refines_reference_stdlib (table_oracle tbl) t fl supplied rxs rx_captures default_fuel matches []). Qed.
Check @Props.C01.strict_only_adds_stdlib.
Check @Props.C09.run_extends_lazy_stdlib.
Print Assumptions Props.C01.strict_refines_reference_stdlib.
Print Assumptions Props.C09.run_extends_lazy_stdlib.
Print Assumptions Props.C11.strict_cancel_at_k_stdlib.
Print Assumptions Props.C11.c11_nonvacuous.
Print Assumptions Props.C15.strict_node_stmt_debug_attrs.
Print Assumptions Props.C15.loaded_node_stmt_records_variable_text_partial.
Print Assumptions Props.C09.strict_run_attr_conflict_fails.
Print Assumptions Props.C09.lazy_run_failing_attr_statement_fails_run.
