From TSG Require Import Model.Strict Model.Lazy Model.Stdlib Proofs.DebugStmt Proofs.DebugSim.
From TSG Require Model.Parser Model.Loader.
From TSG Require Import Model.AstDisplay.
From TSG Require Import Props.C15 Props.C20disp.
From Coq Require Import List NArith. Import ListNotations. Open Scope N_scope.

Definition call0 := stdlib_call (fun _ _ _ => None) c15_t.
(* (1) scoped variable `node @x.def` (x = capture 0 -> syntax node 7) in a NON-empty state: only the _any_variable equation is
   available; it does give the expected state after computing var_add *)
Definition s0 : sstate :=
  {| s_graph := [ {| g_attrs := [([107], VInt 1)]; g_edges := [(0, [])] |}; new_gnode ];
     s_locals := [[([121], (VGraph 1, false))]]; s_scoped := [(7, [([114;101;102], (VGraph 0, false))])]; s_params := [] |}.
Definition scoped_node := SNode (VarS (ECapture [120] QOne 0 0 (1, 5)) [100;101;102] (1, 5)) [64;120;46;100;101;102] (1, 0).
Goal exists s' p', exec_stmt c15_t c15_fl c15_cfg [] (@nil unit) (fun _ _ => None) call0 3 c15_le scoped_node s0 (polls0 None) = Ok (tt, s', p') /\
  s_graph s' = s_graph s0 ++ [ {| g_attrs := [([118], VStr [64;120;46;100;101;102]); ([108], VStr (loc_text (1, 5))); ([109], VSyn 7)]; g_edges := [] |} ] /\
  s_scoped s' = [(7, [([114;101;102], (VGraph 0, false)); ([100;101;102], (VGraph 2, false))])].
Proof.
  eexists. eexists. split.
  - unfold scoped_node. rewrite (strict_node_stmt_debug_attrs_any_variable c15_t c15_fl c15_cfg [] (@nil unit) (fun _ _ => None) call0 2 c15_le).
    + vm_compute. reflexivity.
    + exact c15_cfg_distinct.
    + right. discriminate.
    + reflexivity.
  - split; reflexivity.
Qed.

(* (2) the loaded-file theorem applies to the `node n` statement of the loader example of Props/C20disp.v *)
Goal exists fl name vl vtext l, Loader.load pex_ext pex_q (Parser.fuel_of pex_text) pex_text = Loader.LdOk fl [[97]; [98]] /\
  In (SNode (VarU name vl) vtext l) (file_stmts fl) /\ vtext = [110] /\ vtext = display_variable (dpenv_of (Parser.x_print pex_ext)) (VarU name vl).
Proof.
  destruct (Loader.load pex_ext pex_q (Parser.fuel_of pex_text) pex_text) as [fl pats| | | |] eqn:E; try (vm_compute in E; discriminate).
  assert (H : Loader.LdOk fl pats = Loader.load pex_ext pex_q (Parser.fuel_of pex_text) pex_text) by (symmetry; exact E).
  vm_compute in H. injection H as -> ->.
  eexists. eexists. eexists. eexists. eexists. split; [reflexivity|]. split.
  - cbv [file_stmts f_stanzas flat_map block_stmts st_stmts substmts app]. 
    repeat (first [left; reflexivity | right]).
  - split; vm_compute; reflexivity.
Qed.
