From TSG Require Import Model.Strict Model.Lazy Model.Stdlib Model.Regex.
From TSG Require Import Props.C11.
From Coq Require Import List NArith. Import ListNotations. Open Scope N_scope.
(* a run in which a STDLIB call fails (plus "x" 1): the only place where call_errors_ok is used *)
Definition f_fail : file :=
  {| f_globals := []; f_inherited := []; f_shorthands := [];
     f_stanzas := [{| st_stmts := [ SNode (VarU [97] (1, 7)) [97] (1, 2);
                                    SAttrNode (EUnscoped [97] (2, 8)) [Attr [105] (ECall Lit.plus [EStr [120]; EInt 1])] (2, 2) ];
       st_full_stanza_idx := 0; st_full_file_idx := 0; st_start := (0, 0) |}] |}.
Notation rs b := (run_strict c11_tree f_fail config0 [[]] b c11_regexes rx_captures (stdlib_call c11_oracle c11_tree) 50 [[[(0%N, [0%N])]]] []).
Notation rl b := (run_lazy c11_tree f_fail config0 [[]] b c11_regexes rx_captures (stdlib_call c11_oracle c11_tree) 50 [(0%N, [(0%N, [0%N])])] []).
Goal exists e, rs None = Err e /\ (forall l, root_cause e <> ECancelled l) /\
   (forall k, 0 < k -> rs (Some k) = Err e \/ exists l, rs (Some k) = Err (ECancelled l)) /\
   rs (Some 2) = Err (ECancelled L_exec_stmt) /\ rs (Some 4) = Err e.
Proof.
  eexists. split; [vm_compute; reflexivity|]. split; [intros l; vm_compute; discriminate|]. split.
  - intros k Hk. eapply (strict_cancel_or_same_error_stdlib c11_oracle c11_tree f_fail config0 [[]] c11_regexes rx_captures 50%nat [[[(0%N, [0%N])]]] [] _ k Hk).
    vm_compute. reflexivity.
  - split; vm_compute; reflexivity.
Qed.
Goal exists e, rl None = Err e /\ (forall k, 0 < k -> rl (Some k) = Err e \/ exists l, rl (Some k) = Err (ECancelled l)).
Proof.
  eexists. split; [vm_compute; reflexivity|].
  intros k Hk. eapply (lazy_cancel_or_same_error_stdlib c11_oracle c11_tree f_fail config0 [[]] c11_regexes rx_captures 50%nat [(0%N, [(0%N, [0%N])])] [] _ k Hk).
  vm_compute. reflexivity.
Qed.
