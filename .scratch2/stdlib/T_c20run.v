From TSG Require Import Model.Strict Model.Lazy Model.Stdlib Proofs.StdlibHyps.
From TSG Require Import Props.C20run.
(* the six C20run theorems keep `call_errors_base call`; no _stdlib corollary in the tree; each is one application away *)
Definition t1 {rx} rxo t fl cfg glob (regexes : list rx) find fuel sts ms s p e :=
  @strict_error_cites_statement_of_the_run rx t fl cfg glob regexes find (stdlib_call rxo t) fuel sts ms s p e (stdlib_call_errors_base rxo t).
Definition t2 {rx} rxo t fl cfg supplied budget (regexes : list rx) find fuel ms g0 e :=
  @lazy_run_error_cites_reached_run rx t fl cfg supplied budget regexes find (stdlib_call rxo t) fuel ms g0 e (stdlib_call_errors_base rxo t).
Check @t1. 
