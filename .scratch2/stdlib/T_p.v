From TSG Require Import Model.Strict Model.Lazy Model.Stdlib Proofs.AttrConflict Proofs.MonadFacts.
From TSG Require Import Props.C09.
From Coq Require Import List NArith. Import ListNotations. Open Scope N_scope.
Definition call0 := stdlib_call c09_oracle c09_tree.
Eval vm_compute in (match iterM (fun pm : N * qmatch =>
           match nth_error (f_stanzas (c09_file2 2)) (N.to_nat (fst pm)) with
           | Some st => lexec_stanza c09_tree (c09_file2 2) config0 [] (@nil unit) (fun _ _ => None) call0 50 st (snd pm)
           | None => panic P_stanza_index
           end) [(0, [(0, [0])])] (linit []) (polls0 None) with Ok (_, s, p) => Some (l_attrs s, l_edges s, l_store s) | _ => None end).
