From TSG Require Import Model.Strict Model.Lazy Model.Stdlib Proofs.DebugStmt Proofs.DebugSim.
From TSG Require Import Props.C15.
From Coq Require Import List NArith. Import ListNotations. Open Scope N_scope.
Definition call0 := stdlib_call (fun _ _ _ => None) c15_t.
Definition lle : llenv := {| ll_match := [(0, [7; 8])]; ll_full := 0; ll_caps := []; ll_ctx := {| sc_stmt := (1, 0); sc_stanza := (0, 0); sc_node := 7 |} |}.
Definition g1 : graph := [ {| g_attrs := [([107], VInt 1)]; g_edges := [] |} ].
(* lazy `node x` on a non-empty graph: theorem applies; then lazy `edge x -> x`: exec phase records, eval phase creates with the location *)
Goal exists s' p', lexec_stmt c15_t c15_fl c15_cfg [] (@nil unit) (fun _ _ => None) call0 2 lle (SNode (VarU [120] (1, 5)) [120] (1, 0)) (linit g1) (polls0 None) = Ok (tt, s', p') /\
  l_graph s' = g1 ++ [ {| g_attrs := [([118], VStr [120]); ([108], VStr (loc_text (1, 5))); ([109], VSyn 7)]; g_edges := [] |} ].
Proof.
  eexists. eexists. split.
  - eapply (lazy_node_stmt_debug_attrs c15_t c15_fl c15_cfg [] (@nil unit) (fun _ _ => None) call0 1 lle [120] (1,5) [120] (1,0) (linit g1) (polls0 None)).
    + exact c15_cfg_distinct.
    + right. discriminate.
    + reflexivity.
    + reflexivity.
    + vm_compute. reflexivity.
  - reflexivity.
Qed.
Definition ls1 : lstate := {| l_graph := g1; l_locals := [[([120], (LValue (VGraph 0), false))]]; l_store := []; l_scoped := []; l_edges := []; l_attrs := []; l_prints := []; l_params := []; l_prev := [] |}.
Goal exists s' p2, lexec_stmt c15_t c15_fl c15_cfg [] (@nil unit) (fun _ _ => None) call0 3 lle (SEdge (EUnscoped [120] (3, 5)) (EUnscoped [120] (3, 10)) (3, 0)) ls1 (polls0 None) = Ok (tt, s', p2) /\
   exists a b, l_edges s' = [LSEdge a b [([108], VStr (loc_text (3, 0)))] (ll_ctx lle)].
Proof.
  edestruct (lazy_edge_stmt_debug_attr c15_t c15_fl c15_cfg [] (@nil unit) (fun _ _ => None) call0 2 lle (EUnscoped [120] (3, 5)) (EUnscoped [120] (3, 10)) (3,0) ls1 (polls0 None)) as (s' & E & He & _).
  1: reflexivity. 1: vm_compute; reflexivity. 1: vm_compute; reflexivity.
  eexists. eexists. split; [exact E|]. eexists. eexists. rewrite He. reflexivity.
Qed.
