From TSG Require Import Model.Strict Model.Lazy Model.Stdlib Proofs.AttrConflict Proofs.MonadFacts.
From TSG Require Import Props.C09.
From Coq Require Import List NArith. Import ListNotations. Open Scope N_scope.
Definition call0 := stdlib_call c09_oracle c09_tree.

(* (a) lazy_run_failing_attr_statement_fails_run is bind-propagation: proved here by unfolding run_lazy / lexec_file / evaluate_phase
   and rewriting with its own hypotheses; only auxiliary fact: iterM over an append *)
Goal forall {rx} t fl cfg supplied budget (regexes : list rx) find call fuel matches g0 glob s p s1 p1 apre x apost s2 p2 e,
  check_globals (f_globals fl) (globals_nested supplied) = Ok glob ->
  iterM (fun pm : N * qmatch =>
           match nth_error (f_stanzas fl) (N.to_nat (fst pm)) with
           | Some st => lexec_stanza t fl cfg glob regexes find call fuel st (snd pm)
           | None => panic P_stanza_index
           end) matches (linit g0) (polls0 budget) = Ok (tt, s, p) ->
  iterM (eval_lstmt t fl call (fuel + default_eval_fuel)) (l_edges s) s p = Ok (tt, s1, p1) ->
  l_attrs s = apre ++ x :: apost ->
  iterM (eval_lstmt t fl call (fuel + default_eval_fuel)) apre s1 p1 = Ok (tt, s2, p2) ->
  eval_lstmt t fl call (fuel + default_eval_fuel) x s2 p2 = Err e ->
  run_lazy t fl cfg supplied budget regexes find call fuel matches g0 = Err e.
Proof.
  intros rx t fl cfg supplied budget regexes find call fuel matches g0 glob s p s1 p1 apre x apost s2 p2 e Hg Hx He Ha Hpre Hs.
  unfold run_lazy. rewrite Hg. unfold lexec_file. unfold bind at 1. rewrite Hx.
  unfold evaluate_phase. unfold bind at 1. unfold get_state at 1. unfold bind at 1. rewrite He. rewrite Ha.
  unfold bind at 1. rewrite iterM_app. unfold bind at 1. rewrite Hpre. cbn [iterM]. unfold bind at 1. rewrite Hs. reflexivity.
Qed.

(* (b) the two lazy theorems compose on the run of c09_file2 2 (value set by the previous deferred statement of the same run) *)
Definition A1 := LSAttrNode (LVar 0) [([107], LValue (VInt 1))] {| sc_stmt := (2, 2); sc_stanza := (0, 0); sc_node := 0 |}.
Definition D2 := {| sc_stmt := (3, 2); sc_stanza := (0, 0); sc_node := 0 |}.
Definition A2 := LSAttrNode (LVar 0) ([] ++ ([107], LValue (VInt 2)) :: []) D2.
Goal exists e, run_lazy c09_tree (c09_file2 2) config0 [[]] None (@nil unit) (fun _ _ => None) call0 50 [(0, [(0, [0])])] [] = Err e /\ root_cause e = EDuplicateAttribute.
Proof.
  assert (Hrun : exists s p, iterM (fun pm : N * qmatch =>
           match nth_error (f_stanzas (c09_file2 2)) (N.to_nat (fst pm)) with
           | Some st => lexec_stanza c09_tree (c09_file2 2) config0 [[]; []] (@nil unit) (fun _ _ => None) call0 50 st (snd pm)
           | None => panic P_stanza_index
           end) [(0, [(0, [0])])] (linit []) (polls0 None) = Ok (tt, s, p) /\ l_attrs s = [A1; A2] /\ l_edges s = [])
    by (eexists; eexists; split; [vm_compute; reflexivity|split; reflexivity]).
  destruct Hrun as (s & p & Hrun & Hat & Hed).
  assert (Hpre : exists s2 p2, iterM (eval_lstmt c09_tree (c09_file2 2) call0 (50 + default_eval_fuel)) [A1] s p = Ok (tt, s2, p2)).
  { assert (Hs := Hrun). vm_compute in Hs. injection Hs as Hs Hp. rewrite <- Hs, <- Hp. eexists. eexists. vm_compute. reflexivity. }
  destruct Hpre as (s2 & p2 & Hpre).
  assert (Hs2 := Hpre). assert (Hs := Hrun). vm_compute in Hs. injection Hs as Hs Hp. rewrite <- Hs, <- Hp in Hs2. vm_compute in Hs2. injection Hs2 as Hs2 Hp2.
  edestruct (lazy_attr_conflict_fails c09_tree (c09_file2 2) call0 (50 + default_eval_fuel) (LVar 0) [] [107] (LValue (VInt 2)) [] D2 s2 p2 0) with
      (v := VInt 2) (old := VInt 1) as [prev Hfail].
  1-5: try (rewrite <- ?Hs2, <- ?Hp2; vm_compute; reflexivity).
  1: discriminate.
  exists (dup_attr_error prev D2). split; [|reflexivity].
  eapply (lazy_run_failing_attr_statement_fails_run c09_tree (c09_file2 2) config0 [[]] None (@nil unit) (fun _ _ => None) call0 50 [(0, [(0, [0])])] [] [[]; []] s p s p [A1] A2 [] s2 p2).
  - vm_compute; reflexivity.
  - exact Hrun.
  - rewrite Hed. reflexivity.
  - exact Hat.
  - exact Hpre.
  - exact Hfail.
Qed.
