From TSG Require Import Model.Strict Model.Lazy Model.Stdlib Proofs.AttrConflict Proofs.StdlibHyps.
From TSG Require Import Props.C09.
From Coq Require Import List NArith. Import ListNotations. Open Scope N_scope.

Definition call0 := stdlib_call c09_oracle c09_tree.
Definition st2 : stanza := hd {| st_stmts := []; st_full_stanza_idx := 0; st_full_file_idx := 0; st_start := (0,0) |} (f_stanzas (c09_file2 2)).

(* (b) strict_run_attr_conflict_fails APPLIES to the run of c09_file2 2: the value was set by the previous statement of the same run *)
Goal exists e', run_strict c09_tree (c09_file2 2) config0 [[]] None (@nil unit) (fun _ _ => None) call0 50 [[[(0, [0])]]] [] = Err e' /\ root_cause e' = EDuplicateAttribute.
Proof.
  change 50%nat with (S (S 48)).
  eapply (strict_run_attr_conflict_fails c09_tree (c09_file2 2) config0 [[]] None (@nil unit) (fun _ _ => None) call0 48 [[[(0, [0])]]] [] _
            [] [] st2 [] [] [(0,[0])] [] [] _ _ _ _ 0 []
            [ SLet (VarU [120] (1, 6)) (ECall Lit.node []) (1, 2); SAttrNode (EUnscoped [120] (2, 8)) [Attr [107] (EInt 1)] (2, 2) ] []
            _ _ (EUnscoped [120] (3, 8)) [] [107] (EInt 2) [] (3,2) 0 _ _ _ _ (VInt 2) _ _ (VInt 1)).
  all: try (vm_compute; reflexivity).
  discriminate.
Qed.

