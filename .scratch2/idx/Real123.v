(* AUDIT2: FRESH recorded FAILING case /verif/.work/C04/run-C04 (P04 index 123, see P04.map): 6 stanzas, scoped variables, inherited name `scope`, a `for` loop with a scoped read on
   the loop variable; `let @again.k = 99` duplicates `let @def.k = (start-row @def)` on the same node: strict and lazy both fail with DuplicateVariable.
   strict_fail_lazy_fail_run_one_scoped_real_partial applies (inh_static with D = {node 1}). *)
From Coq Require Import Permutation List Bool NArith.
From TSG Require Import Model.Run Model.Stdlib Model.IdxBridge Proofs.BaseFacts Proofs.IdxStrict Proofs.IdxLazy Proofs.IdxBridge Proofs.IdxReal Proofs.SLExpr Proofs.StrictLazy
  Proofs.SL2Force Proofs.SL2Expr Proofs.SL2Stmt Proofs.SL2Whole Proofs.ScPermSim Proofs.ScPermSwap Proofs.ScPermExec Proofs.BlockPermRen Proofs.BlockPermGraph Proofs.BlockPermExec Proofs.SLAny Proofs.BlockPermStd
  Proofs.SLFailGraph Proofs.SLFailExpr Proofs.SLFailStmt Proofs.SLF2Expr Proofs.SLF2Store Proofs.SLF2File Proofs.IdxRealExample.
From TSG Require Props.C02.
Require Import P04sel.
Import ListNotations.
Open Scope N_scope.
Definition r := pc_123_run. Definition t := pc_123_tree.
Lemma idx_b : run_idx_agreeb r = true. Proof. vm_compute. reflexivity. Qed.
Lemma idx : idx_agree (ri_file r) (ri_smatches r) (ri_lmatches r). Proof. apply idx_agreeb_spec. exact idx_b. Qed.
Lemma old_perm_false : lmatches_of (ri_smatches r) <> lmatches_of (real_smatches r). Proof. vm_compute. discriminate. Qed.
Lemma file_ok_123 : file_ok2 std_okfn (fun _ => false) (normalize_file (ri_file r)) (f_stanzas (normalize_file (ri_file r))) (real_smatches r).
Proof.
  let f := eval vm_compute in (normalize_file (ri_file r)) in let m := eval vm_compute in (real_smatches r) in change (file_ok2 std_okfn (fun _ => false) f (f_stanzas f) m).
  cbn [file_ok2 f_stanzas]. repeat split; repeat constructor; unfold match_ok2; cbn; repeat split; try reflexivity; try discriminate; try (intros; discriminate); try okf; try constructor.
Qed.
Lemma blocks_ok_123 : Forall (pm_ok2 (normalize_file (ri_file r)) std_okfn) (ri_lmatches r).
Proof.
  let f := eval vm_compute in (normalize_file (ri_file r)) in let m := eval vm_compute in (ri_lmatches r) in change (Forall (pm_ok2 f std_okfn) m).
  repeat (apply Forall_cons; [intros st E; vm_compute in E; inversion E; subst st; (split; [|apply Forall_nil]);
    cbn [All st_stmts sstmt svar mexpr mattr fexpr is_capture snd fst f_shorthands find_shorthand]; slv2|]). apply Forall_nil.
Qed.
Lemma globals_123 : forall glob, check_globals (f_globals (ri_file r)) (globals_nested (ri_supplied r)) = Ok glob ->
  forall name v, globals_get glob name = Some v -> vall (fun i => i < N.of_nat (length (@nil gnode))) v.
Proof. intros glob E. vm_compute in E. inversion E; subst glob. intros name v H. discriminate. Qed.
Definition D (name : ident) (k : N) : Prop := k = 1.
Ltac inh := let H := fresh in intros H; first [ vm_compute in H; discriminate H
   | do 5 eexists; split; [reflexivity|]; let k := fresh in let Hk := fresh in intros k Hk; vm_compute in Hk; unfold D; repeat destruct Hk as [Hk|Hk]; try (symmetry; exact Hk); try contradiction ].
Lemma static_123 : inh_static t (normalize_file (ri_file r)) (real_smatches r).
Proof.
  exists D. split.
  - let f := eval vm_compute in (normalize_file (ri_file r)) in let m := eval vm_compute in (real_smatches r) in change (file_sdef f D (f_stanzas f) m).
    cbn [file_sdef f_stanzas]. repeat split; repeat constructor; cbn [All st_stmts sdef inh_scope_ok fst snd]; repeat split; try exact I; try inh.
  - intros name n a _ Hn Ha Hin. unfold D in *. subst. vm_compute in Hin. repeat destruct Hin as [Hin|Hin]; try discriminate; try contradiction.
Qed.
Lemma strict_err : exists e, run_one t config0 None (with_lazy r false) [] = Err e /\ root_cause e = EDuplicateVariable /\ order_independent_error2 e.
Proof. eexists. split; [vm_compute; reflexivity|]. split; [reflexivity|]. vm_compute. repeat split; intro; discriminate. Qed.
Theorem applies_123 : match run_one t config0 None (with_lazy r true) [] with Ok _ => False | Err _ | Panic _ | OutOfFuel => True end.
Proof.
  destruct strict_err as (e & E & _ & He).
  exact (C02.strict_fail_lazy_fail_run_one_scoped_real_partial t r std_okfn [] (std_okfn_ok _ _) nil_closed globals_123 idx (fun _ => false) e
           (stdlib_call_graph_ext _ _) file_ok_123 static_123 blocks_ok_123 E He).
Qed.
Print Assumptions applies_123.
