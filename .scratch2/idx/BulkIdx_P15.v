From Coq Require Import List Bool NArith.
From TSG Require Import Model.Run Model.Stdlib Model.IdxBridge.
Require Import Mirror P15.
Import ListNotations.
Open Scope N_scope.
Definition nf (c : N * tree * run_in) := normalize_file (ri_file (snd c)).
Definition multi (c : N * tree * run_in) := Nat.ltb 1 (length (f_stanzas (ri_file (snd c)))).
Definition cnt (p : N * tree * run_in -> bool) := length (filter p all_cases).
(* total, multi-stanza, idx_agreeb, v1 file_ok (match-independent part), pm_ok *)
Eval vm_compute in (length all_cases, cnt multi, cnt (fun c => run_idx_agreeb (snd c)), cnt (fun c => multi c && b_file_ok (nf c)), cnt (fun c => multi c && b_pm_ok (nf c)), cnt (fun c => multi c && b_pm_ok2 (nf c))).
