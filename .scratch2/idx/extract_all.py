#!/usr/bin/env python3
"""extract_all.py <glob> <module> <max>: (file:case id, tree, run_in) of every case of the form `<x>_verdict (tree) (run_in)..` whose run_in has
ri_smatches AND ri_lmatches (both_verdict, c20_verdict, c11_verdict, c15_verdict ...) -> <module>.v with all_cases : list (N * tree * run_in);
prints the mapping index -> file/case to <module>.map"""
import re,sys,glob
out=["From TSG Require Import Model.Run.","Open Scope N_scope."]
names=[];k=0;seen=set();mp=[]
for f in sorted(glob.glob(sys.argv[1])):
    s=open(f).read()
    for m in re.finditer(r'Definition (case_\d+) : N := \w+_verdict \((\{\| t_src.*?\|\})\) \((\{\| ri_lazy.*?ri_lmatches := .*?\] \|\})\)', s, re.S):
        key=re.sub(r'ri_lazy := \w+','',m.group(3))
        if key in seen: continue
        seen.add(key)
        n=str(k);k+=1
        out.append("Definition pc_%s_tree : tree := %s."%(n,m.group(2)))
        out.append("Definition pc_%s_run : run_in := %s."%(n,m.group(3)))
        names.append(n); mp.append("%s %s %s"%(n,f,m.group(1)))
        if k>=int(sys.argv[3]): break
    if k>=int(sys.argv[3]): break
out.append("Definition all_cases : list (N * tree * run_in) := [%s]." % "; ".join("(%s, pc_%s_tree, pc_%s_run)"%(n,n,n) for n in names))
open(sys.argv[2]+'.v','w').write("\n".join(out)+"\n")
open(sys.argv[2]+'.map','w').write("\n".join(mp)+"\n")
print(len(names))
