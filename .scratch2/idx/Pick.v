From Coq Require Import List Bool NArith.
From TSG Require Import Model.Run Model.Stdlib Model.IdxBridge.
Require Import Mirror P04.
Import ListNotations.
Open Scope N_scope.
Definition pick (r : run_in) := let f := normalize_file (ri_file r) in find (fun S => b_file_ok2 (mem S) f) (subsets (f_binders f)).
Eval vm_compute in (pick pc_34_run, pick pc_123_run, pick pc_142_run, pick pc_161_run, pick pc_118_run).
Eval vm_compute in (f_inherited (ri_file pc_34_run), map (fun st => length (st_stmts st)) (f_stanzas (ri_file pc_34_run)), map (@length _) (ri_smatches pc_34_run), map fst (ri_lmatches pc_34_run)).
Eval vm_compute in (f_inherited (ri_file pc_123_run), map (fun st => length (st_stmts st)) (f_stanzas (ri_file pc_123_run)), map (@length _) (ri_smatches pc_123_run), map fst (ri_lmatches pc_123_run)).
Eval vm_compute in (f_stanzas (ri_file pc_123_run)).
