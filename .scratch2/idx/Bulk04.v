From Coq Require Import List Bool NArith.
From TSG Require Import Model.Run Model.Stdlib Model.IdxBridge.
Require Import Mirror P04.
Import ListNotations.
Open Scope N_scope.
Definition nf (c : N * tree * run_in) := normalize_file (ri_file (snd c)).
Definition multi (c : N * tree * run_in) := Nat.ltb 1 (length (f_stanzas (ri_file (snd c)))).
Definition small (c : N * tree * run_in) := Nat.leb (length (f_binders (nf c))) 10.
Definition cnt (p : N * tree * run_in -> bool) := length (filter p all_cases).
Definition sres (c : N * tree * run_in) : N := match run_one (snd (fst c)) config0 None (with_lazy (snd c) false) [] with Ok _ => 0 | Err _ => 1 | Panic _ => 2 | OutOfFuel => 3 end.
Definition lres (c : N * tree * run_in) : N := match run_one (snd (fst c)) config0 None (with_lazy (snd c) true) [] with Ok _ => 0 | Err _ => 1 | Panic _ => 2 | OutOfFuel => 3 end.
(* total, multi-stanza, idx_agreeb, idx_agreeb on multi *)
Eval vm_compute in (length all_cases, cnt multi, cnt (fun c => run_idx_agreeb (snd c)), cnt (fun c => multi c && run_idx_agreeb (snd c))).
(* old hypothesis: stanza-indexed list = regrouped list *)
Eval vm_compute in (cnt (fun c => multi c && has_scoped (nf c))).
(* fragments (match independent part, normalized file), among multi-stanza files: v1, v2 (some purev; files with <= 10 binders), pm_ok2, pm_ok3 *)
Eval vm_compute in (cnt (fun c => multi c && b_file_ok (nf c)), cnt (fun c => multi c && small c), cnt (fun c => multi c && small c && ex_file_ok2 (nf c)),
                    cnt (fun c => multi c && b_pm_ok2 (nf c)), cnt (fun c => multi c && small c && ex_pm_ok3 (nf c)),
                    cnt (fun c => multi c && small c && ex_file_ok2 (nf c) && b_pm_ok2 (nf c))).
(* candidates: multi, scoped, in v2 and pm_ok2, with strict/lazy result *)
Eval vm_compute in (map (fun c => (fst (fst c), length (f_stanzas (ri_file (snd c))), sres c, lres c, length (f_inherited (ri_file (snd c)))))
   (filter (fun c => multi c && has_scoped (nf c) && small c && ex_file_ok2 (nf c) && b_pm_ok2 (nf c)) all_cases)).
(* failing strict, multi, scoped, in pm_ok2 or v2 *)
Eval vm_compute in (map (fun c => (fst (fst c), length (f_stanzas (ri_file (snd c))), sres c, lres c, ex_file_ok2 (nf c), b_pm_ok2 (nf c), ex_pm_ok3 (nf c)))
   (filter (fun c => multi c && has_scoped (nf c) && small c && negb (N.eqb (sres c) 0)) all_cases)).
